/-
Model of `pkg/filesystem/virtual/in_memory_prepopulated_directory.go` (C13).

The Go code keeps, per directory, a mutex, a lazily materialised
`inMemoryDirectoryContents` (`entriesMap` by normalised name plus the circular
`entriesList` in attach order), a `changeID` that is bumped by every
`attach`/`detach` (`touch`), the `cookie` of an entry (= `changeID` at attach
time) and the `isDeleted` tombstone.  The model is a store of directories
indexed by `DirId` (allocation order); every public method of the Go type is one
atomic step (the methods hold the directory locks for the whole section that
touches the contents; the recursive bulk removals drop the lock between
directories, which is invisible to a single caller).

Correspondence of definitions (Go -> Lean):
* `inMemoryDirectoryEntry`                    -> `Entry`
* `inMemoryPrepopulatedDirectory` + contents   -> `Dir` (`lazy = some t` <-> `initialContentsFetcher != nil`)
* `attach` / `detach` / `touch`                -> `Dir.attach` / `Dir.detach`
* `mayAttach` / `virtualMayAttach`             -> `Dir.mayAttach`
* `isDeletable`                                -> `isDeletable`
* `getContents` + `createChildren`             -> `materialize` + `attachInitial`
* `markDeleted`, detach-all of `removeAllChildren` -> `clearDir`
* `removeAllChildren` / `postRemoveChildren`   -> `removeTree` (work list instead of recursion)
* `getEntryAtCookie` + loop of `VirtualReadDir`-> `readPage`
* `VirtualRename` ...                          -> `vrename` ... (one function per method)
* `LinkableLeaf.Link()/Unlink()`, leaf creation-> `Store.link/unlink/own`, ghost field `Leaf.links`

Ghost link count: `Leaf.links` is changed exactly where the Go code calls
`Link()` (+1), `Unlink()` (-1), creates a leaf (`NewFile`, `LookupSymlink`,
`AsLinkableLeaf`: starts at 1) or takes over the reference carried by an
`InitialChild` (`CreateChildren` / lazy materialisation: +1 at attach, the
harness hands every such leaf over exactly once).

Panics: `attach` panics when `mayAttach` fails (two children of one
`CreateChildren`/fetcher colliding after normalisation).  The model returns
status `panic` and leaves the store as it was before the call; the real
directory is unusable afterwards (its lock stays held), the harness ends the
history there.

Names are interned naturals; `normalize` and `hidden` are parameters.  `hidden` is
always applied to the ORIGINAL name of an entry (`e.name`, as `isDeletable`,
`VirtualReadDir`, `ReadDir`, `LookupAllChildren` do with `entry.name.String()`),
never to its normalised form `e.norm`: under a case-folding normaliser a pattern
that needs upper-case characters hides `._H` but not `._h`.
-/
namespace BbRe.Dir

-- identifiers are plain naturals (notations, so that `omega` sees `Nat`)
local notation "Name" => Nat
local notation "DirId" => Nat
local notation "LeafId" => Nat
local notation "TmplId" => Nat

inductive Child
  | dir (d : DirId)
  | leaf (l : LeafId)
deriving DecidableEq, Repr, Inhabited

/-- Child of an `InitialContentsFetcher` result: a leaf or a nested fetcher (template id). -/
inductive TChild
  | leaf (l : LeafId)
  | dir (t : TmplId)
deriving DecidableEq, Repr, Inhabited

structure Entry where
  name   : Name
  norm   : Name
  cookie : Nat
  child  : Child
deriving DecidableEq, Repr, Inhabited

structure Dir where
  lazy     : Option TmplId := none
  entries  : List Entry := []
  changeID : Nat := 0
  deleted  : Bool := false
  fs       : Nat := 0
deriving DecidableEq, Repr, Inhabited

/-- kind: 0 regular file, 1 FIFO, 2 socket, 3 symlink. -/
structure Leaf where
  kind  : Nat := 0
  links : Nat := 0
deriving DecidableEq, Repr, Inhabited

structure Store where
  dirs      : List Dir := []
  leaves    : List Leaf := []
  tmpls     : List (List (Name × TChild)) := [[]]
  fetchFail : Bool := false
  allocFail : Bool := false
deriving Repr, Inhabited

structure Params where
  normalize : Name → Name
  hidden    : Name → Bool

inductive Status
  | ok | exist | io | isdir | noent | notdir | notempty | perm | stale | xdev | symlink | panic | bad
deriving DecidableEq, Repr, Inhabited

structure Report where
  cookie : Nat
  name   : Name
  child  : Child
deriving DecidableEq, Repr, Inhabited

structure Out where
  status  : Status
  child   : Option Child := none
  ci      : List (Nat × Nat) := []
  reports : List Report := []
  aux     : Option Nat := none
deriving DecidableEq, Repr, Inhabited

def Out.fail (st : Status) : Out := { status := st }

/-! ### Store access -/

def Store.dir (s : Store) (d : DirId) : Dir := s.dirs[d]?.getD default
def Store.leaf (s : Store) (l : LeafId) : Leaf := s.leaves[l]?.getD default
def Store.tmpl (s : Store) (t : TmplId) : List (Name × TChild) := s.tmpls[t]?.getD []

def Store.setDir (s : Store) (d : DirId) (x : Dir) : Store := { s with dirs := s.dirs.set d x }
def Store.modDir (s : Store) (d : DirId) (f : Dir → Dir) : Store := s.setDir d (f (s.dir d))
def Store.pushDir (s : Store) (x : Dir) : Store := { s with dirs := s.dirs ++ [x] }
def Store.setLeaf (s : Store) (l : LeafId) (x : Leaf) : Store := { s with leaves := s.leaves.set l x }
def Store.pushLeaf (s : Store) (x : Leaf) : Store := { s with leaves := s.leaves ++ [x] }

/-- `Link()` has succeeded / an `InitialChild` reference is taken over. -/
def Store.link (s : Store) (l : LeafId) : Store :=
  s.setLeaf l { s.leaf l with links := (s.leaf l).links + 1 }
/-- `Unlink()`. -/
def Store.unlink (s : Store) (l : LeafId) : Store :=
  s.setLeaf l { s.leaf l with links := (s.leaf l).links - 1 }

def Child.isDir : Child → Bool
  | .dir _ => true
  | .leaf _ => false

/-! ### Directory contents -/

def Dir.find? (x : Dir) (n : Name) : Option Entry := x.entries.find? (fun e => e.norm == n)

/-- `attach`: append an entry with cookie = current changeID, then `touch`. -/
def Dir.attach (x : Dir) (name norm : Name) (c : Child) : Dir :=
  { x with entries := x.entries ++ [⟨name, norm, x.changeID, c⟩], changeID := x.changeID + 1 }

/-- `detach` of the entry stored under normalised name `n`, then `touch`. -/
def Dir.detach (x : Dir) (n : Name) : Dir :=
  { x with entries := x.entries.filter (fun e => e.norm != n), changeID := x.changeID + 1 }

/-- `mayAttach` / `virtualMayAttach`. -/
def Dir.mayAttach (x : Dir) (n : Name) : Option Status :=
  if x.deleted then some .noent
  else if (x.find? n).isSome then some .exist
  else none

/-- `isDeletable`: only hidden leaves are left. -/
def isDeletable (P : Params) (x : Dir) : Bool :=
  x.entries.all (fun e => !e.child.isDir && P.hidden e.name)

def visible (P : Params) (e : Entry) : Bool := e.child.isDir || !P.hidden e.name

/-- Unlink the leaves among a list of (detached) entries. -/
def unlinkLeaves (s : Store) : List Entry → Store
  | [] => s
  | e :: rest =>
    match e.child with
    | .leaf l => unlinkLeaves (s.unlink l) rest
    | .dir _ => unlinkLeaves s rest

def dirChildren : List Entry → List DirId
  | [] => []
  | e :: rest =>
    match e.child with
    | .dir d => d :: dirChildren rest
    | .leaf _ => dirChildren rest

/-- Detach every entry of `d` (one `touch` each), `Unlink()` the leaves among
them, forget a pending fetcher, optionally set the tombstone.  This is
`markDeleted` (when only hidden leaves are left) and the detach loop of
`removeAllChildren` (the child directories are handled by `removeTree`). -/
def clearDir (s : Store) (d : DirId) (del : Bool) : Store :=
  let x := s.dir d
  (unlinkLeaves s x.entries).setDir d
    { x with lazy := none, entries := [], changeID := x.changeID + x.entries.length,
             deleted := x.deleted || del }

/-- `removeAllChildren(true)` on every directory of the work list, recursively. -/
def removeTree : Nat → Store → List DirId → Store
  | 0, s, _ => s
  | _, s, [] => s
  | fuel + 1, s, d :: stack =>
    removeTree fuel (clearDir s d true) (dirChildren (s.dir d).entries ++ stack)

def totalEntries (s : Store) : Nat := (s.dirs.map (fun x => x.entries.length)).sum

/-- Enough fuel for `removeTree` (every step clears one directory; a directory is
pushed only when an entry referring to it is cleared). -/
def removeFuel (s : Store) (stack : List DirId) : Nat := totalEntries s + stack.length + 1

/-- `postRemoveChildren` of a list of detached entries. -/
def postRemove (s : Store) (es : List Entry) : Store :=
  let s1 := unlinkLeaves s es
  removeTree (removeFuel s1 (dirChildren es)) s1 (dirChildren es)

/-! ### Lazy materialisation (`getContents`) -/

def insertByName (c : Name × TChild) : List (Name × TChild) → List (Name × TChild)
  | [] => [c]
  | x :: rest => if c.1 ≤ x.1 then c :: x :: rest else x :: insertByName c rest

/-- `initialContentsSorter` = `sort.Sort` (the harness interns names in string order). -/
def sortChildren : List (Name × TChild) → List (Name × TChild)
  | [] => []
  | c :: rest => insertByName c (sortChildren rest)

/-- `createChildren`: attach the children in the given order; `none` = `attach` panicked. -/
def attachInitial (P : Params) (d : DirId) : List (Name × TChild) → Store → Option Store
  | [], s => some s
  | (name, tc) :: rest, s =>
    let nn := P.normalize name
    let x := s.dir d
    if (x.mayAttach nn).isSome then none
    else
      match tc with
      | .leaf l =>
        attachInitial P d rest ((s.modDir d (fun x => x.attach name nn (.leaf l))).link l)
      | .dir t =>
        attachInitial P d rest
          ((s.pushDir { lazy := some t, fs := x.fs }).modDir d
            (fun x => x.attach name nn (.dir s.dirs.length)))

def materialize (P : Params) (s : Store) (d : DirId) : Except Status Store :=
  match (s.dir d).lazy with
  | none => .ok s
  | some t =>
    if t != 0 && s.fetchFail then .error .io
    else
      match attachInitial P d (sortChildren (s.tmpl t)) (s.modDir d (fun x => { x with lazy := none })) with
      | some s' => .ok s'
      | none => .error .panic

/-! ### Kernel-facing calls -/

def newDirOf (x : Dir) : Dir := { lazy := some 0, fs := x.fs }

def vmkdir (P : Params) (s : Store) (d : DirId) (name : Name) : Store × Out :=
  match materialize P s d with
  | .error e => (s, .fail e)
  | .ok s1 =>
    let nn := P.normalize name
    match (s1.dir d).mayAttach nn with
    | some e => (s1, .fail e)
    | none =>
      let nd := s1.dirs.length
      let before := (s1.dir d).changeID
      let s2 := (s1.pushDir (newDirOf (s1.dir d))).modDir d (fun x => x.attach name nn (.dir nd))
      (s2, { status := .ok, child := some (.dir nd), ci := [(before, (s2.dir d).changeID)] })

def vmknod (P : Params) (s : Store) (d : DirId) (name : Name) (kind : Nat) : Store × Out :=
  match materialize P s d with
  | .error e => (s, .fail e)
  | .ok s1 =>
    let nn := P.normalize name
    match (s1.dir d).mayAttach nn with
    | some e => (s1, .fail e)
    | none =>
      if kind = 1 ∨ kind = 2 ∨ kind = 3 then
        if kind = 3 ∧ s1.allocFail = true then (s1, .fail .io)
        else
          let l := s1.leaves.length
          let before := (s1.dir d).changeID
          let s2 := (s1.pushLeaf { kind := kind, links := 1 }).modDir d (fun x => x.attach name nn (.leaf l))
          (s2, { status := .ok, child := some (.leaf l), ci := [(before, (s2.dir d).changeID)] })
      else (s1, .fail .perm)

/-- `VirtualOpenSelf` of the leaf kinds used: regular files open, everything else is `StatusErrSymlink`. -/
def openSelfStatus (kind : Nat) : Status := if kind = 0 then .ok else .symlink

def vopen (P : Params) (s : Store) (d : DirId) (name : Name) (create existing : Bool) : Store × Out :=
  match materialize P s d with
  | .error e => (s, .fail e)
  | .ok s1 =>
    let nn := P.normalize name
    let x := s1.dir d
    match x.find? nn with
    | some e =>
      if !existing then (s1, .fail .exist)
      else
        match e.child with
        | .dir _ => (s1, .fail .isdir)
        | .leaf l =>
          (s1, { status := openSelfStatus (s1.leaf l).kind, child := some (.leaf l),
                 ci := [(x.changeID, x.changeID)] })
    | none =>
      if x.deleted || !create then (s1, .fail .noent)
      else if s1.allocFail then (s1, .fail .io)
      else
        let l := s1.leaves.length
        let s2 := (s1.pushLeaf { kind := 0, links := 1 }).modDir d (fun x => x.attach name nn (.leaf l))
        (s2, { status := .ok, child := some (.leaf l), ci := [(x.changeID, (s2.dir d).changeID)] })

def vlink (P : Params) (s : Store) (d : DirId) (name : Name) (l : LeafId) : Store × Out :=
  match materialize P s d with
  | .error e => (s, .fail e)
  | .ok s1 =>
    let nn := P.normalize name
    match (s1.dir d).mayAttach nn with
    | some e => (s1, .fail e)
    | none =>
      if (s1.leaf l).links = 0 then (s1, .fail .stale)
      else
        let before := (s1.dir d).changeID
        let s2 := (s1.link l).modDir d (fun x => x.attach name nn (.leaf l))
        (s2, { status := .ok, ci := [(before, (s2.dir d).changeID)] })

/-- Attribute shown for a child: link count of a leaf, change ID of a directory
(read without materialising it). -/
def childAux (s : Store) : Child → Nat
  | .leaf l => (s.leaf l).links
  | .dir c => (s.dir c).changeID

def vlookup (P : Params) (s : Store) (d : DirId) (name : Name) : Store × Out :=
  match materialize P s d with
  | .error e => (s, .fail e)
  | .ok s1 =>
    match (s1.dir d).find? (P.normalize name) with
    | some e => (s1, { status := .ok, child := some e.child, aux := some (childAux s1 e.child) })
    | none => (s1, .fail .noent)

/-- One page of `VirtualReadDir`: seek to the first entry with cookie ≥ `c`
(`getEntryAtCookie`), skip hidden leaves, stop when the reporter is full. -/
def readPage (P : Params) (x : Dir) (c k : Nat) : List Report :=
  (((x.entries.dropWhile (fun e => e.cookie < c)).filter (visible P)).take k).map
    (fun e => ⟨e.cookie + 1, e.name, e.child⟩)

def vreaddir (P : Params) (s : Store) (d : DirId) (c k : Nat) : Store × Out :=
  match materialize P s d with
  | .error e => (s, .fail e)
  | .ok s1 => (s1, { status := .ok, reports := readPage P (s1.dir d) c k })

def vremove (P : Params) (s : Store) (d : DirId) (name : Name) (rmDir rmLeaf : Bool) : Store × Out :=
  match materialize P s d with
  | .error e => (s, .fail e)
  | .ok s1 =>
    let nn := P.normalize name
    match (s1.dir d).find? nn with
    | none => (s1, .fail .noent)
    | some e =>
      match e.child with
      | .dir c =>
        if !rmDir then (s1, .fail .perm)
        else
          match materialize P s1 c with
          | .error err => (s1, .fail err)
          | .ok s2 =>
            if !isDeletable P (s2.dir c) then (s2, .fail .notempty)
            else
              let s3 := clearDir s2 c true
              let before := (s3.dir d).changeID
              let s4 := s3.modDir d (fun x => x.detach nn)
              (s4, { status := .ok, ci := [(before, (s4.dir d).changeID)] })
      | .leaf l =>
        if !rmLeaf then (s1, .fail .notdir)
        else
          let s3 := s1.unlink l
          let before := (s3.dir d).changeID
          let s4 := s3.modDir d (fun x => x.detach nn)
          (s4, { status := .ok, ci := [(before, (s4.dir d).changeID)] })

def renameOut (s : Store) (dOld dNew : DirId) (ob nb : Nat) : Out :=
  { status := .ok, ci := [(ob, (s.dir dOld).changeID), (nb, (s.dir dNew).changeID)] }

def vrename (P : Params) (s : Store) (dOld : DirId) (oldName : Name) (dNew : DirId) (newName : Name) :
    Store × Out :=
  match materialize P s dOld with
  | .error e => (s, .fail e)
  | .ok s1 =>
    match materialize P s1 dNew with
    | .error e => (s1, .fail e)
    | .ok s2 =>
      let ob := (s2.dir dOld).changeID
      let nb := (s2.dir dNew).changeID
      let nOld := P.normalize oldName
      let nNew := P.normalize newName
      match (s2.dir dNew).find? nNew with
      | some newE =>
        match (s2.dir dOld).find? nOld with
        | none => (s2, .fail .noent)
        | some oldE =>
          match newE.child with
          | .dir nd =>
            match oldE.child with
            | .leaf _ => (s2, .fail .isdir)
            | .dir od =>
              if nd = od then (s2, renameOut s2 dOld dNew ob nb)
              else if (s2.dir dOld).fs ≠ (s2.dir dNew).fs then (s2, .fail .xdev)
              else
                match materialize P s2 nd with
                | .error e => (s2, .fail e)
                | .ok s3 =>
                  if !isDeletable P (s3.dir nd) then (s3, .fail .notempty)
                  else
                    let s4 := s3.modDir dOld (fun x => x.detach nOld)
                    let s5 := s4.modDir dNew (fun x => x.detach nNew)
                    let s6 := clearDir s5 nd true
                    let s7 := s6.modDir dNew (fun x => x.attach newName nNew oldE.child)
                    (s7, renameOut s7 dOld dNew ob nb)
          | .leaf nl =>
            match oldE.child with
            | .dir _ => (s2, .fail .notdir)
            | .leaf ol =>
              if nl = ol then (s2, renameOut s2 dOld dNew ob nb)
              else
                let s4 := s2.modDir dOld (fun x => x.detach nOld)
                let s5 := s4.modDir dNew (fun x => x.detach nNew)
                let s6 := s5.unlink nl
                let s7 := s6.modDir dNew (fun x => x.attach newName nNew oldE.child)
                (s7, renameOut s7 dOld dNew ob nb)
      | none =>
        if (s2.dir dNew).deleted then (s2, .fail .noent)
        else
          match (s2.dir dOld).find? nOld with
          | none => (s2, .fail .noent)
          | some oldE =>
            if oldE.child.isDir = true ∧ (s2.dir dOld).fs ≠ (s2.dir dNew).fs then (s2, .fail .xdev)
            else
              let s4 := s2.modDir dOld (fun x => x.detach nOld)
              let s7 := s4.modDir dNew (fun x => x.attach newName nNew oldE.child)
              (s7, renameOut s7 dOld dNew ob nb)

/-- `VirtualGetAttributes(AttributesMaskChangeID)` on a directory: no materialisation. -/
def vgetattr (s : Store) (d : DirId) : Store × Out :=
  (s, { status := .ok, aux := some (s.dir d).changeID })

/-! ### Worker-facing bulk calls -/

def lookupChild (P : Params) (s : Store) (d : DirId) (name : Name) : Store × Out :=
  match materialize P s d with
  | .error e => (s, .fail e)
  | .ok s1 =>
    match (s1.dir d).find? (P.normalize name) with
    | some e => (s1, { status := .ok, child := some e.child })
    | none => (s1, .fail .noent)

def insertReport (r : Report) : List Report → List Report
  | [] => [r]
  | x :: rest => if r.name ≤ x.name then r :: x :: rest else x :: insertReport r rest

def sortReports : List Report → List Report
  | [] => []
  | r :: rest => insertReport r (sortReports rest)

def entryReport (e : Entry) : Report := ⟨0, e.name, e.child⟩

/-- `LookupAllChildren`: directories sorted by name, then non-hidden leaves sorted by name. -/
def lookupAll (P : Params) (s : Store) (d : DirId) : Store × Out :=
  match materialize P s d with
  | .error e => (s, .fail e)
  | .ok s1 =>
    let es := (s1.dir d).entries
    let ds := sortReports ((es.filter (fun e => e.child.isDir)).map entryReport)
    let ls := sortReports ((es.filter (fun e => !e.child.isDir && !P.hidden e.name)).map entryReport)
    (s1, { status := .ok, reports := ds ++ ls })

/-- `ReadDir`: all visible entries sorted by name. -/
def readDirB (P : Params) (s : Store) (d : DirId) : Store × Out :=
  match materialize P s d with
  | .error e => (s, .fail e)
  | .ok s1 =>
    (s1, { status := .ok, reports := sortReports (((s1.dir d).entries.filter (visible P)).map entryReport) })

def remove (P : Params) (s : Store) (d : DirId) (name : Name) : Store × Out :=
  let r := vremove P s d name true true
  (r.1, .fail r.2.status)

def removeAll (P : Params) (s : Store) (d : DirId) (name : Name) : Store × Out :=
  match materialize P s d with
  | .error e => (s, .fail e)
  | .ok s1 =>
    let nn := P.normalize name
    match (s1.dir d).find? nn with
    | none => (s1, .fail .noent)
    | some e => (postRemove (s1.modDir d (fun x => x.detach nn)) [e], .fail .ok)

def removeAllChildren (s : Store) (d : DirId) (deleteSelf : Bool) : Store × Out :=
  let kids := dirChildren (s.dir d).entries
  let s1 := clearDir s d deleteSelf
  (removeTree (removeFuel s1 kids) s1 kids, .fail .ok)

def createChildren (P : Params) (s : Store) (d : DirId) (overwrite : Bool)
    (children : List (Name × TChild)) : Store × Out :=
  match materialize P s d with
  | .error e => (s, .fail e)
  | .ok s1 =>
    let x := s1.dir d
    if x.deleted then (s1, .fail .noent)
    else
      let norms := children.map (fun c => P.normalize c.1)
      if overwrite then
        let victims := x.entries.filter (fun e => norms.contains e.norm)
        let s2 := s1.setDir d
          { x with entries := x.entries.filter (fun e => !norms.contains e.norm),
                   changeID := x.changeID + victims.length }
        match attachInitial P d (sortChildren children) s2 with
        | none => (s, .fail .panic)
        | some s3 => (postRemove s3 victims, .fail .ok)
      else if x.entries.any (fun e => norms.contains e.norm) then (s1, .fail .exist)
      else
        match attachInitial P d (sortChildren children) s1 with
        | none => (s, .fail .panic)
        | some s3 => (s3, .fail .ok)

def createAndEnter (P : Params) (s : Store) (d : DirId) (name : Name) : Store × Out :=
  match materialize P s d with
  | .error e => (s, .fail e)
  | .ok s1 =>
    let nn := P.normalize name
    let x := s1.dir d
    match x.find? nn with
    | some e =>
      match e.child with
      | .dir c => (s1, { status := .ok, child := some (.dir c) })
      | .leaf l =>
        let nd := s1.dirs.length
        let s2 := ((s1.modDir d (fun x => x.detach nn)).unlink l).pushDir (newDirOf x)
        (s2.modDir d (fun x => x.attach name nn (.dir nd)), { status := .ok, child := some (.dir nd) })
    | none =>
      if x.deleted then (s1, .fail .noent)
      else
        let nd := s1.dirs.length
        ((s1.pushDir (newDirOf x)).modDir d (fun x => x.attach name nn (.dir nd)),
          { status := .ok, child := some (.dir nd) })

/-- Traversal of `filterChildrenRecursive` when the callback always continues:
per directory first all leaves (hidden ones too) in list order, then the child
directories in list order; an uninitialised directory is reported as such and
not entered.  Report: `cookie` = directory the callback belongs to. -/
def filterWalk : Nat → Store → List DirId → List Report
  | 0, _, _ => []
  | _, _, [] => []
  | fuel + 1, s, d :: rest =>
    let x := s.dir d
    match x.lazy with
    | some _ => ⟨d, 0, .dir d⟩ :: filterWalk fuel s rest
    | none =>
      ((x.entries.filter (fun e => !e.child.isDir)).map (fun e => ⟨d, e.name, e.child⟩))
        ++ filterWalk fuel s (dirChildren x.entries ++ rest)

/-- `FilterChildren` with a callback that says "stop" at its `limit`-th invocation
(so `limit` callbacks are made); the removers are separate `remove` /
`removeAllChildren false` operations. -/
def filterChildren (s : Store) (d : DirId) (limit : Nat) : Store × Out :=
  (s, { status := .ok, reports := (filterWalk (s.dirs.length + totalEntries s + 1) s [d]).take limit })

/-! ### Operations -/

inductive Op
  | mkdir (d : DirId) (name : Name)
  | mknod (d : DirId) (name : Name) (kind : Nat)
  | openc (d : DirId) (name : Name) (create existing : Bool)
  | link (d : DirId) (name : Name) (l : LeafId)
  | lookup (d : DirId) (name : Name)
  | readdir (d : DirId) (cookie k : Nat)
  | rename (dOld : DirId) (oldName : Name) (dNew : DirId) (newName : Name)
  | vremove (d : DirId) (name : Name) (rmDir rmLeaf : Bool)
  | getattr (d : DirId)
  | lookupChild (d : DirId) (name : Name)
  | lookupAll (d : DirId)
  | readDirB (d : DirId)
  | remove (d : DirId) (name : Name)
  | removeAll (d : DirId) (name : Name)
  | removeAllChildren (d : DirId) (deleteSelf : Bool)
  | createChildren (d : DirId) (overwrite : Bool) (children : List (Name × TChild))
  | createAndEnter (d : DirId) (name : Name)
  | filter (d : DirId) (limit : Nat)
  | installHooks (d : DirId)
  | newRoot (fs : Nat)
  | newLeaf (kind : Nat)
  | defTmpl (children : List (Name × TChild))
  | setFetchFail (b : Bool)
  | setAllocFail (b : Bool)
deriving Repr, Inhabited

def tchildOK (s : Store) : Name × TChild → Bool
  | (_, .leaf l) => l < s.leaves.length
  | (_, .dir t) => t < s.tmpls.length

/-- Identifiers refer to existing objects (the driver answers `bad-op` otherwise). -/
def validOp (s : Store) : Op → Bool
  | .mkdir d _ | .mknod d _ _ | .openc d _ _ _ | .lookup d _ | .readdir d _ _ | .vremove d _ _ _
  | .getattr d | .lookupChild d _ | .lookupAll d | .readDirB d | .remove d _ | .removeAll d _
  | .removeAllChildren d _ | .createAndEnter d _ | .filter d _ | .installHooks d => d < s.dirs.length
  | .link d _ l => d < s.dirs.length && l < s.leaves.length
  | .rename d1 _ d2 _ => d1 < s.dirs.length && d2 < s.dirs.length
  | .createChildren d _ cs => d < s.dirs.length && cs.all (tchildOK s)
  | .defTmpl cs => cs.all (tchildOK s)
  | .newRoot _ | .newLeaf _ | .setFetchFail _ | .setAllocFail _ => true

def exec (P : Params) (s : Store) : Op → Store × Out
  | .mkdir d n => vmkdir P s d n
  | .mknod d n k => vmknod P s d n k
  | .openc d n c e => vopen P s d n c e
  | .link d n l => vlink P s d n l
  | .lookup d n => vlookup P s d n
  | .readdir d c k => vreaddir P s d c k
  | .rename d1 n1 d2 n2 => vrename P s d1 n1 d2 n2
  | .vremove d n a b => vremove P s d n a b
  | .getattr d => vgetattr s d
  | .lookupChild d n => lookupChild P s d n
  | .lookupAll d => lookupAll P s d
  | .readDirB d => readDirB P s d
  | .remove d n => remove P s d n
  | .removeAll d n => removeAll P s d n
  | .removeAllChildren d b => removeAllChildren s d b
  | .createChildren d ow cs => createChildren P s d ow cs
  | .createAndEnter d n => createAndEnter P s d n
  | .filter d k => filterChildren s d k
  | .installHooks _ => (s, .fail .ok)
  | .newRoot fs => (s.pushDir { lazy := some 0, fs := fs }, { status := .ok, child := some (.dir s.dirs.length) })
  | .newLeaf k => (s.pushLeaf { kind := k, links := 0 }, { status := .ok, child := some (.leaf s.leaves.length) })
  | .defTmpl cs => ({ s with tmpls := s.tmpls ++ [cs] }, { status := .ok, aux := some s.tmpls.length })
  | .setFetchFail b => ({ s with fetchFail := b }, .fail .ok)
  | .setAllocFail b => ({ s with allocFail := b }, .fail .ok)

def step (P : Params) (s : Store) (op : Op) : Store × Out :=
  if validOp s op then exec P s op else (s, .fail .bad)

def run (P : Params) (s : Store) : List Op → Store
  | [] => s
  | op :: rest => run P (step P s op).1 rest

def init : Store := {}

end BbRe.Dir
