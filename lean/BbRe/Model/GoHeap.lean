/-
Model of Go's `container/heap` (go1.26 `src/container/heap/heap.go`) as it is used by
`pkg/scheduler/in_memory_build_queue.go` (`queuedOperationsHeap`, `queuedChildrenHeap`,
`idleSynchronizingWorkersChildrenHeap`, `cleanupHeap`, and the helpers `heapRemoveOrFix`,
`heapPushOrFix`, `heapMaybeFix`).

The heap is an `Array α`; `less : α → α → Bool` stands for the `Less` method of the
`heap.Interface` (which in the scheduler reads keys stored in the elements), `swp` for `Swap`
(the scheduler's `Swap` methods additionally store the new positions in the elements' index
fields: those back-pointers are checked on the implementation by the verif hook, they are not
part of this model).  The two loops `up` and `down` are recursions over an explicit iteration
bound (`fuel`); `up`/`down` instantiate it with a bound that is never exhausted
(`j` at least halves in `up`, `i` at least doubles in `down`), so that the functions are
structurally recursive and evaluate by `decide`.

  func up(h Interface, j int) {                 func down(h Interface, i0, n int) bool {
    for {                                           i := i0
      i := (j - 1) / 2 // parent                    for {
      if i == j || !h.Less(j, i) { break }            j1 := 2*i + 1
      h.Swap(i, j)                                    if j1 >= n || j1 < 0 { break }   // j1 < 0: int overflow
      j = i                                           j := j1 // left child
    }                                                 if j2 := j1 + 1; j2 < n && h.Less(j2, j1) { j = j2 }
  }                                                   if !h.Less(j, i) { break }
                                                      h.Swap(i, j)
                                                      i = j
                                                    }
                                                    return i > i0
                                                  }
-/
namespace BbRe.GoHeap

variable {α : Type}

/-- `h.Less(i, j)`.  (Out of range the Go code would panic; the heap functions never call it
out of range, see `Lemmas/GoHeap*.lean`.) -/
def lessAt (less : α → α → Bool) (a : Array α) (i j : Nat) : Bool :=
  match a[i]?, a[j]? with
  | some x, some y => less x y
  | _, _ => false

/-- `h.Swap(i, j)`. -/
def swp (a : Array α) (i j : Nat) : Array α :=
  if h : i < a.size ∧ j < a.size then a.swap i j h.1 h.2 else a

/-- The loop of `up`, at most `fuel` iterations. -/
def upAux (less : α → α → Bool) : Nat → Array α → Nat → Array α
  | 0, a, _ => a
  | fuel + 1, a, j =>
    let i := (j - 1) / 2  -- parent; Go's `(j-1)/2` truncates towards zero: `j = 0` gives `i = 0`
    if i = j || !(lessAt less a j i) then a
    else upAux less fuel (swp a i j) i

/-- `up(h, j)`. -/
def up (less : α → α → Bool) (a : Array α) (j : Nat) : Array α := upAux less j a j

/-- The loop of `down`, at most `fuel` iterations; returns the array and the final `i`. -/
def downAux (less : α → α → Bool) : Nat → Array α → Nat → Nat → Array α × Nat
  | 0, a, i, _ => (a, i)
  | fuel + 1, a, i, n =>
    let j1 := 2 * i + 1
    if j1 ≥ n then (a, i)
    else
      let j2 := j1 + 1
      let j := if j2 < n && lessAt less a j2 j1 then j2 else j1
      if !(lessAt less a j i) then (a, i)
      else downAux less fuel (swp a i j) j n

/-- `down(h, i0, n)`: the array afterwards and the result `i > i0`. -/
def down (less : α → α → Bool) (a : Array α) (i0 n : Nat) : Array α × Bool :=
  let r := downAux less (n - i0) a i0 n
  (r.1, decide (r.2 > i0))

-- (`heap.Init` is not used by the scheduler and is not modelled.)

/-- `heap.Push(h, x)`: `h.Push(x); up(h, h.Len()-1)`. -/
def push (less : α → α → Bool) (a : Array α) (x : α) : Array α :=
  up less (a.push x) a.size

/-- `heap.Pop(h)`: `n := h.Len()-1; h.Swap(0, n); down(h, 0, n); return h.Pop()`. -/
def pop (less : α → α → Bool) (a : Array α) : Array α × Option α :=
  let n := a.size - 1
  let a1 := swp a 0 n
  let a2 := (down less a1 0 n).1
  (a2.pop, a2.back?)

/-- The array of `heap.Remove(h, i)` just before the final `h.Pop()`. -/
def removePrep (less : α → α → Bool) (a : Array α) (i : Nat) : Array α :=
  let n := a.size - 1
  if n ≠ i then
    let a1 := swp a i n
    let r := down less a1 i n
    if !r.2 then up less r.1 i else r.1
  else a

/-- `heap.Remove(h, i)`. -/
def remove (less : α → α → Bool) (a : Array α) (i : Nat) : Array α × Option α :=
  let a2 := removePrep less a i
  (a2.pop, a2.back?)

/-- `heap.Fix(h, i)`: `if !down(h, i, h.Len()) { up(h, i) }`. -/
def fix (less : α → α → Bool) (a : Array α) (i : Nat) : Array α :=
  let r := down less a i a.size
  if !r.2 then up less r.1 i else r.1

/-! ### The scheduler's helpers (`in_memory_build_queue.go:3151-3180`)

The position of an element is stored in the element (`queueIndex`, `queuedChildrenIndex`,
`idleSynchronizingWorkersChildrenIndex`, `-1` when absent); here it is an `Option Nat`. -/

/-- `heapRemoveOrFix(h, i, count)`. -/
def removeOrFix (less : α → α → Bool) (a : Array α) (i count : Nat) : Array α :=
  if count > 0 then fix less a i else (remove less a i).1

/-- `heapPushOrFix(h, i, v)`. -/
def pushOrFix (less : α → α → Bool) (a : Array α) (i : Option Nat) (v : α) : Array α :=
  match i with
  | none => push less a v
  | some i => fix less a i

/-- `heapMaybeFix(h, i)`. -/
def maybeFix (less : α → α → Bool) (a : Array α) (i : Option Nat) : Array α :=
  match i with
  | none => a
  | some i => fix less a i

/-- The heap property of the first `n` slots: no element is `less` than its parent. -/
def IsHeapN (less : α → α → Bool) (a : Array α) (n : Nat) : Prop :=
  ∀ c, 0 < c → c < n → lessAt less a c ((c - 1) / 2) = false

/-- The heap property, as evaluated on the real heaps by the verif hook (`verifCheckHeap`). -/
def IsHeap (less : α → α → Bool) (a : Array α) : Prop := IsHeapN less a a.size

/-- Executable form of `IsHeap`. -/
def isHeapB (less : α → α → Bool) (a : Array α) : Bool :=
  (List.range a.size).all fun c => c == 0 || !(lessAt less a c ((c - 1) / 2))

/-- `less` is a strict weak order: asymmetric and negatively transitive (hence irreflexive and
transitive, and "neither is less" is an equivalence).  All `Less` methods of the scheduler's
heaps are meant to be of this kind; to restrict the requirement to the keys currently stored,
instantiate `α` with the subtype of those keys. -/
structure StrictWeak (less : α → α → Bool) : Prop where
  asymm : ∀ x y, less x y = true → less y x = false
  negTrans : ∀ x y z, less x y = false → less y z = false → less x z = false

end BbRe.GoHeap
