/-!
# Model of `pkg/clock/suspendable_clock.go` (property C11)

Time is `Nat` (nanoseconds since the epoch of the base clock; any tick works).

| definition            | mirrors                                                               |
|-----------------------|-----------------------------------------------------------------------|
| `Clk`                 | fields `suspensionCount`, `unsuspensionStart`, `totalUnsuspended`     |
| `Clk.init`            | `NewSuspendableClock` (`unsuspensionStart = time.Unix(0,0)`)          |
| `Clk.suspend`         | `(*SuspendableClock).Suspend` with `base.Now() = now`                 |
| `Clk.resume`          | `(*SuspendableClock).Resume` (the Go code panics when the count is 0; |
|                       | the model leaves the state alone and `Clk.resumeOk` is false)         |
| `Clk.totalNow`        | `getTotalUnsuspendedNow`                                              |
| `Clk.totalWithTime`   | `getTotalUnsuspendedWithTime(now)`                                    |
| `clockAt tl t`        | the clock after all `Suspend`/`Resume` calls of the timeline `tl`     |
|                       | whose time is `≤ t` (calls are atomic under `c.lock`)                 |
| `loop` / `fire`       | the goroutine of `NewContextWithTimeout` (and of `NewTimer`, which    |
|                       | runs the same re-arm loop with `maximumSuspensionTimer` in the place  |
|                       | of the base context's deadline and `Stop` in the place of `cancel`)   |

Atomicity assumption (the documented partial aspect of C11): a base timer that
expires at `e` is handled at instant `e`, i.e. the goroutine computes
`getTotalUnsuspendedWithTime(e)` on the clock state that results from exactly
the `Suspend`/`Resume` calls with time `≤ e`.  `Lemmas.SusClock.totalNow_apply`
shows that the order of same-instant calls relative to the expiry is
irrelevant for that value, so the only tie the model has to be told about is
cancellation versus expiry at one instant (`Cancel.pre`).  A tie between the
base timer and the base context's deadline is resolved timer-first; both
orders produce the same instant, error and reported duration.

The specification side (`depthAt`, `countFree`, `unsuspended`) counts, for each
unit interval `[τ, τ+1)`, how many suspensions cover it, independently of the
order in which same-instant events are listed.
-/
namespace BbRe.SusClock

/-- State of a `SuspendableClock` (the three fields protected by `c.lock`). -/
structure Clk where
  cnt : Nat
  us  : Nat
  tot : Nat
deriving Repr, DecidableEq, Inhabited

def Clk.init : Clk := ⟨0, 0, 0⟩

/-- `Suspend()`: `if suspensionCount == 0 { totalUnsuspended += now - unsuspensionStart }; suspensionCount++`. -/
def Clk.suspend (c : Clk) (now : Nat) : Clk :=
  { cnt := c.cnt + 1, us := c.us, tot := if c.cnt = 0 then c.tot + (now - c.us) else c.tot }

/-- `Resume()` is only legal when the count is positive. -/
def Clk.resumeOk (c : Clk) : Bool := c.cnt ≠ 0

/-- `Resume()`: `suspensionCount--; if suspensionCount == 0 { unsuspensionStart = now }`. -/
def Clk.resume (c : Clk) (now : Nat) : Clk :=
  if c.cnt = 0 then c
  else { cnt := c.cnt - 1, us := if c.cnt - 1 = 0 then now else c.us, tot := c.tot }

/-- `getTotalUnsuspendedNow()` with `base.Now() = now`. -/
def Clk.totalNow (c : Clk) (now : Nat) : Nat :=
  c.tot + if c.cnt = 0 then now - c.us else 0

/-- `getTotalUnsuspendedWithTime(now)`. -/
def Clk.totalWithTime (c : Clk) (now : Nat) : Nat :=
  c.tot + if c.cnt = 0 ∧ c.us < now then now - c.us else 0

/-- One `Suspend`/`Resume` call with the base clock's time at the call. -/
inductive Ev where
  | suspend (t : Nat)
  | resume (t : Nat)
deriving Repr, DecidableEq, Inhabited

def Ev.time : Ev → Nat
  | .suspend t => t
  | .resume t => t

def Ev.isSuspend : Ev → Bool
  | .suspend _ => true
  | .resume _ => false

def Clk.apply (c : Clk) : Ev → Clk
  | .suspend t => c.suspend t
  | .resume t => c.resume t

/-- Apply the calls of `tl` (in list order) up to and including time `t`. -/
def runTo (c : Clk) : List Ev → Nat → Clk
  | [], _ => c
  | e :: rest, t => if e.time ≤ t then runTo (c.apply e) rest t else c

/-- The clock at instant `t` (all calls with time `≤ t` have happened). -/
def clockAt (tl : List Ev) (t : Nat) : Clk := runTo Clk.init tl t

/-- Timelines have non-decreasing call times. -/
def sortedFrom (lo : Nat) : List Ev → Bool
  | [] => true
  | e :: rest => decide (lo ≤ e.time) && sortedFrom e.time rest

def Sorted (tl : List Ev) : Prop := sortedFrom 0 tl = true

/-- No `Resume` without a matching earlier `Suspend` (outstanding suspensions at
the end are allowed). `n` is the number of suspensions outstanding before the list. -/
def balancedFrom (n : Nat) : List Ev → Bool
  | [] => true
  | .suspend _ :: rest => balancedFrom (n + 1) rest
  | .resume _ :: rest => decide (n ≠ 0) && balancedFrom (n - 1) rest

def Balanced (tl : List Ev) : Prop := balancedFrom 0 tl = true

/-! ## Specification: time not covered by any suspension interval -/

/-- Number of `Suspend` calls with time `≤ τ`. -/
def cntS (tl : List Ev) (τ : Nat) : Nat := tl.countP (fun e => e.isSuspend && decide (e.time ≤ τ))

/-- Number of `Resume` calls with time `≤ τ`. -/
def cntR (tl : List Ev) (τ : Nat) : Nat := tl.countP (fun e => !e.isSuspend && decide (e.time ≤ τ))

/-- Number of suspensions covering the unit interval `[τ, τ+1)`, starting from
`n` outstanding ones. Order of the list is irrelevant. -/
def depthFrom (n : Nat) (tl : List Ev) (τ : Nat) : Nat := n + cntS tl τ - cntR tl τ

def depthAt (tl : List Ev) (τ : Nat) : Nat := depthFrom 0 tl τ

/-- Number of `τ ∈ [a, a+n)` with `f τ = 0`. -/
def countFree (f : Nat → Nat) (a : Nat) : Nat → Nat
  | 0 => 0
  | n + 1 => countFree f a n + if f (a + n) = 0 then 1 else 0

/-- Unsuspended time up to `t`: measure of `[0,t)` minus the union of the suspension intervals. -/
def unsuspTo (tl : List Ev) (t : Nat) : Nat := countFree (depthAt tl) 0 t

/-- Unsuspended time in `[a,b)`. -/
def unsuspended (tl : List Ev) (a b : Nat) : Nat := countFree (depthAt tl) a (b - a)

/-! ## `NewContextWithTimeout` / `NewTimer` -/

structure Params where
  maxSusp : Nat   -- maximumSuspension
  thr     : Nat   -- timeoutThreshold
deriving Repr

/-- Cancellation of the base context (parent cancelled or `CancelFunc` called) /
`Timer.Stop()`, at time `t`. `pre = true`: at a tie with an expiry at the same
instant the goroutine sees the cancellation first. -/
structure Cancel where
  t   : Nat
  pre : Bool
deriving Repr, DecidableEq

inductive Reason where
  | timeout     -- `d < timeoutThreshold` branch: context.DeadlineExceeded
  | capped      -- base context deadline `t0 + d + maximumSuspension`: baseContext.Err() = DeadlineExceeded
  | cancelled   -- base context cancelled: context.Canceled
deriving Repr, DecidableEq, Inhabited

structure Result where
  instant : Nat      -- time at which `doneChannel` is closed
  reason  : Reason
  dur     : Nat      -- `ctx.unsuspendedDuration`
deriving Repr, DecidableEq, Inhabited

/-- Does the goroutine, parked in `select` until the next wake-up at `w`, see a cancellation first? -/
def cancelBefore (cn : Option Cancel) (w : Nat) : Option Nat :=
  match cn with
  | some c => if c.t < w ∨ (c.t = w ∧ c.pre = true) then some c.t else none
  | none => none

/-- The `for { … select … }` loop. `a` is the instant at which the current base
timer was armed with duration `d`; `dl` is the base context's deadline;
`initial`/`final` are `initialTotalUnsuspended`/`finalTotalUnsuspended`.
One unit of fuel per loop iteration. -/
def loop (P : Params) (tl : List Ev) (cn : Option Cancel) (initial final dl : Nat) :
    Nat → Nat → Nat → Option Result
  | 0, _, _ => none
  | fuel + 1, a, d =>
    let e := a + d
    match cancelBefore cn (min e dl) with
    | some tc =>
      -- case <-baseDoneChannel (cancelled)
      some ⟨tc, .cancelled, (clockAt tl tc).totalNow tc - initial⟩
    | none =>
      if e ≤ dl then
        -- case now := <-baseChannel
        let cur := (clockAt tl e).totalWithTime e
        let d' := final - cur
        if d' < P.thr then some ⟨e, .timeout, cur - initial⟩
        else loop P tl cn initial final dl fuel e d'
      else
        -- case <-baseDoneChannel (deadline of the base context)
        some ⟨dl, .capped, (clockAt tl dl).totalNow dl - initial⟩

/-- Fuel that always suffices when `thr ≥ 1` (`Lemmas.SusClock.loop_total`):
every re-arm moves the next expiry at least `thr` closer to the deadline,
which is `maxSusp` after the first expiry. -/
def fuelFor (P : Params) : Nat := P.maxSusp + 2

/-- `NewContextWithTimeout(parent, d)` called at `t0` on a clock with call timeline `tl`. -/
def fire (P : Params) (tl : List Ev) (cn : Option Cancel) (t0 d : Nat) : Option Result :=
  let initial := (clockAt tl t0).totalNow t0
  loop P tl cn initial (initial + d) (t0 + d + P.maxSusp) (fuelFor P) t0 d

end BbRe.SusClock
