/-!
# Model of `pkg/clock/suspendable_clock.go` (property C11)

Time is `Nat` (nanoseconds since the epoch of the base clock; any tick works).

| definition            | mirrors                                                               |
|-----------------------|-----------------------------------------------------------------------|
| `Clk`                 | fields `suspensionCount`, `unsuspensionStart`, `totalUnsuspended`     |
| `Clk.init`            | `NewSuspendableClock` (`unsuspensionStart = time.Unix(0,0)`)          |
| `Clk.suspend`         | `(*SuspendableClock).Suspend` with `base.Now() = now`                 |
| `Clk.resume`          | `(*SuspendableClock).Resume` (the Go code panics when the count is 0; |
|                       | the model leaves the state alone and `Clk.resumeOk` is false)         |
| `Clk.totalNow`        | `getTotalUnsuspendedNow`                                              |
| `Clk.totalWithTime`   | `getTotalUnsuspendedWithTime(now)`                                    |
| `clockAt tl t`        | the clock after all `Suspend`/`Resume` calls of the timeline `tl`     |
|                       | whose time is `≤ t` (calls are atomic under `c.lock`)                 |
| `stateAt tl pos`      | the clock after exactly the first `pos` calls of `tl`                 |
| `loop` / `fireL`      | the goroutine of `NewContextWithTimeout` (and of `NewTimer`, which    |
|                       | runs the same re-arm loop with `maximumSuspensionTimer` in the place  |
|                       | of the base context's deadline and `Stop` in the place of `cancel`)   |
| `fire`                | `fireL` when every expiry is handled at the instant it is due         |
| `execRun`             | the run stage of `localBuildExecutor.Execute`                         |
|                       | (`pkg/builder/local_build_executor.go`: `NewContextWithTimeout(...,   |
|                       | executionTimeout)`, `runner.Run`, `cancelTimeout()`, `<-Done()`,      |
|                       | `UnsuspendedDurationKey` -> `VirtualExecutionDuration`)               |

Late handling of expiries (the gap between a base timer firing and the
goroutine acquiring `c.lock`).  A base timer armed at `a` with duration `d` is
due at the *stamp* `T = a + d`; its channel then holds the value `T`.  The
goroutine handles it at `T + late` (`Delivery.late`, bounded by the parameter
`g`), when exactly `Delivery.pos` calls of the timeline have happened; it
computes `getTotalUnsuspendedWithTime(T)` - the stale stamp - on the *current*
clock state `stateAt tl pos`, and re-arms at the handling instant.  The
deadline of the base context may be delivered `dlLate` after it is due.  Ties
at one instant: cancellation vs. the next wake-up (`Cancel.pre`), deadline vs.
a timer handled at the same instant (`dlPre`).  With `late = 0` the order of
same-instant calls around the expiry is irrelevant
(`Lemmas.SusClock.totalNow_apply`), which is why `fire` needs no positions.

The specification side (`depthAt`, `countFree`, `unsuspended`) counts, for each
unit interval `[τ, τ+1)`, how many suspensions cover it, independently of the
order in which same-instant events are listed.
-/
namespace BbRe.SusClock

/-- State of a `SuspendableClock` (the three fields protected by `c.lock`). -/
structure Clk where
  cnt : Nat
  us  : Nat
  tot : Nat
deriving Repr, DecidableEq, Inhabited

def Clk.init : Clk := ⟨0, 0, 0⟩

/-- `Suspend()`: `if suspensionCount == 0 { totalUnsuspended += now - unsuspensionStart }; suspensionCount++`. -/
def Clk.suspend (c : Clk) (now : Nat) : Clk :=
  { cnt := c.cnt + 1, us := c.us, tot := if c.cnt = 0 then c.tot + (now - c.us) else c.tot }

/-- `Resume()` is only legal when the count is positive. -/
def Clk.resumeOk (c : Clk) : Bool := c.cnt ≠ 0

/-- `Resume()`: `suspensionCount--; if suspensionCount == 0 { unsuspensionStart = now }`. -/
def Clk.resume (c : Clk) (now : Nat) : Clk :=
  if c.cnt = 0 then c
  else { cnt := c.cnt - 1, us := if c.cnt - 1 = 0 then now else c.us, tot := c.tot }

/-- `getTotalUnsuspendedNow()` with `base.Now() = now`. -/
def Clk.totalNow (c : Clk) (now : Nat) : Nat :=
  c.tot + if c.cnt = 0 then now - c.us else 0

/-- `getTotalUnsuspendedWithTime(now)`. -/
def Clk.totalWithTime (c : Clk) (now : Nat) : Nat :=
  c.tot + if c.cnt = 0 ∧ c.us < now then now - c.us else 0

/-- One `Suspend`/`Resume` call with the base clock's time at the call. -/
inductive Ev where
  | suspend (t : Nat)
  | resume (t : Nat)
deriving Repr, DecidableEq, Inhabited

def Ev.time : Ev → Nat
  | .suspend t => t
  | .resume t => t

def Ev.isSuspend : Ev → Bool
  | .suspend _ => true
  | .resume _ => false

def Clk.apply (c : Clk) : Ev → Clk
  | .suspend t => c.suspend t
  | .resume t => c.resume t

/-- Apply the calls of `tl` (in list order) up to and including time `t`. -/
def runTo (c : Clk) : List Ev → Nat → Clk
  | [], _ => c
  | e :: rest, t => if e.time ≤ t then runTo (c.apply e) rest t else c

/-- The clock at instant `t` (all calls with time `≤ t` have happened). -/
def clockAt (tl : List Ev) (t : Nat) : Clk := runTo Clk.init tl t

/-- Timelines have non-decreasing call times. -/
def sortedFrom (lo : Nat) : List Ev → Bool
  | [] => true
  | e :: rest => decide (lo ≤ e.time) && sortedFrom e.time rest

def Sorted (tl : List Ev) : Prop := sortedFrom 0 tl = true

/-- No `Resume` without a matching earlier `Suspend` (outstanding suspensions at
the end are allowed). `n` is the number of suspensions outstanding before the list. -/
def balancedFrom (n : Nat) : List Ev → Bool
  | [] => true
  | .suspend _ :: rest => balancedFrom (n + 1) rest
  | .resume _ :: rest => decide (n ≠ 0) && balancedFrom (n - 1) rest

def Balanced (tl : List Ev) : Prop := balancedFrom 0 tl = true

/-! ## Specification: time not covered by any suspension interval -/

/-- Number of `Suspend` calls with time `≤ τ`. -/
def cntS (tl : List Ev) (τ : Nat) : Nat := tl.countP (fun e => e.isSuspend && decide (e.time ≤ τ))

/-- Number of `Resume` calls with time `≤ τ`. -/
def cntR (tl : List Ev) (τ : Nat) : Nat := tl.countP (fun e => !e.isSuspend && decide (e.time ≤ τ))

/-- Number of suspensions covering the unit interval `[τ, τ+1)`, starting from
`n` outstanding ones. Order of the list is irrelevant. -/
def depthFrom (n : Nat) (tl : List Ev) (τ : Nat) : Nat := n + cntS tl τ - cntR tl τ

def depthAt (tl : List Ev) (τ : Nat) : Nat := depthFrom 0 tl τ

/-- Number of `τ ∈ [a, a+n)` with `f τ = 0`. -/
def countFree (f : Nat → Nat) (a : Nat) : Nat → Nat
  | 0 => 0
  | n + 1 => countFree f a n + if f (a + n) = 0 then 1 else 0

/-- Unsuspended time up to `t`: measure of `[0,t)` minus the union of the suspension intervals. -/
def unsuspTo (tl : List Ev) (t : Nat) : Nat := countFree (depthAt tl) 0 t

/-- Unsuspended time in `[a,b)`. -/
def unsuspended (tl : List Ev) (a b : Nat) : Nat := countFree (depthAt tl) a (b - a)

/-! ## `NewContextWithTimeout` / `NewTimer` -/

structure Params where
  maxSusp : Nat   -- maximumSuspension
  thr     : Nat   -- timeoutThreshold
deriving Repr

/-- Cancellation of the base context (parent cancelled or `CancelFunc` called) /
`Timer.Stop()`, at time `t`. `pre = true`: at a tie with an expiry at the same
instant the goroutine sees the cancellation first. -/
structure Cancel where
  t   : Nat
  pre : Bool
deriving Repr, DecidableEq

inductive Reason where
  | timeout     -- `d < timeoutThreshold` branch: context.DeadlineExceeded
  | capped      -- base context deadline `t0 + d + maximumSuspension`: baseContext.Err() = DeadlineExceeded
  | cancelled   -- base context cancelled: context.Canceled
deriving Repr, DecidableEq, Inhabited

structure Result where
  instant : Nat      -- time at which `doneChannel` is closed
  reason  : Reason
  dur     : Nat      -- `ctx.unsuspendedDuration`
  stamp   : Nat      -- stamp of the expiry that ended the loop (`NewTimer` publishes it); when a
                     -- cancellation / the deadline ended it: min(stamp of the pending timer, instant)
  pStamp  : Nat      -- stamp of the previously handled expiry (`t0` if none) …
  pAt     : Nat      -- … and the instant at which it was handled (= when the pending timer was armed)
deriving Repr, DecidableEq, Inhabited

/-- When and in which clock state one base timer expiry is handled. -/
structure Delivery where
  late : Nat   -- handled `late` ticks after the stamp
  pos  : Nat   -- number of `Suspend`/`Resume` calls of the timeline that have happened by then
deriving Repr, DecidableEq

inductive Out where
  | done (r : Result)
  | badOracle      -- a `Delivery` is later than `g` or its `pos` is not a position of the timeline at that instant
  | outOfFuel      -- never happens (`Lemmas.SusClock.loop_total`)
deriving Repr, DecidableEq, Inhabited

/-- The clock after exactly the first `pos` calls. -/
def stateAt (tl : List Ev) (pos : Nat) : Clk := (tl.take pos).foldl Clk.apply Clk.init

/-- `pos` splits the timeline at instant `at`: earlier calls are not later than `at`,
the remaining ones not earlier. -/
def validPos (tl : List Ev) (pos at_ : Nat) : Bool :=
  (tl.take pos).all (fun e => decide (e.time ≤ at_)) && (tl.drop pos).all (fun e => decide (at_ ≤ e.time))

/-- How late the next expiry is handled (none recorded: on time). -/
def nextLate : List Delivery → Nat
  | [] => 0
  | x :: _ => x.late

/-- Is the recorded position of the next expiry a position of the timeline at the handling instant? -/
def nextOk (tl : List Ev) (at_ : Nat) : List Delivery → Bool
  | [] => true
  | x :: _ => validPos tl x.pos at_

/-- The clock state on which the next expiry (stamp `T`) is handled. -/
def nextClk (tl : List Ev) (T : Nat) : List Delivery → Clk
  | [] => clockAt tl T
  | x :: _ => stateAt tl x.pos

/-- Does the goroutine, parked in `select` until the next wake-up at `w`, see a cancellation first? -/
def cancelBefore (cn : Option Cancel) (w : Nat) : Option Nat :=
  match cn with
  | some c => if c.t < w ∨ (c.t = w ∧ c.pre = true) then some c.t else none
  | none => none

/-- The `for { … select … }` loop. `a` is the instant at which the current base
timer was armed with duration `d` (so its stamp is `a + d`); `pT` is the stamp of
the previously handled expiry; `dlAt` is the instant at which the base context's
deadline is delivered; `initial`/`final` are `initialTotalUnsuspended` /
`finalTotalUnsuspended`; `dv` says when and where the successive expiries are
handled (none left: at their stamps). One unit of fuel per loop iteration. -/
def loop (P : Params) (g : Nat) (tl : List Ev) (cn : Option Cancel) (initial final dlAt : Nat) (dlPre : Bool) :
    Nat → Nat → Nat → Nat → List Delivery → Out
  | 0, _, _, _, _ => .outOfFuel
  | fuel + 1, a, d, pT, dv =>
    let T := a + d
    let at_ := T + nextLate dv
    if g < nextLate dv then .badOracle else
    match cancelBefore cn (min at_ dlAt) with
    | some tc =>
      -- case <-baseDoneChannel (cancelled): getTotalUnsuspendedNow() at the instant of handling
      .done ⟨tc, .cancelled, (clockAt tl tc).totalNow tc - initial, min T tc, pT, a⟩
    | none =>
      if at_ < dlAt ∨ (at_ = dlAt ∧ dlPre = false) then
        -- case now := <-baseChannel, with now = T, handled at at_
        if nextOk tl at_ dv = false then .badOracle else
        let cur := (nextClk tl T dv).totalWithTime T
        -- Go: d = final - cur (signed); if d < timeoutThreshold
        if final < cur + P.thr then .done ⟨at_, .timeout, cur - initial, T, pT, a⟩
        else loop P g tl cn initial final dlAt dlPre fuel at_ (final - cur) T dv.tail
      else
        -- case <-baseDoneChannel (deadline of the base context)
        .done ⟨dlAt, .capped, (clockAt tl dlAt).totalNow dlAt - initial, min T dlAt, pT, a⟩

/-- Fuel that always suffices when `thr ≥ 1` (`Lemmas.SusClock.loop_total`):
every re-arm moves the next stamp at least `thr` closer to the delivery of the
deadline, which is `maxSusp + dlLate` after the first stamp. -/
def fuelFor (P : Params) (dlLate : Nat) : Nat := P.maxSusp + dlLate + 2

/-- `NewContextWithTimeout(parent, d)` called at `t0` on a clock with call timeline `tl`;
expiries handled as `dv` says (at most `g` late), deadline delivered `dlLate` late. -/
def fireL (P : Params) (g : Nat) (tl : List Ev) (cn : Option Cancel) (t0 d dlLate : Nat) (dlPre : Bool)
    (dv : List Delivery) : Out :=
  let initial := (clockAt tl t0).totalNow t0
  loop P g tl cn initial (initial + d) (t0 + d + P.maxSusp + dlLate) dlPre (fuelFor P dlLate) t0 d t0 dv

/-- Every expiry and the deadline handled at the instant they are due. -/
def fire (P : Params) (tl : List Ev) (cn : Option Cancel) (t0 d : Nat) : Out :=
  fireL P 0 tl cn t0 d 0 false []

/-! ## `localBuildExecutor.Execute`: running the command

```go
ctxWithTimeout, cancelTimeout := be.clock.NewContextWithTimeout(ctxWithIOError, executionTimeout)
runResponse, runErr := be.runner.Run(ctxWithTimeout, …)
cancelTimeout()
<-ctxWithTimeout.Done()
if runErr == nil { ExitCode = … } else { attachErrorToExecuteResponse(response, runErr) }
if d, ok := ctxWithTimeout.Value(UnsuspendedDurationKey{}).(time.Duration); ok { VirtualExecutionDuration = d }
```
The runner (a gRPC client) returns either when the command ends by itself or when
its context is done, in which case its error is `status.FromContextError(ctx.Err())`
(`DEADLINE_EXCEEDED` for both the timeout and the cap). -/

/-- How the command ends if it is left alone. -/
inductive RunEnd where
  | exit (code : Nat)   -- `runner.Run` returns a `RunResponse` with this exit code
  | failed              -- `runner.Run` returns an error of its own (not a context error)
deriving Repr, DecidableEq

/-- The command ends by itself at `t` (`pre`: it wins a tie against a timer expiry at `t`). -/
structure RunFinish where
  t   : Nat
  pre : Bool
  how : RunEnd
deriving Repr, DecidableEq

inductive Code where
  | ok
  | deadlineExceeded
  | runnerError
deriving Repr, DecidableEq

structure ExecResult where
  code     : Code         -- code of `ExecuteResponse.status`
  exitCode : Option Nat   -- `ActionResult.exit_code`, when the runner returned a response
  virt     : Nat          -- `ExecutionMetadata.virtual_execution_duration`: set in EVERY outcome
  instant  : Nat          -- when the run stage is over
deriving Repr, DecidableEq

/-- The run stage of an action with execution timeout `d` that starts running at `t0`;
`fin = none`: the command never ends by itself. The context is cancelled by the executor
(`cancelTimeout()`) exactly when the runner returned because the command ended. -/
def execRun (P : Params) (tl : List Ev) (t0 d : Nat) (fin : Option RunFinish) : Option ExecResult :=
  match fire P tl (fin.map fun f => ⟨f.t, f.pre⟩) t0 d with
  | .done r =>
    match r.reason, fin with
    | .cancelled, some f =>
      match f.how with
      | .exit c => some ⟨.ok, some c, r.dur, r.instant⟩
      | .failed => some ⟨.runnerError, none, r.dur, r.instant⟩
    | _, _ => some ⟨.deadlineExceeded, none, r.dur, r.instant⟩
  | _ => none

end BbRe.SusClock
