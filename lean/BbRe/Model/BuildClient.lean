/-
Model of `pkg/builder/build_client.go` (`BuildClient.Run`, `startExecution`,
`stopExecution`, `applyExecutionUpdate`, `consumeExecutionUpdatesNonBlocking`,
`touchSchedulerMayThinkExecuting`) and of the termination rule of
`LaunchWorkerThread`, together with the goroutine that `startExecution` spawns
around `BuildExecutor.Execute` and its buffered update channel (capacity 10).

The worker thread is a sequential program that blocks at five places:
`CheckReadiness`, the `select` on timer/updates, `Synchronize`, the drain loop
of `stopExecution`, and between two calls of `Run`.  Following DESIGN.md §2.3 the
model is a transition system whose steps are the *segments* between two
blocking points (`runBegin`, `readyResult`, `wakeTimer`, `wakeUpdate`, `reply`,
`drainRecv`, `drainDone`) plus environment steps: the clock (`tick`), shutdown
(`cancel`), and the executor goroutine (`emit`, `finish`, `close`).  "For all
scheduler replies, executor timings, readiness failures and shutdown instants"
is "for all event lists", which is what the theorems in
`Properties/C08.lean` quantify over.

Go ↔ model:
* `bc.request.CurrentState`                 ↔ `State.req`
* `bc.schedulerMayThinkExecutingUntil`      ↔ `State.mayThink`
* `bc.nextSynchronizationAt`                ↔ `State.nextSync`
* `bc.executionCancellation/Updates ≠ nil`  ↔ `State.cur = some e`
* the channel `updates` (cap 10)            ↔ `Exec.buf`, a sender blocked on the
  full channel ↔ `Exec.blocked`, `close(updates)` ↔ `Exec.closed`
* `ctx.Err() != nil` of the thread's context ↔ `State.cancelled`
Ghost (not in the Go code, used by the theorems): `Exec.id/emitted/received`,
`State.retired` (every goroutine the client no longer references), `State.maxSync`,
`State.lastReply`, `State.log`.

Times are `Nat` seconds (the code only compares times and adds one minute).
The random 0–5 s back-off of `LaunchWorkerThread` is not modelled (the thread
is simply at `top` again).  The three separate `ctx.Err()` reads of one segment
read the same value; a cancellation between them is observationally the same
as one just before or just after the segment (see C08.lean).
-/
namespace BbRe.BuildClient

abbrev Digest := Nat
abbrev Upd := Nat

/-- An `ExecuteResponse`: opaque identity plus `status.ErrorProto(Status) == nil`. -/
structure Resp where
  id : Nat
  ok : Bool
deriving DecidableEq, Repr, Inhabited

/-- `CurrentState_Executing.ExecutionState`. -/
inductive Phase
  | started
  | upd (u : Upd)
  | completed (r : Resp)
deriving DecidableEq, Repr, Inhabited

/-- `CurrentState.WorkerState`. -/
inductive ReqState
  | idle
  | executing (d : Digest) (p : Phase)
deriving DecidableEq, Repr, Inhabited

/-- A `*CurrentState_Executing` travelling over the update channel. -/
structure Msg where
  d : Digest
  p : Phase
deriving DecidableEq, Repr, Inhabited

/-- `make(chan *remoteworker.CurrentState_Executing, 10)`. -/
def chanCap : Nat := 10

/-- The goroutine spawned by `startExecution`, its channel and its context. -/
structure Exec where
  id : Nat
  digest : Digest
  /-- messages sitting in the channel buffer -/
  buf : List Msg
  /-- the goroutine is blocked in a send because the buffer is full -/
  blocked : Option Msg
  /-- `Execute` has returned this response -/
  returned : Option Resp
  /-- `close(updates)` has run: the goroutine is gone -/
  closed : Bool
  /-- the context handed to `Execute` has been cancelled -/
  cancelled : Bool
  /-- ghost: all updates `Execute` has emitted, in order -/
  emitted : List Upd
  /-- ghost: all updates the worker thread has taken off the channel, in order -/
  received : List Upd
deriving DecidableEq, Repr, Inhabited

inductive ExecReq
  | ok (d : Digest)
  | badSuffix (d : Digest)
  | badDigestFunction (d : Digest)
deriving DecidableEq, Repr, Inhabited

/-- `SynchronizeResponse.DesiredState`. -/
inductive Desired
  | none
  | idle
  | execute (e : ExecReq)
  | unknown
deriving DecidableEq, Repr, Inhabited

/-- Outcome of `scheduler.Synchronize`: an RPC error, or a response whose
`NextSynchronizationAt` is valid (`some t`) or not. -/
inductive Reply
  | rpcError
  | reply (ts : Option Nat) (d : Desired)
deriving DecidableEq, Repr, Inhabited

inductive DrainFor
  | idle
  | start (d : Digest)
deriving DecidableEq, Repr, Inhabited

/-- Where the worker thread is blocked. -/
inductive Pc
  | top
  | ready
  | select (readyChecked : Bool)
  | sync (currentStateIsExecuting : Bool)
  | drain (k : DrainFor)
  | terminated
deriving DecidableEq, Repr, Inhabited

/-- A `SynchronizeRequest` as far as it varies. -/
structure Request where
  state : ReqState
  preferIdle : Bool
deriving DecidableEq, Repr, Inhabited

/-- Ghost snapshot taken when something observable happens. -/
structure Snap where
  /-- number of executor goroutines that have not exited -/
  live : Nat
  /-- the most recently started executor goroutine -/
  last : Option Exec
  cancelled : Bool
  mayThink : Option Nat
  now : Nat
  /-- `CheckReadiness` succeeded in this iteration of `Run` -/
  readyChecked : Bool
  lastReply : Option Reply
deriving DecidableEq, Repr, Inhabited

/-- Observable events (ghost log). -/
inductive Obs
  | sent (r : Request) (s : Snap)
  | ret (mayTerminate : Bool) (err : Bool) (s : Snap)
  | spawn (id : Nat) (d : Digest) (s : Snap)
  | cancelExec (id : Nat)
  | timer (d : Int)
  | cancel
deriving DecidableEq, Repr, Inhabited

structure State where
  now : Nat
  cancelled : Bool
  req : ReqState
  mayThink : Option Nat
  nextSync : Nat
  /-- ghost: the largest `nextSynchronizationAt` the client has ever held -/
  maxSync : Nat
  cur : Option Exec
  retired : List Exec
  nextId : Nat
  pc : Pc
  lastReply : Option Reply
  log : List Obs
deriving Repr, Inhabited

/-- `NewBuildClient` at clock time `t0`. -/
def init (t0 : Nat) : State :=
  { now := t0, cancelled := false, req := .idle, mayThink := none, nextSync := t0,
    maxSync := t0, cur := none, retired := [], nextId := 0, pc := .top, lastReply := none, log := [] }

def execLive (e : Exec) : Nat := if e.closed then 0 else 1

/-- Number of executor goroutines that have not exited. -/
def live (s : State) : Nat :=
  (match s.cur with | some e => execLive e | none => 0) +
    (s.retired.filter (fun e => !e.closed)).length

/-- The most recently started executor goroutine. -/
def lastExec (s : State) : Option Exec :=
  match s.cur with
  | some e => some e
  | none => s.retired.head?

def snap (s : State) (rc : Bool) : Snap :=
  { live := live s, last := lastExec s, cancelled := s.cancelled, mayThink := s.mayThink,
    now := s.now, readyChecked := rc, lastReply := s.lastReply }

/-- `touchSchedulerMayThinkExecuting`. -/
def touch (s : State) : State := { s with mayThink := some (s.nextSync + 60) }

/-- `Run`, lines "Determine whether we should perform call to Synchronize with
prefer_being_idle ..." : value of `PreferBeingIdle` before the shutdown
override, and `currentStateIsExecuting`. -/
def preferOf (req : ReqState) (mayThink : Option Nat) : Bool × Bool :=
  match req with
  | .idle => (mayThink.isSome, false)
  | .executing _ (.completed r) => (!r.ok, false)
  | .executing _ _ => (false, true)

/-- From the computation of `PreferBeingIdle` up to the call of `Synchronize`. -/
def sendReq (s : State) (rc : Bool) : State :=
  let pe := preferOf s.req s.mayThink
  { s with pc := .sync pe.2,
           log := s.log ++ [.sent ⟨s.req, s.cancelled || pe.1⟩ (snap s rc)] }

/-- `Run` returns `(mayTerminate, err)`; `LaunchWorkerThread` ends the thread
iff `mayTerminate && ctx.Err() != nil`. -/
def retRun (s : State) (mayTerminate err : Bool) : State :=
  { s with pc := if mayTerminate && s.cancelled then .terminated else .top,
           log := s.log ++ [.ret mayTerminate err (snap s false)] }

/-- After the readiness gate: `if bc.executionCancellation != nil { NewTimer; select }`. -/
def afterReady (s : State) (rc : Bool) : State :=
  match s.cur with
  | some _ => { s with pc := .select rc,
                        log := s.log ++ [.timer ((s.nextSync : Int) - (s.now : Int))] }
  | none => sendReq s rc

/-- Start of `Run`: termination test and readiness gate. -/
def runBegin (s : State) : Option State :=
  match s.pc with
  | .top =>
    if s.cancelled && (match s.mayThink with | none => true | some t => decide (s.now > t)) then
      some (retRun s true false)
    else if s.mayThink.isNone then
      some { s with pc := .ready }
    else
      some (afterReady s false)
  | _ => none

/-- `CheckReadiness` returns. -/
def readyResult (s : State) (ok : Bool) : Option State :=
  match s.pc with
  | .ready => if ok then some (afterReady s true) else some (retRun s true true)
  | _ => none

/-- `select` takes the timer branch. -/
def wakeTimer (s : State) : Option State :=
  match s.pc with
  | .select rc => some (sendReq s rc)
  | _ => none

def updOf (m : Msg) : List Upd :=
  match m.p with
  | .upd u => [u]
  | _ => []

def updsOf (ms : List Msg) : List Upd := ms.flatMap updOf

/-- `applyExecutionUpdate(update)` for `update != nil`, folded over the
messages taken off the channel. -/
def applyMsgs (req : ReqState) : List Msg → ReqState
  | [] => req
  | m :: ms => applyMsgs (.executing m.d m.p) ms

/-- `select` takes the update branch: `applyExecutionUpdate` of the first
message, `consumeExecutionUpdatesNonBlocking` for everything else that is (or,
from a sender blocked on the full channel, becomes) available, clean-up when
the closed channel is observed, clamp of `nextSynchronizationAt`, then on to
`Synchronize`.  `seeClose` resolves the one race the Go code has here: the
goroutine has sent `Completed` but may or may not have run `close(updates)`
before the non-blocking loop looks again. -/
def wakeUpdate (s : State) (seeClose : Bool) : Option State :=
  match s.pc, s.cur with
  | .select rc, some e =>
    if e.buf.isEmpty && !e.closed then none else
    let ms := e.buf ++ e.blocked.toList
    let e1 := { e with buf := [], blocked := none, received := e.received ++ updsOf ms }
    let req := applyMsgs s.req ms
    let closedSeen := e.closed || (seeClose && e.returned.isSome)
    let s1 :=
      if closedSeen then
        { s with req := req, cur := none,
                 retired := { e1 with closed := true, cancelled := true } :: s.retired,
                 log := s.log ++ [.cancelExec e.id] }
      else { s with req := req, cur := some e1 }
    let s2 := if s1.nextSync > s1.now then { s1 with nextSync := s1.now } else s1
    some (sendReq s2 rc)
  | _, _ => none

/-- Second half of `stopExecution` (state := Idle) followed by what the caller
does next: `DesiredState_Idle` ⇒ clear the may-think bound, return `(true, nil)`;
`startExecution` ⇒ spawn the goroutine, state := Executing/Started, touch,
return `(false, nil)`. -/
def finishStop (s : State) (k : DrainFor) : State :=
  match k with
  | .idle => retRun { s with req := .idle, mayThink := none } true false
  | .start d =>
    let e : Exec := { id := s.nextId, digest := d, buf := [], blocked := none, returned := none,
                      closed := false, cancelled := false, emitted := [], received := [] }
    let s0 := { s with req := .idle }
    let s1 := { s0 with req := .executing d .started, cur := some e, nextId := s.nextId + 1,
                        log := s.log ++ [.spawn s.nextId d (snap s0 false)] }
    retRun (touch s1) false false

/-- First half of `stopExecution`: cancel and start draining, or nothing to stop. -/
def stopThen (s : State) (k : DrainFor) : State :=
  match s.cur with
  | some e => { s with cur := some { e with cancelled := true }, pc := .drain k,
                        log := s.log ++ [.cancelExec e.id] }
  | none => finishStop s k

/-- `Synchronize` returns; rest of `Run`. -/
def reply (s : State) (r : Reply) : Option State :=
  match s.pc with
  | .sync ce =>
    let s0 := { s with lastReply := some r }
    let s1 := if s0.mayThink.isNone then touch s0 else s0
    match r with
    | .rpcError => some (retRun s1 false true)
    | .reply none _ => some (retRun s1 false true)
    | .reply (some ts) d =>
      let s2 := { s1 with nextSync := ts, maxSync := max s1.maxSync ts }
      match d with
      | .execute (.ok dg) => some (stopThen s2 (.start dg))
      | .execute _ => some (retRun s2 false true)
      | .idle => some (stopThen s2 .idle)
      | .unknown => some (retRun s2 false true)
      | .none =>
        if ce then some (retRun (touch s2) false false)
        else some (retRun { s2 with mayThink := none } true false)
  | _ => none

/-- One receive of the drain loop of `stopExecution` (result discarded). -/
def drainRecv (s : State) : Option State :=
  match s.pc, s.cur with
  | .drain _, some e =>
    match e.buf with
    | [] => none
    | m :: rest =>
      some { s with cur := some { e with buf := rest ++ e.blocked.toList, blocked := none,
                                         received := e.received ++ updOf m } }
  | _, _ => none

/-- The drain loop observes the closed, empty channel. -/
def drainDone (s : State) : Option State :=
  match s.pc, s.cur with
  | .drain k, some e =>
    if e.buf.isEmpty && e.closed then
      some (finishStop { s with cur := none, retired := e :: s.retired } k)
    else none
  | _, _ => none

/-- The goroutine sends `m`: into the buffer, or it blocks when the buffer is full. -/
def push (e : Exec) (m : Msg) : Exec :=
  if e.buf.length < chanCap then { e with buf := e.buf ++ [m] } else { e with blocked := some m }

/-- `Execute` writes an update to `executionStateUpdates` (with its own action
digest: assumption on `BuildExecutor`). -/
def emit (s : State) (u : Upd) : Option State :=
  match s.cur with
  | some e =>
    if e.returned.isNone && e.blocked.isNone && !e.closed then
      some { s with cur := some { push e ⟨e.digest, .upd u⟩ with emitted := e.emitted ++ [u] } }
    else none
  | none => none

/-- `Execute` returns `r`; the goroutine sends `Completed(r)`. -/
def finish (s : State) (r : Resp) : Option State :=
  match s.cur with
  | some e =>
    if e.returned.isNone && e.blocked.isNone && !e.closed then
      some { s with cur := some { push e ⟨e.digest, .completed r⟩ with returned := some r } }
    else none
  | none => none

/-- `close(updates)`; the goroutine exits. -/
def close (s : State) : Option State :=
  match s.cur with
  | some e =>
    if e.returned.isSome && e.blocked.isNone && !e.closed then
      some { s with cur := some { e with closed := true } }
    else none
  | none => none

inductive Ev
  | runBegin
  | readyResult (ok : Bool)
  | wakeTimer
  | wakeUpdate (seeClose : Bool)
  | reply (r : Reply)
  | drainRecv
  | drainDone
  | cancel
  | tick (n : Nat)
  | emit (u : Upd)
  | finish (r : Resp)
  | close
deriving DecidableEq, Repr, Inhabited

/-- `none` = the event is not enabled in this state. -/
def step? (s : State) : Ev → Option State
  | .runBegin => runBegin s
  | .readyResult ok => readyResult s ok
  | .wakeTimer => wakeTimer s
  | .wakeUpdate c => wakeUpdate s c
  | .reply r => reply s r
  | .drainRecv => drainRecv s
  | .drainDone => drainDone s
  | .cancel => some { s with cancelled := true, log := s.log ++ [.cancel] }
  | .tick n => some { s with now := s.now + n }
  | .emit u => emit s u
  | .finish r => finish s r
  | .close => close s

/-- Events that are not enabled leave the state unchanged. -/
def step (s : State) (e : Ev) : State := (step? s e).getD s

def run (s : State) (evs : List Ev) : State := evs.foldl step s

end BbRe.BuildClient
