/-
Model of one pool-backed writable file of the virtual file system (C16):
`pkg/filesystem/virtual/pool_backed_file_allocator.go` (`fileBackedFile`,
`frozenFileBackedFile`) together with the hard-link counter that
`fuse_handle_allocator.go` (`fuseStatefulLinkableLeaf`) and
`nfs_handle_allocator.go` (`nfsStatefulLinkableLeaf`) put in front of it, and the
upload entry point used by `pkg/builder/virtual_build_directory.go`
(`VirtualApply(&ApplyUploadFile{…})`).

All fields of `fileBackedFile` are protected by `f.lock`.  The lock is dropped
only in the two waiting loops:

* `lockMutatingData` (`VirtualWrite`, `VirtualAllocate`, `VirtualSetAttributes`
  with a size, `VirtualOpenSelf` with `Truncate`): parks on `unfreezeWakeup` while
  `frozenDescriptorsCount > 0`;
* `waitAndOpenReadFrozen` (`uploadFile`, `ApplyOpenReadFrozen`): parks in
  `select { <-writableFileDelay | <-noMoreWritersWakeup }` while
  `writableDescriptorsCount > 0` and the delay did not fire.

Every call is therefore a sequence of lock-held *segments*; one model step is one
segment.  Calls that can block are run by a *thread* `t` (any `Nat`) whose `PC`
says where the call is.  The Go channels are modelled by a `woken` flag on the
parked thread: `close(f.unfreezeWakeup)` / `close(f.noMoreWritersWakeup)` set the
flag of every thread parked in the corresponding loop (all threads parked at one
time hold the same channel, because the field is only reset when it is closed).
The delay channel of an upload is a `context.Done()` channel (see
`local_build_executor.go`): `fired k` is monotone.

Mapping (Go → model):
* `referenceCount, writableDescriptorsCount, frozenDescriptorsCount, cachedDigest,
  changeID, isExecutable` → `refs, writers, frozen, cached, changeID, exec`;
  `f.size` + contents of the pool file → `bytes`; `f.file == nil` → `closed`;
  number of `Close()` calls on the pool file → `closeCalls`.
* `acquireShareAccessLocked` → `acquire`, `releaseReferencesLocked` → `release`,
  `frozenFileBackedFile.Close` → `frozenClose`, `virtualTruncate` → `truncate`,
  `openReadFrozen` → `openFrozenFor`, `updateCachedDigest` → `digestStep`.
* handle layer: `linkCount`; `layered = false` is the bare `fileBackedFile` (its
  own `Link`/`Unlink` are called directly; `linkCount` then counts those links).
* a digest is the pair (digest function, bytes): injective by construction.
* `rd`, `wr` are ghost counters of the share-access bits the clients hold
  (`VirtualClose` may release any part of what was acquired: NFSv4 OPEN_DOWNGRADE).
* sticky fault switches of the pool file: `wfault` (0 none, 1 `WriteAt` writes
  nothing and fails, ≥2 writes half and fails), `tfault` (`Truncate` fails),
  `rfault` (`ReadAt` fails).
* Go panics (nil `f.file` after the last reference is gone, "Invalid reference
  count", …) → `panicked`.
* `checked = true` is the code as it is now (fix 17054c0): `VirtualWrite`,
  `VirtualAllocate` and `VirtualSetAttributes` with a size return `StatusErrStale` when
  `referenceCount == 0` after the `lockMutatingData` wait, like `VirtualOpenSelf` with
  `Truncate` always did.  `checked = false` is the code before that fix (kept for the
  counterexample `C16.resumed_size_change_hits_released_file`).

The computation of the digest (several `ReadAt`s of the frozen file, each under
the lock, then storing `cachedDigest`) is one model step; only steps that do not
change `bytes` can interleave with it (`frozen > 0` throughout).
Core Lean only (linked into `drv_fileref`).
-/
namespace BbRe.FileRef

structure Mask where
  r : Bool
  w : Bool
deriving DecidableEq, Repr

def b2n (b : Bool) : Nat := if b then 1 else 0

/-- `ShareMask.Count()`. -/
def Mask.count (m : Mask) : Nat := b2n m.r + b2n m.w

abbrev Bytes := List Nat

/-- digest function id × digested bytes. -/
abbrev Digest := Nat × Bytes

def digestOf (fn : Nat) (b : Bytes) : Digest := (fn, b)

/-- `Truncate(n)` of the pool file: cut or extend with zeros. -/
def resize (b : Bytes) (n : Nat) : Bytes := b.take n ++ List.replicate (n - b.length) 0

/-- `WriteAt(d, off)` of the pool file (a gap is a hole that reads as zeros). -/
def writeAt (b : Bytes) (off : Nat) (d : Bytes) : Bytes :=
  let b' := resize b (max b.length (off + d.length))
  b'.take off ++ d ++ b'.drop (off + d.length)

inductive Status
  | ok | stale | io | perm | nxio | notFound | internal | putErr
deriving DecidableEq, Repr

/-- Calls that go through `lockMutatingData`. -/
inductive MutOp
  | write (off : Nat) (data : Bytes)
  | alloc (off len : Nat)
  | setattr (size : Nat) (exec : Option Bool)
  | openTrunc (m : Mask)
deriving DecidableEq, Repr

inductive PC
  | idle
  | mutWait (op : MutOp) (woken : Bool)                               -- parked in lockMutatingData
  | upWait (upload : Bool) (k : Option Nat) (fn : Nat) (woken : Bool) -- parked in waitAndOpenReadFrozen
  | upFrozen (fn : Nat)     -- uploadFile: frozen reader open, digest not yet computed
  | upPut (d : Digest)      -- uploadFile: inside contentAddressableStorage.Put(d, frozen reader)
  | held                    -- ApplyOpenReadFrozen returned its reader to the caller
  | statFrozen (fn : Nat)   -- getBazelOutputServiceStat: frozen reader open
deriving DecidableEq, Repr

/-- The thread holds a `frozenFileBackedFile`. -/
def PC.isFrozen : PC → Bool
  | .upFrozen _ => true
  | .upPut _ => true
  | .held => true
  | .statFrozen _ => true
  | _ => false

structure State where
  checked : Bool
  layered : Bool
  bytes : Bytes
  exec : Bool
  refs : Nat
  writers : Nat
  frozen : Nat
  cached : Option Digest
  changeID : Nat
  closed : Bool
  closeCalls : Nat
  panicked : Bool
  linkCount : Nat
  rd : Nat
  wr : Nat
  wfault : Nat
  tfault : Bool
  rfault : Bool
  fired : Nat → Bool
  pc : Nat → PC
  cas : List (Digest × Bytes)

/-- `acquireShareAccessLocked`. -/
def acquire (s : State) (m : Mask) : State :=
  { s with refs := s.refs + m.count, writers := s.writers + b2n m.w,
           rd := s.rd + b2n m.r, wr := s.wr + b2n m.w }

/-- State right after `NewFile(holeSource, isExecutable, size, shareAccess)` succeeded
(and, when `layered`, `AsLinkableLeaf` wrapped it with link count 1). -/
def init (checked layered exec : Bool) (size : Nat) (m : Mask) : State :=
  acquire
    { checked := checked, layered := layered, bytes := List.replicate size 0, exec := exec, refs := 1, writers := 0,
      frozen := 0, cached := none, changeID := 0, closed := false, closeCalls := 0,
      panicked := false, linkCount := 1, rd := 0, wr := 0, wfault := 0, tfault := false,
      rfault := false, fired := fun _ => false, pc := fun _ => .idle, cas := [] } m

def State.setPc (s : State) (t : Nat) (v : PC) : State :=
  { s with pc := fun x => if x = t then v else s.pc x }

def State.panic (s : State) : State := { s with panicked := true }

/-- `releaseReferencesLocked(n)`. -/
def release (s : State) (n : Nat) : State :=
  if s.refs < n then s.panic
  else if s.refs - n = 0 then
    (if s.closed then s.panic   -- `f.file.Close()` on a nil interface
     else { s with refs := 0, closed := true, closeCalls := s.closeCalls + 1 })
  else { s with refs := s.refs - n }

/-- `close(f.unfreezeWakeup)`: every thread parked in `lockMutatingData` becomes runnable. -/
def wakeMut (pc : Nat → PC) : Nat → PC := fun t =>
  match pc t with
  | .mutWait op _ => .mutWait op true
  | x => x

/-- `close(f.noMoreWritersWakeup)`. -/
def wakeUp (pc : Nat → PC) : Nat → PC := fun t =>
  match pc t with
  | .upWait u k fn _ => .upWait u k fn true
  | x => x

/-- `frozenFileBackedFile.Close`. -/
def frozenClose (s : State) : State :=
  if s.frozen = 0 then s.panic
  else
    release { s with frozen := s.frozen - 1,
                     pc := if s.frozen - 1 = 0 then wakeMut s.pc else s.pc } 1

/-- `virtualTruncate`; the flag says whether it returned `StatusOK`. -/
def truncate (s : State) (n : Nat) : State × Bool :=
  if s.closed then (s.panic, false)
  else if s.tfault then (s, false)
  else ({ s with bytes := resize s.bytes n, cached := none, changeID := s.changeID + 1 }, true)

inductive Out
  | st (s : Status)
  | attrs (size changeID : Nat) (exec : Bool) (links : Nat)
  | wrote (n : Nat) (s : Status)
  | data (b : Bytes) (eof : Bool)
  | parked
  | opened
  | putting (d : Digest)
  | digest (d : Option Digest)
  | panic
deriving DecidableEq, Repr

def attrsOf (s : State) : Out := .attrs s.bytes.length s.changeID s.exec s.linkCount

/-- Number of bytes `WriteAt` stores before it returns (fault switch). -/
def writeCount (wfault len : Nat) : Nat :=
  if wfault = 0 then len else if wfault = 1 then 0 else len / 2

/-- Body of a mutating call, lock held and `frozen = 0`. -/
def perform (s : State) : MutOp → State × Out
  | .write off data =>
    if s.checked ∧ s.refs = 0 then (s, .wrote 0 .stale)
    else if s.closed then (s.panic, .panic)
    else
      let n := writeCount s.wfault data.length
      let s1 : State :=
        if n > 0 then
          { s with bytes := writeAt s.bytes off (data.take n), cached := none,
                   changeID := s.changeID + 1 }
        else s
      (s1, .wrote n (if s.wfault = 0 then .ok else .io))
  | .alloc off len =>
    if s.checked ∧ s.refs = 0 then (s, .st .stale)
    else if s.bytes.length < off + len then
      let r := truncate s (off + len)
      (r.1, if r.1.panicked then .panic else if r.2 then .st .ok else .st .io)
    else (s, .st .ok)
  | .setattr size ex =>
    if s.checked ∧ s.refs = 0 then (s, .st .stale)
    else
    let r := truncate s size
    if r.1.panicked then (r.1, .panic)
    else if r.2 then
      let s2 : State := match ex with
        | some x => { r.1 with exec := x, changeID := r.1.changeID + 1 }
        | none => r.1
      (s2, attrsOf s2)
    else (r.1, .st .io)
  | .openTrunc m =>
    if s.refs = 0 then (s, .st .stale)
    else
      let r := truncate s 0
      if r.1.panicked then (r.1, .panic)
      else if r.2 then (acquire r.1 m, attrsOf (acquire r.1 m))
      else (r.1, .st .io)

/-- `lockMutatingData` from the loop test on, then the body. -/
def mutBody (s : State) (t : Nat) (op : MutOp) : State × Out :=
  if s.frozen > 0 then (s.setPc t (.mutWait op false), .parked)
  else
    let r := perform s op
    (r.1.setPc t .idle, r.2)

/-- `openReadFrozen` on behalf of thread `t`. -/
def openFrozenFor (s : State) (t : Nat) (v : PC) : State × Out :=
  if s.refs = 0 then (s.setPc t .idle, .st .notFound)
  else ({ (s.setPc t v) with refs := s.refs + 1, frozen := s.frozen + 1 }, .opened)

def frozenPcFor (upload : Bool) (fn : Nat) : PC := if upload then .upFrozen fn else .held

/-- `updateCachedDigest`: `none` = reading the frozen file failed. -/
def digestStep (s : State) (fn : Nat) : State × Option Digest :=
  match s.cached with
  | some d =>
    if d.1 = fn then (s, some d)
    else if s.rfault ∧ s.bytes.length > 0 then (s, none)
    else ({ s with cached := some (digestOf fn s.bytes) }, some (digestOf fn s.bytes))
  | none =>
    if s.rfault ∧ s.bytes.length > 0 then (s, none)
    else ({ s with cached := some (digestOf fn s.bytes) }, some (digestOf fn s.bytes))

inductive Op
  | link
  | unlink
  | open_ (m : Mask)
  | close (m : Mask)
  | read (off len : Nat)
  | seek (off : Nat)
  | getattr
  | setperm (x : Bool)
  | chown
  | persist
  | mbegin (t : Nat) (op : MutOp)
  | mwake (t : Nat)
  | ubegin (t : Nat) (upload : Bool) (k : Option Nat) (fn : Nat)
  | uwake (t : Nat) (viaDelay : Bool)
  | udigest (t : Nat)
  | putDone (t : Nat) (ok : Bool)
  | fread (t : Nat) (off len : Nat)
  | fclose (t : Nat)
  | statOpen (t : Nat) (fn : Nat)
  | statFinish (t : Nat)
  | fire (k : Nat)
  | fault (kind : Nat) (v : Nat)
deriving DecidableEq, Repr

/-- One lock-held segment.  `none` = not enabled (the thread is not at the right
place, or the model stopped after a Go panic). -/
def step (s : State) (op : Op) : Option (State × Out) :=
  if s.panicked then none else
  match op with
  | .link =>
    if s.layered then
      (if s.linkCount = 0 then some (s, .st .stale)
       else some ({ s with linkCount := s.linkCount + 1 }, .st .ok))
    else
      (if s.refs = 0 then some (s, .st .stale)
       else some ({ s with refs := s.refs + 1, linkCount := s.linkCount + 1 }, .st .ok))
  | .unlink =>
    if s.layered then
      (if s.linkCount = 0 then some (s.panic, .panic)  -- NFS panics; FUSE wraps around: outside the contract
       else if s.linkCount - 1 = 0 then some (release { s with linkCount := 0 } 1, .st .ok)
       else some ({ s with linkCount := s.linkCount - 1 }, .st .ok))
    else
      let s1 := release { s with linkCount := s.linkCount - 1 } 1
      some (s1, if s1.panicked then .panic else .st .ok)
  | .open_ m =>
    if s.refs = 0 then some (s, .st .stale)
    else some (acquire s m, attrsOf (acquire s m))
  | .close m =>
    if m.w ∧ s.writers = 0 then some (s.panic, .panic)
    else
      let s1 : State :=
        if m.w then
          { s with writers := s.writers - 1,
                   pc := if s.writers - 1 = 0 then wakeUp s.pc else s.pc }
        else s
      let s2 := release { s1 with rd := s1.rd - b2n m.r, wr := s1.wr - b2n m.w } m.count
      some (s2, if s2.panicked then .panic else .st .ok)
  | .read off len =>
    if off ≥ s.bytes.length then some (s, .data [] true)
    else
      let n := min len (s.bytes.length - off)
      if n = 0 then some (s, .data [] (decide (len ≥ s.bytes.length - off)))
      else if s.closed then some (s.panic, .panic)
      else if s.rfault then some (s, .st .io)
      else some (s, .data ((s.bytes.drop off).take n) (decide (len ≥ s.bytes.length - off)))
  | .seek off =>
    if off ≥ s.bytes.length then some (s, .st .nxio)
    else if s.closed then some (s.panic, .panic)
    else some (s, .st .ok)
  | .getattr => some (s, attrsOf s)
  | .setperm x =>
    let s1 : State := { s with exec := x, changeID := s.changeID + 1 }
    some (s1, attrsOf s1)
  | .chown => some (s, .st .perm)
  | .persist => some (s, .digest s.cached)
  | .mbegin t op =>
    match s.pc t with
    | .idle => some (mutBody s t op)
    | _ => none
  | .mwake t =>
    match s.pc t with
    | .mutWait op true => some (mutBody s t op)
    | _ => none
  | .ubegin t upload k fn =>
    match s.pc t with
    | .idle =>
      if s.writers > 0 then some (s.setPc t (.upWait upload k fn false), .parked)
      else some (openFrozenFor s t (frozenPcFor upload fn))
    | _ => none
  | .uwake t viaDelay =>
    match s.pc t with
    | .upWait upload k fn woken =>
      if viaDelay then
        (match k with
         | some k' => if s.fired k' then some (openFrozenFor s t (frozenPcFor upload fn)) else none
         | none => none)
      else if woken then
        (if s.writers > 0 then some (s.setPc t (.upWait upload k fn false), .parked)
         else some (openFrozenFor s t (frozenPcFor upload fn)))
      else none
    | _ => none
  | .udigest t =>
    match s.pc t with
    | .upFrozen fn =>
      let r := digestStep s fn
      (match r.2 with
       | some d => some (r.1.setPc t (.upPut d), .putting d)
       | none => some (frozenClose (r.1.setPc t .idle), .st .internal))
    | _ => none
  | .putDone t ok =>
    match s.pc t with
    | .upPut d =>
      if ok then
        let got := s.bytes.take d.2.length
        if got.length < d.2.length ∨ (s.rfault ∧ d.2.length > 0) then
          some (frozenClose (s.setPc t .idle), .st .putErr)
        else
          some (frozenClose { (s.setPc t .idle) with cas := (d, got) :: s.cas }, .digest (some d))
      else some (frozenClose (s.setPc t .idle), .st .putErr)
    | _ => none
  | .fread t off len =>
    match s.pc t with
    | .held =>
      if s.closed then some (s.panic, .panic)
      else if s.rfault then some (s, .st .io)
      else some (s, .data ((s.bytes.drop off).take len) (decide (len > 0 ∧ off + len > s.bytes.length)))
    | _ => none
  | .fclose t =>
    match s.pc t with
    | .held => some (frozenClose (s.setPc t .idle), .st .ok)
    | _ => none
  | .statOpen t fn =>
    match s.pc t with
    | .idle =>
      if s.writers = 0 then some (openFrozenFor s t (.statFrozen fn))
      else some (s, .digest none)
    | _ => none
  | .statFinish t =>
    match s.pc t with
    | .statFrozen fn =>
      let r := digestStep s fn
      some (frozenClose (r.1.setPc t .idle),
            match r.2 with | some d => .digest (some d) | none => .st .internal)
    | _ => none
  | .fire k => some ({ s with fired := fun x => if x = k then true else s.fired x }, .st .ok)
  | .fault kind v =>
    if kind = 0 then some ({ s with wfault := v }, .st .ok)
    else if kind = 1 then some ({ s with tfault := decide (v ≠ 0) }, .st .ok)
    else some ({ s with rfault := decide (v ≠ 0) }, .st .ok)

/-- A mutating call that needs an open descriptor (`VirtualWrite`, `VirtualAllocate`). -/
def MutOp.needsDescriptor : MutOp → Bool
  | .write _ _ => true
  | .alloc _ _ => true
  | _ => false

/-- What the code before fix 17054c0 needed from the caller of a mutating call at the
moment the change is performed. -/
def mutContract (s : State) (op : MutOp) : Bool :=
  if op.needsDescriptor then decide (s.rd + s.wr > 0)
  else match op with
    | .setattr _ _ => decide (s.rd + s.wr > 0 ∨ s.linkCount > 0)
    | _ => true

/-- The caller contract under which the file is used (DESIGN C16): a directory entry is
only removed if there is one; `VirtualClose` releases share access that is held (at least one
bit); read/seek are only performed with an open descriptor.  The mutating calls need nothing
from the caller in the current code (`checked`); before the fix write/allocate needed an open
descriptor and a size change by path a directory entry or a descriptor at the moment the
change is performed (`mutContract`), which the caller of a parked call cannot guarantee. -/
def legal (s : State) : Op → Bool
  | .unlink => decide (s.linkCount > 0)
  | .close m => decide (m.count ≥ 1 ∧ b2n m.r ≤ s.rd ∧ b2n m.w ≤ s.wr)
  | .read _ _ => decide (s.rd + s.wr > 0)
  | .seek _ => decide (s.rd + s.wr > 0)
  | .mbegin _ op => s.checked || mutContract s op
  | .mwake t =>
    match s.pc t with
    | .mutWait op _ => s.checked || mutContract s op
    | _ => true
  | _ => true

/-- States reachable by enabled steps that respect the caller contract: all
histories and all interleavings of any number of threads. -/
inductive Reachable : State → Prop
  | init (checked layered exec : Bool) (size : Nat) (m : Mask) :
      Reachable (init checked layered exec size m)
  | step {s s' : State} {o : Out} (op : Op) :
      Reachable s → legal s op = true → step s op = some (s', o) → Reachable s'

/-- Run a list of ops, skipping the ones that are not enabled; collects the outputs. -/
def run (s : State) : List Op → State × List Out
  | [] => (s, [])
  | op :: rest =>
    match step s op with
    | some (s', o) => let r := run s' rest; (r.1, o :: r.2)
    | none => run s rest

end BbRe.FileRef
