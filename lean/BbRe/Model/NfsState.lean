import BbRe.Model.NfsShare
import BbRe.Model.BRL
import BbRe.Model.LockRange
/-!
# Open / lock state bookkeeping of the NFSv4.0 and NFSv4.1 servers (C18, C20 NFS layer)

Mirrors `pkg/filesystem/virtual/nfsv4/nfs40_program.go`, `nfs41_program.go` and
`opened_files_pool.go`.  The two programs are 3000-line protocol front ends
around one small mechanism, which is what this file models:

* client records (`clientConfirmationState` / `clientIncarnationState`) with
  `holdCount`, `lastSeen` and the idle list, expired by `enter()`;
* open-owner files (`nfs4xOpenOwnerFileState`): `shareAccess`, `shareCount`,
  lock-owner files (`nfs4xLockOwnerFileState`: cloned `shareAccess`, `lockCount`);
* lock-owner objects (`confirmedClient.lockOwners` / `cis.lockOwnersByOwner`);
* the opened-files pool (`OpenedFilesPool.filesByHandle`: `useCount` + lock table);
* `leavesToClose` (closed after `leave()`), temporary opens of special-state-ID
  I/O and of OPENs between their `VirtualOpen…` call and their re-entry,
  share reservations cloned for the duration of READ/WRITE/SETATTR;
* a ghost log of every `VirtualOpenChild/VirtualOpenSelf/VirtualClose` the server issues.

The model is layered.

**Core** (`State`, `Act`, `apply`): each `Act` is one of the helper methods the
Go code runs while holding the server lock (`p.lock` / `cis.lock`), or one call
the server makes into a leaf.  Every action is total; where the Go code would
`panic` the action only raises `State.panic` (the state is otherwise unchanged;
after a Go panic nothing is defined).  All theorems (`Lemmas/Nfs*.lean`,
`Properties/C18.lean`, `Properties/C20Nfs.lean`) are about arbitrary sequences of
core actions, hence about every protocol history.

**Protocol layer** (`Proto`, `Op`, `plan`, `step`): what the COMPOUND operations do
in terms of core actions (state-ID resolution, seqid checks of the 4.0
open-owner and lock-owner transactions incl. cached replies, two-phase CLOSE, `enter()`'s
expiry loops, OPEN claim/create modes, …).  `step s op` is by definition
`applyAll s (plan s op).acts`: the protocol layer cannot change the core state
except through core actions, so no theorem has to look into it; it is tied to
the real programs by the correspondence harness `harness/cmd/nfsstate`.

Which Go code each action mirrors is stated at its definition.  Identifiers:
state IDs (`sid`), client records, lock-owner objects and in-flight requests
(`tag`) are model-chosen naturals; leaves/file handles are the index of the
file (`nfsx.World`: handle ↔ leaf is a bijection).  Core Lean only.
-/
namespace BbRe.NfsState
open BbRe.NfsShare

/-! ## Core state -/

/-- `nfs40LockOwnerFileState` / `nfs41LockOwnerFileState`. -/
structure LOFile where
  sid : Nat
  /-- id of the lock-owner object (`lockOwner`); the lock table's owner -/
  lo : Nat
  /-- `shareAccess` (cloned from the open-owner file when created) -/
  share : Mask
  lockCount : Int
deriving Repr, Inhabited

/-- `nfs40OpenOwnerFileState` / `nfs41OpenOwnerFileState`. -/
structure OFile where
  sid : Nat
  /-- client record the open-owner belongs to -/
  cl : Nat
  /-- open-owner key -/
  owner : Nat
  /-- `openedFile`: file handle = leaf -/
  file : Nat
  share : Mask
  count : ShareCount
  lofs : List LOFile
  /-- still reachable through the maps (`filesByHandle`, `openOwnerFilesByOther`):
  4.0 until `removeFinalize`, 4.1 until `remove`.  A record that is no longer
  live is only referenced by in-flight I/O. -/
  live : Bool
deriving Repr, Inhabited

/-- `clientConfirmationState` (4.0) / `clientIncarnationState` (4.1). -/
structure Client where
  id : Nat
  long : Nat
  ver : Nat
  /-- 4.0: `client.confirmed.confirmation == this`; 4.1: `client.confirmedIncarnation == this` -/
  confirmed : Bool
  hold : Nat
  lastSeen : Nat
  /-- 4.1: sessions (model-chosen ids) -/
  sessions : List Nat
deriving Repr, Inhabited

/-- Open-owner record of NFSv4.0 (`nfs40OpenOwnerState`); `data` is protocol-layer
information (seqid, cached response, …) the core does not look at.  (4.1
open-owners have no state of their own: they exist iff they have a file.) -/
structure OOwner where
  cl : Nat
  key : Nat
  confirmed : Bool
  lastSeq : Nat
  /-- cached response: (operation kind, rendered reply, state ID name·seq of an OK reply, closed file) -/
  resp : Option (Nat × String × Nat × Nat × Option Nat)
  tx : Bool
  lastUsed : Nat
deriving Repr, Inhabited

/-- Lock-owner object (`nfs40LockOwnerState` / `nfs41LockOwnerState`). -/
structure LOwner where
  id : Nat
  cl : Nat
  key : Nat
  /-- 4.0 only -/
  lastSeq : Nat
  resp : Option (Nat × String × Nat × Nat)
deriving Repr, Inhabited

/-- `OpenedFile` in `OpenedFilesPool.filesByHandle`. -/
structure PoolEnt where
  file : Nat
  useCount : Nat
  locks : List BRL.Lock
deriving Repr, Inhabited

/-- READ/WRITE/SETATTR with a regular state ID in flight: the cleanup closure of
`getOpenedLeafWithRegularStateID`. -/
structure IOrec where
  tag : Nat
  sid : Nat
  cl : Nat
  share : Mask
  /-- 4.0: the closure also holds the client (`clientConfirmation.hold(p)`) -/
  holds : Bool
deriving Repr, Inhabited

/-- A leaf the server has opened and not yet accounted to an open-owner file:
special-state-ID I/O in flight, or an OPEN between `VirtualOpenChild/OpenSelf` and
the bookkeeping under the lock. -/
structure Temp where
  tag : Nat
  leaf : Nat
  share : Mask
deriving Repr, Inhabited

/-- In-flight holder of a client record other than I/O: an NFSv4.1 SEQUENCE
compound or an NFSv4.0 OPEN transaction. -/
structure Holder where
  tag : Nat
  cl : Nat
deriving Repr, Inhabited

/-- Ghost event: a call into a leaf. -/
inductive Ev
  | openEv (leaf : Nat) (m : Mask) (create trunc : Bool)
  | closeEv (leaf : Nat) (m : Mask)
deriving Repr, Inhabited

/-- Protocol-layer state the core never looks at. -/
structure Proto where
  /-- state ID seqids: sid ↦ seqid -/
  seqs : List (Nat × Nat) := []
  /-- 4.0 `unusedOpenOwners` in list order -/
  unused : List (Nat × Nat) := []
  /-- 4.0 OPEN transactions in flight: tag ↦ (cl, key, seqid, claim, access, file for CLAIM_PREVIOUS) -/
  otx : List (Nat × Nat × Nat × Nat × Nat × Nat × Nat) := []
  /-- tiny file system: (dir, name) ↦ leaf; next leaf index -/
  names : List (Nat × Nat × Nat) := []
  nextLeaf : Nat := 0
  /-- leaves that are unlinked -/
  unlinked : List Nat := []
  /-- 4.1: next session id -/
  nextSess : Nat := 1
deriving Repr, Inhabited

structure State where
  /-- 40 or 41 -/
  ver : Nat := 41
  lease : Nat := 120
  clock : Nat := 0
  now : Nat := 0
  clients : List Client := []
  /-- `idleClientConfirmations` / `idleClientIncarnations` (head first) -/
  idle : List Nat := []
  oowners : List OOwner := []
  lowners : List LOwner := []
  files : List OFile := []
  pool : List PoolEnt := []
  ios : List IOrec := []
  temps : List Temp := []
  holders : List Holder := []
  /-- `leavesToClose`: (request that owns the list, leaf, mask).  The entries of a request
  are closed when it calls `ll.closeAll()`, i.e. after its lock-held segment (4.0 OPEN:
  only when the whole operation returns). -/
  pend : List (Nat × Nat × Mask) := []
  /-- the request whose segment is being executed (owner of new `leavesToClose` entries) -/
  cur : Nat := 0
  log : List Ev := []
  nextId : Nat := 1
  panic : Option String := none
  proto : Proto := {}
deriving Repr, Inhabited

/-! ## Core actions -/

inductive Act
  | tick (d : Nat)
  | setNow
  | newClient (long ver : Nat)
  | touch (cl : Nat)
  | confirmClient (cl : Nat)
  | dropClient (cl : Nat)
  | addSession (cl k : Nat)
  | delSession (cl k : Nat)
  | holdBegin (tag cl : Nat)
  | holdEnd (tag : Nat)
  | ooSet (oo : OOwner)
  | ooDel (cl key : Nat)
  | loRegister (cl key : Nat)
  | loPrune (id : Nat)
  | loSet (id lastSeq : Nat) (resp : Option (Nat × String × Nat × Nat))
  | vopen (tag leaf : Nat) (m : Mask) (create trunc : Bool)
  | tempClose (tag : Nat)
  | tempToPend (tag : Nat)
  | openNew (tag cl owner : Nat)
  | openUpgrade (tag sid : Nat)
  | downgradeOpen (sid : Nat) (new : Mask)
  | addLofs (sid lo : Nat)
  | removeLofs (sid lsid : Nat)
  | unlockAllLofs (sid lsid : Nat)
  | lockSet (sid lsid : Nat) (l : BRL.Lock)
  | finalize (sid : Nat)
  | ioBegin (tag sid : Nat) (m : Mask) (holds : Bool)
  | ioEnd (tag : Nat)
  | flush
  | setCur (tag : Nat)
  | proto (p : Proto)
deriving Repr, Inhabited

namespace State

def fail (s : State) (msg : String) : State := { s with panic := some msg }

def getFile (s : State) (sid : Nat) : Option OFile := s.files.find? (fun f => f.sid == sid)
def getClient (s : State) (cl : Nat) : Option Client := s.clients.find? (fun c => c.id == cl)
def getPool (s : State) (file : Nat) : Option PoolEnt := s.pool.find? (fun e => e.file == file)
def getTemp (s : State) (tag : Nat) : Option Temp := s.temps.find? (fun t => t.tag == tag)
def getLO (s : State) (cl key : Nat) : Option LOwner :=
  s.lowners.find? (fun l => l.cl == cl && l.key == key)
def getOO (s : State) (cl key : Nat) : Option OOwner :=
  s.oowners.find? (fun o => o.cl == cl && o.key == key)

def modFile (s : State) (sid : Nat) (g : OFile → OFile) : State :=
  { s with files := s.files.map (fun f => if f.sid == sid then g f else f) }
def modClient (s : State) (cl : Nat) (g : Client → Client) : State :=
  { s with clients := s.clients.map (fun c => if c.id == cl then g c else c) }
def modPool (s : State) (file : Nat) (g : PoolEnt → PoolEnt) : State :=
  { s with pool := s.pool.map (fun e => if e.file == file then g e else e) }

/-- `ll.leaves = append(ll.leaves, leafToClose{leaf, shareAccess})` when the mask is not empty. -/
def pushPend (s : State) (leaf : Nat) (m : Mask) : State :=
  if m.isNone then s else { s with pend := s.pend ++ [(s.cur, leaf, m)] }

/-- `clientConfirmationState.hold` / `clientIncarnationState.hold`. -/
def holdClient (s : State) (cl : Nat) : State :=
  match s.getClient cl with
  | none => s
  | some c =>
    let s := if c.hold = 0 then { s with idle := s.idle.erase cl } else s
    s.modClient cl (fun c => { c with hold := c.hold + 1 })

/-- `….release(p)`: panics on a zero hold count; re-inserts into the idle list
(tail, `lastSeen = p.now`) when the count drops to zero. -/
def releaseClient (s : State) (cl : Nat) : State :=
  match s.getClient cl with
  | none => s
  | some c =>
    if c.hold = 0 then s.fail "Attempted to decrease zero hold count"
    else if c.hold = 1 then
      { s.modClient cl (fun c => { c with hold := 0, lastSeen := s.now }) with idle := s.idle ++ [cl] }
    else s.modClient cl (fun c => { c with hold := c.hold - 1 })

/-- Remove the records nobody can reach any more: not in the maps and no I/O
referring to it (Go: garbage). -/
def gc (s : State) : State :=
  { s with files := s.files.filter (fun f => f.live || s.ios.any (fun io => io.sid == f.sid)) }

end State

/-! ### The actions, one function each

`apply` below dispatches to these (and does nothing once `panic` is set). -/
namespace Do
open State

def tick (s : State) (d : Nat) : State := { s with clock := s.clock + d }

/-- `enter()`: `now := p.clock.Now(); if p.now.Before(now) { p.now = now }` -/
def setNow (s : State) : State := { s with now := max s.now s.clock }

/-- SETCLIENTID / EXCHANGE_ID creating a new record: `insertIntoIdleList` -/
def newClient (s : State) (long ver : Nat) : State :=
  if s.clients.any (fun c => c.long == long && c.ver == ver) then s else
  let c : Client := { id := s.nextId, long := long, ver := ver, confirmed := false, hold := 0,
                      lastSeen := s.now, sessions := [] }
  { s with clients := s.clients ++ [c], idle := s.idle ++ [s.nextId], nextId := s.nextId + 1 }

/-- `hold(p); defer release(p)` within one lock-held segment (RENEW, LOCKT,
RELEASE_LOCKOWNER, SETCLIENTID_CONFIRM, CREATE_SESSION, 4.0 transactions) -/
def touch (s : State) (cl : Nat) : State := releaseClient (holdClient s cl) cl

/-- SETCLIENTID_CONFIRM: `client.confirmed = &confirmedClientState{…}` (panics
"Attempted to replace confirmed client record"); CREATE_SESSION:
`client.confirmedIncarnation = cis` -/
def confirmClient (s : State) (cl : Nat) : State :=
  match s.getClient cl with
  | none => s
  | some c =>
    if s.clients.any (fun d => d.long == c.long && d.confirmed && d.id != cl) then
      s.fail "Attempted to replace confirmed client record"
    else s.modClient cl (fun c => { c with confirmed := true })

/-- tail of `clientConfirmationState.remove` / `clientIncarnationState.remove`:
the panics of the latter, and the former's "Removing open-owners should have
removed lock-owners as well" -/
def dropClient (s : State) (cl : Nat) : State :=
  match s.getClient cl with
  | none => s
  | some c =>
    if c.hold != 0 then s.fail "Attempted to remove a client that was running one or more blocking operations"
    else if s.files.any (fun f => f.live && f.cl == cl) then s.fail "Client still has one or more open-owner files"
    else if s.oowners.any (fun o => o.cl == cl) then s.fail "Client still has one or more open-owners"
    else if s.lowners.any (fun l => l.cl == cl) then s.fail "Removing open-owners should have removed lock-owners as well"
    else if !c.sessions.isEmpty then s.fail "Client incarnation still has one or more sessions"
    else { s with clients := s.clients.filter (fun c => c.id != cl), idle := s.idle.erase cl }

/-- CREATE_SESSION / `sessionState.remove` -/
def addSession (s : State) (cl k : Nat) : State := s.modClient cl (fun c => { c with sessions := c.sessions ++ [k] })
def delSession (s : State) (cl k : Nat) : State := s.modClient cl (fun c => { c with sessions := c.sessions.erase k })

/-- 4.1 `opSequence`: `session.clientIncarnation.hold()`; 4.0 `startTransaction`
of OPEN: `oos.confirmedClient.confirmation.hold(p)` -/
def holdBegin (s : State) (tag cl : Nat) : State :=
  if (s.getClient cl).isNone || s.holders.any (fun h => h.tag == tag) then s else
  holdClient { s with holders := s.holders ++ [{ tag := tag, cl := cl }] } cl

/-- 4.1 end of `opSequence`: `release(p)`; 4.0 `openOwnerTransaction.complete` -/
def holdEnd (s : State) (tag : Nat) : State :=
  match s.holders.find? (fun h => h.tag == tag) with
  | none => s
  | some h => releaseClient { s with holders := s.holders.filter (fun h => h.tag != tag) } h.cl

/-- 4.0 open-owner records: `confirmedClient.openOwners[key] = oos` and updates -/
def ooSet (s : State) (oo : OOwner) : State :=
  match s.getClient oo.cl with
  | none => s
  | some c =>
    if !c.confirmed then s else
    if s.oowners.any (fun o => o.cl == oo.cl && o.key == oo.key) then
      { s with oowners := s.oowners.map (fun o => if o.cl == oo.cl && o.key == oo.key then oo else o) }
    else { s with oowners := s.oowners ++ [oo] }

/-- `delete(oos.confirmedClient.openOwners, oos.key)` (after `reinitialize`) -/
def ooDel (s : State) (cl key : Nat) : State :=
  if s.files.any (fun f => f.live && f.cl == cl && f.owner == key) then
    s.fail "open-owner removed while it has files"
  else { s with oowners := s.oowners.filter (fun o => !(o.cl == cl && o.key == key)) }

/-- LOCK with new_lock_owner: `lockOwners[key] = los` / `cis.lockOwnersByOwner[key] = los` (fix adfdf7d) -/
def loRegister (s : State) (cl key : Nat) : State :=
  if (s.getClient cl).isNone || (s.getLO cl key).isSome then s else
  let l : LOwner := { id := s.nextId, cl := cl, key := key, lastSeq := 0, resp := none }
  { s with lowners := s.lowners ++ [l], nextId := s.nextId + 1 }

/-- 4.0 `if len(los.files) == 0 { delete(lockOwners, key) }`; 4.1 `decreaseFileCount` -/
def loPrune (s : State) (id : Nat) : State :=
  if s.files.any (fun f => f.lofs.any (fun l => l.lo == id)) then s
  else { s with lowners := s.lowners.filter (fun l => l.id != id) }

def loSet (s : State) (id lastSeq : Nat) (resp : Option (Nat × String × Nat × Nat)) : State :=
  { s with lowners := s.lowners.map (fun l => if l.id == id then { l with lastSeq := lastSeq, resp := resp } else l) }

/-- a call `VirtualOpenChild` / `VirtualOpenSelf` that succeeded (tags are request ids: unique) -/
def vopen (s : State) (tag leaf : Nat) (m : Mask) (create trunc : Bool) : State :=
  if s.temps.any (fun t => t.tag == tag) then s else
  { s with log := s.log ++ [.openEv leaf m create trunc], temps := s.temps ++ [{ tag := tag, leaf := leaf, share := m }] }

/-- special-state-ID I/O cleanup: `currentLeaf.VirtualClose(shareAccess)` -/
def tempClose (s : State) (tag : Nat) : State :=
  match s.getTemp tag with
  | none => s
  | some t => { s with temps := s.temps.filter (fun t => t.tag != tag), log := s.log ++ [.closeEv t.leaf t.share] }

/-- 4.1 OPEN CLAIM_PREVIOUS without state: `ll.leaves = append(…{leaf, shareAccess})` -/
def tempToPend (s : State) (tag : Nat) : State :=
  match s.getTemp tag with
  | none => s
  | some t => pushPend { s with temps := s.temps.filter (fun t => t.tag != tag) } t.leaf t.share

/-- OPEN creating a new open-owner file: `openedFilesPool.Open(handle, leaf)`,
`shareCount.upgrade(&oofs.shareAccess, shareAccess)` on the zero value -/
def openNew (s : State) (tag cl owner : Nat) : State :=
  match s.getTemp tag with
  | none => s
  | some t =>
    if (s.getClient cl).isNone then s else
    let u := upgrade ShareCount.zero Mask.none t.share
    let f : OFile := { sid := s.nextId, cl := cl, owner := owner, file := t.leaf, share := u.2.1, count := u.1,
                       lofs := [], live := true }
    let pool := if (s.getPool t.leaf).isSome
      then s.pool.map (fun e => if e.file == t.leaf then { e with useCount := e.useCount + 1 } else e)
      else s.pool ++ [{ file := t.leaf, useCount := 1, locks := [] }]
    { s with files := s.files ++ [f], pool := pool, temps := s.temps.filter (fun t => t.tag != tag),
             nextId := s.nextId + 1 }

/-- `oofs.upgrade(shareAccess, leaf, ll)` -/
def openUpgrade (s : State) (tag sid : Nat) : State :=
  match s.getTemp tag, s.getFile sid with
  | some t, some f =>
    if !f.live || f.file != t.leaf then s else
    let u := upgrade f.count f.share t.share
    pushPend ({ s with temps := s.temps.filter (fun t => t.tag != tag) }.modFile sid
      (fun f => { f with count := u.1, share := u.2.1 })) t.leaf u.2.2
  | _, _ => s

/-- `oofs.downgradeShareAccess(&oofs.shareAccess, new, ll)` (OPEN_DOWNGRADE after
its `shareAccess&^oofs.shareAccess != 0` check; CLOSE / removeStart with 0) -/
def downgradeOpen (s : State) (sid : Nat) (new : Mask) : State :=
  match s.getFile sid with
  | none => s
  | some f =>
    if !f.live || !new.subset f.share then s else
    match downgrade f.count f.share new with
    | none => s.fail "Attempted to decrease zero reference count"
    | some (c, z) => pushPend (s.modFile sid (fun f => { f with count := c, share := new })) f.file z

/-- LOCK creating a lock-owner file: `shareAccess: oofs.shareCount.clone(oofs.shareAccess)` -/
def addLofs (s : State) (sid lo : Nat) : State :=
  match s.getFile sid with
  | none => s
  | some f =>
    if !f.live || f.lofs.any (fun l => l.lo == lo) || !s.lowners.any (fun l => l.id == lo && l.cl == f.cl) then s else
    match clone f.count f.share with
    | none => s.fail "Attempted to increase zero reference count"
    | some c =>
      let l : LOFile := { sid := s.nextId, lo := lo, share := f.share, lockCount := 0 }
      let s' := s.modFile sid (fun f => { f with count := c, lofs := f.lofs ++ [l] })
      { s' with nextId := s.nextId + 1 }

/-- `nfs41LockOwnerFileState.remove` (panics "Lock-owner file still holds one or
more locks"); tail of `nfs40LockOwnerFileState.remove` ("Failed to release locks") -/
def removeLofs (s : State) (sid lsid : Nat) : State :=
  match s.getFile sid with
  | none => s
  | some f =>
    match f.lofs.find? (fun l => l.sid == lsid) with
    | none => s
    | some l =>
      if l.lockCount != 0 then s.fail "Lock-owner file still holds one or more locks" else
      match downgrade f.count l.share Mask.none with
      | none => s.fail "Attempted to decrease zero reference count"
      | some (c, z) =>
        pushPend (s.modFile sid (fun f => { f with count := c, lofs := f.lofs.filter (fun l => l.sid != lsid) }))
          f.file z

/-- `if lofs.lockCount > 0 { lofs.lockCount += openedFile.UnlockAll(&lockOwner.owner) }` -/
def unlockAllLofs (s : State) (sid lsid : Nat) : State :=
  match s.getFile sid with
  | none => s
  | some f =>
    match f.lofs.find? (fun l => l.sid == lsid), s.getPool f.file with
    | some l, some e =>
      if l.lockCount ≤ 0 then s else
      let r := BRL.set e.locks ⟨0, LockRange.maxU64, l.lo, .unlocked⟩
      (s.modPool f.file (fun e => { e with locks := r.1 })).modFile sid (fun f =>
        { f with lofs := f.lofs.map (fun l => if l.sid == lsid then { l with lockCount := l.lockCount + r.2 } else l) })
    | _, _ => s

/-- `OpenedFile.Lock` / `Unlock` after `Test`: `lofs.lockCount += locks.Set(&lock)`
(panics "Negative lock count") -/
def lockSet (s : State) (sid lsid : Nat) (lk : BRL.Lock) : State :=
  match s.getFile sid with
  | none => s
  | some f =>
    match f.lofs.find? (fun l => l.sid == lsid), s.getPool f.file with
    | some l, some e =>
      let r := BRL.set e.locks { lk with owner := l.lo }
      if l.lockCount + r.2 < 0 then s.fail "Negative lock count" else
      (s.modPool f.file (fun e => { e with locks := r.1 })).modFile sid (fun f =>
        { f with lofs := f.lofs.map (fun l => if l.sid == lsid then { l with lockCount := l.lockCount + r.2 } else l) })
    | _, _ => s

/-- 4.0 `removeFinalize`, tail of 4.1 `nfs41OpenOwnerFileState.remove`:
`oofs.openedFile.Close()` and removal from the maps.  Every call site has run
`removeStart` / the first half of `remove` before (no share reservation and no
lock-owner file left); the action does nothing otherwise. -/
def finalize (s : State) (sid : Nat) : State :=
  match s.getFile sid with
  | none => s
  | some f =>
    if !f.live || !f.share.isNone || !f.lofs.isEmpty then s else
    match s.getPool f.file with
    | none => s.fail "Attempted to decrease zero reference count"
    | some e =>
      if e.useCount = 0 then s.fail "Attempted to decrease zero reference count" else
      let pool := if e.useCount = 1 then s.pool.filter (fun e => e.file != f.file)
        else s.pool.map (fun e => if e.file == f.file then { e with useCount := e.useCount - 1 } else e)
      gc ({ s with pool := pool }.modFile sid (fun f => { f with live := false }))

/-- `getOpenedLeafWithRegularStateID`: `oofs.shareCount.clone(shareAccess)` (+ 4.0 `hold`) -/
def ioBegin (s : State) (tag sid : Nat) (m : Mask) (holds : Bool) : State :=
  match s.getFile sid with
  | none => s
  | some f =>
    if !f.live || s.ios.any (fun io => io.tag == tag) || (s.getClient f.cl).isNone then s else
    match clone f.count m with
    | none => s.fail "Attempted to increase zero reference count"
    | some c =>
      let io : IOrec := { tag := tag, sid := sid, cl := f.cl, share := m, holds := holds }
      let s1 := s.modFile sid (fun f => { f with count := c })
      let s2 := { s1 with ios := s.ios ++ [io] }
      if holds then holdClient s2 f.cl else s2

/-- its cleanup closure: `oofs.downgradeShareAccess(&clonedShareAccess, 0, &ll)` (+ `release`) -/
def ioEnd (s : State) (tag : Nat) : State :=
  match s.ios.find? (fun io => io.tag == tag) with
  | none => s
  | some io =>
    match s.getFile io.sid with
    | none => s
    | some f =>
      match downgrade f.count io.share Mask.none with
      | none => s.fail "Attempted to decrease zero reference count"
      | some (c, z) =>
        let s1 := pushPend ({ s with ios := s.ios.filter (fun io => io.tag != tag) }.modFile io.sid
          (fun f => { f with count := c })) f.file z
        gc (if io.holds then releaseClient s1 io.cl else s1)

/-- `ll.closeAll()` of the current request: one `VirtualClose` per step -/
def flush (s : State) : State :=
  match s.pend.find? (fun p => p.1 == s.cur) with
  | none => s
  | some (_, leaf, m) =>
    { s with pend := s.pend.eraseP (fun p => p.1 == s.cur), log := s.log ++ [.closeEv leaf m] }

def setCur (s : State) (tag : Nat) : State := { s with cur := tag }
def setProto (s : State) (p : Proto) : State := { s with proto := p }

end Do

/-- One core action. -/
def apply (s : State) (a : Act) : State :=
  if s.panic.isSome then s else
  match a with
  | .tick d => Do.tick s d
  | .setNow => Do.setNow s
  | .newClient long ver => Do.newClient s long ver
  | .touch cl => Do.touch s cl
  | .confirmClient cl => Do.confirmClient s cl
  | .dropClient cl => Do.dropClient s cl
  | .addSession cl k => Do.addSession s cl k
  | .delSession cl k => Do.delSession s cl k
  | .holdBegin tag cl => Do.holdBegin s tag cl
  | .holdEnd tag => Do.holdEnd s tag
  | .ooSet oo => Do.ooSet s oo
  | .ooDel cl key => Do.ooDel s cl key
  | .loRegister cl key => Do.loRegister s cl key
  | .loPrune id => Do.loPrune s id
  | .loSet id lastSeq resp => Do.loSet s id lastSeq resp
  | .vopen tag leaf m create trunc => Do.vopen s tag leaf m create trunc
  | .tempClose tag => Do.tempClose s tag
  | .tempToPend tag => Do.tempToPend s tag
  | .openNew tag cl owner => Do.openNew s tag cl owner
  | .openUpgrade tag sid => Do.openUpgrade s tag sid
  | .downgradeOpen sid new => Do.downgradeOpen s sid new
  | .addLofs sid lo => Do.addLofs s sid lo
  | .removeLofs sid lsid => Do.removeLofs s sid lsid
  | .unlockAllLofs sid lsid => Do.unlockAllLofs s sid lsid
  | .lockSet sid lsid lk => Do.lockSet s sid lsid lk
  | .finalize sid => Do.finalize s sid
  | .ioBegin tag sid m holds => Do.ioBegin s tag sid m holds
  | .ioEnd tag => Do.ioEnd s tag
  | .flush => Do.flush s
  | .setCur tag => Do.setCur s tag
  | .proto p => Do.setProto s p

def applyAll (s : State) (acts : List Act) : State := acts.foldl apply s


/-! ## Protocol layer

`plan s op` runs the Go control flow of one lock-held *segment* of a COMPOUND
operation on a private copy of the state, recording every core action it
performs; `step` replays exactly these actions.  Nothing below is referred to by
a theorem; it is tied to the code by the correspondence harness.

Code paths (file `nfs40_program.go` = 40, `nfs41_program.go` = 41):
`enter` – 40 `enter()` l. 406, 41 `enter()` l. 107; `removeClient` – 40
`clientConfirmationState.remove` l. 2621, 41 `emptyAndRemove` l. 1347;
`closeStart` – 40 `removeStart` l. 2930 (+`nfs40LockOwnerFileState.remove`),
41 first half of `nfs41OpenOwnerFileState.remove` l. 1494 (+`unlockAndRemove`);
`startTx`/`completeTx` – 40 `startTransaction` l. 2789 / `complete` l. 2859;
`loStartTx` – 40 `nfs40LockOwnerState.startTransaction` l. 3000; the `Op`
constructors name the operation (`opOpen`, `txOpen`, `opClose`, …) they follow.
-/

-- NFSv4 status codes used by the model.
namespace St
def ok := 0
def noent := 2
def exist := 17
def notdir := 20
def isdir := 21
def inval := 22
def io := 5
def stale := 70
def delay := 10008
def denied := 10010
def shareDenied := 10015
def nofilehandle := 10020
def staleClientid := 10022
def oldStateid := 10024
def badStateid := 10025
def badSeqid := 10026
def reclaimBad := 10034
def locksHeld := 10037
def openmode := 10038
def badsession := 10052
def clientidBusy := 10074
end St

-- Operation kinds for the 4.0 reply caches.
namespace Kind
def openK := 1
def openConfirm := 2
def downgrade := 3
def close := 4
def lock := 5
def locku := 6
end Kind

/-- Special state ID names in requests. -/
def sidAnon : Nat := 0
def sidBypass : Nat := 999999

inductive Op
  | tick (d : Nat)
  /-- 40 SETCLIENTID / 41 EXCHANGE_ID -/
  | setclientid (long ver : Nat)
  /-- 40 SETCLIENTID_CONFIRM with the record's id and verifier / 41 CREATE_SESSION with its next sequence id -/
  | confirm (cl : Nat)
  | destroySession (cl k : Nat)
  | destroyClient (cl : Nat)
  | renew (cl : Nat)
  | seqBegin (tag cl k : Nat)
  | seqEnd (tag : Nat)
  /-- 40 OPEN until the lock is dropped (`opOpen`, `startTransaction`, head of `txOpen`).
  `how`: 0 nocreate, 1 unchecked, 2 unchecked+truncate, 3 guarded; `claim`: 0 NULL, 1 FH, 2 PREVIOUS,
  3 PREVIOUS with a delegation type other than OPEN_DELEGATE_NONE. -/
  | open40a (tag cl key seq acc deny how claim fh name : Nat)
  /-- 40 the `VirtualOpenChild` / `VirtualOpenSelf` call of `txOpen` -/
  | open40b (tag : Nat)
  /-- 40 re-entry, bookkeeping and `transaction.complete` -/
  | open40c (tag : Nat)
  /-- 41 `opOpen` up to and including the `VirtualOpen…` call (`q` = enclosing SEQUENCE); `chk = 0`:
  the PUTFH of the compound was already evaluated (request parked at the leaf before the call) -/
  | open41a (tag q key acc deny how claim fh name chk : Nat)
  /-- 41 `opOpen` bookkeeping under `cis.lock` -/
  | open41b (tag : Nat)
  | openConfirm (sid sseq fh oseq : Nat)
  | downgrade (q sid sseq fh oseq acc deny : Nat)
  | close (q sid sseq fh oseq : Nat)
  | lockNew (q sid sseq fh oseq lcl lokey lseq ty off len : Nat)
  | lockOld (q lsid lsseq fh lseq ty off len : Nat)
  | lockt (q cl lokey fh ty off len : Nat)
  | locku (q lsid lsseq fh lseq off len : Nat)
  | releaseLockOwner (cl lokey : Nat)
  | freeStateid (q sid sseq : Nat)
  /-- READ (kind 0) / WRITE (1) / SETATTR (2) until the leaf is called -/
  | ioA (tag q sid sseq fh kind : Nat)
  /-- … and its cleanup -/
  | ioB (tag fault : Nat)
  | putfh (fh : Nat)
  | unlink (dir name : Nat)
deriving Repr, Inhabited

structure PlanSt where
  s : State
  acts : Array Act := #[]
  out : Array String := #[]

abbrev PlanM := StateM PlanSt

namespace PlanM
def emit (a : Act) : PlanM Unit := modify fun p => { p with s := apply p.s a, acts := p.acts.push a }
def say (t : String) : PlanM Unit := modify fun p => { p with out := p.out.push t }
def cur : PlanM State := do return (← get).s
def status (c : Nat) : PlanM Unit := say s!"st={c}"
end PlanM
open PlanM

/-- file handle encoding of op lines: 0 none, 1+2i file (leaf) i, 2+2i directory i -/
def fhIsFile (fh : Nat) : Bool := fh ≠ 0 && fh % 2 == 1
def fhIsDir (fh : Nat) : Bool := fh ≠ 0 && fh % 2 == 0
def fhIndex (fh : Nat) : Nat := (fh - 1) / 2

def seqOf (s : State) (sid : Nat) : Nat := ((s.proto.seqs.find? (fun p => p.1 == sid)).map (·.2)).getD 0
def setSeq (sid n : Nat) : PlanM Unit := do
  let s ← cur
  emit (.proto { s.proto with seqs := (sid, n) :: s.proto.seqs.filter (fun p => p.1 != sid) })
def modProto (g : Proto → Proto) : PlanM Unit := do
  let s ← cur
  emit (.proto (g s.proto))

def flushAll : PlanM Unit := do
  let s ← cur
  for p in s.pend do
    if p.1 == s.cur then emit .flush

/-! ### Removal of open-owner files, open-owners and client records

These are pure functions from the state (at the beginning of the removal) to
the list of core actions, so that theorems can talk about them
(`Properties/C18.lean`: `expiry_empties`, `closed_means_closed`); the plan
emits exactly these lists. -/

/-- `removeStart` (40) / first half of `nfs41OpenOwnerFileState.remove` (41):
unlock and remove every lock-owner file, then give up the open's own share
reservation. -/
def closeStartActs (s : State) (sid : Nat) : List Act :=
  match s.getFile sid with
  | none => []
  | some f =>
    f.lofs.flatMap (fun l => [Act.unlockAllLofs sid l.sid, Act.removeLofs sid l.sid, Act.loPrune l.lo]) ++
      [Act.downgradeOpen sid Mask.none]

/-- … followed by `removeFinalize` (40) / the second half of `remove` (41). -/
def closeAndFinalizeActs (s : State) (sid : Nat) : List Act :=
  closeStartActs s sid ++ [Act.finalize sid]

/-- 40 `nfs40OpenOwnerState.remove`: `reinitialize` (close every file of the owner) and delete the owner. -/
def removeOwnerActs (s : State) (cl key : Nat) : List Act :=
  (s.files.filter (fun f => f.live && f.cl == cl && f.owner == key)).flatMap (fun f => closeAndFinalizeActs s f.sid) ++
    [Act.ooDel cl key]

/-- 40 `clientConfirmationState.remove` / 41 `clientIncarnationState.emptyAndRemove`:
close every file of the record, delete its open-owners (40) / sessions (41),
delete the record. -/
def removeClientActs (s : State) (cl : Nat) : List Act :=
  (s.files.filter (fun f => f.live && f.cl == cl)).flatMap (fun f => closeAndFinalizeActs s f.sid) ++
  ((s.oowners.filter (fun o => o.cl == cl)).map (fun o => Act.ooDel o.cl o.key)) ++
  (match s.getClient cl with
   | some c => c.sessions.map (fun k => Act.delSession cl k)
   | none => []) ++
  [Act.dropClient cl]

/-- The records `enter()` expires: the idle list, head first, while `lastSeen` is
more than a lease time ago (`lastSeen.Before(now - lease)`). -/
def expiredClients (s : State) : List Nat :=
  s.idle.takeWhile (fun cl => match s.getClient cl with
    | some c => decide (c.lastSeen + s.lease < s.now)
    | none => false)

/-- First loop of `enter()`. -/
def expireActs (s : State) : List Act := (expiredClients s).flatMap (removeClientActs s)

def emitAll (acts : List Act) : PlanM Unit := do
  for a in acts do emit a

def closeStart (sid : Nat) : PlanM Unit := do
  emitAll (closeStartActs (← cur) sid)

def closeAndFinalize (sid : Nat) : PlanM Unit := do
  emitAll (closeAndFinalizeActs (← cur) sid)

/-- 40 `reinitialize` without deleting the owner. -/
def reinitOwner (cl key : Nat) : PlanM Unit := do
  let s ← cur
  emitAll ((s.files.filter (fun f => f.live && f.cl == cl && f.owner == key)).flatMap (fun f => closeAndFinalizeActs s f.sid))

def removeOwner40 (cl key : Nat) : PlanM Unit := do
  emitAll (removeOwnerActs (← cur) cl key)
  modProto fun p => { p with unused := p.unused.filter (fun u => !(u.1 == cl && u.2 == key)) }

def removeClient (cl : Nat) : PlanM Unit := do
  emitAll (removeClientActs (← cur) cl)
  modProto fun p => { p with unused := p.unused.filter (fun u => u.1 != cl) }

/-- One pass of the expiry loops of `enter()`; returns whether anything was removed. -/
def expirePass : PlanM Bool := do
  let s ← cur
  let victims := expiredClients s
  emitAll (expireActs s)
  modProto fun p => { p with unused := p.unused.filter (fun u => !victims.contains u.1) }
  let mut any := !victims.isEmpty
  if s.ver == 40 then
    let s ← cur
    let mut go2 := true
    for u in s.proto.unused do
      if go2 then
        match s.getOO u.1 u.2 with
        | some o =>
          if o.lastUsed + s.lease < s.now then
            removeOwner40 u.1 u.2
            any := true
          else go2 := false
        | none => go2 := false
  return any

/-- `enter()`: take the lock, advance `now`, expire; if files have to be closed,
drop the lock, close them and retry. -/
def enter : PlanM Unit := do
  emit .setNow
  let s ← cur
  let tag := s.cur
  -- `enter()` has its own `leavesToClose`
  emit (.setCur 999999999)
  let removed ← expirePass
  if removed then
    flushAll
    -- the retry finds nothing more to expire (the clock did not move)
    emit .setNow
  emit (.setCur tag)

/-- 40 `getConfirmedClientByShortID`. -/
def confirmedClient (s : State) (cl : Nat) : Option Client :=
  match s.getClient cl with
  | some c => if c.confirmed then some c else none
  | none => none

/-- `nextSeqID` (40) / `incrementSeqID` (41): seqids are `uint32`, `2^32-1` is followed by 1
(0 is reserved, RFC 7530 9.1.3 / RFC 8881 8.2.2). -/
def nextSeq (n : Nat) : Nat := if n == 4294967295 then 1 else n + 1

/-- `nfs40CompareStateSeqID` / `nfs41CompareStateSeqID` on `uint32` values:
equal (41: or the client sent 0) is fine; otherwise `int32(client - server) > 0`, i.e. the
client's value lies up to 2^31-1 ahead modulo 2^32, is NFS4ERR_BAD_STATEID (a seqid from the
future), anything else NFS4ERR_OLD_STATEID. -/
def cmpSeq (ver client server : Nat) : Nat :=
  if ver == 41 && client == 0 then St.ok
  else if client == server then St.ok
  else if (client + 4294967296 - server) % 4294967296 < 2147483648 then St.badStateid
  else St.oldStateid

/-- Result of looking up an open / lock state ID. -/
structure Found where
  st : Nat
  f : Option OFile := none
  l : Option LOFile := none

/-- client of the request: 41 the incarnation of the enclosing SEQUENCE -/
def reqClient (s : State) (q : Nat) : Option Nat := (s.holders.find? (fun h => h.tag == q)).map (·.cl)

/-- State IDs of 41 are looked up in the maps of the session's incarnation; 40 has program-wide maps. -/
def visible (s : State) (q : Nat) (f : OFile) : Bool :=
  s.ver == 40 || reqClient s q == some f.cl

/-- 40 `getOpenOwnerFileByStateID` l. 769 / 41 l. 1622. -/
def findOpen (s : State) (q sid sseq fh : Nat) (allowUnconfirmed : Bool) : Found :=
  if s.ver == 40 then
    match s.files.find? (fun f => f.live && f.sid == sid) with
    | none => { st := St.badStateid }
    | some f =>
      if fh == 0 then { st := St.nofilehandle }
      else if f.share.isNone then { st := St.badStateid }
      else if !(fhIsFile fh && fhIndex fh == f.file) then { st := St.badStateid }
      else if !allowUnconfirmed && !((s.getOO f.cl f.owner).map (·.confirmed)).getD false then { st := St.badStateid }
      else { st := cmpSeq 40 sseq (seqOf s sid), f := some f }
  else
    if fh == 0 then { st := St.nofilehandle }
    else if sid == sidAnon || sid == sidBypass then { st := St.badStateid }
    else match s.files.find? (fun f => f.live && f.sid == sid && visible s q f) with
      | none => { st := St.badStateid }
      | some f =>
        if !(fhIsFile fh && fhIndex fh == f.file) then { st := St.badStateid }
        else { st := cmpSeq 41 sseq (seqOf s sid), f := some f }

/-- 40 `getLockOwnerFileByStateID` l. 804 / 41 l. 1663. -/
def findLock (s : State) (q lsid lsseq fh : Nat) : Found :=
  if s.ver == 41 && fh == 0 then { st := St.nofilehandle }
  else if s.ver == 41 && (lsid == sidAnon || lsid == sidBypass) then { st := St.badStateid }
  else
    match s.files.find? (fun f => f.live && visible s q f && f.lofs.any (fun l => l.sid == lsid)) with
    | none => { st := St.badStateid }
    | some f =>
      match f.lofs.find? (fun l => l.sid == lsid) with
      | none => { st := St.badStateid }
      | some l =>
        if fh == 0 then { st := St.nofilehandle }
        else if !(fhIsFile fh && fhIndex fh == f.file) then { st := St.badStateid }
        else { st := cmpSeq s.ver lsseq (seqOf s lsid), f := some f, l := some l }

/-- `getOpenedLeafWithRegularStateID` (40 l. 862, 41 l. 1726): the open-owner file whose share
reservation READ / WRITE / SETATTR with a regular state ID may clone, or the error.  An open
state ID needs the wanted bits in the open's current `shareAccess`; if the ID is not an open
state ID (NFS4ERR_BAD_STATEID) it is tried as a lock state ID, which needs the bits in the
mask captured when the lock-owner file was created; otherwise NFS4ERR_OPENMODE. -/
def ioTarget (s : State) (q sid sseq fh : Nat) (want : Mask) : Nat × Option OFile :=
  let r := findOpen s q sid sseq fh false
  if r.st == St.ok then
    match r.f with
    | some f => if !want.subset f.share then (St.openmode, none) else (St.ok, some f)
    | none => (St.badStateid, none)
  else if r.st == St.badStateid then
    let rl := findLock s q sid sseq fh
    if rl.st != St.ok then (rl.st, none)
    else match rl.f, rl.l with
      | some f, some l => if !want.subset l.share then (St.openmode, none) else (St.ok, some f)
      | _, _ => (St.badStateid, none)
  else (r.st, none)

/-- `transactionShouldComplete`. -/
def shouldComplete (st : Nat) : Bool :=
  st != St.staleClientid && st != 10023 && st != St.badStateid && st != St.badSeqid &&
  st != 10036 && st != 10018 && st != St.nofilehandle && st != 10019

/-- `nfs40OpenOwnerState.isUnused`. -/
def ownerUnused (s : State) (o : OOwner) : Bool :=
  let n := (s.files.filter (fun f => f.live && f.cl == o.cl && f.owner == o.key)).length
  n == 0 || (n == 1 && (match o.resp with | some (_, _, _, _, some _) => true | _ => false)) || !o.confirmed

/-- `forgetLastResponse`: drop the cached reply and finalize the file it closed. -/
def forgetLast (cl key : Nat) : PlanM Unit := do
  let s ← cur
  match s.getOO cl key with
  | some o =>
    match o.resp with
    | some (_, _, _, _, closed) =>
      emit (.ooSet { o with resp := none })
      match closed with
      | some sid => emit (.finalize sid)
      | none => pure ()
    | none => pure ()
  | none => pure ()

inductive TxStart
  | replay (kind : Nat) (out : String) (sid sseq : Nat)
  | bad
  | started

/-- 40 `nfs40OpenOwnerState.startTransaction`; policy 0 allow, 1 deny, 2 reinitialize.
The hold of the client is left to the caller (`touch` for single-segment
transactions, `holdBegin` for OPEN). -/
def startTx (cl key seq policy : Nat) : PlanM TxStart := do
  let s ← cur
  match s.getOO cl key with
  | none => return .bad
  | some o =>
    match o.resp with
    | some (kind, out, sid, sseq, _) =>
      if seq == o.lastSeq then return .replay kind out sid sseq
    | none => pure ()
    if o.confirmed then
      if seq != nextSeq o.lastSeq then return .bad
    else
      if policy == 0 then
        if seq != nextSeq o.lastSeq then return .bad
      else if policy == 1 then return .bad
      else
        forgetLast cl key
        reinitOwner cl key
    forgetLast cl key
    let s ← cur
    match s.getOO cl key with
    | some o => emit (.ooSet { o with tx := true })
    | none => pure ()
    modProto fun p => { p with unused := p.unused.filter (fun u => !(u.1 == cl && u.2 == key)) }
    return .started

/-- 40 `openOwnerTransaction.complete` (without the `release`). -/
def completeTx (cl key seq kind st : Nat) (out : String) (sid sseq : Nat) (closed : Option Nat) : PlanM Unit := do
  let s ← cur
  match s.getOO cl key with
  | none => pure ()
  | some o =>
    let o := { o with tx := false }
    let o := if shouldComplete st then { o with lastSeq := seq, resp := some (kind, out, sid, sseq, closed) } else o
    emit (.ooSet o)
    let s ← cur
    if ownerUnused s o then
      emit (.ooSet { o with lastUsed := s.now })
      modProto fun p => { p with unused := p.unused ++ [(cl, key)] }

/-- Render `sid.seq`. -/
def sidStr (sid seq : Nat) : String := s!"sid={sid}.{seq}"

/-- 40 `isNextStateID(cached, arg)`. -/
def isNext (csid cseq sid sseq : Nat) : Bool := csid == sid && cseq == nextSeq sseq

def lockTy (ty : Nat) : Option BRL.Ty :=
  if ty == 1 || ty == 3 then some .shared else if ty == 2 || ty == 4 then some .excl else none

/-- Rendering of `LOCK4denied`: offset, length, type and owner (key and client of the lock-owner object). -/
def deniedStr (s : State) (c : BRL.Lock) : String :=
  let d := LockRange.toDenied c.start c.stop
  let ty := if c.ty == .shared then 1 else 2
  match s.lowners.find? (fun l => l.id == c.owner) with
  | some l => s!"den={d.1}:{d.2}:{ty}:{l.key}:{l.cl}"
  | none => s!"den={d.1}:{d.2}:{ty}:?"

/-- `OpenedFile.Lock` / `OpenedFilesPool.TestLock`: status and conflicting lock. -/
def tryLock (s : State) (file owner ty off len : Nat) : Nat × Option BRL.Lock × Option BRL.Lock :=
  match LockRange.offsetLengthToStartEnd off len with
  | .error st => (st, none, none)
  | .ok (a, b) =>
    match lockTy ty with
    | none => (St.inval, none, none)
    | some t =>
      let lk : BRL.Lock := ⟨a, b, owner, t⟩
      match s.getPool file with
      | none => (St.ok, none, some lk)
      | some e =>
        match BRL.test e.locks lk with
        | some c => (St.denied, some c, none)
        | none => (St.ok, none, some lk)

def shareOfAcc (acc : Nat) : Option Mask :=
  if acc == 1 then some Mask.read else if acc == 2 then some Mask.write else if acc == 3 then some Mask.both else none

/-- `OpenedFilesPool.Resolve`: opened files resolve through the pool, others only while linked. -/
def resolvable (s : State) (fh : Nat) : Bool :=
  fh == 0 || fhIsDir fh || (s.getPool (fhIndex fh)).isSome || !s.proto.unlinked.contains (fhIndex fh)

/-- An unlinked leaf nobody has open any more: `VirtualOpenSelf` fails with `StatusErrStale`
(`fileBackedFile.referenceCount == 0`).  It can still be reached through PUTFH while a
half-closed 4.0 open-owner file keeps its pool entry. -/
def leafDead (s : State) (leaf : Nat) : Bool :=
  s.proto.unlinked.contains leaf && !s.files.any (fun f => f.file == leaf && !f.count.isZero) &&
  !s.temps.any (fun t => t.leaf == leaf) && !s.pend.any (fun p => p.2.1 == leaf)

def lookupName (s : State) (dir name : Nat) : Option Nat :=
  (s.proto.names.find? (fun n => n.1 == dir && n.2.1 == name)).map (·.2.2)

/-- The `VirtualOpenChild` / `VirtualOpenSelf` call of an OPEN: `none` = opened (temp recorded), `some st` = failed. -/
def doVOpen (tag claim how fh name : Nat) (share : Mask) : PlanM (Option Nat) := do
  let s ← cur
  if claim == 0 then
    if fh == 0 then return some St.nofilehandle
    if !fhIsDir fh then return some St.notdir
    let dir := fhIndex fh
    match lookupName s dir name with
    | some leaf =>
      if how == 3 then return some St.exist
      emit (.vopen tag leaf share false (how == 2))
      return none
    | none =>
      if how == 0 then return some St.noent
      let leaf := s.proto.nextLeaf
      modProto fun p => { p with names := p.names ++ [(dir, name, leaf)], nextLeaf := leaf + 1 }
      emit (.vopen tag leaf share true false)
      return none
  else
    if leafDead s (fhIndex fh) then return some St.stale
    emit (.vopen tag (fhIndex fh) share false (how == 2))
    return none

/-- The request an operation segment belongs to (owner of its `leavesToClose`). -/
def opTag : Op → Nat
  | .open40a tag .. => tag
  | .open40b tag => tag
  | .open40c tag => tag
  | .open41a tag .. => tag
  | .open41b tag => tag
  | .ioA tag .. => tag
  | .ioB tag _ => tag
  | _ => 0

/-- The plan of one operation segment. -/
def planOp (op : Op) : PlanM Unit := do
  emit (.setCur (opTag op))
  let s0 ← cur
  let v40 := s0.ver == 40
  match op with
  | .tick d => emit (.tick d); status St.ok
  | .setclientid long ver =>
    enter
    let s ← cur
    match s.clients.find? (fun c => c.long == long && c.ver == ver) with
    | some c => status St.ok; say s!"c={c.id}"; say s!"conf={if c.confirmed then 1 else 0}"
    | none =>
      emit (.newClient long ver)
      status St.ok; say s!"c={s.nextId}"; say "conf=0"
  | .confirm cl =>
    enter
    let s ← cur
    match s.getClient cl with
    | none => status St.staleClientid
    | some c =>
      if v40 && c.confirmed then status St.ok
      else
        let other := s.clients.find? (fun d => d.long == c.long && d.confirmed && d.id != cl)
        let mut delayed := false
        if !c.confirmed then
          match other with
          | some d =>
            if d.hold > 0 then delayed := true
            else removeClient d.id
          | none => pure ()
        if delayed then
          emit (.touch cl)
          status St.delay
        else
          if !c.confirmed then emit (.confirmClient cl)
          if !v40 then
            let s ← cur
            let k := s.proto.nextSess
            modProto fun p => { p with nextSess := k + 1 }
            emit (.addSession cl k)
            emit (.touch cl)
            status St.ok
            say s!"sess={k}"
          else
            emit (.touch cl)
            status St.ok
      flushAll
  | .destroySession cl k =>
    enter
    let s ← cur
    match s.getClient cl with
    | some c =>
      if c.sessions.contains k then emit (.delSession cl k); status St.ok
      else status St.badsession
    | none => status St.badsession
  | .destroyClient cl =>
    enter
    let s ← cur
    match s.getClient cl with
    | none => status St.staleClientid
    | some c =>
      if c.hold != 0 || s.files.any (fun f => f.live && f.cl == cl) || !c.sessions.isEmpty then status St.clientidBusy
      else emit (.dropClient cl); status St.ok
  | .renew cl =>
    enter
    let s ← cur
    match confirmedClient s cl with
    | none => status St.staleClientid
    | some _ => emit (.touch cl); status St.ok
  | .seqBegin tag cl k =>
    enter
    let s ← cur
    match s.getClient cl with
    | some c =>
      if c.sessions.contains k then emit (.holdBegin tag cl); status St.ok
      else status St.badsession
    | none => status St.badsession
  | .seqEnd tag =>
    enter
    emit (.holdEnd tag)
    status St.ok
  | .open40a tag cl key seq acc deny how claim fh name =>
    enter
    let s ← cur
    match confirmedClient s cl with
    | none => status St.staleClientid
    | some _ =>
      if (s.getOO cl key).isNone then
        emit (.ooSet { cl, key, confirmed := false, lastSeq := 0, resp := none, tx := false, lastUsed := 0 })
      let s ← cur
      if ((s.getOO cl key).map (·.tx)).getD false then say "blocked"
      else
        match ← startTx cl key seq 2 with
        | .replay kind out _ _ => if kind == Kind.openK then say out else status St.badSeqid
        | .bad => status St.badSeqid
        | .started =>
          emit (.holdBegin tag cl)
          -- head of txOpen, still under the lock
          let fin (st : Nat) : PlanM Unit := do
            completeTx cl key seq Kind.openK st s!"st={st}" 0 0 none
            emit (.holdEnd tag)
            status st
          match shareOfAcc acc with
          | none => fin St.inval
          | some _ =>
            if deny != 0 then fin (if deny ≤ 3 then St.shareDenied else St.inval)
            else if how > 3 then fin St.inval
            else if claim == 0 then
              modProto fun p => { p with otx := (tag, cl, key, seq, claim, acc, how * 1000000 + fh * 1000 + name) :: p.otx }
              say "go"
            else if claim == 2 || claim == 3 then
              -- CLAIM_PREVIOUS (3: with a delegation type other than OPEN_DELEGATE_NONE)
              if fh == 0 then fin St.nofilehandle
              else if fhIsDir fh then fin St.isdir
              else
                let s ← cur
                if claim == 3 || !s.files.any (fun f => f.live && f.cl == cl && f.owner == key && f.file == fhIndex fh) then fin St.reclaimBad
                else if how == 3 then fin St.exist
                else
                  modProto fun p => { p with otx := (tag, cl, key, seq, claim, acc, how * 1000000 + fh * 1000 + name) :: p.otx }
                  say "go"
            else fin St.reclaimBad
    -- `defer ll.closeAll()` of opOpen: only when the operation returns
    let s ← cur
    if !s.proto.otx.any (fun t => t.1 == tag) then flushAll
  | .open40b tag =>
    let s ← cur
    match s.proto.otx.find? (fun t => t.1 == tag) with
    | none => say "bad-op"
    | some (_, cl, key, seq, claim, acc, packed) =>
      let how := packed / 1000000
      let fh := (packed / 1000) % 1000
      let name := packed % 1000
      match ← doVOpen tag claim how fh name ((shareOfAcc acc).getD Mask.none) with
      | none => say "go"
      | some st =>
        -- remember the failure for the re-entry segment
        modProto fun p => { p with otx := (tag, cl, key, seq, 100 + st, acc, packed) :: p.otx.filter (fun t => t.1 != tag) }
        say "go"
  | .open40c tag =>
    enter
    let s ← cur
    match s.proto.otx.find? (fun t => t.1 == tag) with
    | none => say "bad-op"
    | some (_, cl, key, seq, claim, _, _) =>
      modProto fun p => { p with otx := p.otx.filter (fun t => t.1 != tag) }
      if claim ≥ 100 then
        let st := claim - 100
        completeTx cl key seq Kind.openK st s!"st={st}" 0 0 none
        emit (.holdEnd tag)
        status st
      else
        match s.getTemp tag with
        | none => say "bad-op"
        | some t =>
          let conf := ((s.getOO cl key).map (·.confirmed)).getD false
          match s.files.find? (fun f => f.live && f.cl == cl && f.owner == key && f.file == t.leaf) with
          | some f =>
            emit (.openUpgrade tag f.sid)
            setSeq f.sid (nextSeq (seqOf s f.sid))
            let out := s!"st=0 {sidStr f.sid (nextSeq (seqOf s f.sid))} conf={if conf then 0 else 1} leaf={t.leaf}"
            completeTx cl key seq Kind.openK St.ok out f.sid (nextSeq (seqOf s f.sid)) none
            emit (.holdEnd tag)
            say out
          | none =>
            let sid := s.nextId
            emit (.openNew tag cl key)
            setSeq sid 1
            let out := s!"st=0 {sidStr sid 1} conf={if conf then 0 else 1} leaf={t.leaf}"
            completeTx cl key seq Kind.openK St.ok out sid 1 none
            emit (.holdEnd tag)
            say out
    flushAll
  | .open41a tag q key acc deny how claim fh name _ =>
    match shareOfAcc acc with
    | none => status St.inval
    | some share =>
      if deny != 0 then status (if deny ≤ 3 then St.shareDenied else St.inval)
      else if how > 3 then status St.inval
      else
        let cl := (reqClient s0 q).getD 0
        let fail? : Option Nat :=
          if claim == 0 then none
          else if fh == 0 then some St.nofilehandle
          else if fhIsDir fh then some St.isdir
          else if how == 3 then some St.exist
          else none
        match fail? with
        | some st => status st
        | none =>
          match ← doVOpen tag claim how fh name share with
          | some st => status st
          | none =>
            modProto fun p => { p with otx := (tag, cl, key, 0, claim, acc, 0) :: p.otx }
            say "go"
  | .open41b tag =>
    let s ← cur
    match s.proto.otx.find? (fun t => t.1 == tag), s.getTemp tag with
    | some (_, cl, key, _, claim, _, _), some t =>
      modProto fun p => { p with otx := p.otx.filter (fun t => t.1 != tag) }
      match (if claim == 3 then none else s.files.find? (fun f => f.live && f.cl == cl && f.owner == key && f.file == t.leaf)) with
      | some f =>
        emit (.openUpgrade tag f.sid)
        setSeq f.sid (nextSeq (seqOf s f.sid))
        status St.ok; say (sidStr f.sid (nextSeq (seqOf s f.sid))); say s!"leaf={t.leaf}"
      | none =>
        -- CLAIM_PREVIOUS without state to reclaim, or with a delegation type: the leaf that was
        -- opened already is closed again (`ll.leaves = append(…)`)
        if claim == 2 || claim == 3 then
          emit (.tempToPend tag)
          status St.reclaimBad
        else
          let sid := s.nextId
          emit (.openNew tag cl key)
          setSeq sid 1
          status St.ok; say (sidStr sid 1); say s!"leaf={t.leaf}"
      flushAll
    | _, _ => say "bad-op"
  | .openConfirm sid sseq fh oseq =>
    if sid == sidAnon || sid == sidBypass then status St.badStateid
    else
      enter
      let s ← cur
      match s.files.find? (fun f => f.live && f.sid == sid) with
      | none => status St.badStateid
      | some f0 =>
        let cl := f0.cl
        let key := f0.owner
        match ← startTx cl key oseq 0 with
        | .replay kind out csid cseq =>
          if kind == Kind.openConfirm && (csid == 0 || isNext csid cseq sid sseq) then say out else status St.badSeqid
        | .bad => status St.badSeqid
        | .started =>
          let s ← cur
          let r := findOpen s 0 sid sseq fh true
          if r.st != St.ok then
            completeTx cl key oseq Kind.openConfirm r.st s!"st={r.st}" 0 0 none
            emit (.touch cl)
            status r.st
          else
            match s.getOO cl key with
            | some o => emit (.ooSet { o with confirmed := true })
            | none => pure ()
            let n := nextSeq (seqOf s sid)
            setSeq sid n
            let out := s!"st=0 {sidStr sid n}"
            completeTx cl key oseq Kind.openConfirm St.ok out sid n none
            emit (.touch cl)
            say out
      flushAll
  | .downgrade q sid sseq fh oseq acc deny =>
    if v40 then
      if sid == sidAnon || sid == sidBypass then status St.badStateid
      else
        enter
        let s ← cur
        match s.files.find? (fun f => f.live && f.sid == sid) with
        | none => status St.badStateid
        | some f0 =>
          let cl := f0.cl
          let key := f0.owner
          match ← startTx cl key oseq 1 with
          | .replay kind out csid cseq =>
            if kind == Kind.downgrade && (csid == 0 || isNext csid cseq sid sseq) then say out else status St.badSeqid
          | .bad => status St.badSeqid
          | .started =>
            let s ← cur
            let r := findOpen s q sid sseq fh false
            let fin (st : Nat) : PlanM Unit := do
              completeTx cl key oseq Kind.downgrade st s!"st={st}" 0 0 none
              emit (.touch cl)
              status st
            if r.st != St.ok then fin r.st
            else
              match shareOfAcc acc, r.f with
              | some new, some f =>
                if !new.subset f.share || deny != 0 then fin St.inval
                else
                  emit (.downgradeOpen sid new)
                  let n := nextSeq (seqOf s sid)
                  setSeq sid n
                  let out := s!"st=0 {sidStr sid n}"
                  completeTx cl key oseq Kind.downgrade St.ok out sid n none
                  emit (.touch cl)
                  say out
              | _, _ => fin St.inval
        flushAll
    else
      match shareOfAcc acc with
      | none => status St.inval
      | some new =>
        let s ← cur
        let r := findOpen s q sid sseq fh false
        match r.f with
        | some f =>
          if r.st != St.ok then status r.st
          else if !new.subset f.share || deny != 0 then status St.inval
          else
            emit (.downgradeOpen f.sid new)
            let n := nextSeq (seqOf s f.sid)
            setSeq f.sid n
            status St.ok; say (sidStr f.sid n)
            flushAll
        | none => status r.st
  | .close q sid sseq fh oseq =>
    if v40 then
      if sid == sidAnon || sid == sidBypass then status St.badStateid
      else
        enter
        let s ← cur
        match s.files.find? (fun f => f.live && f.sid == sid) with
        | none => status St.badStateid
        | some f0 =>
          let cl := f0.cl
          let key := f0.owner
          match ← startTx cl key oseq 1 with
          | .replay kind out csid cseq =>
            if kind == Kind.close && (csid == 0 || isNext csid cseq sid sseq) then say out else status St.badSeqid
          | .bad => status St.badSeqid
          | .started =>
            let s ← cur
            let r := findOpen s q sid sseq fh false
            if r.st != St.ok then
              completeTx cl key oseq Kind.close r.st s!"st={r.st}" 0 0 none
              emit (.touch cl)
              status r.st
            else
              closeStart sid
              let n := nextSeq (seqOf s sid)
              setSeq sid n
              let out := s!"st=0 {sidStr sid n}"
              completeTx cl key oseq Kind.close St.ok out sid n (some sid)
              emit (.touch cl)
              say out
        flushAll
    else
      let s ← cur
      let r := findOpen s q sid sseq fh false
      match r.f with
      | some f =>
        if r.st != St.ok then status r.st
        else
          closeAndFinalize f.sid
          status St.ok
          flushAll
      | none => status r.st
  | .lockNew q sid sseq fh oseq lcl lokey lseq ty off len =>
    if v40 then
      enter
      if sid == sidAnon || sid == sidBypass then status St.badStateid
      else
        let s ← cur
        match s.files.find? (fun f => f.live && f.sid == sid) with
        | none => status St.badStateid
        | some f0 =>
          let cl := f0.cl
          let key := f0.owner
          match ← startTx cl key oseq 1 with
          | .replay kind out _ _ => if kind == Kind.lock then say out else status St.badSeqid
          | .bad => status St.badSeqid
          | .started =>
            let fin (st : Nat) (out : String) (rsid rseq : Nat) : PlanM Unit := do
              completeTx cl key oseq Kind.lock st out rsid rseq none
              emit (.touch cl)
              say out
            let s ← cur
            let r := findOpen s q sid sseq fh false
            if r.st != St.ok then fin r.st s!"st={r.st}" 0 0
            else if lcl != cl then fin St.inval s!"st={St.inval}" 0 0
            else
              let existing := s.getLO cl lokey
              let initial := existing.isNone
              if initial then emit (.loRegister cl lokey)
              let s ← cur
              match s.getLO cl lokey with
              | none => say "bad-op"
              | some lo =>
                if !initial && f0.lofs.any (fun l => l.lo == lo.id) then fin St.badSeqid s!"st={St.badSeqid}" 0 0
                else
                  -- nested lock-owner transaction
                  let replay := match lo.resp with
                    | some (kind, out, _, _) => if lseq == lo.lastSeq then some (kind, out) else none
                    | none => none
                  match replay with
                  | some (kind, out) =>
                    if kind == Kind.lock then fin ((out.drop 3).takeWhile Char.isDigit).toNat! out 0 0
                    else fin St.badSeqid s!"st={St.badSeqid}" 0 0
                  | none =>
                    if !initial && lseq != nextSeq lo.lastSeq then fin St.badSeqid s!"st={St.badSeqid}" 0 0
                    else
                      let lsid := s.nextId
                      emit (.addLofs sid lo.id)
                      setSeq lsid 0
                      let s ← cur
                      let (st, conflict, lk) := tryLock s f0.file lo.id ty off len
                      match lk with
                      | some lk =>
                        emit (.lockSet sid lsid lk)
                        setSeq lsid 1
                        let out := s!"st=0 {sidStr lsid 1}"
                        emit (.loSet lo.id lseq (some (Kind.lock, out, lsid, 1)))
                        fin St.ok out lsid 1
                      | none =>
                        let out := match conflict with
                          | some c => s!"st={st} {deniedStr s c}"
                          | none => s!"st={st}"
                        if shouldComplete st then emit (.loSet lo.id lseq (some (Kind.lock, out, 0, 0)))
                        emit (.removeLofs sid lsid)
                        emit (.loPrune lo.id)
                        fin st out 0 0
        flushAll
    else
      let s ← cur
      let r := findOpen s q sid sseq fh false
      match r.f with
      | none => status r.st
      | some f =>
        if r.st != St.ok then status r.st
        else
          let cl := f.cl
          let fresh := (s.getLO cl lokey).isNone
          if fresh then emit (.loRegister cl lokey)
          let s ← cur
          match s.getLO cl lokey with
          | none => say "bad-op"
          | some lo =>
            let (st, conflict, lk) := tryLock s f.file lo.id ty off len
            match lk with
            | none =>
              status st
              match conflict with
              | some c => say (deniedStr s c)
              | none => pure ()
              emit (.loPrune lo.id)
            | some lk =>
              let lsid ← match f.lofs.find? (fun l => l.lo == lo.id) with
                | some l => pure l.sid
                | none => do
                  let n := s.nextId
                  emit (.addLofs f.sid lo.id)
                  setSeq n 0
                  pure n
              emit (.lockSet f.sid lsid lk)
              let s ← cur
              let n := nextSeq (seqOf s lsid)
              setSeq lsid n
              status St.ok; say (sidStr lsid n)
  | .lockOld q lsid lsseq fh lseq ty off len =>
    if v40 then
      enter
      if lsid == sidAnon || lsid == sidBypass then status St.badStateid
      else
        let s ← cur
        match s.files.find? (fun f => f.live && f.lofs.any (fun l => l.sid == lsid)) with
        | none => status St.badStateid
        | some f0 =>
          match f0.lofs.find? (fun l => l.sid == lsid) with
          | none => status St.badStateid
          | some l0 =>
            match s.lowners.find? (fun l => l.id == l0.lo) with
            | none => say "bad-op"
            | some lo =>
              let replay := match lo.resp with
                | some (kind, out, csid, cseq) => if lseq == lo.lastSeq then some (kind, out, csid, cseq) else none
                | none => none
              match replay with
              | some (kind, out, csid, cseq) =>
                if kind == Kind.lock && (csid == 0 || isNext csid cseq lsid lsseq) then say out else status St.badSeqid
              | none =>
                if lseq != nextSeq lo.lastSeq then status St.badSeqid
                else
                  let r := findLock s q lsid lsseq fh
                  let fin (st : Nat) (out : String) (rsid rseq : Nat) : PlanM Unit := do
                    if shouldComplete st then emit (.loSet lo.id lseq (some (Kind.lock, out, rsid, rseq)))
                    else emit (.loSet lo.id lo.lastSeq none)
                    emit (.touch f0.cl)
                    say out
                  if r.st != St.ok then fin r.st s!"st={r.st}" 0 0
                  else
                    let (st, conflict, lk) := tryLock s f0.file lo.id ty off len
                    match lk with
                    | some lk =>
                      emit (.lockSet f0.sid lsid lk)
                      let n := nextSeq (seqOf s lsid)
                      setSeq lsid n
                      fin St.ok s!"st=0 {sidStr lsid n}" lsid n
                    | none =>
                      let out := match conflict with
                        | some c => s!"st={st} {deniedStr s c}"
                        | none => s!"st={st}"
                      fin st out 0 0
    else
      let s ← cur
      let r := findLock s q lsid lsseq fh
      match r.f, r.l with
      | some f, some l =>
        if r.st != St.ok then status r.st
        else
          let (st, conflict, lk) := tryLock s f.file l.lo ty off len
          match lk with
          | some lk =>
            emit (.lockSet f.sid lsid lk)
            let n := nextSeq (seqOf s lsid)
            setSeq lsid n
            status St.ok; say (sidStr lsid n)
          | none =>
            status st
            match conflict with
            | some c => say (deniedStr s c)
            | none => pure ()
      | _, _ => status r.st
  | .lockt q cl lokey fh ty off len =>
    if fh == 0 then status St.nofilehandle
    else if fhIsDir fh then status St.isdir
    else
      if v40 then enter
      let s ← cur
      let client := if v40 then (confirmedClient s cl).map (·.id) else reqClient s q
      match client with
      | none => status St.staleClientid
      | some c =>
        if v40 then emit (.touch c)
        let s ← cur
        let owner := ((s.getLO c lokey).map (·.id)).getD 0
        let (st, conflict, _) := tryLock s (fhIndex fh) owner ty off len
        status st
        match conflict with
        | some c => say (deniedStr s c)
        | none => pure ()
  | .locku q lsid lsseq fh lseq off len =>
    if v40 then
      enter
      if lsid == sidAnon || lsid == sidBypass then status St.badStateid
      else
        let s ← cur
        match s.files.find? (fun f => f.live && f.lofs.any (fun l => l.sid == lsid)) with
        | none => status St.badStateid
        | some f0 =>
          match f0.lofs.find? (fun l => l.sid == lsid) with
          | none => status St.badStateid
          | some l0 =>
            match s.lowners.find? (fun l => l.id == l0.lo) with
            | none => say "bad-op"
            | some lo =>
              let replay := match lo.resp with
                | some (kind, out, csid, cseq) => if lseq == lo.lastSeq then some (kind, out, csid, cseq) else none
                | none => none
              match replay with
              | some (kind, out, csid, cseq) =>
                if kind == Kind.locku && (csid == 0 || isNext csid cseq lsid lsseq) then say out else status St.badSeqid
              | none =>
                if lseq != nextSeq lo.lastSeq then status St.badSeqid
                else
                  let r := findLock s q lsid lsseq fh
                  let fin (st : Nat) (out : String) (rsid rseq : Nat) : PlanM Unit := do
                    if shouldComplete st then emit (.loSet lo.id lseq (some (Kind.locku, out, rsid, rseq)))
                    else emit (.loSet lo.id lo.lastSeq none)
                    emit (.touch f0.cl)
                    say out
                  if r.st != St.ok then fin r.st s!"st={r.st}" 0 0
                  else
                    match LockRange.offsetLengthToStartEnd off len with
                    | .error st => fin st s!"st={st}" 0 0
                    | .ok (a, b) =>
                      emit (.lockSet f0.sid lsid ⟨a, b, lo.id, .unlocked⟩)
                      let n := nextSeq (seqOf s lsid)
                      setSeq lsid n
                      fin St.ok s!"st=0 {sidStr lsid n}" lsid n
    else
      let s ← cur
      let r := findLock s q lsid lsseq fh
      match r.f, r.l with
      | some f, some l =>
        if r.st != St.ok then status r.st
        else
          match LockRange.offsetLengthToStartEnd off len with
          | .error st => status st
          | .ok (a, b) =>
            emit (.lockSet f.sid lsid ⟨a, b, l.lo, .unlocked⟩)
            let n := nextSeq (seqOf s lsid)
            setSeq lsid n
            status St.ok; say (sidStr lsid n)
      | _, _ => status r.st
  | .releaseLockOwner cl lokey =>
    enter
    let s ← cur
    match confirmedClient s cl with
    | none => status St.staleClientid
    | some _ =>
      match s.getLO cl lokey with
      | none => emit (.touch cl); status St.ok
      | some lo =>
        if s.files.any (fun f => f.lofs.any (fun l => l.lo == lo.id && l.lockCount > 0)) then
          emit (.touch cl); status St.locksHeld
        else
          for f in s.files do
            for l in f.lofs do
              if l.lo == lo.id then
                emit (.removeLofs f.sid l.sid)
          emit (.loPrune lo.id)
          emit (.touch cl)
          status St.ok
          flushAll
  | .freeStateid q sid sseq =>
    if sid == sidBypass then status St.badStateid
    else
      let s ← cur
      match s.files.find? (fun f => f.live && visible s q f && f.lofs.any (fun l => l.sid == sid)) with
      | none => status St.badStateid
      | some f =>
        match f.lofs.find? (fun l => l.sid == sid) with
        | none => status St.badStateid
        | some l =>
          let c := cmpSeq 41 sseq (seqOf s sid)
          if c != St.ok then status c
          else if l.lockCount > 0 then status St.locksHeld
          else
            emit (.removeLofs f.sid sid)
            emit (.loPrune l.lo)
            status St.ok
            flushAll
  | .ioA tag q sid sseq fh kind =>
    let want := if kind == 0 then Mask.read else Mask.write
    let special : Bool :=
      if v40 then sid == sidAnon || sid == sidBypass
      else (sid == sidAnon && sseq == 0) || (sid == sidBypass && sseq == 4294967295)
    if v40 && ((sid == sidAnon && sseq != 0) || (sid == sidBypass && sseq != 4294967295)) then status St.badStateid
    else if special then
      if fh == 0 then status St.nofilehandle
      else if kind == 2 then
        -- SETATTR(size) without state: no open; directories refuse the size,
        -- a leaf nobody has open any more is stale
        if fhIsDir fh then status St.inval
        else if leafDead s0 (fhIndex fh) then status St.stale
        else
          modProto fun p => { p with otx := (tag, 0, 0, 0, 9, 0, 0) :: p.otx }
          say "go"
      else if fhIsDir fh then status St.isdir
      else if leafDead s0 (fhIndex fh) then status St.stale
      else
        emit (.vopen tag (fhIndex fh) want false false)
        say "go"
    else
      if v40 then enter
      let s ← cur
      match ioTarget s q sid sseq fh want with
      | (_, some f) =>
        emit (.ioBegin tag f.sid want v40)
        say "go"
      | (st, none) => status st
      if v40 then flushAll
  | .ioB tag fault =>
    -- the leaf's VirtualRead / VirtualWrite / VirtualSetAttributes returned (with an error when
    -- `fault ≠ 0`: NFS4ERR_IO); whatever was acquired for the I/O is given back either way
    let res := if fault == 0 then St.ok else St.io
    let s ← cur
    if s.proto.otx.any (fun t => t.1 == tag) then
      modProto fun p => { p with otx := p.otx.filter (fun t => t.1 != tag) }
      status res
    else if (s.getTemp tag).isSome then
      emit (.tempClose tag)
      status res
    else
      if v40 then enter
      emit (.ioEnd tag)
      status res
      flushAll
  | .putfh fh =>
    let s ← cur
    status (if resolvable s fh then St.ok else St.stale)
  | .unlink dir name =>
    let s ← cur
    match lookupName s dir name with
    | none => status St.noent
    | some leaf =>
      modProto fun p => { p with names := p.names.filter (fun n => !(n.1 == dir && n.2.1 == name)), unlinked := leaf :: p.unlinked }
      status St.ok

/-- The file handle the compound PUTFHs before the operation. -/
def opFh : Op → Nat
  | .open40a _ _ _ _ _ _ _ _ fh _ => fh
  | .open41a _ _ _ _ _ _ _ fh _ chk => if chk == 0 then 0 else fh
  | .openConfirm _ _ fh _ => fh
  | .downgrade _ _ _ fh _ _ _ => fh
  | .close _ _ _ fh _ => fh
  | .lockNew _ _ _ fh _ _ _ _ _ _ _ => fh
  | .lockOld _ _ _ fh _ _ _ _ => fh
  | .lockt _ _ _ fh _ _ _ => fh
  | .locku _ _ _ fh _ _ _ => fh
  | .ioA _ _ _ _ fh _ => fh
  | .putfh fh => fh
  | _ => 0

/-- `plan`: the actions and the rendered reply of one operation segment.  An
operation whose current file handle does not resolve fails at PUTFH. -/
def plan (s : State) (op : Op) : List Act × String :=
  if !resolvable s (opFh op) then ([], s!"st={St.stale}") else
  let r := (planOp op).run { s := s } |>.2
  (r.acts.toList, " ".intercalate r.out.toList)

/-- One protocol step: by definition a sequence of core actions. -/
def step (s : State) (op : Op) : State × String :=
  let p := plan s op
  (applyAll s p.1, p.2)

/-- Initial state: the world of the harness has `n` files `d<i>/f` (leaf `i`, name 0). -/
def init (ver n : Nat) : State :=
  { ver := ver, proto := { names := (List.range n).map (fun i => (i, 0, i)), nextLeaf := n } }

end BbRe.NfsState
