/-
Model of the NFSv4.0 replay layer of `pkg/filesystem/virtual/nfsv4/nfs40_program.go`.

Transcribed (decision logic):
* `nfs40OpenOwnerState.startTransaction` (l. 2789-2848) with its three
  `unconfirmedOpenOwnerPolicy`s, `forgetLastResponse` (l. 2715-2722, incl. the
  `removeFinalize` of a half-closed file), `reinitialize` (l. 2727-2737),
  `openOwnerTransaction.complete` (l. 2859-2882), `transactionShouldComplete`
  (l. 3428-3437), `nextSeqID` (l. 3209-3214), `isNextStateID` (l. 3226-3228);
* the callers' replay checks: `opOpen` (same response type), `opOpenConfirm`,
  `opClose`, `opOpenDowngrade` (same type; an OK response only if its state ID
  is the successor of the presented one), `opLock` with a new lock-owner (same
  type), and the look-up of the owner through `openOwnerFilesByOther`
  (`getOpenOwnerByOtherForTransaction`, BAD_STATEID when absent) with
  `waitForCurrentTransactionCompletion` (a transaction in progress parks the
  caller; it retries from the look-up when the channel is closed);
* the two-phase CLOSE (`txClose`: `removeStart` now; the state ID stays in
  `openOwnerFilesByOther` until the next transaction forgets the response);
* `nfs40LockOwnerState.startTransaction` / `complete` (l. 3000-3048) and their
  callers `opLock` (existing lock-owner) and `opLocku`.

Abstract: what a transaction does.  A transaction is `arrive` (decides: wait,
replay, BAD_SEQID/BAD_STATEID, or start) and `finish` with the response as
INPUT; OPEN really is two lock-held sections (the lock is dropped around
`VirtualOpenChild`), the others run both steps without releasing the lock.
* `txLockInitial` (l. 1259-1335): LOCK with `open_to_lock_owner4` runs a NESTED
  lock-owner transaction inside the open-owner transaction: a new lock-owner
  starts unconditionally, an existing one that is already associated with the
  file yields BAD_SEQID, otherwise its own `startTransaction` decides (replay
  of a cached LOCK response / BAD_SEQID / start); whatever comes out is the
  response the open-owner transaction completes with.
Not modelled: client records and their expiry, garbage collection of unused
open-owners, RELEASE_LOCKOWNER.
-/
namespace BbRe.Replay40

def M32 : Nat := 4294967296

/-- `nextSeqID`: 2^32-1 wraps to 1. -/
def nextSeq (q : Nat) : Nat := if q = M32 - 1 then 1 else q + 1

def errBadSeqid : Nat := 10026
def errBadStateid : Nat := 10025

/-- `transactionShouldComplete`. -/
def shouldComplete (st : Nat) : Bool :=
  st != 10022 && st != 10023 && st != 10025 && st != 10026 && st != 10036 && st != 10018 &&
    st != 10020 && st != 10019

/-- Response message type (`Open4res`, `OpenConfirm4res`, …). -/
inductive Kind
  | open_ | openConfirm | openDowngrade | close | lock | locku
deriving DecidableEq, Repr, Inhabited

/-- `responseMessage`: type, status, the state ID an OK response carries
(`other`, `seqid`), and `body` standing for the bytes. -/
structure Resp where
  kind   : Kind
  status : Nat
  sid    : Option (Nat × Nat)
  body   : Nat
deriving DecidableEq, Repr, Inhabited

/-- A request that needs an open-owner transaction. For `open_` the owner is
named directly (client id + owner string, interned by the harness); all others
present an open state ID (`other`, `argSeq`). -/
structure Req where
  kind   : Kind
  owner  : Nat
  other  : Nat
  argSeq : Nat
  seq    : Nat
  cid    : Nat
deriving DecidableEq, Repr, Inhabited

/-- `nfs40OpenOwnerState`. `busy` = `currentTransactionWait != nil` together
with the call running the transaction. -/
structure OpenOwner where
  confirmed  : Bool := false
  lastSeq    : Nat := 0
  lastResp   : Option Resp := none
  closedFile : Option Nat := none          -- `lastResponse.closedFile` (its state ID other)
  busy       : Option (Nat × Req) := none
  lastDone   : Option (Req × Resp) := none -- ghost: last transaction that completed AND advanced
deriving Repr, Inhabited

/-- `nfs40LockOwnerState`. The object exists (is in `confirmedClient.lockOwners`)
exactly while it has lock-owner files, see `lockLive`. -/
structure LockOwner where
  lastSeq  : Nat := 0
  lastResp : Option Resp := none
deriving Repr, Inhabited

structure State where
  oo        : Nat → OpenOwner := fun _ => {}
  openOther : Nat → Option Nat := fun _ => none          -- `openOwnerFilesByOther`: other ↦ open-owner
  lo        : Nat → LockOwner := fun _ => {}
  lockFiles : List (Nat × Nat × Nat) := []                -- `lockOwnerFilesByOther`: (lock other, lock-owner, open other)
  legacyOpenFH : Bool := false                            -- the code before commit 2dc060f (replayed OPEN leaves the current filehandle alone)
  waiting   : List (Nat × Nat) := []                      -- ghost: calls blocked on an owner's transaction (call, owner)
  execs     : List (Nat × Req) := []                      -- ghost: transactions started, in order

inductive Reply
  | cached (r : Resp)   -- the cached response, returned as is
  | err (code : Nat)    -- the `…_default{Status: code}` response of the request's type
deriving DecidableEq, Repr, Inhabited

inductive Out
  | reply (r : Reply)
  | started
  | waiting
deriving DecidableEq, Repr, Inhabited

/-- `isNextStateID(a, b)`. -/
def isNext (a : Option (Nat × Nat)) (other argSeq : Nat) : Bool :=
  match a with
  | some (o, q) => o == other && q == nextSeq argSeq
  | none => false

/-- What a caller does with the `lastResponse` handed back by
`startTransaction` on a replay. -/
def replayReply (r : Req) (resp : Resp) : Reply :=
  if resp.kind ≠ r.kind then .err errBadSeqid
  else match r.kind with
    | .open_ | .lock => .cached resp
    | _ => if resp.status ≠ 0 || isNext resp.sid r.other r.argSeq then .cached resp else .err errBadSeqid

/-- Owner the request resolves to (`confirmedClient.openOwners[key]`, created on
demand, for OPEN; `openOwnerFilesByOther[other].openOwner` otherwise). -/
def resolve (s : State) (r : Req) : Option Nat :=
  if r.kind = .open_ then some r.owner else s.openOther r.other

/-- `forgetLastResponse`: drop the cache; finalise a half-closed file. -/
def forget (s : State) (o : Nat) : State :=
  { s with
    oo := fun k => if k = o then { s.oo k with lastResp := none, closedFile := none, lastDone := none } else s.oo k
    openOther := fun f =>
      -- `removeFinalize` deletes the entry of the owner's OWN half-closed file
      if (s.oo o).lastResp.isSome && (s.oo o).closedFile == some f && s.openOther f == some o then none
      else s.openOther f }

/-- `lockOwnerFilesByOther[l]`: (lock-owner, open state ID other of its file). -/
def lockLookup (s : State) (l : Nat) : Option (Nat × Nat) :=
  (s.lockFiles.find? (fun e => e.1 == l)).map (·.2)

/-- The lock-owner object exists: it has at least one lock-owner file. -/
def lockLive (s : State) (lk : Nat) : Bool := s.lockFiles.any (fun e => e.2.1 == lk)

/-- `oofs.lockOwnerFiles[los]` exists: the lock-owner is associated with the open file. -/
def lockAssoc (s : State) (lk f : Nat) : Bool := s.lockFiles.any (fun e => e.2.1 == lk && e.2.2 == f)

/-- `reinitialize`: forget the response and remove every file of the owner
(with the lock-owner files that hang off them). -/
def reinit (s : State) (o : Nat) : State :=
  let s1 := forget s o
  { s1 with
    openOther := fun f => if s1.openOther f = some o then none else s1.openOther f
    lockFiles := s1.lockFiles.filter (fun e => s1.openOther e.2.2 != some o) }

/-- Start of the new transaction proper (after the seqid checks). -/
def begin (s : State) (o call : Nat) (r : Req) : State :=
  let s1 := forget s o
  { s1 with
    oo := fun k => if k = o then { s1.oo k with busy := some (call, r) } else s1.oo k
    execs := s.execs ++ [(call, r)] }

/-- A request arrives (or a woken call retries): look-up, wait, `startTransaction`. -/
def arrive (s : State) (call : Nat) (r : Req) : State × Out :=
  match resolve s r with
  | none => (s, .reply (.err errBadStateid))
  | some o =>
    let ow := s.oo o
    if ow.busy.isSome then ({ s with waiting := s.waiting ++ [(call, o)] }, .waiting)
    else if ow.lastResp.isSome && r.seq == ow.lastSeq then
      (s, .reply (match ow.lastResp with | some resp => replayReply r resp | none => .err errBadSeqid))
    else if ow.confirmed then
      if r.seq ≠ nextSeq ow.lastSeq then (s, .reply (.err errBadSeqid)) else (begin s o call r, .started)
    else match r.kind with
      | .openConfirm =>
        if r.seq ≠ nextSeq ow.lastSeq then (s, .reply (.err errBadSeqid)) else (begin s o call r, .started)
      | .open_ => (begin (reinit s o) o call r, .started)
      | _ => (s, .reply (.err errBadSeqid))

/-! ### The current filehandle

`txOpen` makes the opened file the current filehandle, so that GETFH / GETATTR
behind OPEN in the same compound refer to it.  Files are named by the `other`
of their open state ID.  `none` = the operation leaves the current filehandle
as it was. -/

/-- Current filehandle set by the transaction op that completed with `e`. -/
def finishFH (r : Req) (e : Resp) : Option Nat :=
  if r.kind == .open_ && e.status == 0 then e.sid.map (·.1) else none

/-- Current filehandle set by the replay arm of `opOpen` (commit 2dc060f): the
file named by the state ID of the cached OK response, looked up in
`openOwnerFilesByOther`. -/
def replayFH (s : State) (r : Req) (rep : Reply) : Option Nat :=
  if s.legacyOpenFH then none
  else match rep with
    | .cached c =>
      if r.kind == .open_ && c.status == 0 then
        match c.sid with
        | some (f, _) => if (s.openOther f).isSome then some f else none
        | none => none
      else none
    | .err _ => none

/-- Current filehandle after an operation that `arrive` answers at once. -/
def arriveFH (s : State) (c : Nat) (r : Req) : Option Nat :=
  match (arrive s c r).2 with
  | .reply rep => replayFH s r rep
  | _ => none

/-- Input of `finish`: the response the operation produced and, for LOCK with
`open_to_lock_owner4`, the lock-owner named in the request, its lock seqid,
and whether `txLockInitial` got as far as the lock-owner (`reached = false`:
the open state ID was refused first). For a LOCK whose nested transaction does
not start, `resp` is ignored. -/
structure Fin where
  resp      : Resp
  lockOwner : Nat := 0
  lockSeq   : Nat := 0
  reached   : Bool := false
deriving Repr, Inhabited

/-- Outcome of the nested lock-owner transaction of `txLockInitial`. -/
inductive Nested
  | start (initial : Bool)   -- the lock is attempted (new lock-owner or successor seqid)
  | cached (r : Resp)        -- replay of the lock-owner's cached LOCK response
  | fail                     -- NFS4ERR_BAD_SEQID
deriving DecidableEq, Repr, Inhabited

def nested (s : State) (lk f lockSeq : Nat) : Nested :=
  if !lockLive s lk then .start true
  else if lockAssoc s lk f then .fail
  else
    match (s.lo lk).lastResp with
    | some resp =>
      if lockSeq == (s.lo lk).lastSeq then (if resp.kind = .lock then .cached resp else .fail)
      else if lockSeq ≠ nextSeq (s.lo lk).lastSeq then .fail else .start false
    | none => if lockSeq ≠ nextSeq (s.lo lk).lastSeq then .fail else .start false

/-- The response the open-owner transaction completes with. -/
def effResp (s : State) (r : Req) (x : Fin) : Resp :=
  if r.kind == .lock && x.reached then
    match nested s x.lockOwner r.other x.lockSeq with
    | .start _ => x.resp
    | .cached c => c
    | .fail => ⟨.lock, errBadSeqid, none, x.resp.body⟩
  else x.resp

/-- What the call that ran the transaction returns, in the vocabulary of `Reply`
(`cached` = "the bytes of that response"). -/
def effReply (s : State) (r : Req) (x : Fin) : Reply :=
  if r.kind == .lock && x.reached then
    match nested s x.lockOwner r.other x.lockSeq with
    | .start _ => .cached x.resp
    | .cached c => .cached c
    | .fail => .err errBadSeqid
  else .cached x.resp

/-- Did the nested lock-owner transaction run the lock operation? -/
def nestedStarted (s : State) (r : Req) (x : Fin) : Option Bool :=
  if r.kind == .lock && x.reached then
    match nested s x.lockOwner r.other x.lockSeq with
    | .start i => some i
    | _ => none
  else none

/-- `transaction.complete` plus the state changes of the transaction that the
replay layer depends on. Returns the reply of the call that ran the
transaction and the calls that are woken (they retry with `arrive`). -/
def finish (s : State) (o : Nat) (x : Fin) : State × Option (Nat × Reply) × List Nat :=
  match (s.oo o).busy with
  | none => (s, none, [])
  | some (call, r) =>
    let ow := s.oo o
    let e := effResp s r x
    let adv := shouldComplete e.status
    let ok := e.status == 0
    let ow' : OpenOwner :=
      { ow with
        busy := none
        lastSeq := if adv then r.seq else ow.lastSeq
        lastResp := if adv then some e else ow.lastResp
        closedFile := if adv then (if ok && r.kind == .close then some r.other else none) else ow.closedFile
        lastDone := if adv then some (r, e) else ow.lastDone
        confirmed := ow.confirmed || (ok && r.kind == .openConfirm) }
    let closing := ok && r.kind == .close
    let started := nestedStarted s r x
    let files1 := if closing then s.lockFiles.filter (fun t => t.2.2 != r.other) else s.lockFiles
    ({ s with
        oo := fun k => if k = o then ow' else s.oo k
        openOther := fun f =>
          match e.sid with
          | some (f', _) => if ok && r.kind == .open_ && f = f' then some o else s.openOther f
          | none => s.openOther f
        lockFiles :=
          match started, x.resp.sid with
          | some _, some (l', _) => if x.resp.status == 0 then files1 ++ [(l', x.lockOwner, r.other)] else files1
          | _, _ => files1
        lo := fun k =>
          match started with
          | some initial =>
            if k = x.lockOwner then
              (if shouldComplete x.resp.status then ⟨x.lockSeq, some x.resp⟩
               else ⟨if initial then 0 else (s.lo k).lastSeq, none⟩)
            else s.lo k
          | none => s.lo k
        waiting := s.waiting.filter (fun w => w.2 != o) },
     some (call, effReply s r x), (s.waiting.filter (fun w => w.2 == o)).map (·.1))

/-- A lock-owner request (LOCK with an existing lock-owner, LOCKU): runs under
the lock in one piece. `x` is the response the operation produces IF the
transaction starts. Returns the reply and whether it executed. -/
structure LReq where
  kind   : Kind      -- lock | locku
  other  : Nat       -- lock state ID other
  argSeq : Nat
  seq    : Nat
deriving DecidableEq, Repr, Inhabited

def lockTx (s : State) (r : LReq) (x : Resp) : State × Reply × Bool :=
  match lockLookup s r.other with
  | none => (s, .err errBadStateid, false)
  | some (lk, _) =>
    let lw := s.lo lk
    if lw.lastResp.isSome && r.seq == lw.lastSeq then
      (s, (match lw.lastResp with
        | some resp =>
          if resp.kind ≠ r.kind then .err errBadSeqid
          else if resp.status ≠ 0 || isNext resp.sid r.other r.argSeq then .cached resp else .err errBadSeqid
        | none => .err errBadSeqid), false)
    else if r.seq ≠ nextSeq lw.lastSeq then (s, .err errBadSeqid, false)
    else
      let adv := shouldComplete x.status
      ({ s with lo := fun k => if k = lk then
            { lw with lastSeq := if adv then r.seq else lw.lastSeq, lastResp := if adv then some x else none }
          else s.lo k }, .cached x, true)

inductive Op
  | arrive (call : Nat) (r : Req)
  | finish (o : Nat) (x : Fin)
  | lockTx (r : LReq) (x : Resp)
deriving Repr, Inhabited

def step (s : State) : Op → State
  | .arrive c r => (arrive s c r).1
  | .finish o x => (finish s o x).1
  | .lockTx r x => (lockTx s r x).1

inductive Reachable : State → Prop
  | init : Reachable {}
  | step {s : State} (o : Op) : Reachable s → Reachable (step s o)

end BbRe.Replay40
