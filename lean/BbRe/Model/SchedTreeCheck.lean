import BbRe.Model.SchedTree
/-!
Executable form of the invariant of the tree layer (`Lemmas/SchedTreeInvDefs.lean`, `TreeOK`, and the
coupling between the tree layer's tables and `Sched.State`): the four bags computed from the state, and a
checker that lists the violated clauses.  The driver runs it after every segment (`treecheck`), so the
harness validates the *statement* of `tree_inv` on every state the model passes through while following
the real scheduler.
-/
namespace BbRe.SchedTree
open BbRe.Sched

/-- executing operations of task `t` (one per operation, if the task is assigned to a worker) -/
def conE (ox : List (Nat × OX)) (t : Task) : List (ScqId × List Nat × WKey) :=
  match t.worker with
  | some (_, w) => t.ops.map (fun o => (t.scq, (match alookup o ox with | some y => y.inv | none => []), some w))
  | none => []

/-- queued operations of task `t` -/
def conQ (ox : List (Nat × OX)) (t : Task) : List (ScqId × List Nat × Nat) :=
  if t.queued then t.ops.map (fun o => (t.scq, (match alookup o ox with | some y => y.inv | none => []), o)) else []

/-- the last invocation of a worker -/
def conI (x : WX) : List (ScqId × List Nat) := match x.last with | some p => [(x.scq, p)] | none => []

/-- where a worker is parked -/
def conP (x : WX) : List (ScqId × List Nat × WId) :=
  if x.parked then (match x.last with | some p => [(x.scq, p, x.id)] | none => []) else []

def bagE (ts : TState) : List (ScqId × List Nat × WKey) := ts.s.tasks.flatMap (fun kt => conE ts.ox kt.2)
def bagQ (ts : TState) : List (ScqId × List Nat × Nat) := ts.s.tasks.flatMap (fun kt => conQ ts.ox kt.2)
def bagI (ts : TState) : List (ScqId × List Nat) := ts.wx.flatMap conI
def bagP (ts : TState) : List (ScqId × List Nat × WId) := ts.wx.flatMap conP

def nodupB {α} [BEq α] : List α → Bool
  | [] => true
  | a :: l => !l.contains a && nodupB l

def sameSet {α} [BEq α] (a b : List α) : Bool := a.all b.contains && b.all a.contains

/-- the clauses of `TreeOK [] ts.nodes (bagE ts) (bagI ts) (bagQ ts) (bagP ts)` that fail -/
def treeViolations (ts : TState) : List String :=
  let ns := ts.nodes
  let E := bagE ts
  let I := bagI ts
  let Q := bagQ ts
  let P := bagP ts
  let keys := ns.map (fun n => (n.scq, n.path))
  let has (q : ScqId) (p : List Nat) : Bool := (node? ns q p).isSome
  let cE (n : Node) (k : WKey) : Nat := E.countP (fun c => decide (c.1 = n.scq) && n.path.isPrefixOf c.2.1 && decide (c.2.2 = k))
  let cI (n : Node) : Nat := I.countP (fun c => decide (c.1 = n.scq) && n.path.isPrefixOf c.2)
  (if nodupB keys then [] else ["nd"]) ++
  (if ns.all (fun n => n.path.isEmpty || has n.scq n.path.dropLast) then [] else ["pc"]) ++
  (if ns.all (fun n => n.exec.all (fun e => mget e.1 n.exec == cE n e.1) &&
        E.all (fun c => !(decide (c.1 = n.scq) && n.path.isPrefixOf c.2.1) || mget c.2.2 n.exec == cE n c.2.2)) then [] else ["ex"]) ++
  (if ns.all (fun n => nodupB (n.exec.map (·.1)) && n.exec.all (fun e => decide (0 < e.2))) then [] else ["exnd"]) ++
  (if ns.all (fun n => n.idle == cI n) then [] else ["id"]) ++
  (if ns.all (fun n => nodupB n.qops &&
        sameSet n.qops ((Q.filter (fun c => decide (c.1 = n.scq) && decide (c.2.1 = n.path))).map (·.2.2))) then [] else ["qo"]) ++
  (if ns.all (fun n => nodupB n.qkids &&
        n.qkids.all (fun k => Q.any (fun c => decide (c.1 = n.scq) && (n.path ++ [k]).isPrefixOf c.2.1)) &&
        Q.all (fun c => !(decide (c.1 = n.scq) && n.path.isPrefixOf c.2.1 && decide (n.path.length < c.2.1.length)) ||
          n.qkids.contains (c.2.1.getD n.path.length 0))) then [] else ["qk"]) ++
  (if ns.all (fun n => nodupB n.parked &&
        sameSet n.parked ((P.filter (fun c => decide (c.1 = n.scq) && decide (c.2.1 = n.path))).map (·.2.2))) then [] else ["pk"]) ++
  (if ns.all (fun n => nodupB n.ikids &&
        n.ikids.all (fun k => P.any (fun c => decide (c.1 = n.scq) && (n.path ++ [k]).isPrefixOf c.2.1)) &&
        P.all (fun c => !(decide (c.1 = n.scq) && n.path.isPrefixOf c.2.1 && decide (n.path.length < c.2.1.length)) ||
          n.ikids.contains (c.2.1.getD n.path.length 0))) then [] else ["ik"]) ++
  (if ns.all (fun n => n.path.isEmpty || !n.isEmptyInv) then [] else ["ne"]) ++
  (if E.all (fun c => has c.1 c.2.1) then [] else ["rfE"]) ++
  (if I.all (fun c => has c.1 c.2) then [] else ["rfI"]) ++
  (if Q.all (fun c => has c.1 c.2.1) then [] else ["rfQ"]) ++
  (if P.all (fun c => has c.1 c.2.1) then [] else ["rfP"])

/-- the coupling between the tree layer's tables and `Sched.State` -/
def sideViolations (ts : TState) : List String :=
  let s := ts.s
  (if s.scqs.all (fun sq => (node? ts.nodes sq.id []).isSome) then [] else ["roots"]) ++
  (if ts.nodes.all (fun n => s.scqs.any (fun sq => sq.id = n.scq)) then [] else ["nscq"]) ++
  (if nodupB (ts.wx.map (fun x => (x.scq, x.id))) then [] else ["wxnd"]) ++
  (if ts.wx.all (fun x => (s.worker? x.scq x.id).isSome) && s.workers.all (fun w => (ts.wx? w.scq w.id).isSome) then [] else ["wxw"]) ++
  (if s.workers.all (fun w => match ts.wx? w.scq w.id with
        | some x => x.parked == w.parked && (x.last.isNone == w.task.isSome)
        | none => false) then [] else ["wpark/wlast"]) ++
  (if s.ops.all (fun ko => match alookup ko.1 ts.ox with
        | some y => y.inv == ko.2.inv && y.prio == ko.2.prio
        | none => false) then [] else ["oxok"]) ++
  (if s.tasks.all (fun kt => match kt.2.worker with | some (q, _) => decide (q = kt.2.scq) | none => true) then [] else ["wq"]) ++
  (if s.tasks.all (fun kt => kt.2.response.isSome || kt.2.ops.all (fun o => (alookup o ts.ox).isSome)) then [] else ["oxlive"])

def invViolations (ts : TState) : List String := treeViolations ts ++ sideViolations ts

end BbRe.SchedTree
