/-
Model of the *choices* made by `pkg/scheduler/in_memory_build_queue.go` when work is handed out
(property C04), on a snapshot of one size class queue's invocation tree:

* `opLess`      = `queuedOperationsHeap.Less`     (priority ↑, expectedDuration ↓, queuedTimestamp ↑)
* `scoreLt`     = the documented score order `(executingWorkers+1) · 2^(priority/100)`, exact
                  (`isPreferred` computes it in float64 with `math.Pow`; see `Properties/C04.lean`)
* `isPreferred` = `invocation.isPreferred`, `childLess` = `queuedChildrenHeap.Less`
* `idleLess`    = `idleSynchronizingWorkersChildrenHeap.Less`
* `chooseChild`/`pickAux`/`pickFromQueue` = `worker.assignNextQueuedTask` (uses the heap roots
  `queuedOperations[0]`, `queuedChildren[0]` exactly as the code does)
* `specChildren`/`specAux`/`specPick` = the documented rule, by full scan of the tree (never looks
  at heap order)
* `handoffAux`/`handoffTargets` = `task.schedule` (bottom-up search for a parked worker; the set
  ranges over the iteration orders of `range t.operations`)

The bookkeeping that *changes* the tree (enqueue, dequeue, executing counts, parking) is modelled
in `Model/Sched.lean`, where these choices are oracle inputs.

A snapshot node carries what `VerifDumpState` reports for an `invocation`: `ops` =
`queuedOperations` in heap order, `queued` = keys of `queuedChildren` in heap order, `prio` =
`firstQueuedOperationPriority` (the cached value the code compares), `exec` =
`len(executingWorkers)`, `started`/`completed` = `lastOperationStarted`/`lastOperationCompletion`,
`parked` = `idleSynchronizingWorkers` in list order, `parkedKids` = keys of
`idleSynchronizingWorkersChildren` in heap order, `kids` = `children`.
-/
namespace BbRe.Fair

structure Op where
  id : Nat
  prio : Int
  dur : Nat
  ts : Nat
deriving DecidableEq, Repr, Inhabited

inductive Inv where
  | mk (key : Nat) (ops : List Op) (queued : List Nat) (prio : Int) (exec : Nat) (started : Nat)
       (parked : List Nat) (parkedKids : List Nat) (completed : Nat) (kids : List Inv) : Inv
deriving Repr, Inhabited

namespace Inv
def key : Inv → Nat | mk k _ _ _ _ _ _ _ _ _ => k
def ops : Inv → List Op | mk _ o _ _ _ _ _ _ _ _ => o
def queued : Inv → List Nat | mk _ _ q _ _ _ _ _ _ _ => q
def prio : Inv → Int | mk _ _ _ p _ _ _ _ _ _ => p
def exec : Inv → Nat | mk _ _ _ _ e _ _ _ _ _ => e
def started : Inv → Nat | mk _ _ _ _ _ s _ _ _ _ => s
def parked : Inv → List Nat | mk _ _ _ _ _ _ p _ _ _ => p
def parkedKids : Inv → List Nat | mk _ _ _ _ _ _ _ p _ _ => p
def completed : Inv → Nat | mk _ _ _ _ _ _ _ _ c _ => c
def kids : Inv → List Inv | mk _ _ _ _ _ _ _ _ _ k => k

/-- `i.children[key]` -/
def child (i : Inv) (k : Nat) : Option Inv := i.kids.find? (fun c => c.key == k)

/-- `invocation.isQueued()` -/
def isQueued (i : Inv) : Bool := !i.ops.isEmpty || !i.queued.isEmpty
end Inv

/-! ### The orders -/

/-- `queuedOperationsHeap.Less` (lines 2081-2100). -/
def opLess (a b : Op) : Bool :=
  decide (a.prio < b.prio) ||
    (!decide (b.prio < a.prio) &&
      (decide (b.dur < a.dur) || (!decide (a.dur < b.dur) && decide (a.ts < b.ts))))

/-- The documented score order, exact: `S = (executing + 1) · 2^(priority/100)`; comparing the
100th powers, scaled by `2^(-min p₁ p₂)`, keeps everything in `ℕ`. -/
def scoreLt (e₁ : Nat) (p₁ : Int) (e₂ : Nat) (p₂ : Int) : Bool :=
  decide ((e₁ + 1) ^ 100 * 2 ^ (p₁ - min p₁ p₂).toNat < (e₂ + 1) ^ 100 * 2 ^ (p₂ - min p₁ p₂).toNat)

/-- `invocation.isPreferred` (lines 2008-2044): `si < sj || (si == sj && tieBreaker)`. -/
def isPreferred (ei : Nat) (pi : Int) (ej : Nat) (pj : Int) (tie : Bool) : Bool :=
  scoreLt ei pi ej pj || (!scoreLt ej pj ei pi && tie)

def Inv.scoreLt (a b : Inv) : Bool := Fair.scoreLt a.exec a.prio b.exec b.prio

/-- `queuedChildrenHeap.Less` (line 1709). -/
def childLess (a b : Inv) : Bool :=
  isPreferred a.exec a.prio b.exec b.prio (decide (a.started < b.started))

/-- `idleSynchronizingWorkersChildrenHeap.Less` (lines 1757-1779). -/
def idleLess (a b : Inv) : Bool :=
  let ui := a.exec * b.parked.length
  let uj := b.exec * a.parked.length
  decide (ui < uj) || (!decide (uj < ui) && decide (a.completed < b.completed))

/-! ### `worker.assignNextQueuedTask` -/

/-- `iSticky.isQueued() && iSticky.isPreferred(iBest, <window>)` for `iSticky = i.children[k]`,
`iBest = i.queuedChildren[0]` (key `b`); `none` = nil dereference. -/
def stickyWins (tie : Bool) (i : Inv) (k b : Nat) : Option Bool :=
  match i.child k, i.child b with
  | some s, some bb => some (s.isQueued && isPreferred s.exec s.prio bb.exec bb.prio tie)
  | _, _ => none

/-- One iteration of the loop at an invocation without directly queued operations: the key of
`iBest` and the stickiness state afterwards.  `keys` = `lastInvocationKeys` (`[]` after
`lastInvocationKeys = nil`), `lvl` = `stickinessRetained` = number of entries already sliced off
`workerInvocationStickinessLimits`, `nlim` = `len(pq.workerInvocationStickinessLimits)`,
`win lvl` = the tie-breaker argument computed at that level. -/
def chooseChild (win : Nat → Bool) (nlim : Nat) (i : Inv) (keys : List Nat) (lvl : Nat) :
    Option (Nat × List Nat × Nat) :=
  match i.queued with
  | [] => none
  | b :: _ =>
    match keys with
    | k :: ks =>
      if lvl < nlim then
        match stickyWins (win lvl) i k b with
        | none => none
        | some wins =>
          let best := if wins then k else b
          if best = k then some (k, ks, lvl + 1) else some (best, [], lvl)
      else some (b, keys, lvl)
    | [] => some (b, [], lvl)

/-- The loop of `assignNextQueuedTask`, at most `fuel` levels deep: the operation whose task is
assigned (`i.queuedOperations[0]`) and `stickinessRetained`. -/
def pickAux (win : Nat → Bool) (nlim : Nat) : Nat → Inv → List Nat → Nat → Option (Op × Nat)
  | 0, _, _, _ => none
  | fuel + 1, i, keys, lvl =>
    match i.ops with
    | o :: _ => some (o, lvl)
    | [] =>
      match chooseChild win nlim i keys lvl with
      | none => none
      | some (c, keys', lvl') =>
        match i.child c with
        | none => none
        | some ci => pickAux win nlim fuel ci keys' lvl'

mutual
def Inv.depth : Inv → Nat
  | .mk _ _ _ _ _ _ _ _ _ kids => depthL kids + 1
def depthL : List Inv → Nat
  | [] => 0
  | c :: cs => max c.depth (depthL cs)
end

/-- What the worker contributes to the decision. -/
structure WView where
  lastKeys : List Nat    -- `w.lastInvocation.invocationKeys`
  limits : List Nat      -- `pq.workerInvocationStickinessLimits`
  starts : List Nat      -- `w.stickinessStartingTimes`
  now : Nat              -- `bq.now`
deriving Repr, Inhabited

/-- The documented per-level window, which is what the code computes (line 2875, after fix
5bea868): `stickinessStartingTimes[0].Add(workerInvocationStickinessLimits[0]).After(bq.now)`,
both slices having been advanced by one entry per level at which the sticky child was taken:
level `lvl` is sticky for `limits[lvl]` after the worker started serving its current invocation
*at that level*. -/
def WView.docWindow (w : WView) (lvl : Nat) : Bool :=
  decide (w.now < w.starts.getD lvl 0 + w.limits.getD lvl 0)

/-- The tie-breaker argument before fix 5bea868: `w.stickinessStartingTimes[0].Add(...)`, i.e. the
starting time of level 0 at *every* level (only the limits slice was advanced). -/
def WView.level0Window (w : WView) (lvl : Nat) : Bool :=
  decide (w.now < w.starts.headD 0 + w.limits.getD lvl 0)

/-- `legacyLevel0Window = true` selects the behaviour before fix 5bea868. -/
def WView.window (legacyLevel0Window : Bool) (w : WView) : Nat → Bool :=
  if legacyLevel0Window then w.level0Window else w.docWindow

/-- `assignNextQueuedTask` on the root invocation `t` of the size class queue. -/
def pickFromQueue (t : Inv) (w : WView) (legacyLevel0Window : Bool := false) : Option (Op × Nat) :=
  pickAux (w.window legacyLevel0Window) w.limits.length t.depth t w.lastKeys 0

/-! ### The documented rule, by full scan -/

mutual
/-- Some operation is queued in the subtree. -/
def Inv.hasQueued : Inv → Bool
  | .mk _ ops _ _ _ _ _ _ _ kids => !ops.isEmpty || anyQueued kids
def anyQueued : List Inv → Bool
  | [] => false
  | c :: cs => c.hasQueued || anyQueued cs
end

/-- Children with queued work below them. -/
def cands (i : Inv) : List Inv := i.kids.filter Inv.hasQueued

/-- Those with a minimal score. -/
def minScore (cs : List Inv) : List Inv := cs.filter fun c => cs.all fun c' => !(c'.scoreLt c)

/-- Those least recently started. -/
def lru (cs : List Inv) : List Inv := cs.filter fun c => cs.all fun c' => !decide (c'.started < c.started)

/-- Operations no other operation of the invocation precedes. -/
def firstOps (ops : List Op) : List Op := ops.filter fun o => ops.all fun o' => !opLess o' o

/-- Admissible children at an invocation without directly queued operations, each with the
stickiness state the walk continues with.  While stickiness is being tracked (`keys = k :: _`,
`lvl < nlim`) and the sticky child `k` has a minimal score and the window of this level is open,
the sticky child is the only admissible one; otherwise any least recently started child of minimal
score is. -/
def specChildren (win : Nat → Bool) (nlim : Nat) (i : Inv) (keys : List Nat) (lvl : Nat) :
    List (Inv × List Nat × Nat) :=
  let m := minScore (cands i)
  match keys with
  | k :: ks =>
    if lvl < nlim then
      match m.find? (fun c => c.key == k) with
      | some s =>
        if win lvl then [(s, ks, lvl + 1)]
        else (lru m).map fun c => if c.key = k then (c, ks, lvl + 1) else (c, [], lvl)
      | none => (lru m).map fun c => (c, [], lvl)
    else (lru m).map fun c => (c, keys, lvl)
  | [] => (lru m).map fun c => (c, [], lvl)

/-- All operations the documented policy allows to be handed out (with the number of stickiness
levels retained). -/
def specAux (win : Nat → Bool) (nlim : Nat) : Nat → Inv → List Nat → Nat → List (Op × Nat)
  | 0, _, _, _ => []
  | fuel + 1, i, keys, lvl =>
    if i.ops.isEmpty then
      (specChildren win nlim i keys lvl).flatMap fun x => specAux win nlim fuel x.1 x.2.1 x.2.2
    else (firstOps i.ops).map fun o => (o, lvl)

def specPickWith (win : Nat → Bool) (t : Inv) (w : WView) : List (Op × Nat) :=
  specAux win w.limits.length t.depth t w.lastKeys 0

/-- The documented admissible set (per-level stickiness windows). -/
def specPick (t : Inv) (w : WView) : List (Op × Nat) := specPickWith w.docWindow t w

/-! ### Well-formedness of a snapshot (evaluated by the driver on every snapshot; the verif hook
checks the same facts on the real structures) -/

def rootMin {α : Type} (less : α → α → Bool) : List α → Bool
  | [] => true
  | r :: rest => (r :: rest).all fun x => !less x r

mutual
/-- Keys of children are distinct; `queued` lists exactly the children with queued work below
them; the roots of `ops` and `queued` are minimal for `opLess`/`childLess` (which the heap
property implies, `Lemmas/GoHeapOps.lean`). -/
def Inv.wf : Inv → Bool
  | .mk _ ops queued _ _ _ _ _ _ kids =>
    (kids.map Inv.key).Nodup &&
    queued.Nodup &&
    queued.all (fun k => kids.any fun c => c.key == k && c.hasQueued) &&
    kids.all (fun c => !c.hasQueued || queued.contains c.key) &&
    rootMin opLess ops &&
    rootMin childLess (queued.filterMap fun k => kids.find? fun c => c.key == k) &&
    wfL kids
def wfL : List Inv → Bool
  | [] => true
  | c :: cs => c.wf && wfL cs
end

mutual
/-- `firstQueuedOperationPriority` of every invocation below the root is what
`updateFirstOperationPriority` last stored: the priority of `queuedOperations[0]` when there are
directly queued operations (exact: every change of that heap refreshes the cache), otherwise the
cached priority of one of the queued children (the one that was the heap root at the last
enqueue/dequeue below; exact when there is a single queued child).  The root invocation's cache is
never written nor read. -/
def Inv.cacheOk : Inv → Bool
  | .mk _ _ _ _ _ _ _ _ _ kids =>
    kids.all (fun c =>
      match c.ops with
      | o :: _ => c.prio == o.prio
      | [] => c.queued.isEmpty || c.kids.any (fun g => c.queued.contains g.key && g.prio == c.prio)) &&
    cacheOkL kids
def cacheOkL : List Inv → Bool
  | [] => true
  | c :: cs => c.cacheOk && cacheOkL cs
end

/-! ### `task.schedule` -/

/-- The invocation at a path of keys below `i`. -/
def nodeAt : Inv → List Nat → Option Inv
  | i, [] => some i
  | i, k :: p =>
    match i.child k with
    | none => none
    | some c => nodeAt c p

/-- `len(i.idleSynchronizingWorkers) > 0 || i.idleSynchronizingWorkersChildren.Len() > 0` -/
def Inv.hasParked (i : Inv) : Bool := !i.parked.isEmpty || !i.parkedKids.isEmpty

/-- `for len(i.idleSynchronizingWorkers) == 0 { i = i.idleSynchronizingWorkersChildren[0] }`,
then `i.idleSynchronizingWorkers[0].worker`. -/
def descendParked : Nat → Inv → Option Nat
  | 0, _ => none
  | fuel + 1, i =>
    match i.parked with
    | w :: _ => some w
    | [] =>
      match i.parkedKids with
      | [] => none
      | k :: _ =>
        match i.child k with
        | none => none
        | some c => descendParked fuel c

/-- The invocations examined in round `r` of the outer loop of `schedule`: each of the task's
invocations (paths `invs`) moved `r` steps towards the root. -/
def roundNodes (t : Inv) (invs : List (List Nat)) (r : Nat) : List Inv :=
  invs.filterMap fun p => if r ≤ p.length then nodeAt t (p.take (p.length - r)) else none

/-- The loop of `schedule` from round `r` on: the workers the task may be handed to (over all
orders of `range t.operations`); `[]` = the task is queued. -/
def handoffAux (t : Inv) (invs : List (List Nat)) (depth : Nat) : Nat → Nat → List Nat
  | 0, _ => []
  | fuel + 1, r =>
    let hits := (roundNodes t invs r).filter Inv.hasParked
    if hits.isEmpty then
      if invs.any (fun p => p.length ≤ r) then [] else handoffAux t invs depth fuel (r + 1)
    else hits.filterMap (descendParked depth)

def maxLen : List (List Nat) → Nat
  | [] => 0
  | p :: ps => max p.length (maxLen ps)

def handoffTargets (t : Inv) (invs : List (List Nat)) : List Nat :=
  handoffAux t invs t.depth (maxLen invs + 1) 0

/-- Number of steps from the invocation at path `p` up to the closest ancestor-or-self of the
invocation at path `q`. -/
def commonPrefixLen : List Nat → List Nat → Nat
  | a :: p, b :: q => if a = b then commonPrefixLen p q + 1 else 0
  | _, _ => 0

def dist (p q : List Nat) : Nat := p.length - commonPrefixLen p q

end BbRe.Fair
