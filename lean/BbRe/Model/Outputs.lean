/-!
# Model of `pkg/builder/output_hierarchy.go` (property C10)

Core Lean only (linked into `drv_outputs`).  Every definition transcribes the
mechanism of the Go code; path strings are lists of bytes (`Nat`), so no
`String` handling is needed outside the driver.

| Lean                                   | Go                                                                  |
|----------------------------------------|---------------------------------------------------------------------|
| `stripSeps`, `parseRelF`, `parseRel`   | bb-storage `path/unix_format.go`: `stripUNIXSeparators`, `unixRelativeParser.ParseFirstComponent` driven by `resolverState.resolve` (no symlinks are ever returned by the walkers used here, so the parser stack has depth 1 and `mustBeDirectory` is false) |
| `walk1`, `walkSteps`                   | `outputNodePath.OnDirectory/OnTerminal/OnUp`                          |
| `resolveRel`                           | `path.Resolve(path.UNIXFormat.NewParser(s), path.NewRelativeScopeWalker(&outputNodePath))`: NUL check and absolute check of `unixParser.ParseScope` + `relativeScopeWalker.OnAbsolute` |
| `ONode`, `addPath`, `alterSub`, `ONode.insert` | `outputNode` (`pathsToUpload`, `subdirectories`) and the node-creating loop of `OutputHierarchy.lookup` |
| `Hierarchy.register`, `newHierarchy`   | `NewOutputHierarchy` (+ `lookup`, `rootsToUpload`, `uploadTreesAndDirectories`) |
| `ONode.mkParents`, `mkParentsSubs`     | `outputNode.createParentDirectories` (Mkdir with EEXIST tolerated, enter only when the child has subdirectories) |
| `Node.uploadDirectory`, `uploadEntries`| `uploadOutputDirectoryState.uploadDirectory` (`directories`, `directoriesSeen`) |
| `uploadOutputDirectoryEntered`         | `uploadOutputsState.uploadOutputDirectoryEntered` (Tree = reversed `directories`, Put of the Tree, Put of every Directory when requested) |
| `uploadPaths`, `ONode.upload`, `uploadSubs` | `outputNode.uploadOutputs` (Lstat + dispatch on the file type; traversal into subdirectories) |
| `Hierarchy.uploadOutputs`              | `OutputHierarchy.UploadOutputs`                                     |
| `pbStep`, `normTarget`                 | `path.Builder` joined over `VoidScopeWalker`, `GetUNIXString` (symlink targets) |

Abstractions (stated in checks.d/C10.json):
* a digest is the message itself (`DirMsg` values / content ids are compared
  structurally: injective "hash"); `directoriesSeen` has the same key set as
  `directories`, so the model keeps only the list;
* Go maps are association lists in insertion order; the Go code iterates them
  in sorted order, which only influences the *order* of the emitted entries
  (canonicalised away by sorting on both sides of the correspondence);
* CAS failures are a function `Env.putFails` of the blob that is written,
  `Readlink` failures a function `Env.readlinkFails` of the link's target;
  `readable = false` on a directory means it cannot be listed (`ReadDir`
  fails; for a directory that is a declared output or lies inside one,
  failing to enter it has the same effect: the error is saved and the
  directory is left out); every saved error is recorded in `errs`
  (`firstError` is set iff `errs ≠ []`).
-/
namespace BbRe.Outputs

abbrev Name := List Nat
abbrev Str := List Nat

/-! ## UNIX path parsing (bb-storage `path` package) -/

/-- What `ParseFirstComponent` asks the `ComponentWalker` to do. -/
inductive Step where
  | stay            -- "" or ".": `GotDirectory{Child: componentWalker}`
  | up              -- "..": `OnUp()`
  | dir (n : Name)  -- name followed by a slash: `OnDirectory(name)`
  | term (n : Name) -- last name: `OnTerminal(name)`
deriving DecidableEq, Repr

/-- The `switch name` of `ParseFirstComponent`; `last` = "remainder == nil". -/
def classify (name : Str) (last : Bool) : Step :=
  if name = [] ∨ name = [46] then .stay
  else if name = [46, 46] then .up
  else if last then .term name else .dir name

/-- `stripUNIXSeparators(p)` for `p` starting at a slash: drop it and all following slashes. -/
def stripSeps : Str → Str
  | [] => []
  | _ :: r => r.dropWhile (· == 47)

/-- The sequence of walker calls `resolverState.resolve` makes for the relative
path `p` (fuel = number of remaining `pop()`s, `p.length + 1` always suffices). -/
def parseRelF : Nat → Str → List Step
  | 0, _ => []
  | f + 1, p =>
    match p.dropWhile (· != 47) with
    | [] => [classify p true]
    | s :: r => classify (p.takeWhile (· != 47)) false :: parseRelF f (stripSeps (s :: r))

def parseRel (p : Str) : List Step := parseRelF (p.length + 1) p

/-- `outputNodePath`: one walker call.  `none` = `OnUp()` at the root
(INVALID_ARGUMENT "Path resolves to a location outside the input root directory"). -/
def walk1 (comps : List Name) : Step → Option (List Name)
  | .stay => some comps
  | .up => if comps = [] then none else some comps.dropLast
  | .dir n => some (comps ++ [n])
  | .term n => some (comps ++ [n])

def walkSteps (comps : List Name) : List Step → Option (List Name)
  | [] => some comps
  | s :: ss =>
    match walk1 comps s with
    | none => none
    | some c => walkSteps c ss

/-- Why a path is rejected; all three are reported as INVALID_ARGUMENT. -/
inductive PathErr where
  | nul | absolute | escapes
deriving DecidableEq, Repr

/-- `path.Resolve(UNIXFormat.NewParser(p), NewRelativeScopeWalker(&outputNodePath{start}))`. -/
def resolveRel (start : List Name) (p : Str) : Except PathErr (List Name) :=
  if 0 ∈ p then .error .nul
  else if p.head? = some 47 then .error .absolute
  else
    match walkSteps start (parseRel p) with
    | none => .error .escapes
    | some c => .ok c

/-! ## The output hierarchy (`outputNode` trie) -/

inductive ONode where
  | mk (paths : List (Name × List Str)) (subs : List (Name × ONode))

namespace ONode
def empty : ONode := .mk [] []
def paths : ONode → List (Name × List Str) | .mk p _ => p
def subs : ONode → List (Name × ONode) | .mk _ s => s
end ONode

/-- `on.pathsToUpload[name] = append(on.pathsToUpload[name], s)`. -/
def addPath (name : Name) (s : Str) : List (Name × List Str) → List (Name × List Str)
  | [] => [(name, [s])]
  | (k, v) :: rest => if k = name then (k, v ++ [s]) :: rest else (k, v) :: addPath name s rest

/-- `child, ok := on.subdirectories[c]; if !ok { child = newOutputDirectory(); … }` followed by `f` on the child. -/
def alterSub (name : Name) (f : ONode → ONode) : List (Name × ONode) → List (Name × ONode)
  | [] => [(name, f .empty)]
  | (k, v) :: rest => if k = name then (k, f v) :: rest else (k, v) :: alterSub name f rest

/-- The loop at the end of `OutputHierarchy.lookup` plus the `append` in `NewOutputHierarchy`. -/
def ONode.insert : List Name → Name → Str → ONode → ONode
  | [], last, s, .mk ps subs => .mk (addPath last s ps) subs
  | c :: cs, last, s, .mk ps subs => .mk ps (alterSub c (ONode.insert cs last s) subs)

/-- `components[:len-1], components[len-1]`. -/
def splitLast {α : Type} : List α → Option (List α × α)
  | [] => none
  | [x] => some ([], x)
  | x :: y :: r =>
    match splitLast (y :: r) with
    | none => none
    | some (i, l) => some (x :: i, l)

structure Hierarchy where
  root : ONode
  roots : List Str      -- rootsToUpload
  upDirs : Bool         -- uploadTreesAndDirectories

/-- One iteration of the "Register output paths" loop. -/
def Hierarchy.register (wd : List Name) (h : Hierarchy) (p : Str) : Except PathErr Hierarchy :=
  match resolveRel wd p with
  | .error e => .error e
  | .ok comps =>
    match splitLast comps with
    | none => .ok { h with roots := h.roots ++ [p] }
    | some (init, last) => .ok { h with root := h.root.insert init last p }

def registerAll (wd : List Name) : Hierarchy → List Str → Except PathErr Hierarchy
  | h, [] => .ok h
  | h, p :: ps =>
    match h.register wd p with
    | .error e => .error e
    | .ok h' => registerAll wd h' ps

/-- `NewOutputHierarchy(command)`. -/
def newHierarchy (wdStr : Str) (paths : List Str) (upDirs : Bool) : Except PathErr Hierarchy :=
  match resolveRel [] wdStr with
  | .error e => .error e
  | .ok wd => registerAll wd ⟨.empty, [], upDirs⟩ paths

/-! ## The file system seen through `UploadableDirectory` / `ParentPopulatableDirectory` -/

inductive Node where
  | dir (readable : Bool) (es : List (Name × Node))   -- `readable = false`: ReadDir fails
  | file (exec : Bool) (content : Nat)
  | symlink (target : Str)
  | special                                           -- FIFO, socket, device
deriving Repr

abbrev Entries := List (Name × Node)

def lookupE (name : Name) : Entries → Option Node
  | [] => none
  | (k, v) :: rest => if k = name then some v else lookupE name rest

def setE (name : Name) (n : Node) : Entries → Entries
  | [] => []
  | (k, v) :: rest => if k = name then (k, n) :: rest else (k, v) :: setE name n rest

/-- `d.Mkdir(name, 0o777)` with `os.IsExist` tolerated. -/
def mkdirE (name : Name) (es : Entries) : Entries :=
  match lookupE name es with
  | some _ => es
  | none => es ++ [(name, .dir true [])]

mutual
/-- `outputNode.createParentDirectories`; `error ()` = a parent location is not a directory (ENOTDIR on enter). -/
def ONode.mkParents : ONode → Entries → Except Unit Entries
  | .mk _ subs, es => mkParentsSubs subs es
def mkParentsSubs : List (Name × ONode) → Entries → Except Unit Entries
  | [], es => .ok es
  | (name, child) :: rest, es =>
    let es1 := mkdirE name es
    if child.subs.isEmpty then mkParentsSubs rest es1
    else
      match lookupE name es1 with
      | some (.dir r ces) =>
        match child.mkParents ces with
        | .ok ces' => mkParentsSubs rest (setE name (.dir r ces') es1)
        | .error e => .error e
      | _ => .error ()
end

/-! ## Directory messages, blobs, results -/

/-- `remoteexecution.Directory`; a child is referenced by its digest = the child message itself. -/
inductive DirMsg where
  | mk (files : List (Name × Nat × Bool)) (dirs : List (Name × DirMsg)) (symlinks : List (Name × Str))

namespace DirMsg
def files : DirMsg → List (Name × Nat × Bool) | .mk f _ _ => f
def dirs : DirMsg → List (Name × DirMsg) | .mk _ d _ => d
def symlinks : DirMsg → List (Name × Str) | .mk _ _ s => s
/-- digests referenced by a Directory message -/
def kids (m : DirMsg) : List DirMsg := m.dirs.map (·.2)
end DirMsg

mutual
def DirMsg.decEq : (a b : DirMsg) → Decidable (a = b)
  | .mk f1 d1 s1, .mk f2 d2 s2 =>
    if hf : f1 = f2 then
      if hs : s1 = s2 then
        match DirMsg.decEqList d1 d2 with
        | isTrue h => isTrue (by subst hf; subst hs; subst h; rfl)
        | isFalse h => isFalse (by intro e; injection e with _ e2 _; exact h e2)
      else isFalse (by intro e; injection e with _ _ e3; exact hs e3)
    else isFalse (by intro e; injection e with e1 _ _; exact hf e1)
def DirMsg.decEqList : (a b : List (Name × DirMsg)) → Decidable (a = b)
  | [], [] => isTrue rfl
  | [], _ :: _ => isFalse (by intro e; cases e)
  | _ :: _, [] => isFalse (by intro e; cases e)
  | (n1, m1) :: r1, (n2, m2) :: r2 =>
    if hn : n1 = n2 then
      match DirMsg.decEq m1 m2 with
      | isTrue hm =>
        match DirMsg.decEqList r1 r2 with
        | isTrue hr => isTrue (by subst hn; subst hm; subst hr; rfl)
        | isFalse hr => isFalse (by intro e; injection e with _ e2; exact hr e2)
      | isFalse hm => isFalse (by intro e; injection e with e1 _; injection e1 with _ e12; exact hm e12)
    else isFalse (by intro e; injection e with e1 _; injection e1 with e11 _; exact hn e11)
end

instance : DecidableEq DirMsg := DirMsg.decEq

/-- What is written to the CAS. -/
inductive Blob where
  | file (content : Nat)
  | dirmsg (m : DirMsg)
  | tree (ms : List DirMsg)

structure Env where
  putFails : Blob → Bool
  /-- `Readlink` fails for a symlink with this target (fault injection) -/
  readlinkFails : Str → Bool := fun _ => false

/-- Error classes (gRPC codes are what is observable; messages are not modelled). -/
inductive Err where
  | invalidArgument   -- special file at a declared output location
  | put               -- CAS write failed
  | fs                -- file system call failed (ENOTDIR when entering, ReadDir failure)
deriving DecidableEq, Repr

/-- Entries of the `ActionResult` produced by `UploadOutputs`, plus all saved errors. -/
structure Res where
  files : List (Str × Nat × Bool) := []                           -- path, digest, is_executable
  dirs : List (Str × List DirMsg × Option DirMsg) := []           -- path, Tree (root first), root_directory_digest
  symlinks : List (Str × Str) := []                               -- path, target
  errs : List Err := []

def Res.append (a b : Res) : Res :=
  ⟨a.files ++ b.files, a.dirs ++ b.dirs, a.symlinks ++ b.symlinks, a.errs ++ b.errs⟩
instance : Append Res := ⟨Res.append⟩
def Res.err (e : Err) : Res := { errs := [e] }

/-! ## Symlink targets: `path.Builder` over `VoidScopeWalker` -/

structure PB where
  absolute : Bool
  comps : List Str
  suffix : Str

/-- `buildingComponentWalker` over `VoidComponentWalker` (`IsReversible` is always false, so
`firstReversibleIndex = len(components)` and `..` is always appended unless at `/`). -/
def pbStep (b : PB) : Step → PB
  | .stay => b
  | .up => if b.absolute && b.comps.isEmpty then b else { b with comps := b.comps ++ [[46, 46]], suffix := [] }
  | .dir n => { b with comps := b.comps ++ [n], suffix := [47] }
  | .term n => { b with comps := b.comps ++ [n], suffix := [] }

/-- `Builder.GetUNIXString`. -/
def PB.render (b : PB) : Str :=
  let rec go (prefix_ : Str) : List Str → Str
    | [] => []
    | c :: cs => prefix_ ++ c ++ go [47] cs
  go (if b.absolute then [47] else []) b.comps ++ b.suffix

/-- `targetPath, sw := path.EmptyBuilder.Join(path.VoidScopeWalker); path.Resolve(targetParser, sw);
targetPath.GetUNIXString()` for a NUL-free target. -/
def normTarget (t : Str) : Str :=
  let b0 : PB := if t.head? = some 47 then ⟨true, [], [47]⟩ else ⟨false, [], [46]⟩
  let rel : Str := if t.head? = some 47 then stripSeps t else t
  ((parseRel rel).foldl pbStep b0).render

/-! ## Uploading -/

/-- `uploadOutputDirectoryState`: `directories` (post-order, de-duplicated by digest) and the saved errors. -/
structure UpState where
  dirs : List DirMsg := []
  errs : List Err := []

def UpState.err (st : UpState) (e : Err) : UpState := { st with errs := st.errs ++ [e] }

/-- `if _, ok := s.directoriesSeen[digest]; !ok { s.directories = append(s.directories, data); … }`. -/
def UpState.see (st : UpState) (m : DirMsg) : UpState :=
  if m ∈ st.dirs then st else { st with dirs := st.dirs ++ [m] }

mutual
/-- `uploadDirectory(d, dPath)`; `none` = the error return (ReadDir failed; the error is saved by the caller,
which the model does right here). -/
def Node.uploadDirectory (env : Env) : Node → UpState → Option DirMsg × UpState
  | .dir readable es, st =>
    if readable then
      match uploadEntries env es (.mk [] [] []) st with
      | (m, st') => (some m, st'.see m)
    else (none, st.err .fs)
  | _, st => (none, st.err .fs)
/-- The `for _, file := range files` loop, accumulating the `Directory` message. -/
def uploadEntries (env : Env) : Entries → DirMsg → UpState → DirMsg × UpState
  | [], m, st => (m, st)
  | (name, .file x c) :: rest, .mk fs ds ss, st =>
    if env.putFails (.file c) then uploadEntries env rest (.mk fs ds ss) (st.err .put)
    else uploadEntries env rest (.mk (fs ++ [(name, c, x)]) ds ss) st
  | (name, .dir r ces) :: rest, .mk fs ds ss, st =>
    match Node.uploadDirectory env (.dir r ces) st with
    | (some cm, st') => uploadEntries env rest (.mk fs (ds ++ [(name, cm)]) ss) st'
    | (none, st') => uploadEntries env rest (.mk fs ds ss) st'
  | (name, .symlink t) :: rest, .mk fs ds ss, st =>
    if env.readlinkFails t then uploadEntries env rest (.mk fs ds ss) (st.err .fs)
    else uploadEntries env rest (.mk fs ds (ss ++ [(name, normTarget t)])) st
  | (_, .special) :: rest, m, st => uploadEntries env rest m st     -- no `default:` in the switch
end

/-- `uploadOutputDirectoryEntered(d, dPath, paths)` on the already entered directory `n`. -/
def uploadOutputDirectoryEntered (env : Env) (upDirs : Bool) (n : Node) (paths : List Str) : Res :=
  match n.uploadDirectory env {} with
  | (none, st) => { errs := st.errs }
  | (some root, st) =>
    let tree := st.dirs.reverse
    let treeOk := !env.putFails (.tree tree)
    let dirsOk := !upDirs || st.dirs.all (fun m => !env.putFails (.dirmsg m))
    { dirs := if treeOk && dirsOk then paths.map (fun p => (p, tree, if upDirs then some root else none)) else []
      errs := st.errs ++ (if treeOk then [] else [.put]) ++ (if dirsOk then [] else [.put]) }

/-- The body of the first loop of `outputNode.uploadOutputs` for one name. -/
def uploadPath (env : Env) (upDirs : Bool) (es : Entries) (name : Name) (paths : List Str) : Res :=
  match lookupE name es with
  | none => {}                                        -- os.IsNotExist: silently skipped
  | some (.dir r ces) => uploadOutputDirectoryEntered env upDirs (.dir r ces) paths
  | some (.file x c) =>
    if env.putFails (.file c) then .err .put
    else { files := paths.map (fun p => (p, c, x)) }
  | some (.symlink t) =>
    if env.readlinkFails t then .err .fs
    else { symlinks := paths.map (fun p => (p, normTarget t)) }
  | some .special => .err .invalidArgument

def uploadPaths (env : Env) (upDirs : Bool) (es : Entries) : List (Name × List Str) → Res
  | [] => {}
  | (name, paths) :: rest => uploadPath env upDirs es name paths ++ uploadPaths env upDirs es rest

mutual
/-- `outputNode.uploadOutputs(s, d, dPath)`. -/
def ONode.upload (env : Env) (upDirs : Bool) : ONode → Entries → Res
  | .mk ps subs, es => uploadPaths env upDirs es ps ++ uploadSubs env upDirs subs es
def uploadSubs (env : Env) (upDirs : Bool) : List (Name × ONode) → Entries → Res
  | [], _ => {}
  | (name, child) :: rest, es =>
    (match lookupE name es with
      | none => ({} : Res)                            -- os.IsNotExist
      | some (.dir _ ces) => child.upload env upDirs ces
      | some _ => .err .fs) ++ uploadSubs env upDirs rest es
end

/-- `OutputHierarchy.UploadOutputs(ctx, d, cas, digestFunction, delay, actionResult, force)` on the root
directory `root`. -/
def Hierarchy.uploadOutputs (env : Env) (h : Hierarchy) (force : Bool) (root : Node) : Res :=
  match root with
  | .dir r es =>
    (if h.roots.isEmpty then ({} : Res)
     else uploadOutputDirectoryEntered env (h.upDirs || force) (.dir r es) h.roots)
    ++ h.root.upload env (h.upDirs || force) es
  | _ => .err .fs

/-- `OutputHierarchy.CreateParentDirectories(d)`. -/
def Hierarchy.createParentDirectories (h : Hierarchy) (root : Node) : Except Unit Node :=
  match root with
  | .dir r es =>
    match h.root.mkParents es with
    | .ok es' => .ok (.dir r es')
    | .error e => .error e
  | _ => .error ()

end BbRe.Outputs
