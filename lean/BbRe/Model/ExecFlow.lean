/-!
# Control flow of `localBuildExecutor.Execute` (properties C10, C11, C12: the executor's part)

Mirrors `pkg/builder/local_build_executor.go`, `Execute()`, as a timeline.  All
instants are relative to the call of `Execute` (any tick; the harness uses ms).

```go
actionDigestIfNotRunInParallel = nil if action.DoNotCache else &actionDigest           -- `request`
buildDirectory, … := be.buildDirectoryCreator.GetBuildDirectory(ctx, actionDigestIfNotRunInParallel)
                                                                                        -- `Dirs.exec` (name choice of
                                                                                        --  shared_build_directory_creator.go)
executionStateUpdates <- FetchingInputs                                                 -- `acceptFetching`
… Mkdir root, MergeDirectoryContents, Command, CreateParentDirectories, tmp, logs …     -- `Env.prep`
executionStateUpdates <- Running                                                        -- `acceptRunning`
ctxWithTimeout, cancelTimeout := be.clock.NewContextWithTimeout(…, executionTimeout)    -- `budgetStart`
runResponse, runErr := be.runner.Run(ctxWithTimeout, …)                                 -- `runFrom`
cancelTimeout(); <-ctxWithTimeout.Done()                                                -- `runEnd`
VirtualExecutionDuration = ctxWithTimeout.Value(UnsuspendedDurationKey{})               -- `RunOut.unsusp`
executionStateUpdates <- UploadingOutputs                                               -- `acceptUploading`
writableFileUploadDelayCtx, … := be.clock.NewContextWithTimeout(ctx, be.maximumWritableFileUploadDelay)
                                                                                        -- `delayStart`
UploadFile(stdout), UploadFile(stderr), outputHierarchy.UploadOutputs(…, writableFileUploadDelayChan, …)
                                                                                        -- `uploadFiles`
```

* `executionStateUpdates` is an unbuffered channel: a send returns when the
  receiver takes the message.  The receiver is idle when `Execute` is called and
  is busy for `Env.consumer` with every update it took (it forwards the update
  to the scheduler), so a send at `t` is accepted at `max t (previous acceptance
  + consumer)`.
* The command is a list of segments as its runner sees them: `run d` (it
  computes for `d`), `stall d` (a read of an input blocks for `d`; the worker
  suspends its clock meanwhile and the read is not interrupted).  `runFrom` is
  the run stage at the granularity the end-to-end harness observes: the context
  ends once the command has been running unsuspended for `timeout` or
  `timeout + maxSusp` of wall-clock time have passed, whichever is first; the
  runner returns at that instant when it is computing, and at the end of the
  read when it is blocked in one.  (The re-arm loop of the real
  `SuspendableClock` that produces this is `Model/SusClock.lean`, property C11.)
* `uploadFiles`: `fileBackedFile.waitAndOpenReadFrozen`
  (`pkg/filesystem/virtual/pool_backed_file_allocator.go`): a file whose last
  writing descriptor is already closed is uploaded at once; otherwise the upload
  waits until the descriptor is closed or the delay context is done, whichever is
  first, and in the latter case uploads what the file contains at that moment
  (`false`: not the complete file).  A close and the deadline at the same
  instant is a `select` between two ready channels; the model counts it as
  incomplete, i.e. `true` means *guaranteed* complete.
* `Dirs`: the children of the shared build directory of one worker and
  `nextParallelActionID`.  `Dirs.exec` is the name choice and the exclusive
  `Mkdir` of `sharedBuildDirectoryCreator.GetBuildDirectory` for the request
  `Execute` makes; `Dirs.finish` the `RemoveAll` of `sharedBuildDirectory.Close`
  (that it happens, and that the cleaner never interferes, is property C12's
  `Model/BuildDirs.lean` / `Model/Idle.lean`).

Core Lean only (linked into `drv_execflow`).
-/
namespace BbRe.ExecFlow

/-! ## the run stage -/

inductive Seg where
  | run (d : Nat)
  | stall (d : Nat)
deriving Repr, DecidableEq

structure RunOut where
  killed    : Bool  -- the runner returned because its context was done
  unsusp    : Nat   -- how long the command ran, not counting stalls (= virtual_execution_duration)
  wall      : Nat   -- how long `runner.Run` took
  completed : Nat   -- segments the command completed
deriving Repr, DecidableEq

/-- `T` = timeout, `L` = timeout + maximum suspension; `t` wall-clock time since the
context was created, `u` unsuspended time, `n` segments completed. -/
def runFrom (T L : Nat) : Nat → Nat → Nat → List Seg → RunOut
  | t, u, n, [] => ⟨decide (L < t), u, t, n⟩
  | t, u, n, .run d :: rest =>
    if L < t then ⟨true, u, t, n⟩
    else
      let k := min (T - u) (L - t)
      if k < d then ⟨true, u + k, t + k, n⟩ else runFrom T L (t + d) (u + d) (n + 1) rest
  | t, u, n, .stall d :: rest =>
    if L < t then ⟨true, u, t, n⟩ else runFrom T L (t + d) u (n + 1) rest

def runTime : List Seg → Nat
  | [] => 0
  | .run d :: rest => d + runTime rest
  | .stall _ :: rest => runTime rest

def stallTime : List Seg → Nat
  | [] => 0
  | .run _ :: rest => stallTime rest
  | .stall d :: rest => d + stallTime rest

/-! ## uploading files that may still be opened for writing -/

/-- `deadline`: when the delay context is done; `now`; the instants at which the last
writing descriptor of each file (in upload order) is closed. -/
def uploadFiles (deadline : Nat) : Nat → List Nat → List Bool × Nat
  | now, [] => ([], now)
  | now, close :: rest =>
    if close ≤ now then
      let r := uploadFiles deadline now rest
      (true :: r.1, r.2)
    else if close < deadline then
      let r := uploadFiles deadline close rest
      (true :: r.1, r.2)
    else
      let r := uploadFiles deadline (max now deadline) rest
      (false :: r.1, r.2)

/-! ## the whole call -/

structure Env where
  timeout     : Nat        -- action.Timeout
  maxSusp     : Nat        -- maximum suspension of the worker's SuspendableClock
  uploadDelay : Nat        -- maximumWritableFileUploadDelay
  consumer    : Nat        -- how long the receiver of state updates is busy with each update
  prep        : Nat        -- fetching inputs, creating parent directories, tmp, server_logs
  script      : List Seg   -- what the command does
  lingers     : List Nat   -- per uploaded file: how long after the command's exit its last writing descriptor is closed
deriving Repr

structure Trace where
  acceptFetching  : Nat
  acceptRunning   : Nat
  budgetStart     : Nat     -- creation of ctxWithTimeout
  run             : RunOut
  runEnd          : Nat
  acceptUploading : Nat
  delayStart      : Nat     -- creation of writableFileUploadDelayCtx
  complete        : List Bool
  finish          : Nat     -- Execute returns
deriving Repr

def execute (e : Env) : Trace :=
  let a1 := 0
  let a2 := max (a1 + e.prep) (a1 + e.consumer)
  let r := runFrom e.timeout (e.timeout + e.maxSusp) 0 0 0 e.script
  let t2 := a2 + r.wall
  let a3 := max t2 (a2 + e.consumer)
  let up := uploadFiles (a3 + e.uploadDelay) a3 (e.lingers.map (t2 + ·))
  { acceptFetching := a1, acceptRunning := a2, budgetStart := a2, run := r, runEnd := t2,
    acceptUploading := a3, delayStart := a3, complete := up.1, finish := up.2 }

/-! ## build directory names -/

/-- What `Execute` knows about the action when it asks for a build directory. -/
structure Req where
  doNotCache : Bool
  digestName : String   -- `actionDigest.GetHashString()[:16]`
deriving Repr, DecidableEq

/-- `actionDigestIfNotRunInParallel` (as the name `GetBuildDirectory` derives from it). -/
def request (r : Req) : Option String := if r.doNotCache then none else some r.digestName

structure Dirs where
  next    : Nat                   -- nextParallelActionID
  running : List (Req × String)   -- actions holding a build directory, with its name (= children of the root)
deriving Repr

def Dirs.init : Dirs := ⟨0, []⟩

def Dirs.names (s : Dirs) : List String := s.running.map (·.2)

/-- `GetBuildDirectory`: name choice, then `Mkdir` (fails when the name exists). -/
def Dirs.get (s : Dirs) (r : Req) : Dirs × Option String :=
  match request r with
  | none =>
    let n := Nat.repr (s.next + 1)
    if n ∈ s.names then ({ s with next := s.next + 1 }, none)
    else ({ next := s.next + 1, running := (r, n) :: s.running }, some n)
  | some d =>
    if d ∈ s.names then (s, none) else ({ s with running := (r, d) :: s.running }, some d)

/-- `sharedBuildDirectory.Close` of the action holding `n`. -/
def Dirs.finish (s : Dirs) (n : String) : Dirs :=
  { s with running := s.running.filter (fun x => x.2 ≠ n) }

/-- No two identical cacheable actions are in flight (the scheduler's in-flight
deduplication, property C03); `do_not_cache` actions are never deduplicated. -/
def Dirs.admits (s : Dirs) (r : Req) : Prop :=
  r.doNotCache = false → ∀ x ∈ s.running, x.1.doNotCache = false → x.1.digestName ≠ r.digestName

/-- Histories of one worker: actions start (`Execute` asks for a directory; digest
names are 16 characters) and end in any order, under the scheduler's guarantee. -/
inductive Reachable : Dirs → Prop
  | init : Reachable Dirs.init
  | exec {s : Dirs} (r : Req) : Reachable s → r.digestName.length = 16 → s.admits r → Reachable (s.get r).1
  | finish {s : Dirs} (n : String) : Reachable s → Reachable (s.finish n)

end BbRe.ExecFlow
