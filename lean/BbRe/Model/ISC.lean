/-
Model of `pkg/scheduler/initialsizeclass` (C07 part (b)): the size-class analyzers'
own state machine and the values they hand to the scheduler.

Go source mirrored, definition by definition:

* `action_timeout_extractor.go`  `ExtractTimeout`              → `checkDuration`, `asDuration`, `extractTimeout`
* `outcomes.go`                  `NewOutcomes`/`GetMedianExecutionTime`/`IsFaster`
                                                               → `sortInts`, `median`, `mergeScore`, `isFasterScore`,
                                                                 `isFasterDenom`, `isFaster`
* `page_rank_strategy_calculator.go`
    `getOutcomesFromPreviousExecutions`                        → `successTimes`
    `getSmallerSizeClassExecutionParameters`                   → `smallerParams`
    `GetStrategies`                                            → `ensureClasses`, `forcedStrategies`, `classify`, `build`,
                                                                 `matrix`, `startVec`, `stepVec`, `iterate`, `saveProbs`,
                                                                 `pageRankStrategies`
    `GetBackgroundExecutionTimeout`                            → `backgroundTimeout`
* `smallest_size_class_strategy_calculator.go`                 → `smallestStrategies`
* `fallback_analyzer.go`                                       → `Learner.fbSmaller`, `Learner.fbLargest`, `selectFallback`
* `feedback_driven_analyzer.go`
    `getExpectedExecutionDuration`                             → `expectedDuration`
    `feedbackDrivenSelector.Select` / `Abandoned`              → `pick`, `selectFD`, `selectorAbandoned`
    `baseLearner.addPreviousExecution`/`updateLastSeenFailure` → `addExec`, `setLastFailure`
    the five learner types                                     → `Learner`, `Learner.succeeded`, `Learner.failed`,
                                                                 `Learner.abandoned`

Conventions.
* `time.Duration` / timestamps are `Int` nanoseconds; size classes (`uint32`) are `Nat`;
  Go `int` counters are `Int` (no overflow for the ≤ 2^31 list lengths involved).
* Probabilities are exact rationals (`Rat`); the Go code uses `float64`.  Float rounding
  is *modelled, not verified*: the harness compares within 1e-9.
* The four float→`time.Duration` conversions of `getSmallerSizeClassExecutionParameters`
  and the normalisation of execution times are an *uninterpreted* record `FloatOps`;
  every range theorem holds for all `FloatOps`.  The driver instantiates them with exact
  rational arithmetic (`exactOps`), which equals the float computation for the
  dyadic parameters the harness uses in compared runs.
* The `map[uint32]*PerSizeClassStats` is an association list (keys unique); the dump
  sorts by key.
* A Go panic (nil dereference / index out of range) is `none`.
* Each transition reports the `Release(dirty)` call it makes on the ISCC handle and
  whether it mutated the learned part of the message (ghost outputs `release`, `mutated`).
-/
namespace BbRe.ISC

/-! ## action_timeout_extractor.go -/

/-- `durationpb.Duration.CheckValid` on a non-nil message (seconds, nanos). -/
def checkDuration (secs nanos : Int) : Bool :=
  !(secs < -315576000000 || secs > 315576000000) &&
  !(nanos ≤ -1000000000 || nanos ≥ 1000000000) &&
  !((secs > 0 && nanos < 0) || (secs < 0 && nanos > 0))

def maxInt64 : Int := 9223372036854775807
def minInt64 : Int := -9223372036854775808

/-- `durationpb.Duration.AsDuration`: saturating conversion to int64 nanoseconds. -/
def asDuration (secs nanos : Int) : Int :=
  let d := secs * 1000000000 + nanos
  if d > maxInt64 then maxInt64 else if d < minInt64 then minInt64 else d

/-- The `timeout` field of an REv2 Action. -/
inductive ActionTimeout where
  | unset
  | set (secs nanos : Int)
deriving Repr, DecidableEq, Inhabited

/-- `ActionTimeoutExtractor.ExtractTimeout`; `none` = InvalidArgument. -/
def extractTimeout (defaultTO maxTO : Int) : ActionTimeout → Option Int
  | .unset => some defaultTO
  | .set secs nanos =>
    if !checkDuration secs nanos then none
    else
      let t := asDuration secs nanos
      if t < 0 || t > maxTO then none else some t

/-! ## The statistics message (bb-storage `iscc.PreviousExecutionStats`) -/

/-- `iscc.PreviousExecution` (`unset`: the oneof is empty). -/
inductive Outcome where
  | failed
  | timedOut (d : Int)
  | succeeded (d : Int)
  | unset
deriving Repr, DecidableEq, Inhabited

/-- A `double` read back from the Initial Size Class Cache (`initial_page_rank_probability`):
any IEEE value may be stored, so the non-finite ones are represented explicitly; every finite
double (zero, denormal, negative, > 1) is the rational it denotes. -/
inductive StoredProb where
  | nan
  | posInf
  | negInf
  | fin (q : Rat)
deriving Repr, DecidableEq, Inhabited

/-- The restore guard of `GetStrategies` as written:
`probability := 0.5; if restored > 0 && restored < 1 { probability = restored }`.
Both comparisons are false for NaN, so only values strictly inside (0,1) are taken. -/
def restoredOf : StoredProb → Rat
  | .fin q => if 0 < q ∧ q < 1 then q else 1 / 2
  | _ => 1 / 2

/-- `iscc.PerSizeClassStats`. -/
structure PerClass where
  execs : List Outcome := []
  prob : StoredProb := .fin 0
deriving Repr, DecidableEq, Inhabited

abbrev ClassMap := List (Nat × PerClass)

/-- `iscc.PreviousExecutionStats`; `lastFailure = none` stands for an unset or invalid
timestamp (`CheckValid() != nil`). -/
structure Stats where
  classes : ClassMap := []
  lastFailure : Option Int := none
deriving Repr, DecidableEq, Inhabited

def getClass : ClassMap → Nat → Option PerClass
  | [], _ => none
  | (k, v) :: m, sc => if k = sc then some v else getClass m sc

def setClass : ClassMap → Nat → PerClass → ClassMap
  | [], sc, v => [(sc, v)]
  | (k, w) :: m, sc, v => if k = sc then (k, v) :: m else (k, w) :: setClass m sc v

/-! ## outcomes.go -/

def insertSorted (x : Int) : List Int → List Int
  | [] => [x]
  | y :: ys => if x ≤ y then x :: y :: ys else y :: insertSorted x ys

/-- `sort.Sort(durationsList(successes))` (the result is determined by the multiset). -/
def sortInts : List Int → List Int
  | [] => []
  | x :: xs => insertSorted x (sortInts xs)

/-- `Outcomes`: execution times in ascending order, and a failure count. -/
structure Outcomes where
  successes : List Int := []
  failures : Nat := 0
deriving Repr, DecidableEq, Inhabited

def newOutcomes (successes : List Int) (failures : Nat) : Outcomes :=
  { successes := sortInts successes, failures := failures }

/-- `Outcomes.GetMedianExecutionTime` (Go `/` truncates toward zero). -/
def median (sorted : List Int) : Option Int :=
  if sorted.length = 0 then none
  else
    let middle := sorted.length / 2
    let m := sorted.getD middle 0
    if sorted.length % 2 = 0 then some (Int.tdiv (sorted.getD (middle - 1) 0 + m) 2) else some m

/-- Split off the leading run of elements equal to `c`: (length of the run, rest). -/
def takeEq (c : Int) : List Int → Nat × List Int
  | [] => (0, [])
  | x :: xs => if x = c then ((takeEq c xs).1 + 1, (takeEq c xs).2) else (0, x :: xs)

theorem takeEq_length_le (c : Int) (xs : List Int) : (takeEq c xs).2.length ≤ xs.length := by
  induction xs with
  | nil => simp [takeEq]
  | cons x xs ih =>
    unfold takeEq; split
    · simp only [List.length_cons]; omega
    · simp

/-- The two-way merge loop of `Outcomes.IsFaster` followed by
`score += 2 * len(successesA) * remainingB`.  (`remainingA` is dead in the Go code.) -/
def mergeScore (A B : List Int) (score remB : Int) : Int :=
  match A, B with
  | [], _ => score
  | a :: A', [] => score + 2 * ((a :: A').length : Int) * remB
  | a :: A', b :: B' =>
    if a < b then mergeScore A' (b :: B') (score + 2 * remB) remB
    else if a > b then mergeScore (a :: A') B' score (remB - 1)
    else
      let ea : Int := ((takeEq a A').1 : Int) + 1
      let eb : Int := ((takeEq a B').1 : Int) + 1
      mergeScore (takeEq a A').2 (takeEq a B').2 (score + ea * (2 * remB - eb)) (remB - eb)
termination_by A.length + B.length
decreasing_by
  all_goals
    have h1 := takeEq_length_le a A'
    have h2 := takeEq_length_le a B'
    simp only [List.length_cons]
    omega

def Outcomes.count (o : Outcomes) : Int := (o.successes.length : Int) + (o.failures : Int)

/-- Numerator of `Outcomes.IsFaster`. -/
def isFasterScore (a b : Outcomes) : Int :=
  mergeScore a.successes b.successes (1 + b.count) b.count + (a.failures : Int) * (b.failures : Int)

/-- Denominator of `Outcomes.IsFaster`. -/
def isFasterDenom (a b : Outcomes) : Int :=
  2 + a.count + b.count + 2 * a.count * b.count

def isFaster (a b : Outcomes) : Rat := (isFasterScore a b : Rat) / (isFasterDenom a b : Rat)

/-! ## page_rank_strategy_calculator.go -/

/-- `getOutcomesFromPreviousExecutions` before sorting. -/
def successTimes : List Outcome → List Int
  | [] => []
  | .succeeded d :: os => d :: successTimes os
  | _ :: os => successTimes os

def medianOf (execs : List Outcome) : Option Int := median (sortInts (successTimes execs))

/-- The float→duration conversions of the PageRank calculator, left uninterpreted.
`scaleUp s l d   = time.Duration(float64(d) * math.Pow(float64(l)/float64(s), exponent))`,
`scaleDown s l d = time.Duration(float64(d) / math.Pow(float64(l)/float64(s), exponent))`,
`mulTimeout d    = time.Duration(float64(d) * timeoutMultiplier)`,
`divTimeout d    = time.Duration(float64(d) / timeoutMultiplier)`. -/
structure FloatOps where
  scaleUp : Nat → Nat → Int → Int
  scaleDown : Nat → Nat → Int → Int
  mulTimeout : Int → Int
  divTimeout : Int → Int

/-- Exact rational instance: integer exponent `e`, multiplier `num/den`, truncation
toward zero as in Go's float→int conversion. -/
def exactOps (e num den : Nat) : FloatOps where
  scaleUp s l d := Int.tdiv (d * ((l ^ e : Nat) : Int)) ((s ^ e : Nat) : Int)
  scaleDown s l d := Int.tdiv (d * ((s ^ e : Nat) : Int)) ((l ^ e : Nat) : Int)
  mulTimeout d := Int.tdiv (d * (num : Int)) (den : Int)
  divTimeout d := Int.tdiv (d * (den : Int)) (num : Int)

/-- `smallerSizeClassExecutionParameters` (the increase factor lives inside `FloatOps`). -/
structure Params where
  maxAcceptable : Int
  execTimeout : Int
deriving Repr, DecidableEq

/-- `getSmallerSizeClassExecutionParameters`. -/
def smallerParams (F : FloatOps) (minTO : Int) (smaller largest : Nat) (medianLargest origTO : Int) : Params :=
  let maxAcc := F.scaleUp smaller largest medianLargest
  let t0 := F.mulTimeout maxAcc
  let t1 := if t0 < minTO then minTO else t0
  let t2 := if t1 > origTO then origTO else t1
  let ceiling := F.divTimeout t2
  { maxAcceptable := if maxAcc > ceiling then ceiling else maxAcc, execTimeout := t2 }

/-- `Strategy`. -/
structure Strategy where
  prob : Rat := 0
  background : Bool := false
  fgTimeout : Int := 0
deriving Repr, DecidableEq, Inhabited

/-- First loop of `GetStrategies`: create a map entry for every size class not seen before. -/
def ensureClasses (m : ClassMap) : List Nat → ClassMap
  | [] => m
  | sc :: rest =>
    match getClass m sc with
    | some _ => ensureClasses m rest
    | none => ensureClasses (setClass m sc {}) rest

/-- `perSizeClassStatsList`. -/
def classList (m : ClassMap) (classes : List Nat) : List PerClass :=
  classes.map (fun sc => (getClass m sc).getD {})

/-- Index of the first smaller size class without any previous execution. -/
def firstEmpty : List PerClass → Nat → Option Nat
  | [], _ => none
  | pc :: rest, i => if pc.execs.length = 0 then some i else firstEmpty rest (i + 1)

/-- The `medianExecutionTimeOnLargest == nil` branch. -/
def forcedStrategies (minTO origTO : Int) (pcs : List PerClass) (n : Nat) : List Strategy :=
  match firstEmpty (pcs.take (n - 1)) 0 with
  | some i => List.replicate i {} ++ [{ prob := 1, fgTimeout := if origTO ≤ minTO then origTO else minTO }]
  | none => List.replicate (n - 1) {} ++ [{ prob := 1, fgTimeout := origTO }]

/-- The `switch outcome` loop: normalised execution times (unsorted) and `failuresOrTimeouts`. -/
def classify (F : FloatOps) (smaller largest : Nat) (maxAcc : Int) : List Outcome → List Int × Nat
  | [] => ([], 0)
  | o :: os =>
    let r := classify F smaller largest maxAcc os
    match o with
    | .failed => (r.1, r.2 + 1)
    | .timedOut d => if d ≥ maxAcc then (r.1, r.2 + 1) else r
    | .succeeded d => if d < maxAcc then (F.scaleDown smaller largest d :: r.1, r.2) else (r.1, r.2 + 1)
    | .unset => r

/-- Result of the loop over the smaller size classes. -/
inductive BuildRes where
  /-- early `return append(strategies, Strategy{Probability: 1.0, RunInBackground: true})` -/
  | early (strategies : List Strategy)
  | full (outcomes : List Outcomes) (strategies : List Strategy)
deriving Repr

/-- The loop `for i, sizeClass := range sizeClasses[:n-1]` with its `runInBackground` state. -/
def build (F : FloatOps) (minTO : Int) (largest : Nat) (med origTO : Int) :
    List (Nat × PerClass) → Bool → BuildRes
  | [], _ => .full [] []
  | (sc, pc) :: rest, runBg =>
    let p := smallerParams F minTO sc largest med origTO
    let c := classify F sc largest p.maxAcceptable pc.execs
    let outcomes := newOutcomes c.1 c.2
    let noData : Bool := c.2 = 0 && c.1.length = 0
    if noData && runBg then .early [{ prob := 1, background := true }]
    else
      let rb : Bool := if noData then runBg else decide (c.2 > c.1.length)
      let s : Strategy := if rb then { background := true } else { fgTimeout := p.execTimeout }
      match build F minTO largest med origTO rest rb with
      | .early ss => .early (s :: ss)
      | .full os ss => .full (outcomes :: os) (s :: ss)

def sumRat : List Rat → Rat
  | [] => 0
  | x :: xs => x + sumRat xs

/-- Entry `m[i][j]`, `i ≠ j`, of the matrix: `(1 - P(i,j))/(n-1)` below the diagonal
(`p2`), `P(j,i)/(n-1)` above it (`p1`), where `P(i,j) = outcomes[i].IsFaster(outcomes[j])`, `j < i`. -/
def offDiag (outs : List Outcomes) (n i j : Nat) : Rat :=
  if j < i then (1 - isFaster (outs.getD i {}) (outs.getD j {})) / ((n - 1 : Nat) : Rat)
  else isFaster (outs.getD j {}) (outs.getD i {}) / ((n - 1 : Nat) : Rat)

/-- The entries of row `m[i]` left of the diagonal. -/
def rowBefore (outs : List Outcomes) (n i : Nat) : List Rat :=
  (List.range i).map (offDiag outs n i)

/-- The entries of row `m[i]` right of the diagonal. -/
def rowAfter (outs : List Outcomes) (n i : Nat) : List Rat :=
  (List.range' (i + 1) (n - (i + 1))).map (offDiag outs n i)

/-- Row `m[i]`: the diagonal starts at 1.0 and every off-diagonal entry is subtracted. -/
def matrixRow (outs : List Outcomes) (n i : Nat) : List Rat :=
  rowBefore outs n i ++ (1 - (sumRat (rowBefore outs n i) + sumRat (rowAfter outs n i))) :: rowAfter outs n i

def matrix (outs : List Outcomes) (n : Nat) : List (List Rat) :=
  (List.range n).map (matrixRow outs n)

/-- Restored / default starting probabilities of entries `1 … n-1`. -/
def restored (pcs : List PerClass) : List Rat :=
  pcs.map (fun pc => restoredOf pc.prob)

/-- The starting vector: entry 0 is inferred from the others. -/
def startVec (pcs : List PerClass) : List Rat :=
  let tail := restored (pcs.drop 1)
  (1 - sumRat tail) :: tail

def vadd : List Rat → List Rat → List Rat
  | x :: xs, y :: ys => (x + y) :: vadd xs ys
  | _, _ => []

def smul (c : Rat) (v : List Rat) : List Rat := v.map (c * ·)

/-- `newProbabilities[j] += strategies[i].Probability * v` over all rows. -/
def accum (n : Nat) : List Rat → List (List Rat) → List Rat
  | p :: ps, row :: rows => vadd (smul p row) (accum n ps rows)
  | _, _ => List.replicate n 0

def stepVec (m : List (List Rat)) (p : List Rat) : List Rat := accum p.length p m

def absRat (x : Rat) : Rat := if x < 0 then -x else x

def l1diff : List Rat → List Rat → Rat
  | x :: xs, y :: ys => absRat (x - y) + l1diff xs ys
  | _, _ => 0

/-- The power iteration `for { … if convergenceError < maximumConvergenceError { break } }`;
returns the vector and the number of iterations (`fuel` bounds the loop; 0 iterations = fuel exhausted). -/
def iterate (m : List (List Rat)) (eps : Rat) : Nat → List Rat → List Rat × Nat
  | 0, p => (p, 0)
  | fuel + 1, p =>
    let q := stepVec m p
    if l1diff p q < eps then (q, 1)
    else
      let r := iterate m eps fuel q
      (r.1, if r.2 = 0 then 0 else r.2 + 1)

/-- "Save the probabilities that have been computed." -/
def saveProbs (m : ClassMap) (classes : List Nat) (probs : List Rat) : ClassMap :=
  let zeroed : ClassMap := m.map (fun e => (e.1, { e.2 with prob := .fin 0 }))
  (classes.zip probs).foldl
    (fun acc e => match getClass acc e.1 with
      | some pc => setClass acc e.1 { pc with prob := .fin e.2 }
      | none => acc) zeroed

def setProbs : List Strategy → List Rat → List Strategy
  | s :: ss, p :: ps => { s with prob := p } :: setProbs ss ps
  | _, _ => []

structure PageRankCfg where
  F : FloatOps
  minTO : Int
  eps : Rat
  fuel : Nat

/-- `pageRankStrategyCalculator.GetStrategies`: the updated map, the strategies, and the
number of power iterations (0 when none ran). -/
def pageRankStrategies (c : PageRankCfg) (m : ClassMap) (classes : List Nat) (origTO : Int) :
    ClassMap × List Strategy × Nat :=
  let n := classes.length
  if n ≤ 1 then (m, [], 0)
  else
    let m1 := ensureClasses m classes
    let pcs := classList m1 classes
    let largest := classes.getLastD 0
    match medianOf (pcs.getLastD {}).execs with
    | none => (m1, forcedStrategies c.minTO origTO pcs n, 0)
    | some med =>
      match build c.F c.minTO largest med origTO ((classes.zip pcs).take (n - 1)) true with
      | .early ss => (m1, ss, 0)
      | .full os ss =>
        let outs := os ++ [newOutcomes (successTimes (pcs.getLastD {}).execs) 0]
        let strategies := ss ++ [{}]
        let r := iterate (matrix outs n) c.eps c.fuel (startVec pcs)
        let strategies' := setProbs strategies r.1
        (saveProbs m1 classes r.1, strategies'.take (n - 1), r.2)

/-- Harness aid (not part of the mechanism): how close the convergence test
`convergenceError < maximumConvergenceError` came to a tie in any iteration; the float
computation may decide a tie within rounding error differently. -/
def convMargin (m : List (List Rat)) (eps : Rat) : Nat → List Rat → Rat
  | 0, _ => 2
  | fuel + 1, p =>
    let q := stepVec m p
    let d := absRat (l1diff p q - eps)
    if l1diff p q < eps then d
    else
      let d' := convMargin m eps fuel q
      if d < d' then d else d'

/-- `convMargin` for the iteration `pageRankStrategies` runs (2 when it runs none). -/
def pageRankConvMargin (c : PageRankCfg) (m : ClassMap) (classes : List Nat) (origTO : Int) : Rat :=
  let n := classes.length
  if n ≤ 1 then 2
  else
    let m1 := ensureClasses m classes
    let pcs := classList m1 classes
    match medianOf (pcs.getLastD {}).execs with
    | none => 2
    | some med =>
      match build c.F c.minTO (classes.getLastD 0) med origTO ((classes.zip pcs).take (n - 1)) true with
      | .early _ => 2
      | .full os _ =>
        let outs := os ++ [newOutcomes (successTimes (pcs.getLastD {}).execs) 0]
        convMargin (matrix outs n) c.eps c.fuel (startVec pcs)

/-- `pageRankStrategyCalculator.GetBackgroundExecutionTimeout`; `none` = nil dereference. -/
def backgroundTimeout (c : PageRankCfg) (m : ClassMap) (classes : List Nat) (idx : Nat) (origTO : Int) :
    Option Int :=
  let largest := classes.getLastD 0
  match getClass m largest with
  | none => none
  | some pc =>
    match medianOf pc.execs with
    | none => none
    | some med => some (smallerParams c.F c.minTO (classes.getD idx 0) largest med origTO).execTimeout

/-- `smallestSizeClassStrategyCalculator.GetStrategies`. -/
def smallestStrategies (classes : List Nat) (origTO : Int) : List Strategy :=
  if classes.length ≤ 1 then [] else [{ prob := 1, fgTimeout := origTO }]

inductive Calc where
  | pageRank (c : PageRankCfg)
  | smallest

def Calc.strategies : Calc → ClassMap → List Nat → Int → ClassMap × List Strategy × Nat
  | .pageRank c, m, classes, origTO => pageRankStrategies c m classes origTO
  | .smallest, m, classes, origTO => (m, smallestStrategies classes origTO, 0)

/-- `GetBackgroundExecutionTimeout` (`smallest` panics). -/
def Calc.backgroundTimeout : Calc → ClassMap → List Nat → Nat → Int → Option Int
  | .pageRank c, m, classes, idx, origTO => BbRe.ISC.backgroundTimeout c m classes idx origTO
  | .smallest, _, _, _, _ => none

/-! ## feedback_driven_analyzer.go / fallback_analyzer.go -/

structure Env where
  calculator : Calc
  historySize : Nat
  failureCacheDuration : Int

/-- `getExpectedExecutionDuration`. -/
def expectedDuration (m : ClassMap) (sc : Nat) (timeout : Int) : Int :=
  match getClass m sc with
  | some pc =>
    match medianOf pc.execs with
    | some med => if med < timeout then med else timeout
    | none => timeout
  | none => timeout

/-- `baseLearner.addPreviousExecution`. -/
def addExec (historySize : Nat) (m : ClassMap) (sc : Nat) (o : Outcome) : ClassMap :=
  let pc := (getClass m sc).getD {}
  let l := pc.execs ++ [o]
  let l' := if l.length > historySize then l.drop (l.length - historySize) else l
  setClass m sc { pc with execs := l' }

/-- The learner objects: the five of `feedback_driven_analyzer.go` (all hold the ISCC
handle) and the two of `fallback_analyzer.go` (no handle). -/
inductive Learner where
  | smallerFg (smaller : Nat) (smallerTO : Int) (largest : Nat) (largestTO : Int)
  | largestFg (smaller : Nat) (smallerExec : Outcome) (largest : Nat)
  | largestBg (largest : Nat) (largestTO : Int) (smaller : Nat)
  | smallerBg (smaller : Nat) (smallerTO : Int)
  | onlyLargest (largest : Nat)
  | fbSmaller (timeout : Int)
  | fbLargest
deriving Repr, DecidableEq, Inhabited

def Learner.holdsHandle : Learner → Bool
  | .fbSmaller _ => false
  | .fbLargest => false
  | _ => true

/-- What a call returns to the scheduler, plus the ghost outputs. -/
structure StepOut where
  stats : Stats
  idx : Nat := 0
  expected : Int := 0
  timeout : Int := 0
  next : Option Learner := none
  /-- `handle.Release(dirty)` performed by this call -/
  release : Option Bool := none
  /-- `addPreviousExecution` / `updateLastSeenFailure` performed by this call -/
  mutated : Bool := false
deriving Repr, DecidableEq

/-- The random selection loop of `Select`. -/
def pick : List Strategy → Nat → Rat → Option (Nat × Strategy)
  | [], _, _ => none
  | s :: ss, i, r => if r < s.prob then some (i, s) else pick ss (i + 1) (r - s.prob)

/-- Smallest distance between the running draw and a threshold it was compared with
(how robust the branch taken by `pick` is against float rounding); 2 when nothing was compared. -/
def pickMargin : List Strategy → Rat → Rat
  | [], _ => 2
  | s :: ss, r =>
    let d := absRat (r - s.prob)
    if r < s.prob then d
    else
      let d' := pickMargin ss (r - s.prob)
      if d < d' then d else d'

/-- Result of `Select` with the extra observables used by the harness. -/
structure SelectOut where
  out : StepOut
  strategies : List Strategy
  /-- whether `randomNumberGenerator.Float64()` was called -/
  drew : Bool
  iterations : Nat

/-- The random selection of `Select` and the creation of the learner, given the strategies. -/
def chooseFD (stats1 : Stats) (strategies : List Strategy) (origTO : Int) (classes : List Nat)
    (largest : Nat) (r : Rat) : Option StepOut :=
  match pick strategies 0 r with
  | some (i, s) =>
    match classes[i]? with
    | none => none
    | some smaller =>
      if s.background then
        some { stats := stats1, idx := classes.length - 1,
               expected := expectedDuration stats1.classes largest origTO, timeout := origTO,
               next := some (.largestBg largest origTO smaller) }
      else
        some { stats := stats1, idx := i,
               expected := expectedDuration stats1.classes smaller s.fgTimeout, timeout := s.fgTimeout,
               next := some (.smallerFg smaller s.fgTimeout largest origTO) }
  | none =>
    some { stats := stats1, idx := classes.length - 1,
           expected := expectedDuration stats1.classes largest origTO, timeout := origTO,
           next := some (.onlyLargest largest) }

/-- `lastSeenFailure.CheckValid() != nil || lastSeenFailure.AsTime().Before(now - failureCacheDuration)`. -/
def useStrategies (env : Env) (stats : Stats) (now : Int) : Bool :=
  match stats.lastFailure with
  | none => true
  | some t => decide (t < now - env.failureCacheDuration)

/-- The strategies `Select` works with: those of the calculator, or none while a failure on
the largest size class is remembered. -/
def strategiesFD (env : Env) (stats : Stats) (origTO : Int) (classes : List Nat) (now : Int) :
    ClassMap × List Strategy × Nat :=
  if useStrategies env stats now then env.calculator.strategies stats.classes classes origTO
  else (stats.classes, [], 0)

/-- `feedbackDrivenSelector.Select`; `none` = panic (empty size-class list). -/
def selectFD (env : Env) (stats : Stats) (origTO : Int) (classes : List Nat) (now : Int) (r : Rat) :
    Option SelectOut :=
  match classes.getLast? with
  | none => none
  | some largest =>
    let sr := strategiesFD env stats origTO classes now
    match chooseFD { stats with classes := sr.1 } sr.2.1 origTO classes largest r with
    | none => none
    | some o => some { out := o, strategies := sr.2.1, drew := useStrategies env stats now, iterations := sr.2.2 }

/-- `feedbackDrivenSelector.Abandoned`. -/
def selectorAbandoned (stats : Stats) : StepOut := { stats, release := some false }

/-- `fallbackSelector.Select`. -/
def selectFallback (stats : Stats) (timeout : Int) (classes : List Nat) : StepOut :=
  if classes.length > 1 then
    { stats, idx := 0, expected := timeout, timeout, next := some (.fbSmaller timeout) }
  else
    { stats, idx := 0, expected := timeout, timeout, next := some .fbLargest }

/-- Index of the first occurrence of `sc` (the `for i, sizeClass := range sizeClasses` search). -/
def findClass (sc : Nat) : List Nat → Nat → Option Nat
  | [], _ => none
  | x :: xs, i => if x = sc then some i else findClass sc xs (i + 1)

def addTo (env : Env) (stats : Stats) (sc : Nat) (o : Outcome) : Stats :=
  { stats with classes := addExec env.historySize stats.classes sc o }

/-- `Learner.Succeeded(duration, sizeClasses)`; `none` = panic. -/
def Learner.succeeded (env : Env) (l : Learner) (stats : Stats) (d : Int) (classes : List Nat) :
    Option StepOut :=
  match l with
  | .smallerFg smaller _ _ _ =>
    some { stats := addTo env stats smaller (.succeeded d), release := some true, mutated := true }
  | .largestFg smaller smallerExec largest =>
    some { stats := addTo env (addTo env stats smaller smallerExec) largest (.succeeded d),
           release := some true, mutated := true }
  | .largestBg largest largestTO smaller =>
    let stats1 := addTo env stats largest (.succeeded d)
    match findClass smaller classes 0 with
    | some i =>
      match env.calculator.backgroundTimeout stats1.classes classes i largestTO with
      | none => none
      | some smallerTO =>
        some { stats := stats1, idx := i, expected := expectedDuration stats1.classes smaller smallerTO,
               timeout := smallerTO, next := some (.smallerBg smaller smallerTO), mutated := true }
    | none => some { stats := stats1, release := some true, mutated := true }
  | .smallerBg smaller _ =>
    some { stats := addTo env stats smaller (.succeeded d), release := some true, mutated := true }
  | .onlyLargest largest =>
    some { stats := addTo env stats largest (.succeeded d), release := some true, mutated := true }
  | .fbSmaller _ => some { stats }
  | .fbLargest => some { stats }

/-- `Learner.Failed(timedOut)`; `now` is `clock.Now()` (read by `updateLastSeenFailure`). -/
def Learner.failed (env : Env) (l : Learner) (stats : Stats) (timedOut : Bool) (now : Int) : StepOut :=
  match l with
  | .smallerFg smaller smallerTO largest largestTO =>
    { stats, expected := expectedDuration stats.classes largest largestTO, timeout := largestTO,
      next := some (.largestFg smaller (if timedOut then .timedOut smallerTO else .failed) largest) }
  | .largestFg _ _ _ =>
    { stats := { stats with lastFailure := some now }, release := some true, mutated := true }
  | .largestBg _ _ _ =>
    { stats := { stats with lastFailure := some now }, release := some true, mutated := true }
  | .smallerBg smaller smallerTO =>
    { stats := addTo env stats smaller (if timedOut then .timedOut smallerTO else .failed),
      release := some true, mutated := true }
  | .onlyLargest _ =>
    { stats := { stats with lastFailure := some now }, release := some true, mutated := true }
  | .fbSmaller timeout => { stats, expected := timeout, timeout, next := some .fbLargest }
  | .fbLargest => { stats }

/-- `Learner.Abandoned()`. -/
def Learner.abandoned (l : Learner) (stats : Stats) : StepOut :=
  match l with
  | .smallerBg _ _ => { stats, release := some true }
  | .fbSmaller _ => { stats }
  | .fbLargest => { stats }
  | _ => { stats, release := some false }

/-! ## Paths: a selector followed by the terminal calls of the learners it yields -/

/-- The terminal call a learner receives. -/
inductive Ev where
  | succeeded (d : Int) (classes : List Nat)
  | failed (timedOut : Bool) (now : Int)
  | abandoned
deriving Repr, DecidableEq

def Learner.step (env : Env) (l : Learner) (stats : Stats) : Ev → Option StepOut
  | .succeeded d classes => l.succeeded env stats d classes
  | .failed t now => some (l.failed env stats t now)
  | .abandoned => some (l.abandoned stats)

/-- What happened to one handle along a path (ghost log). -/
structure Trace where
  /-- the `Release(dirty)` calls, oldest first -/
  releases : List Bool := []
  /-- some call mutated the learned statistics -/
  mutated : Bool := false
  /-- the outstanding learner, if any -/
  cur : Option Learner := none
  /-- a call panicked -/
  panicked : Bool := false
  /-- number of terminal calls delivered -/
  calls : Nat := 0
  /-- every timeout that was returned together with a learner -/
  timeouts : List Int := []
  /-- every size-class index that was returned together with a learner, with the length of
  the size-class list it refers to -/
  indices : List (Nat × Nat) := []
deriving Repr, DecidableEq

def Ev.indexLog (o : StepOut) : Ev → List (Nat × Nat)
  | .succeeded _ classes => if o.next.isSome then [(o.idx, classes.length)] else []
  | _ => []

/-- Deliver terminal calls to the outstanding learner for as long as there is one.  Between
two calls the message may be changed arbitrarily by other requests holding a handle of the
same message (`interfere i` maps the message left by the previous call of this path to the
message seen by its i-th terminal call). -/
def runPath (env : Env) (interfere : Nat → Stats → Stats) : Trace → Stats → List Ev → Trace × Stats
  | t, stats, [] => (t, stats)
  | t, stats, ev :: evs =>
    match t.cur with
    | none => (t, stats)
    | some l =>
      let stats0 := interfere t.calls stats
      match l.step env stats0 ev with
      | none => ({ t with panicked := true, cur := none, calls := t.calls + 1 }, stats0)
      | some o =>
        runPath env interfere
          { releases := t.releases ++ o.release.toList, mutated := t.mutated || o.mutated,
            cur := o.next, panicked := false, calls := t.calls + 1,
            timeouts := t.timeouts ++ (if o.next.isSome then [o.timeout] else []),
            indices := t.indices ++ ev.indexLog o }
          o.stats evs

/-- The trace right after `Select`. -/
def Trace.ofSelect (o : StepOut) (nClasses : Nat) : Trace :=
  { releases := o.release.toList, mutated := o.mutated, cur := o.next,
    timeouts := if o.next.isSome then [o.timeout] else [],
    indices := if o.next.isSome then [(o.idx, nClasses)] else [] }

/-- A complete request against the feedback-driven analyzer: `Select`, then terminal calls.
`none` = `Select` panicked. -/
def selectorRun (env : Env) (interfere : Nat → Stats → Stats) (stats : Stats) (origTO : Int)
    (classes : List Nat) (now : Int) (r : Rat) (evs : List Ev) : Option Trace :=
  match selectFD env stats origTO classes now r with
  | none => none
  | some so => some (runPath env interfere (Trace.ofSelect so.out classes.length) so.out.stats evs).1

/-- The fallback learners consult neither a calculator nor the history size. -/
def fallbackEnv : Env := { calculator := .smallest, historySize := 0, failureCacheDuration := 0 }

/-- A complete request against the fallback analyzer. -/
def fallbackRun (stats : Stats) (timeout : Int) (classes : List Nat) (evs : List Ev) : Trace :=
  let o := selectFallback stats timeout classes
  (runPath fallbackEnv (fun _ s => s) (Trace.ofSelect o classes.length) o.stats evs).1

end BbRe.ISC
