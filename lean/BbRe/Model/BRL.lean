/-
Model of `pkg/filesystem/virtual/byte_range_lock_set.go`.

The Go code keeps a circular doubly linked list sorted by `Start`.  The model is
a `List Lock`; the two loops of `Set` are structural recursions (`phase1`,
`phase2`) followed by the re-insertion of the trailing part.  `Start`/`End` are
`Nat`: the code only compares and copies them (no arithmetic), so no wrap-around
can arise (checked from the source by tools/facts, see DESIGN.md C20).
-/
namespace BbRe.BRL

inductive Ty | unlocked | excl | shared
deriving DecidableEq, Repr, Inhabited

structure Lock where
  start : Nat
  stop  : Nat
  owner : Nat
  ty    : Ty
deriving DecidableEq, Repr, Inhabited

/-- First loop of `Set`: walk to the insertion point.  Returns the entries
before the insertion point (possibly truncated), the remaining entries, the
possibly grown new lock, and a split-off trailing part. -/
def phase1 (n : Lock) (trailing : Option Lock) :
    List Lock → List Lock × List Lock × Lock × Option Lock
  | [] => ([], [], n, trailing)
  | s :: rest =>
    if n.start ≤ s.start then ([], s :: rest, n, trailing)
    else if s.owner = n.owner then
      if n.ty = s.ty then
        if n.start ≤ s.stop then ([], s :: rest, { n with start := s.start }, trailing)
        else
          let r := phase1 n trailing rest
          (s :: r.1, r.2.1, r.2.2.1, r.2.2.2)
      else if n.start < s.stop then
        let trailing' := if n.stop < s.stop then some { s with start := n.stop } else trailing
        let r := phase1 n trailing' rest
        ({ s with stop := n.start } :: r.1, r.2.1, r.2.2.1, r.2.2.2)
      else
        let r := phase1 n trailing rest
        (s :: r.1, r.2.1, r.2.2.1, r.2.2.2)
    else
      let r := phase1 n trailing rest
      (s :: r.1, r.2.1, r.2.2.1, r.2.2.2)

/-- Second loop of `Set`: absorb / merge / cut successors.  Returns the scanned
entries that are kept, the untouched tail, the grown new lock and the trailing
part. -/
def phase2 (n : Lock) (trailing : Option Lock) :
    List Lock → List Lock × List Lock × Lock × Option Lock
  | [] => ([], [], n, trailing)
  | s :: rest =>
    if n.stop < s.start then ([], s :: rest, n, trailing)
    else if s.owner = n.owner then
      if n.stop ≥ s.stop then phase2 n trailing rest
      else if n.ty = s.ty then phase2 { n with stop := s.stop } trailing rest
      else phase2 n (some { s with start := n.stop }) rest
    else
      let r := phase2 n trailing rest
      (s :: r.1, r.2.1, r.2.2.1, r.2.2.2)

/-- `Set`, returning the new list. -/
def setList (ls : List Lock) (l : Lock) : List Lock :=
  let r1 := phase1 l none ls
  let r2 := phase2 r1.2.2.1 r1.2.2.2 r1.2.1
  let mid := if l.ty = .unlocked then [] else [r2.2.2.1]
  r1.1 ++ mid ++ r2.1 ++ r2.2.2.2.toList ++ r2.2.1

/-- `Set`: new list and the returned change in the number of entries. -/
def set (ls : List Lock) (l : Lock) : List Lock × Int :=
  let out := setList ls l
  (out, (out.length : Int) - ls.length)

/-- `Test`. -/
def test (ls : List Lock) (l : Lock) : Option Lock :=
  match ls with
  | [] => none
  | s :: rest =>
    if s.start ≥ l.stop then none
    else if s.owner ≠ l.owner ∧ s.stop > l.start ∧ (s.ty = .excl ∨ l.ty = .excl) then some s
    else test rest l

end BbRe.BRL
