import BbRe.Model.Sched
/-!
One inductive type for all lock-held segments of the scheduler model and the
notion of a run.  Property theorems quantify over `Reachable` states / arbitrary
`List Seg`, i.e. over every interleaving of segments with every oracle answer.
-/
namespace BbRe.Sched

/-- A lock-held segment together with the time passed to `bq.enter` and the oracle
answers (`Hints`) the environment gives during it. -/
inductive Seg
  | register (id : Nat) (comps : List Nat) (platform : Nat) (sizes : List Nat) (bgMax : Nat) (bgPrio : Int)
  | exec (h : Hints) (now c digest dkey : Nat) (dnc : Bool) (comps : List Nat) (platform : Nat) (inv : List Nat) (prio : Int)
  | wait (h : Hints) (now c name : Nat)
  | streamWake (h : Hints) (now c reason : Nat)
  | sync (h : Hints) (now : Nat) (q : ScqId) (comps : List Nat) (platform : Nat) (w : WId) (rep : Report) (preferIdle : Bool)
  | syncWake (h : Hints) (now : Nat) (q : ScqId) (w : WId) (reason : Nat)
  | killOp (h : Hints) (now name code : Nat)
  | killQueue (h : Hints) (now : Nat) (q : ScqId) (code : Nat)
  | addDrain (h : Hints) (now : Nat) (q : ScqId) (p : Pattern)
  | removeDrain (h : Hints) (now : Nat) (q : ScqId) (p : Pattern)
  | terminate (h : Hints) (now id : Nat) (p : Pattern)
  | termWake (id reason : Nat)
  | touch (h : Hints) (now : Nat)

/-- Execute one segment.  `.error` means the model rejects it: either one of the code's
`panic` guards would fire, or the oracle answer is outside the allowed set
("mismatch: …"), or the segment is not enabled (e.g. waking a stream that is not parked). -/
def step (s : State) : Seg → M State
  | .register id comps platform sizes bgMax bgPrio => pure (registerPQ s id comps platform sizes bgMax bgPrio)
  | .exec h now c d dk dnc comps platform inv prio => execArrive h s now c d dk dnc comps platform inv prio
  | .wait h now c name => waitArrive h s now c name
  | .streamWake h now c reason => streamWake h s now c reason
  | .sync h now q comps platform w rep pi => syncArrive h s now q comps platform w rep pi
  | .syncWake h now q w reason => syncWake h s now q w reason
  | .killOp h now name code => killOp h s now name code
  | .killQueue h now q code => killQueue h s now q code
  | .addDrain h now q p => addDrain h s now q p
  | .removeDrain h now q p => removeDrain h s now q p
  | .terminate h now id p => terminate h s now id p
  | .termWake id reason => termWake s id reason
  | .touch h now => touch h s now

/-- Run a list of segments; segments the model rejects are skipped (they do not
correspond to anything the implementation can do), and the event buffer is kept. -/
def run (s : State) : List Seg → State
  | [] => s
  | g :: rest =>
    match step s g with
    | .ok s' => run s' rest
    | .error _ => run s rest

/-- States reachable from the initial state of any configuration. -/
inductive Reachable : State → Prop
  | init (cfg : Cfg) : Reachable (State.init cfg)
  | step {s s' : State} (g : Seg) : Reachable s → step s g = .ok s' → Reachable s'

theorem reachable_run {s : State} (hs : Reachable s) (gs : List Seg) : Reachable (run s gs) := by
  induction gs generalizing s with
  | nil => exact hs
  | cons g rest ih =>
    unfold run
    split
    · rename_i s' h; exact ih (Reachable.step g hs h)
    · exact ih hs

end BbRe.Sched
