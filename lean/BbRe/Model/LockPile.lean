/-
LockPile (property C14, part b: deadlock freedom).

Transcription of `/repo/pkg/sync/lock_pile.go` as a small-step machine of ONE
thread `t` against a global lock table; all other threads are an arbitrary
environment (`EnvStep`).

Go                                             | here
-----------------------------------------------+-----------------------------------------
`sync.Mutex` (`TryLocker`), identity = pointer | a lock is a `Nat`; `Table = Nat → Option Nat`
                                               | (`none` = free, `some u` = held by thread `u`)
`m.TryLock()` (l.11 `TryLocker`)               | succeeds iff `T m = none` (a Go mutex is not
                                               | re-entrant: fails also when the caller holds it)
`m.Lock()`                                     | enabled only when `T m = none`, then `T m := some t`
`m.Unlock()`                                   | `T.set m none` (Go mutexes have no owner; unlocking a
                                               | free mutex is a fatal error in Go and is never
                                               | reached from well-formed states, see the lemmas)
`type lockHandle struct{lock; recursion}` l.19 | `Handle`
`type LockPile []lockHandle` l.42              | `Pile = List Handle`
`func (lp *LockPile) insert` l.44-54           | `insert`
`for _, newLock := range newLocks {insert}`    | `insertAll` (l.88-90)
`func (lp *LockPile) Lock` l.86-120            | `lockInit` (l.87-93) + `step` (l.94-119):
  `currentlyAcquired`                          |   `MState.cur`
  `completedWithoutUnlocking`                  |   `MState.completed`
  `lhFirst := &(*lp)[0]` (taken ONCE, l.93)    |   `MState.first` : index into the backing array,
                                               |   set to 0 by `lockInit` and never written again (the
                                               |   slice is not re-allocated inside the loop, so the
                                               |   pointer keeps denoting element 0);
                                               |   empty pile ⇒ Go index-out-of-range panic = `PC.panic`
  `for currentlyAcquired < len(*lp)` l.94      |   `PC.loopTest` (exit ⇒ `PC.done`; `result` = returned bool)
  `if currentlyAcquired > 0` l.95              |   `PC.loopTest` chooses `tryLock` / `block`
  `lhTry.lock.TryLock()` l.97                  |   `PC.tryLock`: success ⇒ acquire, `cur+1`, `continue`;
  `completedWithoutUnlocking = false` l.107    |   failure ⇒ `completed := false`, go to `release 0`
  `for i := 0; i < cur; i++ {Unlock}` l.108-111|   `PC.release i`: ONE `Unlock` per step (the environment
                                               |   may interleave between them); ghost `releases` counts them
  `*lhFirst, *lhTry = *lhTry, *lhFirst` l.112  |   exit of `release`: `swap pile first cur`, go to `block`
  `lhFirst.lock.Lock()` l.116                  |   `PC.block`: the only blocking step; `awaited`
  `currentlyAcquired = 1` l.117                |   same step
`func (lp *LockPile) Unlock` l.123-141         | `unlock` (`findIdx` = the search loop, absent ⇒ Go
                                               |   index panic = `none`; `swapRemove` = l.138-140)
`func (lp *LockPile) UnlockAll` l.146-152      | `unlockAll`

`runSteps` / `lockRun` are deterministic executions of the machine (with a
concrete environment driven by an oracle) for `example`s.  Core Lean only.
-/
namespace BbRe.LockPile

/-- Global lock table: `none` = free, `some u` = held by thread `u`. -/
abbrev Table := Nat → Option Nat

/-- `T[l := v]`. -/
def Table.set (T : Table) (l : Nat) (v : Option Nat) : Table :=
  fun x => if x = l then v else T x

/-- The all-free table. -/
def Table.free : Table := fun _ => none

/-- `lockHandle`. -/
structure Handle where
  lock : Nat
  recursion : Nat
  deriving DecidableEq, Repr

/-- `LockPile`. -/
abbrev Pile := List Handle

/-- The locks of a pile, in slice order. -/
def locks (p : Pile) : List Nat := p.map (·.lock)

/-- `LockPile.insert`: existing lock ⇒ `recursion++`; else append `{lock, 0}`. -/
def insert : Pile → Nat → Pile
  | [], l => [{ lock := l, recursion := 0 }]
  | h :: rest, l =>
    if h.lock = l then { h with recursion := h.recursion + 1 } :: rest
    else h :: insert rest l

/-- `for _, newLock := range newLocks { lp.insert(newLock) }`. -/
def insertAll (p : Pile) (news : List Nat) : Pile := news.foldl insert p

/-- Number of acquisitions of `l` recorded in the pile (`recursion + 1`, or 0 if absent). -/
def acq : Pile → Nat → Nat
  | [], _ => 0
  | h :: rest, l => if h.lock = l then h.recursion + 1 else acq rest l

/-- Program counter of `LockPile.Lock`. -/
inductive PC where
  | loopTest
  | tryLock
  | release (i : Nat)
  | block
  | done
  | panic
  deriving DecidableEq, Repr

/-- Local state of a thread inside `LockPile.Lock`. `releases` is a ghost
counter of the `Unlock` calls performed by the back-off loop. -/
structure MState where
  pile : Pile
  cur : Nat
  completed : Bool
  first : Nat
  pc : PC
  releases : Nat
  deriving Repr

/-- `*a, *b = *b, *a` on slice elements `i`, `j` (no-op if out of range; Go would panic). -/
def swap (p : Pile) (i j : Nat) : Pile :=
  match p[i]?, p[j]? with
  | some a, some b => (p.set i b).set j a
  | _, _ => p

/-- Lines 87-93 of `Lock`: remember `len`, insert the new locks, take `&(*lp)[0]`. -/
def lockInit (old : Pile) (news : List Nat) : MState :=
  let p := insertAll old news
  { pile := p, cur := old.length, completed := true, first := 0,
    pc := if p.length = 0 then .panic else .loopTest, releases := 0 }

/-- One step of thread `t` inside `Lock`. `none`: not enabled (blocked on a held
lock, returned, panicked). -/
def step (t : Nat) (s : MState) (T : Table) : Option (MState × Table) :=
  match s.pc with
  | .loopTest =>
    if s.cur < s.pile.length then
      if 0 < s.cur then some ({ s with pc := .tryLock }, T)
      else some ({ s with pc := .block }, T)
    else some ({ s with pc := .done }, T)
  | .tryLock =>
    match s.pile[s.cur]? with
    | none => none
    | some h =>
      if T h.lock = none then
        some ({ s with cur := s.cur + 1, pc := .loopTest }, T.set h.lock (some t))
      else
        some ({ s with completed := false, pc := .release 0 }, T)
  | .release i =>
    if i < s.cur then
      match s.pile[i]? with
      | none => none
      | some h =>
        some ({ s with pc := .release (i + 1), releases := s.releases + 1 }, T.set h.lock none)
    else
      some ({ s with pile := swap s.pile s.first s.cur, pc := .block }, T)
  | .block =>
    match s.pile[s.first]? with
    | none => none
    | some h =>
      if T h.lock = none then
        some ({ s with cur := 1, pc := .loopTest }, T.set h.lock (some t))
      else none
  | .done => none
  | .panic => none

/-- The lock thread `t` is about to block on (`some` only at the blocking acquisition). -/
def awaited (s : MState) : Option Nat :=
  match s.pc with
  | .block => (s.pile[s.first]?).map (·.lock)
  | _ => none

/-- `return completedWithoutUnlocking` (l.119): the value returned by `Lock`, once it has returned. -/
def result (s : MState) : Option Bool :=
  match s.pc with
  | .done => some s.completed
  | _ => none

/-- A step of the environment (all other threads): arbitrary, except that it
never changes an entry held by `t` and never makes `t` the holder of anything. -/
def EnvStep (t : Nat) (T T' : Table) : Prop :=
  ∀ l, T l = some t ↔ T' l = some t

/-- States reachable from `(s0, T0)` by steps of `t` interleaved with
environment steps. -/
inductive Reach (t : Nat) (s0 : MState) (T0 : Table) : MState → Table → Prop where
  | init : Reach t s0 T0 s0 T0
  | env {s T T'} : Reach t s0 T0 s T → EnvStep t T T' → Reach t s0 T0 s T'
  | step {s T s' T'} : Reach t s0 T0 s T → step t s T = some (s', T') → Reach t s0 T0 s' T'

/-- Well-formed start of `lp.Lock(news...)` by thread `t`: distinct locks in the
old pile, all of them held by `t`, genuinely new locks not held by `t`. -/
structure WfStart (t : Nat) (old : Pile) (news : List Nat) (T0 : Table) : Prop where
  nodup : (locks old).Nodup
  holdsOld : ∀ h ∈ old, T0 h.lock = some t
  newFree : ∀ l ∈ news, l ∉ locks old → T0 l ≠ some t

/-! ### Unlock / UnlockAll -/

/-- `i := 0; for (*lp)[i].lock != oldLock { i++ }` (`none` = index out of range panic). -/
def findIdx : Pile → Nat → Option Nat
  | [], _ => none
  | h :: rest, l => if h.lock = l then some 0 else (findIdx rest l).map (· + 1)

/-- `(*lp)[i] = (*lp)[len-1]; *lp = (*lp)[:len-1]`. -/
def swapRemove (p : Pile) (i : Nat) : Pile :=
  match p.getLast? with
  | none => p
  | some last => (p.set i last).dropLast

/-- `LockPile.Unlock`. -/
def unlock (p : Pile) (T : Table) (l : Nat) : Option (Pile × Table) :=
  match findIdx p l with
  | none => none
  | some i =>
    match p[i]? with
    | none => none
    | some h =>
      if 0 < h.recursion then
        some (p.set i { h with recursion := h.recursion - 1 }, T)
      else
        some (swapRemove p i, T.set h.lock none)

/-- `LockPile.UnlockAll`: one `Unlock` per handle, `*lp = nil`. -/
def unlockAll (p : Pile) (T : Table) : Pile × Table :=
  ([], p.foldl (fun T h => T.set h.lock none) T)

/-! ### Deterministic executions (for examples) -/

/-- Environment used by `runSteps`: before a `TryLock` of a free lock the oracle
bit `true` lets another thread (`t+1`) grab it; before the blocking acquisition
the holder (if it is not `t`) releases the awaited lock. -/
def envFor (t : Nat) (s : MState) (T : Table) (grab : Bool) : Table :=
  match s.pc with
  | .tryLock =>
    match s.pile[s.cur]? with
    | some h => if grab ∧ T h.lock = none then T.set h.lock (some (t + 1)) else T
    | none => T
  | .block =>
    match s.pile[s.first]? with
    | some h => if T h.lock = some t then T else T.set h.lock none
    | none => T
  | _ => T

/-- Run at most `fuel` steps of `t`; each `TryLock` consumes one oracle bit. -/
def runSteps (t : Nat) : Nat → List Bool → MState → Table → MState × Table
  | 0, _, s, T => (s, T)
  | fuel + 1, orc, s, T =>
    let grab := orc.headD false
    let orc' := if s.pc = .tryLock then orc.tail else orc
    let T1 := envFor t s T grab
    match step t s T1 with
    | none => (s, T1)
    | some (s', T') => runSteps t fuel orc' s' T'

/-- `lp.Lock(news...)` run for at most `fuel` steps. -/
def lockRun (t : Nat) (fuel : Nat) (orc : List Bool) (old : Pile) (news : List Nat)
    (T0 : Table) : MState × Table :=
  runSteps t fuel orc (lockInit old news) T0

end BbRe.LockPile
