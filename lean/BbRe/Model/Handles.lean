/-!
Model of the STATEFUL paths of the two handle allocators that sit in front of every
pool-backed file (C16, anchored state "handle allocator link counts").  Core Lean only.

Go sources transcribed (read completely, /repo at 1924fe6):

* `pkg/filesystem/virtual/nfs_handle_allocator.go`
  - `nfsHandlePool{directories, statefulLeaves}`            → `State.directories`, `State.statefulLeaves`
  - `NFSStatefulHandleAllocator.ResolveHandle`              → `resolve`, `resolveShort`
  - `nfsStatefulHandleAllocation.AsLinkableLeaf`            → `newLeaf .nfs`
  - `nfsStatefulHandleAllocation.AsStatefulDirectory`       → `newDir .nfs`
  - `nfsStatefulDirectoryHandle.{GetAttributes,NotifyRemoval,Release}` → `dirAttr`, `notify`, `release`
  - `nfsStatefulLinkableLeaf.{Link,Unlink}`                 → `link`, `unlink`
  - `nfsStatefulLinkableLeaf.injectAttributes` + `VirtualGetAttributes` / `VirtualSetAttributes` /
    `VirtualOpenSelf`                                       → `getattr`, `setattr`, `openSelf`
* `pkg/filesystem/virtual/fuse_handle_allocator.go`
  - `fuseHandleOptions.removalNotifiers` / `RegisterRemovalNotifier` → `State.notifiers`, `register`
  - `fuseStatefulHandleAllocation.AsLinkableLeaf`           → `newLeaf .fuse`
  - `fuseStatefulHandleAllocation.AsStatefulDirectory`      → `newDir .fuse`
  - `fuseStatefulDirectoryHandle.{GetAttributes,NotifyRemoval,Release}` → `dirAttr`, `notify`, `release`
  - `fuseStatefulLinkableLeaf.{Link,Unlink,injectAttributes,Virtual*}` → as above

What the code does (and the model therefore does), as opposed to what one might expect:

* `Link()` of the wrapper is NEVER forwarded to the wrapped leaf; it only bumps the counter in front
  of it.  Of all `Unlink()` calls only the one that takes the counter to zero is forwarded (so the
  wrapped file sees: created with one link, exactly one `Unlink`).
* NFS `Link` on a leaf whose count is zero returns `StatusErrStale` (nothing changes); NFS `Unlink`
  at zero panics (with `pool.lock` held).  FUSE `Link` at zero returns `StatusErrStale`; FUSE
  `Unlink` at zero does NOT panic: `linkCount.Add(^uint32(0))` wraps to 2^32-1 and nothing is forwarded.
* NFS `Unlink`: `linkCount--`, `changeID++`, and at zero `delete(statefulLeaves, inode)` all under
  `pool.lock`; the forwarded `Unlink` of the wrapped leaf follows after the lock has been dropped.
  One model step = the lock-held section plus the forwarded call.
* The inode number of a stateful NFS leaf is `fileHandleToInodeNumber(8-byte handle)` = the random
  number itself (the FNV loop runs over zero remaining bytes); the handle is that number little-endian.
* The numbers come from `randomNumberGenerator.Uint64()`; they are inputs of `newLeaf`/`newDir`.
  The code does not check them for collisions: a second leaf with the number of a live one
  overwrites its entry in `statefulLeaves`.
* `ResolveHandle` looks in `directories` first, then `statefulLeaves` (then stateless leaves and
  resolvers, which are not part of the stateful paths and are empty here), else `StatusErrStale`;
  fewer than eight bytes give `StatusErrBadHandle`.
* NFS `injectAttributes`: file handle always; inode number if requested; if change ID or link count
  is requested: change ID := wrapped leaf's change ID + `l.changeID` (if requested) and link count
  (always in that case).  FUSE `injectAttributes`: inode number and link count always.
* FUSE removal notifiers belong to the stateful DIRECTORY handle (`NotifyRemoval` calls every
  registered notifier, in registration order, with the directory's inode number); a FUSE leaf has no
  notifier and no Release.  NFS `NotifyRemoval` does nothing; NFS `Release` deletes the directory from
  `directories`; FUSE `Release` does nothing.

Objects (pointers) are the caller-chosen ids `i` (leaves) and `d` (directories); `under` is the
identity of the wrapped object.  `log` and `entries` are ghost state.
Attribute mask bits of the model: 1 file handle, 2 inode number, 4 link count, 8 change ID, 16 any
other attribute (size).
-/
namespace BbRe.Handles

/-- 2^32: `linkCount` is a `uint32` in both allocators. -/
def u32 : Nat := 4294967296

inductive Kind | nfs | fuse
  deriving DecidableEq, Repr, Inhabited

inductive Status | ok | stale | badHandle
  deriving DecidableEq, Repr

structure Leaf where
  kind : Kind
  under : Nat
  ino : Nat
  linkCount : Nat
  changeID : Nat
  deriving DecidableEq, Repr

structure Dir where
  kind : Kind
  under : Nat
  ino : Nat
  deriving DecidableEq, Repr

/-- Ghost log: calls forwarded to wrapped objects, map updates, notifier calls. -/
inductive Event
  | fwdUnlink (under : Nat)
  | fwdGetAttr (under : Nat) (mask : Nat)
  | fwdSetAttr (under : Nat) (mask : Nat)
  | fwdOpen (under : Nat) (mask : Nat)
  | mapInsert (ino : Nat) (leaf : Nat)
  | mapDelete (ino : Nat)
  | dirInsert (ino : Nat) (dir : Nat)
  | dirDelete (ino : Nat)
  | notified (notifier : Nat) (ino : Nat) (name : Nat)
  deriving DecidableEq, Repr

structure State where
  leaves : Nat → Option Leaf
  dirs : Nat → Option Dir
  statefulLeaves : Nat → Option Nat
  directories : Nat → Option Nat
  notifiers : Nat
  /-- ghost -/
  log : List Event
  /-- ghost: directory entries the callers hold per leaf object: 1 at creation, +1 per accepted
  `Link`, -1 per `Unlink`. -/
  entries : Nat → Nat

def init : State :=
  { leaves := fun _ => none, dirs := fun _ => none, statefulLeaves := fun _ => none,
    directories := fun _ => none, notifiers := 0, log := [], entries := fun _ => 0 }

inductive Op
  | newLeaf (i : Nat) (k : Kind) (u : Nat) (n : Nat)
  | link (i : Nat)
  | unlink (i : Nat)
  | getattr (i : Nat) (mask : Nat) (uchg : Nat)
  | setattr (i : Nat) (mask : Nat) (ust : Nat) (uchg : Nat)
  | openSelf (i : Nat) (mask : Nat) (ust : Nat) (uchg : Nat)
  | resolve (n : Nat)
  | resolveShort
  | newDir (d : Nat) (k : Kind) (u : Nat) (n : Nat)
  | dirAttr (d : Nat)
  | notify (d : Nat) (name : Nat)
  | release (d : Nat)
  | register
  deriving DecidableEq, Repr

/-- Attributes as the caller sees them after the wrapper returned (`none` = not set by the wrapper
and, for a wrapped leaf that sets exactly what it is asked for, not set at all). `fwd` = the mask
the wrapped leaf was asked for (`none`: it was not called). -/
structure Attrs where
  fwd : Option Nat
  fh : Option Nat
  ino : Option Nat
  lc : Option Nat
  chg : Option Nat
  deriving DecidableEq, Repr

inductive Out
  | st (s : Status)
  | ust (code : Nat)
  | attrs (a : Attrs)
  | leaf (i : Nat)
  | dir (d : Nat)
  | unlinked (forwarded : Bool)
  | dirAttrs (fh : Option Nat) (ino : Nat)
  | notes (l : List (Nat × Nat × Nat))
  | panic
  | done
  | invalid
  deriving DecidableEq, Repr

def has (m b : Nat) : Bool := (m / b) % 2 == 1

def clear (m b : Nat) : Nat := if has m b then m - b else m

def upd {α : Type} (f : Nat → Option α) (k : Nat) (v : Option α) : Nat → Option α :=
  fun x => if x = k then v else f x

def updN (f : Nat → Nat) (k : Nat) (v : Nat) : Nat → Nat :=
  fun x => if x = k then v else f x

/-- `AsLinkableLeaf`. -/
def newLeaf (s : State) (i : Nat) (k : Kind) (u n : Nat) : State × Out :=
  match s.leaves i with
  | some _ => (s, .invalid)
  | none =>
    let l : Leaf := { kind := k, under := u, ino := n, linkCount := 1, changeID := 0 }
    match k with
    | .nfs =>
      ({ s with leaves := upd s.leaves i (some l), statefulLeaves := upd s.statefulLeaves n (some i),
                entries := updN s.entries i 1, log := s.log ++ [.mapInsert n i] }, .done)
    | .fuse =>
      ({ s with leaves := upd s.leaves i (some l), entries := updN s.entries i 1 }, .done)

/-- `nfsStatefulLinkableLeaf.Link` / `fuseStatefulLinkableLeaf.Link`. -/
def link (s : State) (i : Nat) : State × Out :=
  match s.leaves i with
  | none => (s, .invalid)
  | some l =>
    if l.linkCount = 0 then (s, .st .stale)
    else
      match l.kind with
      | .nfs =>
        ({ s with leaves := upd s.leaves i (some { l with linkCount := (l.linkCount + 1) % u32,
                                                          changeID := l.changeID + 1 }),
                  entries := updN s.entries i (s.entries i + 1) }, .st .ok)
      | .fuse =>
        ({ s with leaves := upd s.leaves i (some { l with linkCount := (l.linkCount + 1) % u32 }),
                  entries := updN s.entries i (s.entries i + 1) }, .st .ok)

/-- `nfsStatefulLinkableLeaf.Unlink` / `fuseStatefulLinkableLeaf.Unlink`. -/
def unlink (s : State) (i : Nat) : State × Out :=
  match s.leaves i with
  | none => (s, .invalid)
  | some l =>
    match l.kind with
    | .nfs =>
      if l.linkCount = 0 then (s, .panic)
      else
        let c := l.linkCount - 1
        let l' : Leaf := { l with linkCount := c, changeID := l.changeID + 1 }
        if c = 0 then
          ({ s with leaves := upd s.leaves i (some l'),
                    statefulLeaves := upd s.statefulLeaves l.ino none,
                    entries := updN s.entries i (s.entries i - 1),
                    log := s.log ++ [.mapDelete l.ino, .fwdUnlink l.under] }, .unlinked true)
        else
          ({ s with leaves := upd s.leaves i (some l'),
                    entries := updN s.entries i (s.entries i - 1) }, .unlinked false)
    | .fuse =>
      let c := (l.linkCount + (u32 - 1)) % u32
      let l' : Leaf := { l with linkCount := c }
      if c = 0 then
        ({ s with leaves := upd s.leaves i (some l'),
                  entries := updN s.entries i (s.entries i - 1),
                  log := s.log ++ [.fwdUnlink l.under] }, .unlinked true)
      else
        ({ s with leaves := upd s.leaves i (some l'),
                  entries := updN s.entries i (s.entries i - 1) }, .unlinked false)

/-- `injectAttributes` of both wrappers; `chg0` = the change ID the wrapped leaf has put into the
attributes (only meaningful if it was asked for it). -/
def inject (l : Leaf) (m : Nat) (fwd : Option Nat) (chg0 : Nat) : Attrs :=
  match l.kind with
  | .nfs =>
    { fwd := fwd
      fh := some l.ino
      ino := if has m 2 then some l.ino else none
      lc := if has m 8 || has m 4 then some l.linkCount else none
      chg := if has m 8 then some (chg0 + l.changeID) else none }
  | .fuse =>
    { fwd := fwd, fh := none, ino := some l.ino, lc := some l.linkCount,
      chg := if has m 8 then some chg0 else none }

/-- The part of the mask that `VirtualGetAttributes` passes on to the wrapped leaf. -/
def remaining (k : Kind) (m : Nat) : Nat :=
  match k with
  | .nfs => clear (clear (clear m 1) 2) 4
  | .fuse => clear (clear m 2) 4

def getattr (s : State) (i m uchg : Nat) : State × Out :=
  match s.leaves i with
  | none => (s, .invalid)
  | some l =>
    let r := remaining l.kind m
    if r = 0 then (s, .attrs (inject l m none uchg))
    else ({ s with log := s.log ++ [.fwdGetAttr l.under r] }, .attrs (inject l m (some r) uchg))

/-- `VirtualSetAttributes`: forwarded with the full mask; injected only if the wrapped leaf said OK
(`ust = 0`). -/
def setattr (s : State) (i m ust uchg : Nat) : State × Out :=
  match s.leaves i with
  | none => (s, .invalid)
  | some l =>
    let s' := { s with log := s.log ++ [.fwdSetAttr l.under m] }
    if ust = 0 then (s', .attrs (inject l m (some m) uchg)) else (s', .ust ust)

/-- `VirtualOpenSelf`: same shape. -/
def openSelf (s : State) (i m ust uchg : Nat) : State × Out :=
  match s.leaves i with
  | none => (s, .invalid)
  | some l =>
    let s' := { s with log := s.log ++ [.fwdOpen l.under m] }
    if ust = 0 then (s', .attrs (inject l m (some m) uchg)) else (s', .ust ust)

/-- `ResolveHandle` of an eight byte handle. -/
def resolve (s : State) (n : Nat) : State × Out :=
  match s.directories n with
  | some d => (s, .dir d)
  | none =>
    match s.statefulLeaves n with
    | some i => (s, .leaf i)
    | none => (s, .st .stale)

/-- `AsStatefulDirectory`. -/
def newDir (s : State) (d : Nat) (k : Kind) (u n : Nat) : State × Out :=
  match s.dirs d with
  | some _ => (s, .invalid)
  | none =>
    let dir : Dir := { kind := k, under := u, ino := n }
    match k with
    | .nfs =>
      ({ s with dirs := upd s.dirs d (some dir), directories := upd s.directories n (some d),
                log := s.log ++ [.dirInsert n d] }, .done)
    | .fuse => ({ s with dirs := upd s.dirs d (some dir) }, .done)

def dirAttr (s : State) (d : Nat) : State × Out :=
  match s.dirs d with
  | none => (s, .invalid)
  | some dir =>
    match dir.kind with
    | .nfs => (s, .dirAttrs (some dir.ino) dir.ino)
    | .fuse => (s, .dirAttrs none dir.ino)

def notify (s : State) (d name : Nat) : State × Out :=
  match s.dirs d with
  | none => (s, .invalid)
  | some dir =>
    match dir.kind with
    | .nfs => (s, .notes [])
    | .fuse =>
      let l := (List.range s.notifiers).map (fun j => (j, dir.ino, name))
      ({ s with log := s.log ++ l.map (fun x => .notified x.1 x.2.1 x.2.2) }, .notes l)

def release (s : State) (d : Nat) : State × Out :=
  match s.dirs d with
  | none => (s, .invalid)
  | some dir =>
    match dir.kind with
    | .nfs => ({ s with directories := upd s.directories dir.ino none,
                        log := s.log ++ [.dirDelete dir.ino] }, .done)
    | .fuse => (s, .done)

def step (s : State) : Op → State × Out
  | .newLeaf i k u n => newLeaf s i k u n
  | .link i => link s i
  | .unlink i => unlink s i
  | .getattr i m c => getattr s i m c
  | .setattr i m st c => setattr s i m st c
  | .openSelf i m st c => openSelf s i m st c
  | .resolve n => resolve s n
  | .resolveShort => (s, .st .badHandle)
  | .newDir d k u n => newDir s d k u n
  | .dirAttr d => dirAttr s d
  | .notify d name => notify s d name
  | .release d => release s d
  | .register => ({ s with notifiers := s.notifiers + 1 }, .done)

def run (s : State) : List Op → State
  | [] => s
  | op :: ops => run (step s op).1 ops

end BbRe.Handles
