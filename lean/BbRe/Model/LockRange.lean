/-
Conversions between NFSv4 (offset, length) pairs and the half-open
[start, end) ranges of the byte-range lock table (C20, NFS layer).

Mirrors `pkg/filesystem/virtual/nfsv4/opened_files_pool.go`:

* `offsetLengthToStartEnd` – `func offsetLengthToStartEnd(offset, length uint64) (uint64, uint64, nfsv4.Nfsstat4)` (l. 246)
  (`.error st` = the `nfsstat4` value `st`: `stInval` = `NFS4ERR_INVAL`, `stBadRange` = `NFS4ERR_BAD_RANGE`)
* `legacyOffsetLengthToStartEnd` – the same function before the fix 3d4b513 (`none` = `NFS4ERR_INVAL`); kept for
  the counterexample theorems `legacy…` only, nothing else refers to it
* `toDenied`               – the offset/length computation of `byteRangeLockToLock4Denied` (l. 295)
* `unlockAllRange`         – the range `[0, math.MaxUint64)` used by `OpenedFile.UnlockAll` (l. 215)

Arguments are `Nat`s that the callers bound by `2^64`; `maxU64 = math.MaxUint64`.
The only arithmetic of the Go code is `math.MaxUint64 - offset` (cannot
underflow for a `uint64`), `offset + length` (guarded by the comparison before
it, so it cannot wrap) and `lock.End - lock.Start` (entries of the table have
`Start <= End`).  Core Lean only.
-/
namespace BbRe.LockRange

/-- `math.MaxUint64`. -/
def maxU64 : Nat := 2 ^ 64 - 1

/-- `NFS4ERR_INVAL`. -/
def stInval : Nat := 22

/-- `NFS4ERR_BAD_RANGE`. -/
def stBadRange : Nat := 10042

/-- Result of `offsetLengthToStartEnd`: an `nfsstat4` other than `NFS4_OK`, or the range `(start, end)`. -/
inductive Conv where
  | error (st : Nat)
  | ok (r : Nat × Nat)
  deriving DecidableEq, Repr

/-- `offsetLengthToStartEnd`; `.error st` is the returned `nfsstat4`.  Length 0 and a range whose
end overflows are `NFS4ERR_INVAL`; the single byte at offset `2^64-1` ("to end of file" from the last
offset), which a half-open pair of `uint64`s cannot hold, is `NFS4ERR_BAD_RANGE`. -/
def offsetLengthToStartEnd (offset length : Nat) : Conv :=
  if length = 0 then .error stInval
  else if length = maxU64 then
    if offset = maxU64 then .error stBadRange else .ok (offset, maxU64)
  else if length > maxU64 - offset then .error stInval
  else .ok (offset, offset + length)

/-- The conversion as it was before 3d4b513: no special case for offset `2^64-1`. -/
def legacyOffsetLengthToStartEnd (offset length : Nat) : Option (Nat × Nat) :=
  if length = 0 then none
  else if length = maxU64 then some (offset, maxU64)
  else if length > maxU64 - offset then none
  else some (offset, offset + length)

/-- Offset and length reported in a `LOCK4denied` for the table entry `[start, stop)`. -/
def toDenied (start stop : Nat) : Nat × Nat :=
  (start, if stop ≠ maxU64 then stop - start else maxU64)

/-- The range unlocked by `UnlockAll`. -/
def unlockAllRange : Nat × Nat := (0, maxU64)

end BbRe.LockRange
