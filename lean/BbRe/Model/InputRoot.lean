/-
Model of the lazily populated, CAS backed input root (property C17).

Go code mirrored (all in /repo):

* `pkg/filesystem/virtual/cas_initial_contents_fetcher.go`
  `fetchContentsUnwrapped`  ↦ `fetch` (`addDirs`, `addFiles`, `addSyms` are the three
  loops; the `children` map is an association list in insertion order, the
  deferred `leavesToUnlink` loop is the pair `created`/`unlinked`);
  `path.NewComponent` ↦ `validName`, `digest.Function.NewDigestFromProto` ↦
  `parseDigest`, `handleAllocatingSymlinkFactory.LookupSymlink` (fails when
  `path.Resolve` of the target fails: a NUL byte) ↦ `targetOk`.
* `pkg/filesystem/virtual/in_memory_prepopulated_directory.go`
  `getContents` / `initialContentsFetcher` ↦ `Node.lazy d` (fetcher still set) versus
  `Node.dir children` (fetcher cleared, contents initialised); `contents` is one call
  of `getContents`; `withDir` is a walk that calls `getContents` on every directory
  on the way (`VirtualLookup`, `VirtualReadDir`, `VirtualOpenChild`, `VirtualRemove`,
  `VirtualMkdir`), `virtualGetContents` turns every fetch error into `EIO`.
* `pkg/builder/virtual_build_directory.go` `MergeDirectoryContents` ↦ `merge`
  (the root message is fetched eagerly, `CreateChildren(children, false)`).
* `pkg/filesystem/virtual/blob_access_cas_file_factory.go` (+ the stateless handle
  allocating decorator, which only adds an inode number) ↦ `leafOut` on `Node.file`.
* `pkg/filesystem/virtual/access_monitoring_initial_contents_fetcher.go` ↦ the
  `mon` annotation: `fetch … (some p)` is `FetchContents` of a fetcher wrapped for the
  `UnreadDirectoryMonitor` of input root path `p`; its child directories come back
  wrapped for `p ++ [name]` and its files carry the read monitor of `p ++ [name]`
  (`readMonitoringLinkableLeaf`).  Nothing in the model looks at the annotation.
* `VirtualRename` / `VirtualLink` of `in_memory_prepopulated_directory.go` ↦ `rename`, `link`.
* `pkg/cas/caching_directory_fetcher.go` ↦ namespace `Cache` at the end of the file.

Names, hashes and symlink targets are byte strings (`List Nat`), so that the
validity checks are the real ones.  The CAS is part of the state although no
operation of the model writes to it: that no step changes it is a theorem
(`C17.cas_files_immutable`), not a typing accident of a parameter.
-/
namespace BbRe.InputRoot

abbrev Bytes := List Nat
abbrev Name := Bytes
abbrev Path := List Name

/-- A well-formed digest (`digest.Digest`): hash as the bytes of its hex string, size. -/
structure Dig where
  hash : Bytes
  size : Nat
deriving DecidableEq, Repr, Inhabited

/-- `*remoteexecution.Digest` as found in a Directory message: may be nil or malformed. -/
structure RawDigest where
  present : Bool
  hash : Bytes
  size : Int
deriving DecidableEq, Repr, Inhabited

/-- `path.NewComponent`: not "", ".", "..", no '/' and no NUL. -/
def validName (n : Name) : Bool :=
  !(n == [] || n == [46] || n == [46, 46] || n.contains 47 || n.contains 0)

def isLowerHex (c : Nat) : Bool := (48 ≤ c && c ≤ 57) || (97 ≤ c && c ≤ 102)

/-- `digest.Function.NewDigestFromProto` + `NewDigest` (`hashLen` = 2 × hash size of
the digest function of the root digest). -/
def parseDigest (hashLen : Nat) (r : RawDigest) : Option Dig :=
  if !r.present then none
  else if r.hash.length ≠ hashLen then none
  else if !(r.hash.all isLowerHex) then none
  else if r.size < 0 then none
  else some ⟨r.hash, r.size.toNat⟩

/-- `SymlinkFactory.LookupSymlink(path.UNIXFormat.NewParser(target))` of the handle
allocating factory succeeds iff the target has no NUL byte. -/
def targetOk (t : Bytes) : Bool := !t.contains 0

structure DirNode where
  name : Name
  digest : RawDigest
deriving DecidableEq, Repr, Inhabited

structure FileNode where
  name : Name
  digest : RawDigest
  exec : Bool
deriving DecidableEq, Repr, Inhabited

structure SymNode where
  name : Name
  target : Bytes
deriving DecidableEq, Repr, Inhabited

/-- `remoteexecution.Directory`. -/
structure DirMsg where
  dirs : List DirNode
  files : List FileNode
  syms : List SymNode
deriving DecidableEq, Repr, Inhabited

/-- Error of a fetch (gRPC code): malformed message, blob absent, storage fault. -/
inductive Err | invalidArgument | notFound | unavailable
deriving DecidableEq, Repr, Inhabited

/-- A node of the directory hierarchy. `lazy d`: directory whose
`initialContentsFetcher` is still set (a `casInitialContentsFetcher` for digest `d`);
`dir ch`: directory whose contents have been created. -/
inductive Node
  | file (d : Dig) (exec : Bool) (mon : Option Path)
  | sym (target : Bytes)
  | loc
  | lazy (d : Dig) (mon : Option Path)
  | dir (children : List (Name × Node))

instance : Inhabited Node := ⟨.loc⟩

abbrev Children := List (Name × Node)

/-- What a stat of a node shows. -/
inductive Kind
  | file (d : Dig) (exec : Bool)
  | sym (target : Bytes)
  | loc
  | dir
deriving DecidableEq, Repr, Inhabited

def kindOf : Node → Kind
  | .file d x _ => .file d x
  | .sym t => .sym t
  | .loc => .loc
  | .lazy _ _ => .dir
  | .dir _ => .dir

/-- Content Addressable Storage: Directory blobs (`none` = a blob that is not a
Directory message) and file blobs. -/
structure CAS where
  hashLen : Nat
  dirs : List (Dig × Option DirMsg)
  blobs : List (Dig × Bytes)

def assoc {α β : Type} [DecidableEq α] : List (α × β) → α → Option β
  | [], _ => none
  | (k, v) :: rest, x => if k = x then some v else assoc rest x

def lookup : Children → Name → Option Node
  | [], _ => none
  | (n, c) :: rest, x => if n = x then some c else lookup rest x

def hasName (ch : Children) (x : Name) : Bool := (lookup ch x).isSome

def replaceFirst : Children → Name → Node → Children
  | [], _, _ => []
  | (n, c) :: rest, x, c' => if n = x then (n, c') :: rest else (n, c) :: replaceFirst rest x c'

def eraseFirst : Children → Name → Children
  | [], _ => []
  | (n, c) :: rest, x => if n = x then rest else (n, c) :: eraseFirst rest x

/-! ## `fetchContentsUnwrapped` -/

/-- First loop: child directories become new lazy fetchers. -/
def addDirs (hl : Nat) : List DirNode → Children → Except Err Children
  | [], ch => .ok ch
  | e :: rest, ch =>
    if !validName e.name then .error .invalidArgument
    else if hasName ch e.name then .error .invalidArgument
    else match parseDigest hl e.digest with
      | none => .error .invalidArgument
      | some d => addDirs hl rest (ch ++ [(e.name, .lazy d none)])

/-- Second loop: files. The `Nat` is `len(leavesToUnlink)`. -/
def addFiles (hl : Nat) : List FileNode → Children → Nat → Except Err Children × Nat
  | [], ch, k => (.ok ch, k)
  | e :: rest, ch, k =>
    if !validName e.name then (.error .invalidArgument, k)
    else if hasName ch e.name then (.error .invalidArgument, k)
    else match parseDigest hl e.digest with
      | none => (.error .invalidArgument, k)
      | some d => addFiles hl rest (ch ++ [(e.name, .file d e.exec none)]) (k + 1)

/-- Third loop: symbolic links. -/
def addSyms : List SymNode → Children → Nat → Except Err Children × Nat
  | [], ch, k => (.ok ch, k)
  | e :: rest, ch, k =>
    if !validName e.name then (.error .invalidArgument, k)
    else if hasName ch e.name then (.error .invalidArgument, k)
    else if !targetOk e.target then (.error .invalidArgument, k)
    else addSyms rest (ch ++ [(e.name, .sym e.target)]) (k + 1)

structure FetchOut where
  result : Except Err Children
  /-- leaves obtained from the CAS file factory / symlink factory -/
  created : Nat
  /-- leaves unlinked by the deferred loop over `leavesToUnlink` -/
  unlinked : Nat

/-- `FetchContents` of the bare `casInitialContentsFetcher` of digest `d`; `F` =
digests whose `GetDirectory` fails during this call (storage fault). -/
def fetchBase (c : CAS) (F : List Dig) (d : Dig) : FetchOut :=
  if F.contains d then ⟨.error .unavailable, 0, 0⟩
  else match assoc c.dirs d with
  | none => ⟨.error .notFound, 0, 0⟩
  | some none => ⟨.error .invalidArgument, 0, 0⟩
  | some (some m) =>
    match addDirs c.hashLen m.dirs [] with
    | .error e => ⟨.error e, 0, 0⟩
    | .ok ch1 =>
      match addFiles c.hashLen m.files ch1 0 with
      | (.error e, k) => ⟨.error e, k, k⟩
      | (.ok ch2, k) =>
        match addSyms m.syms ch2 k with
        | (.error e, k') => ⟨.error e, k', k'⟩
        | (.ok ch3, k') => ⟨.ok ch3, k', 0⟩

/-- What the access monitoring wrapper of path `p` adds to a child: directories are
wrapped for `ResolvedDirectory(name)`, files get the read monitor of `name`. -/
def annotate (mon : Option Path) : Name × Node → Name × Node
  | (n, .lazy d _) => (n, .lazy d (mon.map (· ++ [n])))
  | (n, .file d x _) => (n, .file d x (mon.map (· ++ [n])))
  | e => e

/-- `FetchContents` of the fetcher of digest `d`, wrapped by
`NewAccessMonitoringInitialContentsFetcher` for the directory `p` when `mon = some p`.
Errors and the leaf accounting are those of the wrapped fetcher. -/
def fetch (c : CAS) (F : List Dig) (d : Dig) (mon : Option Path) : FetchOut :=
  let r := fetchBase c F d
  { r with result := match r.result with
      | .ok ch => .ok (ch.map (annotate mon))
      | .error e => .error e }

/-! ## lazy directories -/

inductive Contents
  | notDir
  | err (e : Err)
  | ok (ch : Children)

/-- One call of `getContents` (without the state change). -/
def contents (c : CAS) (F : List Dig) : Node → Contents
  | .dir ch => .ok ch
  | .lazy d m => match (fetch c F d m).result with
    | .ok ch => .ok ch
    | .error e => .err e
  | _ => .notDir

inductive Status
  | eio | enoent | enotdir | eisdir | eexist | enotempty | eacces | ewrongtype | einval | esymlink
deriving DecidableEq, Repr, Inhabited

inductive Out
  | ok
  | status (s : Status)
  | mergeErr (e : Err)
  | kind (k : Kind)
  | listing (l : List (Name × Kind))
  | data (b : Bytes)
  | localData
  /-- `VirtualWrite` on a read-only leaf: the Go code panics ("should have been
  intercepted"): every caller opens the file for writing first. -/
  | unreachable
deriving DecidableEq, Repr, Inhabited

/-- Walk `p` from `n`, initialising (`getContents`) every directory on the way, run
`act` on the contents of the directory reached, rebuild. A failing fetch leaves
the directory lazy and yields `EIO`. -/
def withDir (c : CAS) (F : List Dig) (act : Children → Children × Out) : Path → Node → Node × Out
  | [], n =>
    match contents c F n with
    | .notDir => (n, .status .enotdir)
    | .err _ => (n, .status .eio)
    | .ok ch => let r := act ch; (.dir r.1, r.2)
  | x :: rest, n =>
    match contents c F n with
    | .notDir => (n, .status .enotdir)
    | .err _ => (n, .status .eio)
    | .ok ch =>
      match lookup ch x with
      | none => (.dir ch, .status .enoent)
      | some child =>
        let r := withDir c F act rest child
        (.dir (replaceFirst ch x r.1), r.2)

inductive LeafOp
  | openWrite            -- VirtualOpenChild, share mask containing ShareMaskWrite
  | openTrunc            -- VirtualOpenChild, read share access, Truncate
  | setSize              -- VirtualSetAttributes with a size
  | allocate             -- VirtualAllocate
  | write                -- VirtualWrite
  | read (off len : Nat) -- VirtualOpenChild for reading + VirtualRead
deriving DecidableEq, Repr, Inhabited

def isWriteAttempt : LeafOp → Bool
  | .read _ _ => false
  | _ => true

/-- Result of a leaf operation on a node (the node is never changed by it in this
model: local files are mutable but their contents are not tracked). -/
def leafOut (c : CAS) (F : List Dig) (op : LeafOp) : Node → Out
  | .file d _ _ =>
    match op with
    | .openWrite => .status .eacces
    | .openTrunc => .status .eacces
    | .setSize => .status .eacces
    | .allocate => .status .ewrongtype
    | .write => .unreachable
    | .read off len =>
      -- `BoundReadToFileSize`: the storage is only contacted for a non-empty range
      if min len (d.size - off) = 0 then .data []
      else if F.contains d then .status .eio
      else match assoc c.blobs d with
        | none => .status .eio
        | some b => .data (((b.take d.size).drop off).take len)
  | .sym _ =>
    match op with
    | .openWrite => .status .esymlink
    | .openTrunc => .status .esymlink
    | .setSize => .status .einval
    | .allocate => .status .ewrongtype
    | .write => .unreachable
    | .read _ _ => .status .esymlink
  | .loc =>
    match op with
    | .read _ _ => .localData
    | _ => .ok
  | _ =>
    match op with
    | .setSize => .status .einval
    | _ => .status .eisdir

def actLookup (x : Name) (ch : Children) : Children × Out :=
  (ch, match lookup ch x with
    | none => .status .enoent
    | some n => .kind (kindOf n))

def actReaddir (ch : Children) : Children × Out :=
  (ch, .listing (ch.map fun e => (e.1, kindOf e.2)))

def actLeaf (c : CAS) (F : List Dig) (op : LeafOp) (x : Name) (ch : Children) : Children × Out :=
  (ch, match lookup ch x with
    | none => .status .enoent
    | some n => leafOut c F op n)

/-- `VirtualRemove(name, removeDirectory = true, removeLeaf = true)`: a child
directory is initialised first to see whether it is empty. -/
def actRemove (c : CAS) (F : List Dig) (x : Name) (ch : Children) : Children × Out :=
  match lookup ch x with
  | none => (ch, .status .enoent)
  | some n =>
    match contents c F n with
    | .notDir => (eraseFirst ch x, .ok)
    | .err _ => (ch, .status .eio)
    | .ok [] => (eraseFirst ch x, .ok)
    | .ok (g :: gs) => (replaceFirst ch x (.dir (g :: gs)), .status .enotempty)

/-- `VirtualOpenChild` with create attributes and no existing options. -/
def actCreate (x : Name) (ch : Children) : Children × Out :=
  match lookup ch x with
  | some _ => (ch, .status .eexist)
  | none => (ch ++ [(x, .loc)], .ok)

/-- `VirtualMkdir`. -/
def actMkdir (x : Name) (ch : Children) : Children × Out :=
  match lookup ch x with
  | some _ => (ch, .status .eexist)
  | none => (ch ++ [(x, .dir [])], .ok)

structure State where
  cas : CAS
  root : Node

inductive Op
  /-- `monitored`: an `UnreadDirectoryMonitor` was passed to `MergeDirectoryContents` -/
  | merge (d : Dig) (monitored : Bool)
  | lookup (p : Path) (x : Name)
  | readdir (p : Path)
  | leaf (op : LeafOp) (p : Path) (x : Name)
  | remove (p : Path) (x : Name)
  | create (p : Path) (x : Name)
  | mkdir (p : Path) (x : Name)
  /-- `VirtualRename(x1 in directory p1, directory p2, x2)` -/
  | rename (p1 : Path) (x1 : Name) (p2 : Path) (x2 : Name)
  /-- `VirtualLink(xd in directory pd, the leaf xs of directory ps)` -/
  | link (ps : Path) (xs : Name) (pd : Path) (xd : Name)

/-- `CreateChildren(children, overwrite = false)` on an initialised directory. -/
def actMerge (new : Children) (cur : Children) : Children × Out :=
  if new.any (fun e => hasName cur e.1) then (cur, .status .eexist)
  else (cur ++ new, .ok)

/-- `virtualBuildDirectory.MergeDirectoryContents` on the root of the hierarchy. -/
def merge (s : State) (F : List Dig) (d : Dig) (monitored : Bool) : State × Out :=
  match (fetch s.cas F d (if monitored then some [] else none)).result with
  | .error e => (s, .mergeErr e)
  | .ok new =>
    match contents s.cas F s.root with
    | .ok cur => let r := actMerge new cur; ({ s with root := .dir r.1 }, r.2)
    | .err _ => (s, .status .eio)
    | .notDir => (s, .status .enotdir)

/-! ### rename and link -/

/-- The node a path denotes below `n`. Where it is used by `rename` and `link` the
directories on the path have just been initialised, so no fetch is involved. -/
def nodeAt (c : CAS) : Node → Path → Option Node
  | n, [] => some n
  | n, x :: rest =>
    match contents c [] n with
    | .ok ch =>
      match lookup ch x with
      | none => none
      | some v => nodeAt c v rest
    | _ => none

/-- Just initialise the directories on the way (`VirtualLookup` walk + `getContents`). -/
def actNop (ch : Children) : Children × Out := (ch, .ok)

/-- `VirtualLookup` of a directory: it must exist and be a directory (it is not
initialised by being looked up). -/
def actIsDir (x : Name) (ch : Children) : Children × Out :=
  (ch, match lookup ch x with
    | none => .status .enoent
    | some n => if kindOf n = .dir then .ok else .status .enotdir)

/-- Walk to the directory `p` with `VirtualLookup`s from the root: every directory
above `p` is initialised, `p` itself is only looked up. -/
def walkTo (c : CAS) (F : List Dig) (p : Path) (root : Node) : Node × Out :=
  match p.getLast? with
  | none => (root, .ok)
  | some x => withDir c F (actIsDir x) p.dropLast root

/-- Renaming onto an existing directory: it is initialised and must be empty. -/
def actForceChild (c : CAS) (F : List Dig) (x : Name) (ch : Children) : Children × Out :=
  match lookup ch x with
  | none => (ch, .status .enoent)
  | some n =>
    match contents c F n with
    | .notDir => (ch, .status .enotdir)
    | .err _ => (ch, .status .eio)
    | .ok [] => (replaceFirst ch x (.dir []), .ok)
    | .ok (g :: gs) => (replaceFirst ch x (.dir (g :: gs)), .status .enotempty)

/-- `detach` -/
def actErase (x : Name) (ch : Children) : Children × Out := (eraseFirst ch x, .ok)

/-- `detach` of an entry of that name, if any, and `attach` of `v` -/
def actPut (x : Name) (v : Node) (ch : Children) : Children × Out :=
  (match lookup ch x with
    | some _ => replaceFirst ch x v
    | none => ch ++ [(x, v)], .ok)

/-- `virtualMayAttach` + `attach` -/
def actPutNew (x : Name) (v : Node) (ch : Children) : Children × Out :=
  match lookup ch x with
  | some _ => (ch, .status .eexist)
  | none => (ch ++ [(x, v)], .ok)

/-- Detach `x1` from the directory `p1`, attach the node under `x2` in the directory
`p2` (both initialised; no storage involved). -/
def moveEntry (c : CAS) (t : Node) (p1 : Path) (x1 : Name) (p2 : Path) (x2 : Name) (od : Node) : Node :=
  (withDir c [] (actPut x2 od) p2 (withDir c [] (actErase x1) p1 t).1).1

/-- `VirtualRename`. The caller walks to both directories (`walkTo`), then both
are initialised (old first), then the cases of the Go code in their order. The entry that moves is moved as it is: a directory
that has not been initialised yet stays lazy (with its fetcher, wrapped or not).
Detaching and attaching work on initialised contents and involve no storage.
Not modelled (the generator avoids it): old and new entry being two hard links of
one leaf object (no-op in the Go code), and moving a directory below itself (the
Go code has a TODO and creates an unreachable cycle). -/
def rename (c : CAS) (F : List Dig) (root : Node) (p1 : Path) (x1 : Name) (p2 : Path) (x2 : Name) :
    Node × Out :=
  let w1 := walkTo c F p1 root
  if w1.2 ≠ .ok then w1 else
  let w2 := walkTo c F p2 w1.1
  if w2.2 ≠ .ok then w2 else
  let r1 := withDir c F actNop p1 w2.1
  if r1.2 ≠ .ok then r1 else
  let r2 := withDir c F actNop p2 r1.1
  if r2.2 ≠ .ok then r2 else
  let t := r2.1
  let move (t : Node) (od : Node) : Node × Out := (moveEntry c t p1 x1 p2 x2 od, .ok)
  match nodeAt c t (p2 ++ [x2]) with
  | some nw =>
    match nodeAt c t (p1 ++ [x1]) with
    | none => (t, .status .enoent)
    | some od =>
      if kindOf nw = .dir then
        if kindOf od ≠ .dir then (t, .status .eisdir)
        else if p1 = p2 ∧ x1 = x2 then (t, .ok)
        else
          let r3 := withDir c F (actForceChild c F x2) p2 t
          if r3.2 ≠ .ok then r3 else move r3.1 od
      else
        if kindOf od = .dir then (t, .status .enotdir)
        else if p1 = p2 ∧ x1 = x2 then (t, .ok)
        else move t od
  | none =>
    match nodeAt c t (p1 ++ [x1]) with
    | none => (t, .status .enoent)
    | some od => move t od

/-- `VirtualLink`: the leaf found at `ps/xs` is attached a second time at `pd/xd`.
(Immutable leaves: a second reference to the object is a copy of the node.) -/
def link (c : CAS) (F : List Dig) (root : Node) (ps : Path) (xs : Name) (pd : Path) (xd : Name) :
    Node × Out :=
  let r1 := withDir c F actNop ps root
  if r1.2 ≠ .ok then r1 else
  match nodeAt c r1.1 (ps ++ [xs]) with
  | none => (r1.1, .status .enoent)
  | some v =>
    if kindOf v = .dir then (r1.1, .status .eisdir)
    else withDir c F (actPutNew xd v) pd r1.1

/-- One operation; `F` = the digests whose storage reads fail while it runs. -/
def step (s : State) (F : List Dig) (op : Op) : State × Out :=
  let onDir (act : Children → Children × Out) (p : Path) : State × Out :=
    let r := withDir s.cas F act p s.root
    ({ s with root := r.1 }, r.2)
  match op with
  | .merge d m => merge s F d m
  | .lookup p x => onDir (actLookup x) p
  | .readdir p => onDir actReaddir p
  | .leaf o p x => onDir (actLeaf s.cas F o x) p
  | .remove p x => onDir (actRemove s.cas F x) p
  | .create p x => onDir (actCreate x) p
  | .mkdir p x => onDir (actMkdir x) p
  | .rename p1 x1 p2 x2 =>
    let r := rename s.cas F s.root p1 x1 p2 x2
    ({ s with root := r.1 }, r.2)
  | .link ps xs pd xd =>
    let r := link s.cas F s.root ps xs pd xd
    ({ s with root := r.1 }, r.2)

def init (c : CAS) : State := ⟨c, .dir []⟩

/-- Run a history; every operation comes with its own fault set. -/
def run (s : State) : List (List Dig × Op) → State × List Out
  | [] => (s, [])
  | (F, op) :: rest =>
    let r := step s F op
    let rr := run r.1 rest
    (rr.1, r.2 :: rr.2)

/-! ## the eager tree -/

/-- Expand every directory that can be fetched, `fuel` levels deep. -/
def expand (c : CAS) : Nat → Node → Node
  | 0, n => n
  | f + 1, .dir ch => .dir (ch.map fun e => (e.1, expand c f e.2))
  | f + 1, .lazy d m =>
    match (fetch c [] d m).result with
    | .ok ch => .dir (ch.map fun e => (e.1, expand c f e.2))
    | .error _ => .lazy d m
  | _ + 1, n => n

/-- Node reached by following `p` through *materialised* directories only. -/
def rawAt : Node → Path → Option Node
  | n, [] => some n
  | .dir ch, x :: rest =>
    match lookup ch x with
    | none => none
    | some c => rawAt c rest
  | _, _ :: _ => none

/-! ## `ApplyGetContainingDigests` on a directory that has not been initialised

`inMemoryPrepopulatedDirectory.VirtualApply` forwards to the fetcher while it is
still set; `casInitialContentsFetcher` answers with the transitive closure of the
digests below it (`casContainingDigestsGatherer.traverse`) without creating
anything. This is an internal interface (not reachable through FUSE/NFS) and
shows whether a directory has been initialised, so it is a query beside `step`. -/

/-- `traverse`: `st.1` = `directoriesGathered`, `st.2` = `digests`. Unlike
`FetchContents` it looks at digests only, not at names. Fuel: nesting depth. -/
def gather (c : CAS) (F : List Dig) : Nat → Dig → List Dig × List Dig → Except Err (List Dig × List Dig)
  | 0, _, st => .ok st
  | f + 1, d, (seen, acc) =>
    if F.contains d then .error .unavailable
    else match assoc c.dirs d with
    | none => .error .notFound
    | some none => .error .invalidArgument
    | some (some m) =>
      let stepDir : List Dig × List Dig → DirNode → Except Err (List Dig × List Dig) := fun st e =>
        match parseDigest c.hashLen e.digest with
        | none => Except.error Err.invalidArgument
        | some d' => if st.1.contains d' then Except.ok st else gather c F f d' (d' :: st.1, st.2)
      let stepFile : List Dig × List Dig → FileNode → Except Err (List Dig × List Dig) := fun st e =>
        match parseDigest c.hashLen e.digest with
        | none => Except.error Err.invalidArgument
        | some d' => Except.ok (st.1, d' :: st.2)
      match m.dirs.foldlM stepDir (seen, d :: acc) with
      | .error e => .error e
      | .ok st => m.files.foldlM stepFile st

inductive Containing
  | unhandled               -- `VirtualApply` returned false
  | err (e : Err)
  | digests (l : List Dig)  -- as a set

/-- `VirtualApply(&ApplyGetContainingDigests{})` on a node, as it is. -/
def containing (c : CAS) (F : List Dig) : Node → Containing
  | .file d _ _ => .digests [d]
  | .lazy d _ =>
    match gather c F (c.dirs.length + 1) d ([], []) with
    | .ok st => .digests st.2
    | .error e => .err e
  | _ => .unhandled

/-! ## `cachingDirectoryFetcher` -/
namespace Cache

/-- `CachingDirectoryFetcherKey`: digest key and the tree-root flag. -/
structure Key where
  digest : Nat
  isTreeRoot : Bool
deriving DecidableEq, Repr, Inhabited

structure Entry where
  key : Key
  msg : Nat      -- identity of the cached *remoteexecution.Directory
  size : Nat
deriving DecidableEq, Repr, Inhabited

/-- `objects` together with the LRU order of the eviction set (head = next victim). -/
structure State where
  maxCount : Nat
  maxSize : Nat
  entries : List Entry
deriving Repr

def total (es : List Entry) : Nat := (es.map (·.size)).sum

def find (es : List Entry) (k : Key) : Option Entry := es.find? (fun e => e.key = k)

/-- `Touch`: LRU moves the entry to the back. -/
def touch (es : List Entry) (k : Key) : List Entry :=
  match find es k with
  | none => es
  | some e => es.filter (fun e' => e'.key ≠ k) ++ [e]

/-- The "make space" loop of `insert`. -/
def evict (maxCount maxSize size : Nat) : List Entry → List Entry
  | [] => []
  | e :: rest =>
    if (e :: rest).length ≥ maxCount || total (e :: rest) + size > maxSize then
      evict maxCount maxSize size rest
    else e :: rest

def insert (s : State) (k : Key) (m size : Nat) : State :=
  match find s.entries k with
  | some _ => s
  | none => { s with entries := evict s.maxCount s.maxSize size s.entries ++ [⟨k, m, size⟩] }

inductive Call
  | directory (d : Nat)          -- GetDirectory(d)
  | treeRoot (t : Nat)           -- GetTreeRootDirectory(t)
  | treeChild (t c : Nat)        -- GetTreeChildDirectory(t, c)
deriving DecidableEq, Repr, Inhabited

def keyOf : Call → Key
  | .directory d => ⟨d, false⟩
  | .treeRoot t => ⟨t, true⟩
  | .treeChild _ c => ⟨c, false⟩

inductive Reply
  | hit (m : Nat)
  | miss (m : Nat)   -- fetched from the base fetcher
  | error
deriving DecidableEq, Repr, Inhabited

/-- One call. `base` = what the base fetcher answers if it is asked now
(`none` = error), `size` = size under which the object is accounted. -/
def get (s : State) (call : Call) (base : Option Nat) (size : Nat) : State × Reply :=
  let k := keyOf call
  match find s.entries k with
  | some e => ({ s with entries := touch s.entries k }, .hit e.msg)
  | none =>
    match base with
    | none => (s, .error)
    | some m => (insert s k m size, .miss m)

def replyMsg : Reply → Option Nat
  | .hit m => some m
  | .miss m => some m
  | .error => none

def runCalls (s : State) : List (Call × Option Nat × Nat) → State × List Reply
  | [] => (s, [])
  | (c, b, sz) :: rest =>
    let r := get s c b sz
    let rr := runCalls r.1 rest
    (rr.1, r.2 :: rr.2)

end Cache

/-! ## `hardlinkingFileFetcher` (non-virtual workers: `naiveBuildDirectory`)

`pkg/cas/hardlinking_file_fetcher.go`. `entries` = `filesSize` in the LRU order of the
eviction set (head = next victim); `disk` = what is in the cache directory (the
worker is not the only one who can change it: `Fault`). A key stands for digest +
executable bit; a regular file carries a content tag (the key whose contents it
has). Calls are sequential (`naiveBuildDirectory` serialises them with the file
fetcher semaphore in the harness; the `downloads` map only serialises callers).

File system assumption (explicit): `link(2)` from the cache succeeds iff the cache
entry is a regular file, fails with `ENOENT` iff it is absent and with another
error if it is a directory; linking *into* the cache fails with `EEXIST` iff
something is there; `Remove` removes a file or an empty directory. -/
namespace HardLink

inductive Entry
  | file (content : Nat)
  | dir
deriving DecidableEq, Repr, Inhabited

structure State where
  maxFiles : Nat
  maxSize : Nat
  entries : List (Nat × Nat)      -- key, accounted size
  disk : List (Nat × Entry)       -- cache directory
deriving Repr

def total (es : List (Nat × Nat)) : Nat := (es.map (·.2)).sum

def known (es : List (Nat × Nat)) (k : Nat) : Bool := es.any (·.1 == k)

def onDisk (d : List (Nat × Entry)) (k : Nat) : Option Entry := (d.find? (·.1 == k)).map (·.2)

def diskRemove (d : List (Nat × Entry)) (k : Nat) : List (Nat × Entry) := d.filter (·.1 != k)

/-- `evictionSet.Touch`. -/
def touch (es : List (Nat × Nat)) (k : Nat) : List (Nat × Nat) :=
  match es.find? (·.1 == k) with
  | none => es
  | some e => es.filter (·.1 != k) ++ [e]

inductive LinkResult
  | linked (content : Nat)   -- the target now is a hard link of the cache file
  | notExist                 -- `os.ErrNotExist`
  | failed                   -- codes.Internal
deriving DecidableEq, Repr

/-- `tryLinkFromCache`. -/
def tryLink (s : State) (k : Nat) : State × LinkResult :=
  if known s.entries k then
    let s' := { s with entries := touch s.entries k }
    match onDisk s.disk k with
    | some (.file c) => (s', .linked c)
    | none => (s', .notExist)
    | some .dir => (s', .failed)
  else (s, .notExist)

/-- `makeSpace`: evict from the head while there are too many files or bytes;
`Remove` of a cache entry never fails under the file system assumption. -/
def makeSpace (maxFiles maxSize size : Nat) :
    List (Nat × Nat) → List (Nat × Entry) → List (Nat × Nat) × List (Nat × Entry)
  | [], d => ([], d)
  | e :: rest, d =>
    if (e :: rest).length ≥ maxFiles || total (e :: rest) + size > maxSize then
      makeSpace maxFiles maxSize size rest (diskRemove d e.1)
    else (e :: rest, d)

inductive Result
  | ok (content : Nat)   -- GetFile returned nil; the target has these contents
  | okMissing            -- GetFile returned nil without a target (never, see theorems)
  | error
deriving DecidableEq, Repr

/-- `GetFile` of key `k` (accounted size `size`); `casHas`: the base fetcher can
download it. -/
def getFile (s : State) (k size : Nat) (casHas : Bool) : State × Result :=
  match tryLink s k with
  | (s1, .linked c) => (s1, .ok c)
  | (s1, .failed) => (s1, .error)
  | (s1, .notExist) =>
    -- no other download in progress; the second look at the cache
    match tryLink s1 k with
    | (s2, .linked c) => (s2, .ok c)
    | (s2, .failed) => (s2, .error)
    | (s2, .notExist) =>
      if !casHas then (s2, .error)
      else
        -- downloaded to the target: contents of `k`
        if !known s2.entries k then
          let r := makeSpace s2.maxFiles s2.maxSize size s2.entries s2.disk
          -- link target -> cache; EEXIST is tolerated
          let disk' := match onDisk r.2 k with
            | some _ => r.2
            | none => r.2 ++ [(k, .file k)]
          ({ s2 with entries := r.1 ++ [(k, size)], disk := disk' }, .ok k)
        else
          -- in the bookkeeping but missing: repair
          let disk' := match onDisk s2.disk k with
            | some _ => s2.disk
            | none => s2.disk ++ [(k, .file k)]
          ({ s2 with disk := disk' }, .ok k)

/-- What happens to the cache directory behind the worker's back. -/
inductive Fault
  | remove (k : Nat)   -- a cleaner deletes the entry
  | mkdir (k : Nat)    -- the entry is replaced by a directory

def fault (s : State) : Fault → State
  | .remove k => { s with disk := diskRemove s.disk k }
  | .mkdir k => { s with disk := diskRemove s.disk k ++ [(k, .dir)] }

end HardLink

end BbRe.InputRoot
