/-
Model of `pkg/filesystem/pool/block_device_backed_file_pool.go` (C15, file half).

What is transcribed (Go name -> definition here):

* `blockDeviceBackedFile{sectors, sizeBytes, holeSource}`      -> `File`
* `getInitialSectorIndex`                                      -> inlined in `readAt` / `writeAt`
  (the Go code passes `lastSectorIndex = endSectorIndex-1`, which is -1 for an
  empty sector list; here the exclusive `endIdx` is passed instead, every
  comparison `i <= last` became `i < endIdx`)
* `incrementSectorIndex` (panics unless at a sector boundary)  -> the `% ss ≠ 0 ⇒ .panic` branch of the loops
* `getSectorsContiguous`                                       -> `contig` / `countMore`
* `limitBufferToSectorBoundary`                                -> `min n (cnt*ss - ow)` / `List.take`
* `readFromHoleSource`, `readFromSectors`, `ReadAt`            -> `readHole`, `readFromSectors`, `readLoop`, `readAt`
* `truncateSectors`, `Truncate`                                -> `truncateSectors`, `truncate`
* `writeToNewSectors` (three write phases, every error path
  calls `FreeContiguous(firstSector, sectorsAllocated)`)       -> `wnsPhase1/2/3`, `wnsPhases`, `writeToNewSectors`
* `insertSectorsContiguous` (panics on a non-hole)             -> `insertSectors`
* `writeToSectors`, `WriteAt`                                  -> `writeToSectors`, `writeLoop`, `writeAt`
* `GetNextRegionOffset`                                        -> `seekData`, `seekHoleAdvance`, `seekHoleLoop`, `seek`
* `Close`, `Len`, `NewFile`                                    -> `close`, `File.size`, `Op.new`

Environment (step inputs, never chosen by the model):

* the block device is an `Array Byte`; a fault plan says which device read /
  write of the current call fails and after how many bytes;
* the `SectorAllocator` is *abstract*: its answers arrive as oracle tokens
  (`AllocAns`), and the model keeps the abstract allocator state (`allocd`, the
  set of sectors handed out and not yet freed).  `Env.alloc` checks each answer
  against the allocator contract of `sector_allocator.go` (`1 ≤ count ≤ maximum`,
  sectors numbered from 1 and on the device, none of them currently allocated);
  an answer outside the contract is rejected (`.oracle`);
* the `HoleSource` is the harness's pattern hole source (`Hole`): a periodic
  data/hole map with tagged non-zero bytes and a truncation limit; its reads,
  seeks, `Truncate` and `Close` can fail according to the fault plan.

Not modelled: `int64`/`uint32` overflow (offsets are `Nat`; the harness stays
far below 2^31), `Sync` (no-op), concurrent use of one file (the Go type is
documented as not thread-safe).
-/
namespace BbRe.FilePool

abbrev Byte := Nat

/-! ## Block device -/

/-- One byte store.  Inside the device this is `Array.set`; the else-branch
(storing beyond the end grows the array) only keeps the function total with a
simple specification — allocator answers beyond the device are rejected before
any write, so it is never taken. -/
def setByte (dev : Array Byte) (i : Nat) (b : Byte) : Array Byte :=
  if i < dev.size then dev.setIfInBounds i b
  else (dev ++ Array.replicate (i - dev.size) 0).push b

def rd (dev : Array Byte) (i : Nat) : Byte := dev.getD i 0

def writeBytes (dev : Array Byte) (off : Nat) : List Byte → Array Byte
  | [] => dev
  | b :: bs => writeBytes (setByte dev off b) (off + 1) bs

def readBytes (dev : Array Byte) (off n : Nat) : List Byte :=
  (List.range n).map fun j => rd dev (off + j)

/-! ## Hole source (the harness's `patternHoleSource`) -/

structure Hole where
  tag : Nat
  g : Nat
  m : Nat
  d : Nat
  salt : Nat
  limit : Nat
  eofStyle : Bool
deriving Repr, Inhabited

def Hole.isData (h : Hole) (i : Nat) : Bool := decide (i < h.limit) && decide ((i / h.g) % h.m < h.d)

def Hole.read (h : Hole) (i : Nat) : Byte :=
  if h.isData i then h.tag * 32 + 1 + (h.salt + i * 7 + i / 5) % 31 else 0

def Hole.truncate (h : Hole) (s : Nat) : Hole := { h with limit := min h.limit s }

def Hole.bytes (h : Hole) (off n : Nat) : List Byte :=
  (List.range n).map fun j => h.read (off + j)

/-- least `j` in `[off, off+fuel)` with `p j`. -/
def findFrom (p : Nat → Bool) (off : Nat) : Nat → Option Nat
  | 0 => none
  | fuel + 1 => if p off then some off else findFrom p (off + 1) fuel

/-- `GetNextRegionOffset(off, Data)` of the hole source: `none` = `io.EOF`. -/
def Hole.nextData (h : Hole) (off : Nat) : Option Nat :=
  findFrom h.isData off (h.limit - off)

/-- `GetNextRegionOffset(off, Hole)` of the hole source: `none` = `io.EOF`. -/
def Hole.nextHole (h : Hole) (off : Nat) : Option Nat :=
  if off ≥ h.limit then (if h.eofStyle then none else some off)
  else match findFrom (fun i => !h.isData i) off (h.limit - off) with
    | some j => some j
    | none => some h.limit

/-! ## Errors, fault plan, environment -/

inductive Err | eof | invalid | internal | io | hole | alloc | panic | oracle
deriving DecidableEq, Repr, Inhabited

/-- Which environment call of the current operation fails.  `(k, n)`: the
`k`-th call (0-based) of that kind transfers `n` bytes and fails;
`(k, n, true)`: transfers `n` bytes and reports no error (short read). -/
structure Faults where
  dw : Option (Nat × Nat) := none
  dr : Option (Nat × Nat × Bool) := none
  hr : Option (Nat × Nat × Bool) := none
  hs : Option Nat := none
  ht : Bool := false
  hc : Bool := false
deriving Repr, Inhabited

inductive AllocAns | range (first count : Nat) | fail
deriving Repr, Inhabited

structure Cfg where
  ss : Nat
  nsec : Nat
deriving Repr, Inhabited

structure Env where
  dev : Array Byte
  allocd : List Nat
  dfree : Bool
  answers : List AllocAns
  faults : Faults
deriving Inhabited

inductive AllocRes | ok (first count : Nat) | fail | bad

def rangeFree (allocd : List Nat) (first count : Nat) : Bool :=
  (List.range' first count).all fun s => !allocd.contains s

/-- `SectorAllocator.AllocateContiguous(maximum)`: consume one oracle answer and
check it against the interface contract. -/
def Env.alloc (c : Cfg) (e : Env) (maximum : Nat) : Env × AllocRes :=
  match e.answers with
  | [] => (e, .bad)
  | .fail :: rest => ({ e with answers := rest }, .fail)
  | .range first count :: rest =>
    if 1 ≤ count ∧ count ≤ maximum ∧ 1 ≤ first ∧ first + count ≤ c.nsec + 1 ∧
        rangeFree e.allocd first count = true then
      ({ e with answers := rest, allocd := List.range' first count ++ e.allocd }, .ok first count)
    else ({ e with answers := rest }, .bad)

/-- Free one sector; zero entries are ignored (`FreeList`), freeing a sector
that is not allocated sets the sticky double-free flag (the bitmap allocator
panics there). -/
def freeOne (a : List Nat × Bool) (s : Nat) : List Nat × Bool :=
  if s = 0 then a
  else if a.1.contains s then (a.1.erase s, a.2) else (a.1, true)

/-- `SectorAllocator.FreeList`. -/
def Env.freeList (e : Env) (l : List Nat) : Env :=
  let r := l.foldl freeOne (e.allocd, e.dfree)
  { e with allocd := r.1, dfree := r.2 }

/-- `SectorAllocator.FreeContiguous`. -/
def Env.freeContiguous (e : Env) (first count : Nat) : Env :=
  e.freeList (List.range' first count)

/-- `blockDevice.WriteAt`: `some n` = failed after storing `n` bytes. -/
def Env.devWrite (e : Env) (off : Nat) (p : List Byte) : Env × Option Nat :=
  match e.faults.dw with
  | some (0, n) =>
    ({ e with dev := writeBytes e.dev off (p.take n), faults := { e.faults with dw := none } },
      some (min n p.length))
  | some (k + 1, n) =>
    ({ e with dev := writeBytes e.dev off p, faults := { e.faults with dw := some (k, n) } }, none)
  | none => ({ e with dev := writeBytes e.dev off p }, none)

/-- `blockDevice.ReadAt` followed by the checks of `readFromSectors`. -/
def Env.devRead (e : Env) (off n : Nat) : Env × List Byte × Option Err :=
  match e.faults.dr with
  | some (0, nb, short) =>
    let k := min nb n
    ({ e with faults := { e.faults with dr := none } }, readBytes e.dev off k,
      if short then (if k = n then none else some .internal) else some .io)
  | some (k + 1, nb, short) =>
    ({ e with faults := { e.faults with dr := some (k, nb, short) } }, readBytes e.dev off n, none)
  | none => (e, readBytes e.dev off n, none)

/-- `readFromHoleSource`. -/
def Env.readHole (e : Env) (h : Hole) (off n : Nat) : Env × List Byte × Option Err :=
  match e.faults.hr with
  | some (0, nb, short) =>
    let k := min nb n
    ({ e with faults := { e.faults with hr := none } }, h.bytes off k,
      if short then (if k = n then none else some .internal) else some .hole)
  | some (k + 1, nb, short) =>
    ({ e with faults := { e.faults with hr := some (k, nb, short) } }, h.bytes off n, none)
  | none => (e, h.bytes off n, none)

/-- One `holeSource.GetNextRegionOffset` call: `none` = it fails. -/
def Env.holeSeek (e : Env) : Env × Bool :=
  match e.faults.hs with
  | some 0 => ({ e with faults := { e.faults with hs := none } }, false)
  | some (k + 1) => ({ e with faults := { e.faults with hs := some k } }, true)
  | none => (e, true)

/-! ## Files -/

structure File where
  sectors : List Nat
  size : Nat
  hole : Hole
  closed : Bool
deriving Inhabited

/-- inner loops of `getSectorsContiguous`: how many further entries continue the run. -/
def countMore : List Nat → Nat → Nat → Nat → Nat
  | _, _, _, 0 => 0
  | [], _, _, _ => 0
  | x :: xs, s, c, fuel + 1 =>
    if (s = 0 ∧ x = 0) ∨ (s ≠ 0 ∧ x = s + c) then 1 + countMore xs s (c + 1) fuel else 0

/-- `getSectorsContiguous(first, endIdx-1)`. -/
def contig (secs : List Nat) (first endIdx : Nat) : Nat × Nat :=
  let s := secs.getD first 0
  (s, 1 + countMore (secs.drop (first + 1)) s 1 (endIdx - first - 1))

def readFromSectors (c : Cfg) (f : File) (e : Env) (n idx endIdx ow : Nat) :
    Env × List Byte × Option Err :=
  if idx ≥ f.sectors.length then e.readHole f.hole (idx * c.ss + ow) n
  else
    let sc := contig f.sectors idx endIdx
    let n' := min n (sc.2 * c.ss - ow)
    if sc.1 = 0 then e.readHole f.hole (idx * c.ss + ow) n'
    else e.devRead ((sc.1 - 1) * c.ss + ow) n'

/-- the `for` loop of `ReadAt`; `n` bytes remain. -/
def readLoop (c : Cfg) (f : File) : Nat → Env → Nat → Nat → Nat → Nat → Env × List Byte × Option Err
  | 0, e, _, _, _, _ => (e, [], some .panic)
  | fuel + 1, e, n, idx, endIdx, ow =>
    let r := readFromSectors c f e n idx endIdx ow
    match r.2.2 with
    | some x => (r.1, r.2.1, some x)
    | none =>
      if n - r.2.1.length = 0 then (r.1, r.2.1, none)
      else if (ow + r.2.1.length) % c.ss ≠ 0 then (r.1, r.2.1, some .panic)
      else
        let r2 := readLoop c f fuel r.1 (n - r.2.1.length) (idx + (ow + r.2.1.length) / c.ss) endIdx 0
        (r2.1, r.2.1 ++ r2.2.1, r2.2.2)

def readAt (c : Cfg) (f : File) (e : Env) (off : Int) (n : Nat) : Env × List Byte × Option Err :=
  if off < 0 then (e, [], some .invalid)
  else if n = 0 then (e, [], none)
  else
    let o := off.toNat
    if o ≥ f.size then (e, [], some .eof)
    else
      let n' := if o + n ≥ f.size then f.size - o else n
      let succ : Option Err := if o + n ≥ f.size then some .eof else none
      let endIdx := min ((o + n' + c.ss - 1) / c.ss) f.sectors.length
      let r := readLoop c f (n' + 1) e n' (o / c.ss) endIdx (o % c.ss)
      (r.1, r.2.1, match r.2.2 with | some x => some x | none => succ)

/-- drop trailing zero entries. -/
def trimZeros : List Nat → List Nat
  | [] => []
  | x :: xs =>
    match trimZeros xs with
    | [] => if x = 0 then [] else [x]
    | y :: ys => x :: y :: ys

def truncateSectors (f : File) (e : Env) (n : Nat) : File × Env :=
  if f.sectors.length > n then
    ({ f with sectors := trimZeros (f.sectors.take n) }, e.freeList (f.sectors.drop n))
  else (f, e)

def truncate (c : Cfg) (f : File) (e : Env) (size : Int) : File × Env × Option Err :=
  if size < 0 then (f, e, some .invalid)
  else
    let sz := size.toNat
    let idx := sz / c.ss
    let ow := sz % c.ss
    let zr : Env × Option Nat :=
      if ow ≠ 0 ∧ sz < f.size ∧ idx < f.sectors.length ∧ f.sectors.getD idx 0 ≠ 0 then
        e.devWrite ((f.sectors.getD idx 0 - 1) * c.ss + ow)
          (List.replicate (min (c.ss - ow) (f.size - sz)) 0)
      else (e, none)
    match zr.2 with
    | some _ => (f, zr.1, some .io)
    | none =>
      let fe := truncateSectors f zr.1 (if ow = 0 then idx else idx + 1)
      if sz < f.size then
        if fe.2.faults.ht then (fe.1, { fe.2 with faults := { fe.2.faults with ht := false } }, some .hole)
        else ({ fe.1 with size := sz, hole := f.hole.truncate sz }, fe.2, none)
      else ({ fe.1 with size := sz }, fe.2, none)

/-- result of the write phases: remaining data, next device sector, next file sector index. -/
abbrev Cursor := List Byte × Nat × Nat

def wnsPhase1 (c : Cfg) (h : Hole) (e : Env) (p : List Byte) (sector idx ow : Nat) :
    Env × Except Err Cursor :=
  if ow > 0 then
    let r1 := e.readHole h (idx * c.ss) ow
    match r1.2.2 with
    | some x => (r1.1, .error x)
    | none =>
      let endW := ow + p.length
      let r2 : Env × List Byte × Option Err :=
        if endW < c.ss then r1.1.readHole h (idx * c.ss + endW) (c.ss - endW) else (r1.1, [], none)
      match r2.2.2 with
      | some x => (r2.1, .error x)
      | none =>
        let k := min (c.ss - ow) p.length
        let w := r2.1.devWrite ((sector - 1) * c.ss) (r1.2.1 ++ p.take k ++ r2.2.1)
        match w.2 with
        | some _ => (w.1, .error .io)
        | none => (w.1, .ok (p.drop k, sector + 1, idx + 1))
  else (e, .ok (p, sector, idx))

def wnsPhase2 (c : Cfg) (e : Env) (cur : Cursor) : Env × Except Err Cursor :=
  let full := cur.1.length / c.ss
  if full > 0 then
    let w := e.devWrite ((cur.2.1 - 1) * c.ss) (cur.1.take (full * c.ss))
    match w.2 with
    | some _ => (w.1, .error .io)
    | none => (w.1, .ok (cur.1.drop (full * c.ss), cur.2.1 + full, cur.2.2 + full))
  else (e, .ok cur)

def wnsPhase3 (c : Cfg) (h : Hole) (e : Env) (cur : Cursor) : Env × Option Err :=
  if cur.1.length > 0 then
    let r := e.readHole h (cur.2.2 * c.ss + cur.1.length) (c.ss - cur.1.length)
    match r.2.2 with
    | some x => (r.1, some x)
    | none =>
      let w := r.1.devWrite ((cur.2.1 - 1) * c.ss) (cur.1 ++ r.2.1)
      match w.2 with
      | some _ => (w.1, some .io)
      | none => (w.1, none)
  else (e, none)

def wnsPhases (c : Cfg) (h : Hole) (e : Env) (p : List Byte) (first idx ow : Nat) : Env × Option Err :=
  match wnsPhase1 c h e p first idx ow with
  | (e1, .error x) => (e1, some x)
  | (e1, .ok cur1) =>
    match wnsPhase2 c e1 cur1 with
    | (e2, .error x) => (e2, some x)
    | (e2, .ok cur2) => wnsPhase3 c h e2 cur2

/-- `writeToNewSectors`: `(bytesWritten, firstSector, sectorsAllocated)`. -/
def writeToNewSectors (c : Cfg) (h : Hole) (e : Env) (p : List Byte) (idx ow : Nat) :
    Env × Except Err (Nat × Nat × Nat) :=
  match e.alloc c ((ow + p.length + c.ss - 1) / c.ss) with
  | (e1, .bad) => (e1, .error .oracle)
  | (e1, .fail) => (e1, .error .alloc)
  | (e1, .ok first got) =>
    let p' := p.take (got * c.ss - ow)
    match wnsPhases c h e1 p' first idx ow with
    | (e2, some x) => (e2.freeContiguous first got, .error x)
    | (e2, none) => (e2, .ok (p'.length, first, got))

/-- `insertSectorsContiguous`; `none` = the Go code panics (replacing an
existing sector, or index out of range). -/
def insertSectors (secs : List Nat) (idx first count : Nat) : Option (List Nat) :=
  if idx + count ≤ secs.length ∧ ((secs.drop idx).take count).all (· == 0) then
    some (secs.take idx ++ List.range' first count ++ secs.drop (idx + count))
  else none

def writeToSectors (c : Cfg) (f : File) (e : Env) (p : List Byte) (idx endIdx ow : Nat) :
    File × Env × Nat × Option Err :=
  if idx ≥ f.sectors.length then
    match writeToNewSectors c f.hole e p idx ow with
    | (e1, .error x) => (f, e1, 0, some x)
    | (e1, .ok (n, first, got)) =>
      let grown := f.sectors ++ List.replicate (idx + got - f.sectors.length) 0
      match insertSectors grown idx first got with
      | none => (f, e1, 0, some .panic)
      | some secs => ({ f with sectors := secs }, e1, n, none)
  else
    let sc := contig f.sectors idx endIdx
    let p' := p.take (sc.2 * c.ss - ow)
    if sc.1 = 0 then
      match writeToNewSectors c f.hole e p' idx ow with
      | (e1, .error x) => (f, e1, 0, some x)
      | (e1, .ok (n, first, got)) =>
        match insertSectors f.sectors idx first got with
        | none => (f, e1, 0, some .panic)
        | some secs => ({ f with sectors := secs }, e1, n, none)
    else
      let w := e.devWrite ((sc.1 - 1) * c.ss + ow) p'
      match w.2 with
      | some n => (f, w.1, n, some .io)
      | none => (f, w.1, p'.length, none)

/-- the `for` loop of `WriteAt`; returns the file, the environment, `nTotal` and the error. -/
def writeLoop (c : Cfg) : Nat → File → Env → List Byte → Nat → Nat → Nat → File × Env × Nat × Option Err
  | 0, f, e, _, _, _, _ => (f, e, 0, some .panic)
  | fuel + 1, f, e, p, idx, endIdx, ow =>
    let r := writeToSectors c f e p idx endIdx ow
    let n := r.2.2.1
    let rest := p.drop n
    if rest.isEmpty ∨ r.2.2.2.isSome then (r.1, r.2.1, n, r.2.2.2)
    else if (ow + n) % c.ss ≠ 0 then (r.1, r.2.1, n, some .panic)
    else
      let r2 := writeLoop c fuel r.1 r.2.1 rest (idx + (ow + n) / c.ss) endIdx 0
      (r2.1, r2.2.1, n + r2.2.2.1, r2.2.2.2)

def writeAt (c : Cfg) (f : File) (e : Env) (p : List Byte) (off : Int) : File × Env × Nat × Option Err :=
  if off < 0 then (f, e, 0, some .invalid)
  else if p.length = 0 then (f, e, 0, none)
  else
    let o := off.toNat
    let endIdx := min ((o + p.length + c.ss - 1) / c.ss) f.sectors.length
    let r := writeLoop c (p.length + 1) f e p (o / c.ss) endIdx (o % c.ss)
    let f' := r.1
    let nTotal := r.2.2.1
    let f'' := if nTotal > 0 ∧ f'.size < o + nTotal then { f' with size := o + nTotal } else f'
    (f'', r.2.1, nTotal, r.2.2.2)

def close (f : File) (e : Env) : File × Env × Option Err :=
  let e1 := if f.sectors.length > 0 then e.freeList f.sectors else e
  let f' := { f with sectors := [], closed := true }
  if e1.faults.hc then (f', { e1 with faults := { e1.faults with hc := false } }, some .hole)
  else (f', e1, none)

/-- index of the first non-zero entry at or after `i` (`none` = the Go loop runs off the slice and panics). -/
def nextNonZero : List Nat → Nat → Option Nat
  | [], _ => none
  | x :: xs, i => if x ≠ 0 then some i else nextNonZero xs (i + 1)

/-- index of the first zero entry at or after `i`, or the length. -/
def nextZero : List Nat → Nat → Nat
  | [], i => i
  | x :: xs, i => if x = 0 then i else nextZero xs (i + 1)

def seekData (c : Cfg) (f : File) (e : Env) (off : Nat) : Env × Except Err Nat :=
  let idx := off / c.ss
  if idx ≥ f.sectors.length then
    match e.holeSeek with
    | (e1, false) => (e1, .error .hole)
    | (e1, true) => (e1, match f.hole.nextData off with | some j => .ok j | none => .error .eof)
  else if f.sectors.getD idx 0 ≠ 0 then (e, .ok off)
  else
    match nextNonZero (f.sectors.drop (idx + 1)) (idx + 1) with
    | none => (e, .error .panic)
    | some k =>
      match e.holeSeek with
      | (e1, false) => (e1, .error .hole)
      | (e1, true) =>
        (e1, match f.hole.nextData off with
          | some j => .ok (min (k * c.ss) j)
          | none => .ok (k * c.ss))

/-- first half of one iteration of the `Hole` loop of `GetNextRegionOffset`:
skip the run of data sectors `off` lies in; returns `(sectorIndex, off)`. -/
def seekHoleAdvance (c : Cfg) (f : File) (off : Nat) : Nat × Nat :=
  if off / c.ss < f.sectors.length ∧ f.sectors.getD (off / c.ss) 0 ≠ 0 then
    (nextZero (f.sectors.drop (off / c.ss + 1)) (off / c.ss + 1),
      nextZero (f.sectors.drop (off / c.ss + 1)) (off / c.ss + 1) * c.ss)
  else (off / c.ss, off)

def seekHoleLoop (c : Cfg) (f : File) : Nat → Env → Nat → Env × Except Err Nat
  | 0, e, _ => (e, .error .panic)
  | fuel + 1, e, off =>
    let a := seekHoleAdvance c f off
    if a.2 ≥ f.size then (e, .ok f.size)
    else
      match e.holeSeek with
      | (e1, false) => (e1, .error .hole)
      | (e1, true) =>
        match f.hole.nextHole a.2 with
        | none => (e1, .ok a.2)
        | some j => if j < (a.1 + 1) * c.ss then (e1, .ok j) else seekHoleLoop c f fuel e1 j

def seek (c : Cfg) (f : File) (e : Env) (off : Int) (data : Bool) : Env × Except Err Nat :=
  if off < 0 then (e, .error .invalid)
  else if off.toNat ≥ f.size then (e, .error .eof)
  else if data then seekData c f e off.toNat
  else seekHoleLoop c f (f.size + 1) e off.toNat

/-! ## `toDeviceOffset` with the machine types of the Go code

`int64(sector-1)*int64(f.fp.sectorSizeBytes) + int64(offsetWithinSector)`: `sector` is a
`uint32`, the subtraction happens in 32 bits, the widening conversion comes *before* the
multiplication, which (like the addition) is a wrapping 64-bit operation (`int` and `int64` are
both 64 bits wide on the supported platforms; the bit pattern of the result is what is modelled).
Everywhere else this file computes device offsets in `Nat` as `(sector-1)*ss + ow`;
`Lemmas/FilePoolOffset.lean` shows the two agree for every sector number and every sector size up
to 2^31, and that distinct sectors occupy disjoint device ranges. -/

def toDeviceOffset (sector : BitVec 32) (sectorSizeBytes offsetWithinSector : BitVec 64) : BitVec 64 :=
  (sector - 1).setWidth 64 * sectorSizeBytes + offsetWithinSector

/-- the variant that multiplies in 32 bits before widening
(`int64((sector-1)*uint32(sectorSizeBytes)) + int64(offsetWithinSector)`): wraps at 4 GiB. -/
def toDeviceOffsetLegacy32 (sector : BitVec 32) (sectorSizeBytes offsetWithinSector : BitVec 64) : BitVec 64 :=
  ((sector - 1) * sectorSizeBytes.setWidth 32).setWidth 64 + offsetWithinSector

/-! ## The pool as a transition system -/

structure State where
  cfg : Cfg
  dev : Array Byte
  allocd : List Nat
  dfree : Bool
  files : List File
deriving Inhabited

def init (c : Cfg) : State :=
  { cfg := c, dev := Array.replicate (c.nsec * c.ss) 0, allocd := [], dfree := false, files := [] }

structure Oracle where
  answers : List AllocAns := []
  faults : Faults := {}
deriving Inhabited

inductive Op
  | new (hole : Hole) (size : Nat)
  | read (i : Nat) (off : Int) (n : Nat)
  | write (i : Nat) (off : Int) (p : List Byte)
  | trunc (i : Nat) (size : Int)
  | seek (i : Nat) (off : Int) (data : Bool)
  | len (i : Nat)
  | close (i : Nat)

inductive Out
  | created (i : Nat)
  | read (bytes : List Byte) (err : Option Err)
  | wrote (n : Nat) (err : Option Err)
  | done (err : Option Err)
  | offset (r : Except Err Nat)
  | len (n : Nat)
  | noFile
  | leftover

def State.env (st : State) (o : Oracle) : Env :=
  { dev := st.dev, allocd := st.allocd, dfree := st.dfree, answers := o.answers, faults := o.faults }

def State.put (st : State) (e : Env) : State :=
  { st with dev := e.dev, allocd := e.allocd, dfree := e.dfree }

/-- the open file with index `i`. -/
def State.file? (st : State) (i : Nat) : Option File :=
  match st.files[i]? with
  | some f => if f.closed then none else some f
  | none => none

/-- every allocator answer supplied with the operation has to be consumed. -/
def finish (e : Env) (st : State) (out : Out) : State × Out :=
  if e.answers.isEmpty then (st, out) else (st, .leftover)

def step (st : State) (op : Op) (o : Oracle) : State × Out :=
  let e := st.env o
  match op with
  | .new hole size =>
    finish e { st with files := st.files ++ [{ sectors := [], size := size, hole := hole, closed := false }] }
      (.created st.files.length)
  | .read i off n =>
    match st.file? i with
    | none => (st, .noFile)
    | some f =>
      let r := readAt st.cfg f e off n
      finish r.1 (st.put r.1) (.read r.2.1 r.2.2)
  | .write i off p =>
    match st.file? i with
    | none => (st, .noFile)
    | some f =>
      let r := writeAt st.cfg f e p off
      finish r.2.1 { st.put r.2.1 with files := st.files.set i r.1 } (.wrote r.2.2.1 r.2.2.2)
  | .trunc i size =>
    match st.file? i with
    | none => (st, .noFile)
    | some f =>
      let r := truncate st.cfg f e size
      finish r.2.1 { st.put r.2.1 with files := st.files.set i r.1 } (.done r.2.2)
  | .seek i off data =>
    match st.file? i with
    | none => (st, .noFile)
    | some f =>
      let r := seek st.cfg f e off data
      finish r.1 (st.put r.1) (.offset r.2)
  | .len i =>
    match st.file? i with
    | none => (st, .noFile)
    | some f => finish e st (.len f.size)
  | .close i =>
    match st.file? i with
    | none => (st, .noFile)
    | some f =>
      let r := close f e
      finish r.2.1 { st.put r.2.1 with files := st.files.set i r.1 } (.done r.2.2)

/-- run a history. -/
def run (st : State) : List (Op × Oracle) → State
  | [] => st
  | (op, o) :: rest => run (step st op o).1 rest

end BbRe.FilePool
