import BbRe.Model.BRL
import BbRe.Drivers.Util
namespace BbRe.Drivers.BRL
open BbRe.BRL BbRe.Drivers

def tyOfNat : Nat → Option Ty
  | 0 => some .unlocked | 1 => some .excl | 2 => some .shared | _ => none
def tyToNat : Ty → Nat
  | .unlocked => 0 | .excl => 1 | .shared => 2

def showLock (l : Lock) : String := s!"{l.start}:{l.stop}:{l.owner}:{tyToNat l.ty}"
def showList (ls : List Lock) : String := "[" ++ ",".intercalate (ls.map showLock) ++ "]"

def parseLock : List String → Option Lock
  | [a, b, o, t] => do
    let a ← a.toNat?; let b ← b.toNat?; let o ← o.toNat?; let t ← tyOfNat (← t.toNat?)
    some ⟨a, b, o, t⟩
  | _ => none

/-- ops: `set start stop owner ty` -> `delta list`; `test start stop owner ty` -> `none|lock`;
`reset`; `dump`. -/
def step (ls : List Lock) (ws : List String) : List Lock × String :=
  match ws with
  | "set" :: rest =>
    match parseLock rest with
    | some l => let r := set ls l; (r.1, s!"{r.2} {showList r.1}")
    | none => (ls, "bad-op")
  | "test" :: rest =>
    match parseLock rest with
    | some l => (ls, match test ls l with | none => "none" | some c => showLock c)
    | none => (ls, "bad-op")
  | ["reset"] => ([], "ok")
  | ["dump"] => (ls, showList ls)
  | _ => (ls, "bad-op")

end BbRe.Drivers.BRL

def main (_args : List String) : IO UInt32 := do
  BbRe.Drivers.runLoop ([] : List BbRe.BRL.Lock) BbRe.Drivers.BRL.step
  return 0
