import BbRe.Model.Pipeline
import BbRe.Drivers.Util
/-!
Driver for `Model/Pipeline.lean` (C09).  One execution is sent as

  begin
  put <digest> <buf> w=<code> <fm> <p>* one per Put of the inner executor
  inner <st> <exit> <files> <dirs> <stdout> <stderr> <logs>   (<st>: - unset | ok | okm | error code)
  flush w=<code> <fm> <p>*              the flusher call of the flushing executor
  finish <dv> <ap> <dnc> <action> <call>

where `w=<code>` is the code the call returned (it tells which error errgroup
reported when several Puts of one flush failed; the model only accepts it if
that error occurred in the flush), `<fm>` is `-` (no FindMissing was observed during the call) or
`fm:<code>:<digests>` (code 0 = OK, digests = the argument of FindMissing),
`<p>` is `p:<digest>:<code>` (an underlying Put that was issued, in order) or,
last, `a:<code>:<c|g>` (the wait for an upload slot failed with that code
because the caller's context (`c`) or only the group's context (`g`) was
cancelled, so the remaining missing blobs were not issued),
lists are comma separated or `-`, and `<call>` is `none`, `ac:<code>` or
`hist:<code>` (the storage call the caching layer made).  The observed
underlying calls are the oracle; the driver also checks that they are
*admissible* for the model (`adm=ok`): a flush happens exactly when the model
flushes, FindMissing is asked about exactly the pending digests, only missing
pending blobs are Put, each once, a missing blob is left out only when the
acquisition of an upload slot failed, and a group-only cancellation needs an
earlier failed Put of the same flush.
-/
namespace BbRe.Drivers.Pipeline
open BbRe.Pipeline BbRe.Drivers

structure DState where
  w : World
  w0 : World
  calls : List PutCall            -- reversed
  putLog : List (Digest × Option Code)  -- reversed
  resp : Option Response
  fo : FlushOracle
  flushed : Option (Response × Option Code)

def DState.init : DState :=
  ⟨World.init 1 [], World.init 1 [], [], [], none, .ok, none⟩

def sortNat (l : List Nat) : List Nat := l.mergeSort (fun a b => a ≤ b)

def csv (l : List Nat) : String :=
  if l.isEmpty then "-" else ",".intercalate (l.map toString)

def parseCsv (s : String) : Option (List Nat) :=
  if s == "-" then some [] else (s.splitOn ",").mapM String.toNat?

def parseOptD (s : String) : Option (Option Nat) :=
  if s == "-" then some none else s.toNat?.map some

def codeOf (n : Nat) : Option Code := if n == 0 then none else some n
def showCode : Option Code → String
  | none => "0"
  | some c => toString c
def showOptD : Option Nat → String
  | none => "-"
  | some d => toString d

/-- observed FindMissing: result and argument -/
structure ObsFlush where
  winner : Option Code
  fm : Option (Option Code × List Digest)
  evs : List (IssueEv × Bool)   -- Bool: acquire failure caused by the caller's context

def parseFm (s : String) : Option (Option (Option Code × List Digest)) :=
  if s == "-" then some none
  else match s.splitOn ":" with
    | ["fm", c, ds] => do
      let c ← c.toNat?
      let ds ← parseCsv ds
      some (some (codeOf c, ds))
    | _ => none

def parseP (s : String) : Option (IssueEv × Bool) :=
  match s.splitOn ":" with
  | ["p", d, c] => do
    let d ← d.toNat?
    let c ← c.toNat?
    some (.put d (codeOf c), false)
  | ["a", c, why] => do
    let c ← c.toNat?
    if c == 0 then none
    else if why == "c" then some (.acquireFailed c, true)
    else if why == "g" then some (.acquireFailed c, false)
    else none
  | _ => none

def parseW (s : String) : Option (Option Code) :=
  match s.splitOn "=" with
  | ["w", c] => c.toNat?.map codeOf
  | _ => none

def parseObs : List String → Option ObsFlush
  | w :: fm :: ps => do
    let w ← parseW w
    let fm ← parseFm fm
    let ps ← ps.mapM parseP
    some ⟨w, fm, ps⟩
  | _ => none

def ObsFlush.puts (o : ObsFlush) : List IssueEv := o.evs.map (·.1)

def ObsFlush.oracle (o : ObsFlush) : FlushOracle :=
  match o.fm with
  | none => ⟨none, o.puts, o.winner⟩
  | some (c, _) => ⟨c, o.puts, o.winner⟩

def issuedOf : List (IssueEv × Bool) → List (Digest × Option Code)
  | [] => []
  | (.put d r, _) :: rest => (d, r) :: issuedOf rest
  | (.acquireFailed _, _) :: rest => issuedOf rest

/-- `none`: no acquire failure; `some (byCaller, last)`. -/
def acquireOf : List (IssueEv × Bool) → Option (Bool × Bool)
  | [] => none
  | (.acquireFailed _, w) :: rest => some (w, rest.isEmpty)
  | _ :: rest => acquireOf rest

/-- Admissibility of the observed underlying calls of one `flushLocked` in state `s`. -/
def admFlush (s : Store) (o : ObsFlush) : String :=
  match o.fm with
  | none => "flush-missing"
  | some (c, args) =>
    if sortNat args != sortNat (s.pending.map (·.1)) then "fm-args"
    else if c.isSome then (if o.evs.isEmpty then "ok" else "put-after-fm-error")
    else
      let missing := (s.pending.map (·.1)).filter (fun d => !s.cas.contains d)
      let puts := issuedOf o.evs
      let issued := puts.map (·.1)
      let anyFailed := puts.any (fun e => e.2.isSome)
      let skipped := missing.any (fun d => !issued.contains d)
      if issued.any (fun d => !missing.contains d) then "put-unexpected"
      else if !issued.Nodup then "put-twice"
      else match acquireOf o.evs with
        | none => if skipped then "put-skipped" else "ok"
        | some (byCaller, last) =>
          if !last then "event-after-acquire-failure"
          else if !skipped then "acquire-failed-but-all-issued"
          else if !byCaller && !anyFailed then "acquire-failed-without-cause"
          else "ok"

def admNoFlush (o : ObsFlush) : String :=
  if o.fm.isSome || !o.evs.isEmpty then "flush-unexpected" else "ok"

def showStore (s : Store) : String :=
  s!"cas={csv (sortNat s.cas)} consumed={csv (sortNat s.consumed)}"

def showResp (r : Response) : String :=
  s!"st={showCode r.status.err} ex={r.exitCode} f={csv r.files} d={csv r.dirs} o={showOptD r.stdout} e={showOptD r.stderr} l={csv r.logs} m={r.message}"

def showEntry (e : ACEntry) : String :=
  s!"{e.action}/{e.exitCode}/{csv e.files}/{csv e.dirs}/{showOptD e.stdout}/{showOptD e.stderr}"

def showAC (l : List ACEntry) : String :=
  if l.isEmpty then "-" else ";".intercalate (l.reverse.map showEntry)

def boolOf (s : String) : Option Bool :=
  if s == "1" then some true else if s == "0" then some false else none

/-- `-` unset, `ok` explicit OK, `okm` explicit OK with a message, `<n>` error code. -/
def parseStatus (s : String) : Option Status :=
  if s == "-" then some .unset
  else if s == "ok" then some (.ok false)
  else if s == "okm" then some (.ok true)
  else match s.toNat? with
    | some 0 => none
    | some c => some (.error c)
    | none => none

def parseCall (s : String) : Option (String × Option Code) :=
  match s.splitOn ":" with
  | ["none"] => some ("none", none)
  | ["ac", c] => c.toNat?.map (fun c => ("ac", codeOf c))
  | ["hist", c] => c.toNat?.map (fun c => ("hist", codeOf c))
  | _ => none

def step (st : DState) (ws : List String) : DState × String :=
  match ws with
  | ["reset", bs, cas] =>
    match bs.toNat?, parseCsv cas with
    | some bs, some cas =>
      let w := World.init bs cas
      ({ DState.init with w := w, w0 := w }, "ok")
    | _, _ => (st, "bad-op")
  | ["begin"] =>
    ({ st with w0 := st.w, calls := [], putLog := [], resp := none, fo := .ok, flushed := none }, "ok")
  | "put" :: d :: b :: rest =>
    match d.toNat?, b.toNat?, parseObs rest with
    | some d, some b, some obs =>
      let s := st.w.store
      let dup := s.pending.any (fun p => p.1 == d)
      let willFlush := !dup && decide (s.pending.length ≥ s.batchSize)
      let adm := if willFlush then admFlush s obs else admNoFlush obs
      let call : PutCall := ⟨d, b, obs.oracle⟩
      let r := put s d b obs.oracle
      let st' := { st with w := { st.w with store := r.1 }, calls := call :: st.calls, putLog := (d, r.2) :: st.putLog }
      (st', s!"r={showCode r.2} adm={adm} {showStore r.1}")
    | _, _, _ => (st, "bad-op")
  | ["inner", stc, ex, fs, ds, so, se, ls] =>
    match parseStatus stc, ex.toNat?, parseCsv fs, parseCsv ds, parseOptD so, parseOptD se, parseCsv ls with
    | some stc, some ex, some fs, some ds, some so, some se, some ls =>
      ({ st with resp := some ⟨stc, ex, fs, ds, so, se, ls, 0⟩ }, "ok")
    | _, _, _, _, _, _, _ => (st, "bad-op")
  | "flush" :: rest =>
    match st.resp, parseObs rest with
    | some resp, some obs =>
      let adm := admFlush st.w.store obs
      let f := flushingPost st.w.store resp obs.oracle
      let st' := { st with w := { st.w with store := f.1 }, fo := obs.oracle, flushed := some (f.2.1, f.2.2) }
      (st', s!"r={showCode f.2.2} adm={adm} {showStore f.1} resp: {showResp f.2.1}")
    | _, _ => (st, "bad-op")
  | ["finish", dv, ap, dnc, act, call] =>
    match st.resp, st.flushed, boolOf dv, boolOf ap, boolOf dnc, act.toNat?, parseCall call with
    | some resp, some (fr, fe), some dv, some ap, some dnc, some act, some (kind, code) =>
      let req : Request := ⟨dv, ap, dnc, act⟩
      let expected :=
        if !dv || !ap then "none" else if !dnc && isSuccessful fr then "ac" else "hist"
      let adm := if expected == kind then "ok" else s!"call-{kind}-expected-{expected}"
      let acO := if kind == "ac" then code else none
      let histO := if kind == "hist" then code else none
      let c := cachingPost st.w req fr acO histO
      -- the composed function the theorems are about must give the same result
      let whole := execute st.w0 req ⟨st.calls.reverse, resp⟩ ⟨st.fo, acO, histO⟩
      let same := decide (whole = ⟨c.1, st.putLog.reverse, fe, fr, c.2⟩)
      let st' := { st with w := c.1 }
      (st', s!"adm={adm} final: {showResp c.2} ac={showAC c.1.ac} accalls={c.1.acCalls} hist={c.1.hist} histcalls={c.1.histCalls} {showStore c.1.store} whole={if same then "ok" else "diff"}")
    | _, _, _, _, _, _, _ => (st, "bad-op")
  | _ => (st, "bad-op")

end BbRe.Drivers.Pipeline

def main (_args : List String) : IO UInt32 := do
  BbRe.Drivers.runLoop BbRe.Drivers.Pipeline.DState.init BbRe.Drivers.Pipeline.step
  return 0
