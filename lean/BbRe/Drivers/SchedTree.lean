import BbRe.Model.SchedTreeCheck
import BbRe.Drivers.Util
/-!
Line-protocol driver for `Model/SchedTree.lean`: the protocol of `Drivers/Sched.lean` (same op
lines, same answers, same `dump`), plus

* trailing tokens `stick=<l>` (regpq), `dur=<l>` (expected duration answered by `Select` per
  size-class index), `bgdur=<n>`, `rdur=<n>`, `ret=<n>|-` (see `SchedTree.Extras`);
* `treedump`: the canonical invocation trees, worker and task extras, `|`-separated and sorted;
* `treecheck`: the executable form of the tree invariant (`ok` or the violated clauses).
-/
namespace BbRe.Drivers.SchedTree
open BbRe.Sched BbRe.SchedTree BbRe.Drivers

def natListOf (s : String) : Option (List Nat) :=
  if s = "-" then some [] else (s.splitOn ",").mapM String.toNat?

def boolOf (s : String) : Option Bool :=
  if s = "1" then some true else if s = "0" then some false else none

def patOf (s : String) : Option Pattern :=
  match s.splitOn "." with
  | [h, t] => do
    let h ← if h = "*" then some none else (h.toNat?).map some
    let t ← if t = "*" then some none else (t.toNat?).map some
    some ⟨h, t⟩
  | _ => none

def showPat (p : Pattern) : String :=
  (match p.host with | none => "*" | some h => toString h) ++ "." ++
  (match p.thread with | none => "*" | some t => toString t)

def widOf (s : String) : Option WId :=
  match s.splitOn "." with
  | [h, t] => do some ⟨← h.toNat?, ← t.toNat?⟩
  | _ => none

/-- `pq/sc/h.t:op` -/
def assignOf (s : String) : Option (ScqId × WId × Nat) :=
  match s.splitOn ":" with
  | [w, o] => match w.splitOn "/" with
    | [pq, sc, wid] => do some (⟨← pq.toNat?, ← sc.toNat?⟩, ← widOf wid, ← o.toNat?)
    | _ => none
  | _ => none

/-- trailing `key=value` tokens -/
def hintsOf (ws : List String) : Option (Hints × Extras) :=
  ws.foldlM (fun (hx : Hints × Extras) w =>
    let (h, x) := hx
    match w.splitOn "=" with
    | ["as", v] => if v = "-" then some (h, x) else do
        let l ← (v.splitOn ",").mapM assignOf
        some ({ h with assign := l }, x)
    | ["sel", v] => do some ({ h with sel := ← v.toNat? }, x)
    | ["bg", v] => if v = "-" then some ({ h with bg := none }, x) else do some ({ h with bg := some (← v.toNat?) }, x)
    | ["retry", v] => do some ({ h with retry := ← boolOf v }, x)
    | ["stick", v] => do some (h, { x with stick := ← natListOf v })
    | ["dur", v] => do some (h, { x with selDur := ← natListOf v })
    | ["bgdur", v] => do some (h, { x with bgDur := ← v.toNat? })
    | ["rdur", v] => do some (h, { x with retryDur := ← v.toNat? })
    | ["ret", v] => if v = "-" then some (h, { x with ret := none }) else do some (h, { x with ret := some (← v.toNat?) })
    | _ => none) ({ assign := [], sel := 0, bg := none, retry := false }, {})

def reportOf (s : String) : Option Report :=
  match s.splitOn ":" with
  | ["i"] => some .idle
  | ["m"] => some .malformed
  | ["e", d] => do some (.executing (← d.toNat?))
  | ["c", d, code, exit, tok] => do
      some (.completed (← d.toNat?) ⟨← code.toNat?, ← exit.toInt?, ← tok.toNat?, .worker⟩)
  | _ => none

def b01 (b : Bool) : String := if b then "1" else "0"
def optNat (o : Option Nat) : String := match o with | none => "-" | some n => toString n
def showW (q : ScqId) (w : WId) : String := s!"{q.pq}/{q.sc}/{w.host}.{w.thread}"

def showEvent : Event → String
  | .msg c o st d code tok => s!"msg c={c} op={o} st={st} done={b01 d} code={code} tok={tok}"
  | .ret c code => s!"ret c={c} code={code}"
  | .syncExecute q w d n => s!"sync w={showW q w} exec d={d} next={n}"
  | .syncIdle q w n => s!"sync w={showW q w} idle next={n}"
  | .syncNoChange q w n => s!"sync w={showW q w} nochange next={n}"
  | .syncErr q w c => s!"sync w={showW q w} err code={c}"
  | .termRet i c => s!"term id={i} code={c}"
  | .selAbandoned => "an sel abandoned"
  | .selSelect l => s!"an sel select l={l}"
  | .learnerSucceeded l bg => s!"an learner l={l} succeeded bg={optNat bg}"
  | .learnerFailed l t n => s!"an learner l={l} failed to={b01 t} next={optNat n}"
  | .learnerAbandoned l => s!"an learner l={l} abandoned"
  | .opErr c => s!"op err code={c}"
  | .opOk => "op ok"

/-- continuations that are enabled (as `Drivers/Sched.lean`) -/
def enabled (s : State) : List String :=
  let ws := s.workers.filter (fun w => w.inSync && (w.woken ||
    (match w.drainWait with
    | some g => (match s.scq? w.scq with | some q => q.undrainGen != g | none => false)
    | none => false)))
  let ks := s.terms.filter (fun t => t.waits.all (fun (t, g) =>
    (match s.task? t with | some tk => decide (tk.gen > g) | none => true)))
  let ss := s.streams.filter (fun st =>
    match s.op? st.op with
    | some op => (match s.task? op.task with | some t => t.gen != st.snap | none => false)
    | none => false)
  let tw := s.workers.filter (fun w => w.inSync && !ws.any (fun x => x.scq = w.scq ∧ x.id = w.id) &&
    (match w.timer with | some d => decide (d ≤ s.now) | none => false))
  let ts := s.streams.filter (fun st => decide (st.timer ≤ s.now) && !ss.any (fun x => x.client = st.client))
  ws.map (fun w => s!"w:{showW w.scq w.id}:{if w.woken then 0 else 3}") ++
  tw.map (fun w => s!"w:{showW w.scq w.id}:1") ++
  ks.map (fun k => s!"k:{k.id}") ++ ss.map (fun st => s!"s:{st.client}:0") ++ ts.map (fun st => s!"s:{st.client}:1")

def sortStrings (l : List String) : List String := (l.toArray.qsort (· < ·)).toList
def sortNats (l : List Nat) : List Nat := (l.toArray.qsort (· < ·)).toList

def showCleanup (s : State) (k : CleanupKind) : String :=
  match s.cleanup.find? (fun e => e.kind = k) with
  | some e => toString e.deadline
  | none => "-"

/-- canonical abstract state of the `Sched` projection (identical to `Drivers/Sched.lean`) -/
def dump (s : State) : String :=
  let pqs := s.pqs.map (fun p => s!"pq {p.id} sizes={",".intercalate ((s.sizes p.id).map toString)}")
  let scqs := s.scqs.map (fun q =>
    s!"scq {q.id.pq}/{q.id.sc} rm={b01 q.mayBeRemoved} drains={",".intercalate (sortStrings (q.drains.map showPat))} cu={showCleanup s (.scq q.id)}")
  let ws := s.workers.map (fun w =>
    let t := match w.task with
      | some t => match s.task? t with | some tk => toString (lowestOp tk) | none => "?"
      | none => "-"
    s!"w {showW w.scq w.id} task={t} term={b01 w.terminating} parked={b01 w.parked} cu={showCleanup s (.worker w.scq w.id)}")
  let ts := s.tasks.map (fun (_, t) =>
    let w := match t.worker with | some (_, w) => s!"{w.host}.{w.thread}" | none => "-"
    let code := match t.response with | some r => toString r.code | none => "-"
    s!"t {lowestOp t} d={t.digest} q={t.scq.pq}/{t.scq.sc} w={w} retry={t.retry} st={t.stage} code={code} ops={",".intercalate (sortStrings (t.ops.map toString))} l={b01 t.learner.isSome}")
  let os := s.ops.map (fun (_, o) =>
    let q := match s.task? o.task with | some t => b01 t.queued | none => "?"
    s!"o {o.name} prio={o.prio} waiters={o.waiters} mew={b01 o.mayExistWithoutWaiters} cu={showCleanup s (.op o.name)} q={q} inv={",".intercalate (o.inv.map toString)}")
  let ds := s.dedup.map (fun (_, t) =>
    match s.task? t with | some tk => s!"d {lowestOp tk}" | none => "d ?")
  "|".intercalate (sortStrings (pqs ++ scqs ++ ws ++ ts ++ os ++ ds ++ [s!"n cleanup={s.cleanup.length}", s!"n now={s.now}"]))

def showPath (p : List Nat) : String := if p.isEmpty then "-" else ",".intercalate (p.map toString)
def showNats (l : List Nat) : String := if l.isEmpty then "-" else ",".intercalate (l.map toString)

/-- canonical invocation trees (sets sorted, also the parked list: see `SchedTree.descendAny`), worker and task extras.
`firstQueuedOperationPriority` is shown for queued invocations only: the value left behind in an
invocation that is no longer queued depends on the order of `range t.operations` and is never read. -/
def treedump (ts : TState) : String :=
  let ns := ts.nodes.map (fun n =>
    let sum := n.exec.foldl (fun a e => a + e.2) 0
    let parked := if n.parked.isEmpty then "-" else ",".intercalate (sortStrings (n.parked.map (fun w => s!"{w.host}.{w.thread}")))
    s!"n {n.scq.pq}/{n.scq.sc} p={showPath n.path} ops={showNats (sortNats n.qops)} qk={showNats (sortNats n.qkids)} ik={showNats (sortNats n.ikids)} prio={if n.isQueued && !n.path.isEmpty then toString n.prio else "-"} ex={n.exec.length}/{sum} st={n.started} co={n.completed} idle={n.idle} parked={parked}")
  let xs := ts.wx.map (fun y =>
    let last := match y.last with | some p => showPath p | none => "nil"
    s!"x {showW y.scq y.id} last={last} sticks={showNats y.sticks} parked={b01 y.parked}")
  let ys := ts.s.tasks.map (fun (_, t) =>
    match alookup t.id ts.tx with
    | some y => s!"y {lowestOp t} dur={y.dur} qts={y.qts}"
    | none => s!"y {lowestOp t} dur=? qts=?")
  "|".intercalate (sortStrings (ns ++ xs ++ ys))

/-- Two operations of one task lose their last waiter at the same instant: which `operation.remove` runs
first depends on the layout of the cleanup heap, and it decides which of them is the task's last operation
(only that one completes the task through a temporary worker, which stamps `lastOperationStarted` /
`lastOperationCompletion` of its invocations).  The harness discards such histories, like the ties of
`Sched.dueTie`. -/
def treeTie (now : Nat) (s : State) : Bool :=
  let due := s.cleanup.filter (fun e => decide (e.deadline ≤ now) && e.kind.isOp)
  let taskOf (e : CleanupEntry) : Option Nat := match e.kind with
    | .op o => (s.op? o).map (·.task)
    | _ => none
  due.any (fun e => due.any (fun e' => decide (e.kind ≠ e'.kind) && decide (e.deadline = e'.deadline) &&
    (taskOf e).isSome && taskOf e == taskOf e'))

def finish (r : M TState) (old : TState) : TState × String :=
  match r with
  | .ok ts =>
    let evs := ts.s.events.reverse.map showEvent
    ({ ts with s := { ts.s with events := [] } }, ";".intercalate evs ++ " || " ++ ",".intercalate (enabled ts.s))
  | .error e => ({ old with s := { old.s with events := [] } }, "model-error " ++ e)

def splitHints (ws : List String) : List String × List String :=
  (ws.filter (fun w => !w.contains '='), ws.filter (fun w => w.contains '='))

def step (ts : TState) (ws : List String) : TState × String :=
  let (args, hs) := splitHints ws
  match hintsOf hs with
  | none => (ts, "bad-op")
  | some (h, x) =>
  let s := ts.s
  let bad : TState × String := (ts, "bad-op")
  let tieNote (now : Nat) (r : TState × String) : TState × String :=
    if now > s.now ∧ dueTie now s.cleanup then (r.1, r.2 ++ " || tie") else r
  match args with
  | ["cfg", u, i, a, b, c, d, e, f] =>
    match u.toNat?, i.toNat?, a.toNat?, b.toNat?, c.toNat?, d.toNat?, e.toNat?, f.toNat? with
    | some u, some i, some a, some b, some c, some d, some e, some f => (TState.init ⟨u, i, a, b, c, d, e, f⟩, "ok")
    | _, _, _, _, _, _, _, _ => bad
  | ["regpq", pq, comps, plat, sizes, bgmax, bgprio] =>
    match pq.toNat?, natListOf comps, plat.toNat?, natListOf sizes, bgmax.toNat?, bgprio.toInt? with
    | some pq, some comps, some plat, some sizes, some bgmax, some bgprio =>
      (if registerOK ts pq sizes then (tRegisterPQ x ts pq comps plat sizes bgmax bgprio, "ok")
       else (ts, "model-error register: the platform queue exists already or the size classes are not distinct"))
    | _, _, _, _, _, _ => bad
  | ["exec", now, c, d, dk, dnc, comps, plat, inv, prio] =>
    match now.toNat?, c.toNat?, d.toNat?, dk.toNat?, boolOf dnc, natListOf comps, plat.toNat?, natListOf inv, prio.toInt? with
    | some now, some c, some d, some dk, some dnc, some comps, some plat, some inv, some prio =>
      tieNote now (finish (tExecArrive h x ts now c d dk dnc comps plat inv prio) ts)
    | _, _, _, _, _, _, _, _, _ => bad
  | ["wait", now, c, name] =>
    match now.toNat?, c.toNat?, name.toNat? with
    | some now, some c, some name => tieNote now (finish (tWaitArrive h x ts now c name) ts)
    | _, _, _ => bad
  | ["swake", now, c, reason] =>
    match now.toNat?, c.toNat?, reason.toNat? with
    | some now, some c, some reason => tieNote now (finish (tStreamWake h x ts now c reason) ts)
    | _, _, _ => bad
  | ["sync", now, pq, sc, comps, plat, wid, rep, pi] =>
    match now.toNat?, pq.toNat?, sc.toNat?, natListOf comps, plat.toNat?, widOf wid, reportOf rep, boolOf pi with
    | some now, some pq, some sc, some comps, some plat, some wid, some rep, some pi =>
      tieNote now (finish (tSyncArrive h x ts now ⟨pq, sc⟩ comps plat wid rep pi) ts)
    | _, _, _, _, _, _, _, _ => bad
  | ["wwake", now, pq, sc, wid, reason] =>
    match now.toNat?, pq.toNat?, sc.toNat?, widOf wid, reason.toNat? with
    | some now, some pq, some sc, some wid, some reason =>
      tieNote now (finish (tSyncWake h x ts now ⟨pq, sc⟩ wid reason) ts)
    | _, _, _, _, _ => bad
  | ["killop", now, name, code] =>
    match now.toNat?, name.toNat?, code.toNat? with
    | some now, some name, some code => tieNote now (finish (tKillOp h x ts now name code) ts)
    | _, _, _ => bad
  | ["killq", now, pq, sc, code] =>
    match now.toNat?, pq.toNat?, sc.toNat?, code.toNat? with
    | some now, some pq, some sc, some code => tieNote now (finish (tKillQueue h x ts now ⟨pq, sc⟩ code) ts)
    | _, _, _, _ => bad
  | ["drain+", now, pq, sc, pat] =>
    match now.toNat?, pq.toNat?, sc.toNat?, patOf pat with
    | some now, some pq, some sc, some pat => tieNote now (finish (tAddDrain h x ts now ⟨pq, sc⟩ pat) ts)
    | _, _, _, _ => bad
  | ["drain-", now, pq, sc, pat] =>
    match now.toNat?, pq.toNat?, sc.toNat?, patOf pat with
    | some now, some pq, some sc, some pat => tieNote now (finish (tRemoveDrain h x ts now ⟨pq, sc⟩ pat) ts)
    | _, _, _, _ => bad
  | ["term", now, id, pat] =>
    match now.toNat?, id.toNat?, patOf pat with
    | some now, some id, some pat => tieNote now (finish (tTerminate h x ts now id pat) ts)
    | _, _, _ => bad
  | ["twake", id, reason] =>
    match id.toNat?, reason.toNat? with
    | some id, some reason => finish (tTermWake ts id reason) ts
    | _, _ => bad
  | ["touch", now] =>
    match now.toNat? with
    | some now => tieNote now (finish (tEnter h x ts now) ts)
    | none => bad
  | ["dump"] => (ts, dump ts.s)
  | ["treetie", now] =>
    match now.toNat? with
    | some now => (ts, if now > s.now ∧ treeTie now s then "1" else "0")
    | none => bad
  | ["treedump"] => (ts, treedump ts)
  | ["treecheck"] =>
    (ts, match invViolations ts with
      | [] => "ok"
      | l => "violated " ++ ",".intercalate l)
  | _ => bad

end BbRe.Drivers.SchedTree

def main (_args : List String) : IO UInt32 := do
  BbRe.Drivers.runLoop (BbRe.SchedTree.TState.init ⟨0, 0, 0, 0, 0, 0, 0, 0⟩) BbRe.Drivers.SchedTree.step
  return 0
