import BbRe.Model.PoolStack
import BbRe.Drivers.Util
/-!
Line protocol of the composed pool model (`Model/PoolStack.lean`); the operation lines are those of
`Drivers/FilePool.lean`.

```
cfg <ss> <nsec> <maxFiles> <maxBytes>                    -> ok
new <size> <tag> <g> <m> <d> <salt> <limit> <eof01>      -> ok <id> | new invalid
r <id> <off> <n> [| tokens]                              -> r <n> <err> <hex|->
w <id> <off> <hex|-> [| tokens]                          -> w <n> <err> [A<first>:<count> | AF ...]
t <id> <size> [| tokens]                                 -> d <err>
s <id> <off> <D|H> [| tokens]                            -> s <off> <err>
l <id>                                                   -> l <size>
c <id> [| tokens]                                        -> d <err>
dump  -> alloc=[sorted] dfree=<0|1> files=[size|x,...] free=<free sectors of the bitmap> qf=<files remaining> qb=<bytes remaining> broken=<0|1>
```
Input tokens: the fault tokens `DW<k>:<n>`, `DR<k>:<n>:<s>`, `HR<k>:<n>:<s>`, `HS<k>`, `HT`, `HC` of the
file-pool driver and `AX<k>` (the k-th `AllocateContiguous` of the call is refused by the
environment).  The allocator answers are *outputs* here (the bitmap model computes them): they are
appended to the result of `w` in call order, and the harness compares them with the answers of
the real bitmap allocator.
-/
namespace BbRe.Drivers.PoolStack
open BbRe.FilePool BbRe.Drivers BbRe.PoolStack

def hexDigit (n : Nat) : Char :=
  if n < 10 then Char.ofNat (48 + n) else Char.ofNat (87 + n)

def hexOf (bs : List Nat) : String :=
  if bs.isEmpty then "-"
  else String.ofList (bs.foldr (fun b acc => hexDigit (b / 16 % 16) :: hexDigit (b % 16) :: acc) [])

def hexVal (c : Char) : Option Nat :=
  if '0' ≤ c ∧ c ≤ '9' then some (c.toNat - 48)
  else if 'a' ≤ c ∧ c ≤ 'f' then some (c.toNat - 87)
  else none

def parseHexChars : List Char → Option (List Nat)
  | [] => some []
  | [_] => none
  | a :: b :: rest => do
    let x ← hexVal a
    let y ← hexVal b
    let r ← parseHexChars rest
    some ((x * 16 + y) :: r)

def parseHex (s : String) : Option (List Nat) :=
  if s = "-" then some [] else parseHexChars s.toList

def errStr : Option Err → String
  | none => "ok"
  | some .eof => "eof"
  | some .invalid => "invalid"
  | some .internal => "internal"
  | some .io => "io"
  | some .hole => "hole"
  | some .alloc => "alloc"
  | some .panic => "panic"
  | some .oracle => "mismatch-allocator-answer-outside-contract"

def splitBar (ws : List String) : List String × List String :=
  (ws.takeWhile (· ≠ "|"), (ws.dropWhile (· ≠ "|")).drop 1)

def nats (s : String) : Option (List Nat) := (s.splitOn ":").mapM String.toNat?

def parseToken (o : Inputs) (t : String) : Option Inputs :=
  if t = "HT" then some { o with faults := { o.faults with ht := true } }
  else if t = "HC" then some { o with faults := { o.faults with hc := true } }
  else if t.startsWith "AX" then
    match nats (t.drop 2).toString with
    | some [k] => some { o with ax := some k }
    | _ => none
  else if t.startsWith "DW" then
    match nats (t.drop 2).toString with
    | some [k, n] => some { o with faults := { o.faults with dw := some (k, n) } }
    | _ => none
  else if t.startsWith "DR" then
    match nats (t.drop 2).toString with
    | some [k, n, s] => some { o with faults := { o.faults with dr := some (k, n, s != 0) } }
    | _ => none
  else if t.startsWith "HR" then
    match nats (t.drop 2).toString with
    | some [k, n, s] => some { o with faults := { o.faults with hr := some (k, n, s != 0) } }
    | _ => none
  else if t.startsWith "HS" then
    match nats (t.drop 2).toString with
    | some [k] => some { o with faults := { o.faults with hs := some k } }
    | _ => none
  else none

def parseInputs (ts : List String) : Option Inputs :=
  ts.foldlM parseToken ({} : Inputs)

def showOut : Out → String
  | .created i => s!"ok {i}"
  | .read bs err => s!"r {bs.length} {errStr err} {hexOf bs}"
  | .wrote n err => s!"w {n} {errStr err}"
  | .done err => s!"d {errStr err}"
  | .offset (.ok n) => s!"s {n} ok"
  | .offset (.error x) => s!"s 0 {errStr (some x)}"
  | .len n => s!"l {n}"
  | .noFile => "no-such-open-file"
  | .leftover => "mismatch-unconsumed-allocator-answer"

def showAns : AllocAns → String
  | .range f c => s!"A{f}:{c}"
  | .fail => "AF"

def showSOut (op : Op) : SOut → String
  | .out o => showOut o
  | .okNoBase => "d ok"
  | .noFile => "no-such-open-file"
  | .quota =>
    match op with
    | .new _ _ => "new invalid"
    | .write _ _ _ => "w 0 invalid"
    | _ => "d invalid"

def insertSorted (x : Nat) : List Nat → List Nat
  | [] => [x]
  | y :: ys => if x ≤ y then x :: y :: ys else y :: insertSorted x ys

def sortNat (l : List Nat) : List Nat := l.foldr insertSorted []

def showNats (l : List Nat) : String := "[" ++ ",".intercalate (l.map toString) ++ "]"

def dump (st : BbRe.PoolStack.State) : String :=
  let fs := st.fp.files.map fun f => if f.closed then "x" else toString f.size
  s!"alloc={showNats (sortNat st.fp.allocd)} dfree={if st.fp.dfree then 1 else 0} files=[{",".intercalate fs}] free={freeSectorCount st} qf={st.q.filesRemaining} qb={st.q.bytesRemaining} broken={if st.broken then 1 else 0}"

def parseOp (ws : List String) : Option Op :=
  match ws with
  | ["new", size, tag, g, m, d, salt, limit, eof] => do
    let size ← size.toNat?
    let tag ← tag.toNat?
    let g ← g.toNat?
    let m ← m.toNat?
    let d ← d.toNat?
    let salt ← salt.toNat?
    let limit ← limit.toNat?
    let eof ← eof.toNat?
    some (.new { tag, g, m, d, salt, limit, eofStyle := eof != 0 } size)
  | ["r", i, off, n] => do some (.read (← i.toNat?) (← off.toInt?) (← n.toNat?))
  | ["w", i, off, hex] => do some (.write (← i.toNat?) (← off.toInt?) (← parseHex hex))
  | ["t", i, size] => do some (.trunc (← i.toNat?) (← size.toInt?))
  | ["s", i, off, "D"] => do some (.seek (← i.toNat?) (← off.toInt?) true)
  | ["s", i, off, "H"] => do some (.seek (← i.toNat?) (← off.toInt?) false)
  | ["l", i] => do some (.len (← i.toNat?))
  | ["c", i] => do some (.close (← i.toNat?))
  | _ => none

def step (st : BbRe.PoolStack.State) (ws : List String) : BbRe.PoolStack.State × String :=
  match ws with
  | ["cfg", ss, nsec, mf, mb] =>
    match ss.toNat?, nsec.toNat?, mf.toNat?, mb.toNat? with
    | some ss, some nsec, some mf, some mb => (BbRe.PoolStack.init { ss, nsec } mf mb, "ok")
    | _, _, _, _ => (st, "bad-op")
  | ["dump"] => (st, dump st)
  | ["secs", i] =>
    match i.toNat? with
    | some i => (st, match st.fp.files[i]? with | some f => showNats f.sectors | none => "no-such-open-file")
    | none => (st, "bad-op")
  | _ =>
    let (opw, tks) := splitBar ws
    match parseOp opw, parseInputs tks with
    | some op, some inp =>
      let r := BbRe.PoolStack.step st op inp
      (r.1, joinSp (showSOut op r.2.1 :: r.2.2.map showAns))
    | _, _ => (st, "bad-op")

end BbRe.Drivers.PoolStack

def main (_args : List String) : IO UInt32 := do
  BbRe.Drivers.runLoop (BbRe.PoolStack.init { ss := 1, nsec := 0 } 0 0) BbRe.Drivers.PoolStack.step
  return 0
