import BbRe.Model.FilePool
import BbRe.Drivers.Util
/-!
Line protocol of the file-pool model (`Model/FilePool.lean`).

```
cfg <ss> <nsec>                                          -> ok
new <size> <tag> <g> <m> <d> <salt> <limit> <eof01>      -> ok <id>
r <id> <off> <n> [| tokens]                              -> r <n> <err> <hex|->
w <id> <off> <hex|-> [| tokens]                          -> w <n> <err>
t <id> <size> [| tokens]                                 -> t <err>
s <id> <off> <D|H> [| tokens]                            -> s <off> <err>
l <id>                                                   -> l <size>
c <id> [| tokens]                                        -> c <err>
dump                                                     -> alloc=[sorted] dfree=<0|1> files=[size|x,...]
secs <id>                                                -> sector list (debugging only)
off <sector> <sectorSizeBytes> <offsetWithinSector>      -> toDeviceOffset as int64 (fixed-width model)
```
Oracle tokens: `A<first>:<count>` / `AF` (answers of `AllocateContiguous`, in call
order), `DW<k>:<n>` (k-th device write stores n bytes and fails), `DR<k>:<n>:<s>`,
`HR<k>:<n>:<s>` (k-th device / hole-source read returns n bytes; s=1: without an
error), `HS<k>` (k-th hole-source seek fails), `HT`, `HC` (hole-source
Truncate / Close fails).
-/
namespace BbRe.Drivers.FilePool
open BbRe.FilePool BbRe.Drivers

def hexDigit (n : Nat) : Char :=
  if n < 10 then Char.ofNat (48 + n) else Char.ofNat (87 + n)

def hexOf (bs : List Nat) : String :=
  if bs.isEmpty then "-"
  else String.ofList (bs.foldr (fun b acc => hexDigit (b / 16 % 16) :: hexDigit (b % 16) :: acc) [])

def hexVal (c : Char) : Option Nat :=
  if '0' ≤ c ∧ c ≤ '9' then some (c.toNat - 48)
  else if 'a' ≤ c ∧ c ≤ 'f' then some (c.toNat - 87)
  else none

def parseHexChars : List Char → Option (List Nat)
  | [] => some []
  | [_] => none
  | a :: b :: rest => do
    let x ← hexVal a
    let y ← hexVal b
    let r ← parseHexChars rest
    some ((x * 16 + y) :: r)

def parseHex (s : String) : Option (List Nat) :=
  if s = "-" then some [] else parseHexChars s.toList

def errStr : Option Err → String
  | none => "ok"
  | some .eof => "eof"
  | some .invalid => "invalid"
  | some .internal => "internal"
  | some .io => "io"
  | some .hole => "hole"
  | some .alloc => "alloc"
  | some .panic => "panic"
  | some .oracle => "mismatch-allocator-answer-outside-contract"

def splitBar (ws : List String) : List String × List String :=
  (ws.takeWhile (· ≠ "|"), (ws.dropWhile (· ≠ "|")).drop 1)

def nats (s : String) : Option (List Nat) := (s.splitOn ":").mapM String.toNat?

def parseToken (o : Oracle) (t : String) : Option Oracle :=
  if t = "AF" then some { o with answers := o.answers ++ [.fail] }
  else if t = "HT" then some { o with faults := { o.faults with ht := true } }
  else if t = "HC" then some { o with faults := { o.faults with hc := true } }
  else if t.startsWith "A" then
    match nats (t.drop 1).toString with
    | some [f, c] => some { o with answers := o.answers ++ [.range f c] }
    | _ => none
  else if t.startsWith "DW" then
    match nats (t.drop 2).toString with
    | some [k, n] => some { o with faults := { o.faults with dw := some (k, n) } }
    | _ => none
  else if t.startsWith "DR" then
    match nats (t.drop 2).toString with
    | some [k, n, s] => some { o with faults := { o.faults with dr := some (k, n, s != 0) } }
    | _ => none
  else if t.startsWith "HR" then
    match nats (t.drop 2).toString with
    | some [k, n, s] => some { o with faults := { o.faults with hr := some (k, n, s != 0) } }
    | _ => none
  else if t.startsWith "HS" then
    match nats (t.drop 2).toString with
    | some [k] => some { o with faults := { o.faults with hs := some k } }
    | _ => none
  else none

def parseOracle (ts : List String) : Option Oracle :=
  ts.foldlM parseToken ({} : Oracle)

def showOut : Out → String
  | .created i => s!"ok {i}"
  | .read bs err => s!"r {bs.length} {errStr err} {hexOf bs}"
  | .wrote n err => s!"w {n} {errStr err}"
  | .done err => s!"d {errStr err}"
  | .offset (.ok n) => s!"s {n} ok"
  | .offset (.error x) => s!"s 0 {errStr (some x)}"
  | .len n => s!"l {n}"
  | .noFile => "no-such-open-file"
  | .leftover => "mismatch-unconsumed-allocator-answer"

def insertSorted (x : Nat) : List Nat → List Nat
  | [] => [x]
  | y :: ys => if x ≤ y then x :: y :: ys else y :: insertSorted x ys

def sortNat (l : List Nat) : List Nat := l.foldr insertSorted []

def showNats (l : List Nat) : String := "[" ++ ",".intercalate (l.map toString) ++ "]"

def dump (st : State) : String :=
  let fs := st.files.map fun f => if f.closed then "x" else toString f.size
  s!"alloc={showNats (sortNat st.allocd)} dfree={if st.dfree then 1 else 0} files=[{",".intercalate fs}]"

def parseOp (ws : List String) : Option Op :=
  match ws with
  | ["new", size, tag, g, m, d, salt, limit, eof] => do
    let size ← size.toNat?
    let tag ← tag.toNat?
    let g ← g.toNat?
    let m ← m.toNat?
    let d ← d.toNat?
    let salt ← salt.toNat?
    let limit ← limit.toNat?
    let eof ← eof.toNat?
    some (.new { tag, g, m, d, salt, limit, eofStyle := eof != 0 } size)
  | ["r", i, off, n] => do some (.read (← i.toNat?) (← off.toInt?) (← n.toNat?))
  | ["w", i, off, hex] => do some (.write (← i.toNat?) (← off.toInt?) (← parseHex hex))
  | ["t", i, size] => do some (.trunc (← i.toNat?) (← size.toInt?))
  | ["s", i, off, "D"] => do some (.seek (← i.toNat?) (← off.toInt?) true)
  | ["s", i, off, "H"] => do some (.seek (← i.toNat?) (← off.toInt?) false)
  | ["l", i] => do some (.len (← i.toNat?))
  | ["c", i] => do some (.close (← i.toNat?))
  | _ => none

def step (st : State) (ws : List String) : State × String :=
  match ws with
  | ["cfg", ss, nsec] =>
    match ss.toNat?, nsec.toNat? with
    | some ss, some nsec => (init { ss, nsec }, "ok")
    | _, _ => (st, "bad-op")
  | ["off", sector, ss, ow] =>
    -- toDeviceOffset with the machine types of the Go code (signed reading of the int64 result)
    match sector.toNat?, ss.toNat?, ow.toNat? with
    | some sector, some ss, some ow =>
      (st, toString (toDeviceOffset (BitVec.ofNat 32 sector) (BitVec.ofNat 64 ss) (BitVec.ofNat 64 ow)).toInt)
    | _, _, _ => (st, "bad-op")
  | ["dump"] => (st, dump st)
  | ["secs", i] =>
    match i.toNat? with
    | some i => (st, match st.files[i]? with | some f => showNats f.sectors | none => "no-such-open-file")
    | none => (st, "bad-op")
  | _ =>
    let (opw, tks) := splitBar ws
    match parseOp opw, parseOracle tks with
    | some op, some o =>
      let r := BbRe.FilePool.step st op o
      (r.1, showOut r.2)
    | _, _ => (st, "bad-op")

end BbRe.Drivers.FilePool

def main (_args : List String) : IO UInt32 := do
  BbRe.Drivers.runLoop (BbRe.FilePool.init { ss := 1, nsec := 0 }) BbRe.Drivers.FilePool.step
  return 0
