import BbRe.Model.ProtoStore
import BbRe.Drivers.Util
/-!
Line-protocol driver for `Model/ProtoStore.lean`.

ops (`g` = id of a `Get` call, `d` = digest index):
* `reset <legacyVersioning 0|1> <writeGuard 0|1>` → `ok`
* `getBegin g d`  → `begin read=<0|1> puts=<d:msg,…> | <dump>`
* `readDone g ok|err` → `read <msg>|err | <dump>`
* `putDone g d ok|err|errApplied` (the in-flight Put of Get `g` for digest `d`) → `put | <dump>`
* `getEnd g` → `end err | …` or `end <h> <msg> | <dump>`
* `release g dirty|clean` (release the handle Get `g` returned) → `rel <update id|0> | <dump>`
* `dump`
Disabled/malformed op ⇒ `bad-op`, state unchanged.
dump = `map=d:h,… q=<sorted ids> hs=h:d:useCount:dirty:queued,… store=d:msg,… panic=<0|1>`
-/
namespace BbRe.Drivers.ProtoStore
open BbRe.ProtoStore BbRe.Drivers

structure DState where
  cfg : Config
  s : State
  ret : List (Nat × Nat)

def maxDigest : Nat := 8

def insertSorted (x : Nat) : List Nat → List Nat
  | [] => [x]
  | y :: ys => if x < y then x :: y :: ys else if x = y then y :: ys else y :: insertSorted x ys

def sortDedup (xs : List Nat) : List Nat := xs.foldl (fun acc x => insertSorted x acc) []

def b2s (b : Bool) : String := if b then "1" else "0"

def dump (s : State) : String :=
  let ds := List.range maxDigest
  let mapS := ds.filterMap (fun d => (s.map d).map (fun h => s!"{d}:{h}"))
  let inMap := ds.filterMap (fun d => s.map d)
  let hs := sortDedup (inMap ++ s.queue)
  let hsS := hs.map (fun h =>
    s!"{h}:{s.hdigest h}:{s.useCount h}:{b2s (s.written h != s.current h)}:{b2s (s.idx h).isSome}")
  let stS := ds.filterMap (fun d => if s.store d = 0 then none else some s!"{d}:{s.store d}")
  let qS := (sortDedup s.queue).map toString
  s!"map={",".intercalate mapS} q={",".intercalate qS} hs={",".intercalate hsS} store={",".intercalate stS} panic={b2s s.panicked}"

def insertPair (x : Nat × Nat) : List (Nat × Nat) → List (Nat × Nat)
  | [] => [x]
  | y :: ys => if x.1 < y.1 ∨ (x.1 = y.1 ∧ x.2 ≤ y.2) then x :: y :: ys else y :: insertPair x ys

def showPuts (s : State) (ws : List Write) : String :=
  let ps := ws.foldl (fun acc w => insertPair (s.hdigest w.h, w.msg) acc) []
  ",".intercalate (ps.map (fun p => s!"{p.1}:{p.2}"))

def lookupRet : List (Nat × Nat) → Nat → Option Nat
  | [], _ => none
  | (k, h) :: rest, g => if k = g then some h else lookupRet rest g

def step (st : DState) (ws : List String) : DState × String :=
  let bad := (st, "bad-op")
  match ws with
  | ["reset", l, w] =>
    match l.toNat?, w.toNat? with
    | some l, some w =>
      ({ cfg := { legacyVersioning := l != 0, writeGuard := w != 0 }, s := init, ret := [] }, "ok")
    | _, _ => bad
  | ["dump"] => (st, dump st.s)
  | ["getBegin", g, d] =>
    match g.toNat?, d.toNat? with
    | some g, some d =>
      if d ≥ maxDigest then bad else
      match lookupG st.s.gets g, lookupRet st.ret g with
      | none, none =>
        let s' := getBegin st.s g d
        match lookupG s'.gets g with
        | some r =>
          ({ st with s := s' }, s!"begin read={b2s r.readPending} puts={showPuts s' r.writes} | {dump s'}")
        | none => bad
      | _, _ => bad
    | _, _ => bad
  | ["readDone", g, o] =>
    match g.toNat? with
    | some g =>
      match lookupG st.s.gets g with
      | some r =>
        if r.readPending then
          if o = "ok" then
            let s' := readDone st.s g true
            ({ st with s := s' }, s!"read {st.s.store r.digest} | {dump s'}")
          else if o = "err" then
            let s' := readDone st.s g false
            ({ st with s := s' }, s!"read err | {dump s'}")
          else bad
        else bad
      | none => bad
    | none => bad
  | ["putDone", g, d, o] =>
    match g.toNat?, d.toNat? with
    | some g, some d =>
      let oc : Option PutOutcome :=
        if o = "ok" then some .ok else if o = "err" then some .err
        else if o = "errApplied" then some .errApplied else none
      match oc, lookupG st.s.gets g with
      | some oc, some r =>
        match r.writes.find? (fun w => st.s.hdigest w.h == d) with
        | some w =>
          let s' := putDone st.cfg st.s g w.h oc
          ({ st with s := s' }, s!"put | {dump s'}")
        | none => bad
      | _, _ => bad
    | _, _ => bad
  | ["getEnd", g] =>
    match g.toNat? with
    | some g =>
      match lookupG st.s.gets g with
      | some r =>
        if r.readPending = true ∨ r.writes ≠ [] then bad else
        let s' := getEnd st.cfg st.s g
        if r.failed then ({ st with s := s' }, s!"end err | {dump s'}")
        else
          let h := getEndHandle st.s r
          ({ st with s := s', ret := (g, h) :: st.ret }, s!"end {h} {s'.msg h} | {dump s'}")
      | none => bad
    | none => bad
  | ["release", g, o] =>
    match g.toNat? with
    | some g =>
      match lookupRet st.ret g with
      | some h =>
        if st.s.held h = 0 then bad else
        if o = "dirty" then
          let s' := release st.cfg st.s h true
          ({ st with s := s', ret := st.ret.filter (fun p => p.1 != g) }, s!"rel {st.s.nextUpd} | {dump s'}")
        else if o = "clean" then
          let s' := release st.cfg st.s h false
          ({ st with s := s', ret := st.ret.filter (fun p => p.1 != g) }, s!"rel 0 | {dump s'}")
        else bad
      | none => bad
    | none => bad
  | _ => bad

end BbRe.Drivers.ProtoStore

def main (_args : List String) : IO UInt32 := do
  BbRe.Drivers.runLoop
    ({ cfg := BbRe.ProtoStore.repoConfig, s := BbRe.ProtoStore.init, ret := [] } : BbRe.Drivers.ProtoStore.DState)
    BbRe.Drivers.ProtoStore.step
  return 0
