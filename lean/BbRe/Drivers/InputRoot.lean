import BbRe.Model.InputRoot
import BbRe.Drivers.Util
/-!
Line protocol driver of `Model/InputRoot.lean` (C17).

Tokens: bytes `x<hex>`; digest `x<hex of the hash string>/<size>`; raw digest `-`
(nil) or `x<hex>/<int>`.

* `cfg <hashLen>`                       reset everything
* `dir <dig> garbage`                   a blob that is not a Directory
* `dir <dig> <nd> <nf> <ns> (name raw)* (name raw exec)* (name target)*`
* `blob <dig> <bytes>`
* `newroot`                             fresh empty root, same CAS
* `<op> <nF> <dig>*nF <args>` with `merge <dig>`, `mmerge <dig>` (with access monitor),
  `rename|link <n1> c..` (the first `n1` components are the old/source path), `lookup c..`, `readdir c..`,
  `openw|opentrunc|setsize|alloc|write c..`, `read <off> <len> c..`,
  `remove|create|mkdir c..`, `digests c..` (`ApplyGetContainingDigests` on the node), `fetch <dig>` (one `FetchContents` call, no tree; how many leaves existed when a
  defect was found is not compared, only that all of them were unlinked)
* `hinit <maxFiles> <maxSize>`, `hget <key> <size> <casHas>` (→ `ok|err [cache directory]`),
  `hrm <key>`, `hmkdir <key>`: the hard-linking file fetcher
* `cinit <maxCount> <maxSize>`, `cget <0 dir|1 root|2 child> <t> <c> <base|-> <size>`
-/
namespace BbRe.Drivers.InputRoot
open BbRe.InputRoot BbRe.Drivers

def hexVal (c : Char) : Option Nat :=
  if '0' ≤ c ∧ c ≤ '9' then some (c.toNat - 48)
  else if 'a' ≤ c ∧ c ≤ 'f' then some (c.toNat - 87)
  else none

def decodeHex : List Char → Option Bytes
  | [] => some []
  | [_] => none
  | a :: b :: rest => do
    let x ← hexVal a
    let y ← hexVal b
    let r ← decodeHex rest
    some ((x * 16 + y) :: r)

def parseBytes (s : String) : Option Bytes :=
  match s.toList with
  | 'x' :: rest => decodeHex rest
  | _ => none

def hexDigit (n : Nat) : Char := if n < 10 then Char.ofNat (48 + n) else Char.ofNat (87 + n)

def showBytes (b : Bytes) : String :=
  "x" ++ String.ofList (b.flatMap fun n => [hexDigit (n / 16 % 16), hexDigit (n % 16)])

def parseInt (s : String) : Option Int :=
  match s.toList with
  | '-' :: rest => (String.ofList rest).toNat?.map fun n => -(n : Int)
  | _ => s.toNat?.map fun n => (n : Int)

def parseDig (s : String) : Option Dig :=
  match s.splitOn "/" with
  | [h, sz] => do
    let hb ← parseBytes h
    let n ← sz.toNat?
    some ⟨hb, n⟩
  | _ => none

def parseRaw (s : String) : Option RawDigest :=
  if s = "-" then some ⟨false, [], 0⟩
  else match s.splitOn "/" with
    | [h, sz] => do
      let hb ← parseBytes h
      let n ← parseInt sz
      some ⟨true, hb, n⟩
    | _ => none

def parseBool (s : String) : Option Bool :=
  if s = "1" then some true else if s = "0" then some false else none

def takeDirs : Nat → List String → Option (List DirNode × List String)
  | 0, ws => some ([], ws)
  | n + 1, a :: b :: ws => do
    let name ← parseBytes a
    let r ← parseRaw b
    let (rest, ws') ← takeDirs n ws
    some (⟨name, r⟩ :: rest, ws')
  | _, _ => none

def takeFiles : Nat → List String → Option (List FileNode × List String)
  | 0, ws => some ([], ws)
  | n + 1, a :: b :: c :: ws => do
    let name ← parseBytes a
    let r ← parseRaw b
    let x ← parseBool c
    let (rest, ws') ← takeFiles n ws
    some (⟨name, r, x⟩ :: rest, ws')
  | _, _ => none

def takeSyms : Nat → List String → Option (List SymNode × List String)
  | 0, ws => some ([], ws)
  | n + 1, a :: b :: ws => do
    let name ← parseBytes a
    let t ← parseBytes b
    let (rest, ws') ← takeSyms n ws
    some (⟨name, t⟩ :: rest, ws')
  | _, _ => none

def takeDigs : Nat → List String → Option (List Dig × List String)
  | 0, ws => some ([], ws)
  | n + 1, a :: ws => do
    let d ← parseDig a
    let (rest, ws') ← takeDigs n ws
    some (d :: rest, ws')
  | _, _ => none

def parseMsg (ws : List String) : Option DirMsg :=
  match ws with
  | nd :: nf :: ns :: rest => do
    let nd ← nd.toNat?
    let nf ← nf.toNat?
    let ns ← ns.toNat?
    let (ds, r1) ← takeDirs nd rest
    let (fs, r2) ← takeFiles nf r1
    let (ss, r3) ← takeSyms ns r2
    if r3.isEmpty then some ⟨ds, fs, ss⟩ else none
  | _ => none

def bytesLt : Bytes → Bytes → Bool
  | [], [] => false
  | [], _ :: _ => true
  | _ :: _, [] => false
  | a :: as, b :: bs => if a < b then true else if b < a then false else bytesLt as bs

def insertSorted (e : Name × Kind) : List (Name × Kind) → List (Name × Kind)
  | [] => [e]
  | f :: rest => if bytesLt e.1 f.1 then e :: f :: rest else f :: insertSorted e rest

def sortListing (l : List (Name × Kind)) : List (Name × Kind) := l.foldr insertSorted []

def showHash (b : Bytes) : String := String.ofList (b.map Char.ofNat)

def showKind : Kind → String
  | .file d x => s!"file:{showHash d.hash}:{d.size}:{if x then 1 else 0}"
  | .sym t => s!"sym:{showBytes t}"
  | .loc => "local"
  | .dir => "dir"

def showStatus : Status → String
  | .eio => "EIO" | .enoent => "ENOENT" | .enotdir => "ENOTDIR" | .eisdir => "EISDIR"
  | .eexist => "EEXIST" | .enotempty => "ENOTEMPTY" | .eacces => "EACCES"
  | .ewrongtype => "EWRONGTYPE" | .einval => "EINVAL" | .esymlink => "ESYMLINK"

def showErr : Err → String
  | .invalidArgument => "inval" | .notFound => "notfound" | .unavailable => "fault"

def showListing (l : List (Name × Kind)) : String :=
  "[" ++ ",".intercalate ((sortListing l).map fun e => showBytes e.1 ++ "=" ++ showKind e.2) ++ "]"

def showOut : Out → String
  | .ok => "ok"
  | .status s => showStatus s
  | .mergeErr e => "err:" ++ showErr e
  | .kind k => showKind k
  | .listing l => showListing l
  | .data b => "data:" ++ showBytes b
  | .localData => "localdata"
  | .unreachable => "unreachable"

structure DS where
  st : State
  cache : Cache.State
  hl : HardLink.State

def emptyCAS (hl : Nat) : CAS := ⟨hl, [], []⟩

def initDS : DS := ⟨init (emptyCAS 64), ⟨1, 1, []⟩, ⟨1, 1, [], []⟩⟩

def insertNat (e : Nat × String) : List (Nat × String) → List (Nat × String)
  | [] => [e]
  | f :: rest => if e.1 < f.1 then e :: f :: rest else f :: insertNat e rest

def showDisk (d : List (Nat × HardLink.Entry)) : String :=
  ",".intercalate (((d.map fun e => (e.1, match e.2 with | .file c => s!"{e.1}:f{c}" | .dir => s!"{e.1}:d")).foldr insertNat []).map (·.2))

def splitLast : List Name → Option (Path × Name)
  | [] => none
  | [x] => some ([], x)
  | x :: rest => (splitLast rest).map fun r => (x :: r.1, r.2)

def parseOp (name : String) (args : List String) : Option Op :=
  match name with
  | "merge" => match args with
    | [d] => (parseDig d).map (.merge · false)
    | _ => none
  | "mmerge" => match args with
    | [d] => (parseDig d).map (.merge · true)
    | _ => none
  | "rename" | "link" => match args with
    | n1 :: comps => do
      let n1 ← n1.toNat?
      let cs ← comps.mapM parseBytes
      let (p1, x1) ← splitLast (cs.take n1)
      let (p2, x2) ← splitLast (cs.drop n1)
      if name = "rename" then some (.rename p1 x1 p2 x2) else some (.link p1 x1 p2 x2)
    | _ => none
  | "readdir" => (args.mapM parseBytes).map .readdir
  | "read" => match args with
    | off :: len :: comps => do
      let off ← off.toNat?
      let len ← len.toNat?
      let cs ← comps.mapM parseBytes
      let (p, x) ← splitLast cs
      some (.leaf (.read off len) p x)
    | _ => none
  | _ => do
    let cs ← args.mapM parseBytes
    let (p, x) ← splitLast cs
    match name with
    | "lookup" => some (.lookup p x)
    | "openw" => some (.leaf .openWrite p x)
    | "opentrunc" => some (.leaf .openTrunc p x)
    | "setsize" => some (.leaf .setSize p x)
    | "alloc" => some (.leaf .allocate p x)
    | "write" => some (.leaf .write p x)
    | "remove" => some (.remove p x)
    | "create" => some (.create p x)
    | "mkdir" => some (.mkdir p x)
    | _ => none

def digLt (a b : Dig) : Bool := bytesLt a.hash b.hash || (a.hash == b.hash && a.size < b.size)

def insertDig (d : Dig) : List Dig → List Dig
  | [] => [d]
  | e :: rest => if d == e then e :: rest else if digLt d e then d :: e :: rest else e :: insertDig d rest

def showContaining : Containing → String
  | .unhandled => "unhandled"
  | .err e => "err:" ++ showErr e
  | .digests l => "{" ++ ",".intercalate ((l.foldr insertDig []).map fun d => s!"{showHash d.hash}:{d.size}") ++ "}"

def showFetch (r : FetchOut) : String :=
  match r.result with
  | .ok ch => s!"ok unlinked={r.unlinked} " ++ showListing (ch.map fun e => (e.1, kindOf e.2))
  | .error e => s!"err:{showErr e} " ++ (if r.created = r.unlinked then "balanced" else s!"leaked created={r.created} unlinked={r.unlinked}")

def step (s : DS) (ws : List String) : DS × String :=
  match ws with
  | ["cfg", hl] =>
    match hl.toNat? with
    | some n => ({ s with st := init (emptyCAS n) }, "ok")
    | none => (s, "bad-op")
  | ["newroot"] => ({ s with st := init s.st.cas }, "ok")
  | ["dir", d, "garbage"] =>
    match parseDig d with
    | some d => ({ s with st := { s.st with cas := { s.st.cas with dirs := s.st.cas.dirs ++ [(d, none)] } } }, "ok")
    | none => (s, "bad-op")
  | "dir" :: d :: rest =>
    match parseDig d, parseMsg rest with
    | some d, some m =>
      ({ s with st := { s.st with cas := { s.st.cas with dirs := s.st.cas.dirs ++ [(d, some m)] } } }, "ok")
    | _, _ => (s, "bad-op")
  | ["blob", d, b] =>
    match parseDig d, parseBytes b with
    | some d, some b =>
      ({ s with st := { s.st with cas := { s.st.cas with blobs := s.st.cas.blobs ++ [(d, b)] } } }, "ok")
    | _, _ => (s, "bad-op")
  | ["hinit", a, b] =>
    match a.toNat?, b.toNat? with
    | some a, some b => ({ s with hl := ⟨a, b, [], []⟩ }, "ok")
    | _, _ => (s, "bad-op")
  | ["hget", k, size, cas] =>
    match k.toNat?, size.toNat?, parseBool cas with
    | some k, some size, some cas =>
      let r := HardLink.getFile s.hl k size cas
      ({ s with hl := r.1 }, (match r.2 with
        | .ok c => if c = k then "ok" else s!"ok-with-contents-of-{c}"
        | .okMissing => "ok-but-missing"
        | .error => "err") ++ " [" ++ showDisk r.1.disk ++ "]")
    | _, _, _ => (s, "bad-op")
  | ["hrm", k] =>
    match k.toNat? with
    | some k => ({ s with hl := HardLink.fault s.hl (.remove k) }, "ok")
    | none => (s, "bad-op")
  | ["hmkdir", k] =>
    match k.toNat? with
    | some k => ({ s with hl := HardLink.fault s.hl (.mkdir k) }, "ok")
    | none => (s, "bad-op")
  | ["cinit", a, b] =>
    match a.toNat?, b.toNat? with
    | some a, some b => ({ s with cache := ⟨a, b, []⟩ }, "ok")
    | _, _ => (s, "bad-op")
  | ["cget", k, t, c, base, size] =>
    match k.toNat?, t.toNat?, c.toNat?, size.toNat? with
    | some k, some t, some c, some size =>
      let call : Option Cache.Call :=
        if k = 0 then some (.directory c) else if k = 1 then some (.treeRoot t)
        else if k = 2 then some (.treeChild t c) else none
      let b : Option (Option Nat) := if base = "-" then some none else base.toNat?.map some
      match call, b with
      | some call, some b =>
        let r := Cache.get s.cache call b size
        ({ s with cache := r.1 }, match r.2 with
          | .hit m => s!"hit {m}"
          | .miss m => s!"miss {m}"
          | .error => "error")
      | _, _ => (s, "bad-op")
    | _, _, _, _ => (s, "bad-op")
  | name :: nF :: rest =>
    match nF.toNat? with
    | none => (s, "bad-op")
    | some nF =>
      match takeDigs nF rest with
      | none => (s, "bad-op")
      | some (F, args) =>
        if name = "digests" then
          -- walk like `lookup` (the directories above are initialised), then ask the node as it is
          match (args.mapM parseBytes).bind splitLast with
          | none => (s, "bad-op")
          | some (p, x) =>
            let r := BbRe.InputRoot.step s.st F (.lookup p x)
            let s' := { s with st := r.1 }
            match r.2 with
            | .kind _ =>
              match rawAt r.1.root (p ++ [x]) with
              | none => (s', "bad-state")
              | some n => (s', showContaining (containing s.st.cas F n))
            | o => (s', showOut o)
        else if name = "fetch" || name = "mfetch" then
          match args with
          | [d] =>
            match parseDig d with
            | some d => (s, showFetch (fetch s.st.cas F d (if name = "mfetch" then some [] else none)))
            | none => (s, "bad-op")
          | _ => (s, "bad-op")
        else
          match parseOp name args with
          | none => (s, "bad-op")
          | some op =>
            let r := BbRe.InputRoot.step s.st F op
            ({ s with st := r.1 }, showOut r.2)
  | _ => (s, "bad-op")

end BbRe.Drivers.InputRoot

def main (_args : List String) : IO UInt32 := do
  BbRe.Drivers.runLoop BbRe.Drivers.InputRoot.initDS BbRe.Drivers.InputRoot.step
  return 0
