import BbRe.Model.NaiveDir
import BbRe.Drivers.Util
/-!
Line protocol driver of `Model/NaiveDir.lean` (C17, eager build directory).

Tokens as in `Drivers/InputRoot.lean` (bytes `x<hex>`, digest `x<hex of hash string>/<size>`).

* `cfg <hashLen>`, `dir <dig> garbage`, `dir <dig> <nd> <nf> <ns> …`, `blob <dig> <bytes>`: the store
* `nmerge <dig> <fault>*` with `<fault>` = `cas:<dig>` | `<mkdir|enter|symlink|create|chtimes>:<comp>(,<comp>)*`:
  `MergeDirectoryContents` into an empty directory under that oracle (`stop` = never).
  Answer: `ok <tree>` | `err:<class> <tree>` (the walker's own error, no download failed:
  everything is determined) | `err:* <tree>` (a download failed: "error" is determined, the tree left
  behind is within `<tree>`: same names and kinds, nothing else) | `err:*` (a file is in the way of a
  `Mkdir`/`Symlink`: only "error" is determined).
  `<tree>` = `[name=dir[…],name=file:<hash>:<size>:<exec>,name=sym:<target>]` sorted by name bytes.
-/
namespace BbRe.Drivers.NaiveDir
open BbRe.InputRoot BbRe.NaiveDir BbRe.Drivers

def hexVal (c : Char) : Option Nat :=
  if '0' ≤ c ∧ c ≤ '9' then some (c.toNat - 48)
  else if 'a' ≤ c ∧ c ≤ 'f' then some (c.toNat - 87)
  else none

def decodeHex : List Char → Option Bytes
  | [] => some []
  | [_] => none
  | a :: b :: rest => do
    let x ← hexVal a
    let y ← hexVal b
    let r ← decodeHex rest
    some ((x * 16 + y) :: r)

def parseBytes (s : String) : Option Bytes :=
  match s.toList with
  | 'x' :: rest => decodeHex rest
  | _ => none

def hexDigit (n : Nat) : Char := if n < 10 then Char.ofNat (48 + n) else Char.ofNat (87 + n)

def showBytes (b : Bytes) : String :=
  "x" ++ String.ofList (b.flatMap fun n => [hexDigit (n / 16 % 16), hexDigit (n % 16)])

def parseInt (s : String) : Option Int :=
  match s.toList with
  | '-' :: rest => (String.ofList rest).toNat?.map fun n => -(n : Int)
  | _ => s.toNat?.map fun n => (n : Int)

def parseDig (s : String) : Option Dig :=
  match s.splitOn "/" with
  | [h, sz] => do
    let hb ← parseBytes h
    let n ← sz.toNat?
    some ⟨hb, n⟩
  | _ => none

def parseRaw (s : String) : Option RawDigest :=
  if s = "-" then some ⟨false, [], 0⟩
  else match s.splitOn "/" with
    | [h, sz] => do
      let hb ← parseBytes h
      let n ← parseInt sz
      some ⟨true, hb, n⟩
    | _ => none

def parseBool (s : String) : Option Bool :=
  if s = "1" then some true else if s = "0" then some false else none

def takeDirs : Nat → List String → Option (List DirNode × List String)
  | 0, ws => some ([], ws)
  | n + 1, a :: b :: ws => do
    let name ← parseBytes a
    let r ← parseRaw b
    let (rest, ws') ← takeDirs n ws
    some (⟨name, r⟩ :: rest, ws')
  | _, _ => none

def takeFiles : Nat → List String → Option (List FileNode × List String)
  | 0, ws => some ([], ws)
  | n + 1, a :: b :: c :: ws => do
    let name ← parseBytes a
    let r ← parseRaw b
    let x ← parseBool c
    let (rest, ws') ← takeFiles n ws
    some (⟨name, r, x⟩ :: rest, ws')
  | _, _ => none

def takeSyms : Nat → List String → Option (List SymNode × List String)
  | 0, ws => some ([], ws)
  | n + 1, a :: b :: ws => do
    let name ← parseBytes a
    let t ← parseBytes b
    let (rest, ws') ← takeSyms n ws
    some (⟨name, t⟩ :: rest, ws')
  | _, _ => none

def takeDigs : Nat → List String → Option (List Dig × List String)
  | 0, ws => some ([], ws)
  | n + 1, a :: ws => do
    let d ← parseDig a
    let (rest, ws') ← takeDigs n ws
    some (d :: rest, ws')
  | _, _ => none

def parseMsg (ws : List String) : Option DirMsg :=
  match ws with
  | nd :: nf :: ns :: rest => do
    let nd ← nd.toNat?
    let nf ← nf.toNat?
    let ns ← ns.toNat?
    let (ds, r1) ← takeDirs nd rest
    let (fs, r2) ← takeFiles nf r1
    let (ss, r3) ← takeSyms ns r2
    if r3.isEmpty then some ⟨ds, fs, ss⟩ else none
  | _ => none

def bytesLt : Bytes → Bytes → Bool
  | [], [] => false
  | [], _ :: _ => true
  | _ :: _, [] => false
  | a :: as, b :: bs => if a < b then true else if b < a then false else bytesLt as bs

def insertSorted (e : Name × Kind) : List (Name × Kind) → List (Name × Kind)
  | [] => [e]
  | f :: rest => if bytesLt e.1 f.1 then e :: f :: rest else f :: insertSorted e rest

def sortListing (l : List (Name × Kind)) : List (Name × Kind) := l.foldr insertSorted []


def showHash (b : Bytes) : String := String.ofList (b.map Char.ofNat)

def insertNode (e : Name × Node) : List (Name × Node) → List (Name × Node)
  | [] => [e]
  | f :: rest => if bytesLt e.1 f.1 then e :: f :: rest else f :: insertNode e rest

partial def showTree (ch : Children) : String :=
  "[" ++ ",".intercalate ((ch.foldr insertNode []).map fun e =>
    showBytes e.1 ++ "=" ++ (match e.2 with
      | .file d x _ => s!"file:{showHash d.hash}:{d.size}:{if x then 1 else 0}"
      | .sym t => s!"sym:{showBytes t}"
      | .loc => "local"
      | .lazy _ _ => "lazy"
      | .dir sub => "dir" ++ showTree sub)) ++ "]"

def showErr : Err → String
  | .invalidArgument => "inval" | .notFound => "notfound" | .unavailable => "fault"

def showNErr : NErr → String
  | .decode e => showErr e
  | .fs => "fs"
  | .exist _ => "fs"
  | .canceled => "canceled"
  | .fuel => "fuel"

def parseFault (O : Oracle) (s : String) : Option Oracle :=
  match s.splitOn ":" with
  | ["cas", d] => (parseDig d).map fun d => { O with cas := d :: O.cas }
  | [k, p] => do
    let kind ← match k with
      | "mkdir" => some FsCall.mkdir | "enter" => some FsCall.enter | "symlink" => some FsCall.symlink
      | "create" => some FsCall.create | "chtimes" => some FsCall.chtimes | _ => none
    let comps ← (p.splitOn ",").mapM parseBytes
    some { O with fs := (kind, comps) :: O.fs }
  | _ => none

def parseFaults : Oracle → List String → Option Oracle
  | O, [] => some O
  | O, s :: rest => (parseFault O s).bind (parseFaults · rest)

def emptyCAS (hl : Nat) : CAS := ⟨hl, [], []⟩

def step (c : CAS) (ws : List String) : CAS × String :=
  match ws with
  | ["cfg", hl] =>
    match hl.toNat? with
    | some n => (emptyCAS n, "ok")
    | none => (c, "bad-op")
  | ["dir", d, "garbage"] =>
    match parseDig d with
    | some d => ({ c with dirs := c.dirs ++ [(d, none)] }, "ok")
    | none => (c, "bad-op")
  | "dir" :: d :: rest =>
    match parseDig d, parseMsg rest with
    | some d, some m => ({ c with dirs := c.dirs ++ [(d, some m)] }, "ok")
    | _, _ => (c, "bad-op")
  | ["blob", d, b] =>
    match parseDig d, parseBytes b with
    | some d, some b => ({ c with blobs := c.blobs ++ [(d, b)] }, "ok")
    | _, _ => (c, "bad-op")
  | "nmerge" :: d :: faults =>
    match parseDig d, parseFaults ⟨[], [], []⟩ faults with
    | some d, some O =>
      let r := mergeDirIn c O (fuelFor c) d [] [] false
      (c, match outcomeOf r with
        | .ok => "ok " ++ showTree r.ch
        | .error none =>
          -- a download failed and no file is in the way of a Mkdir/Symlink: with `stop` = never this
          -- is the largest tree any run can leave behind (the walker may notice the cancellation earlier)
          if r.failed && r.err != some (.exist true) then "err:* " ++ showTree r.ch else "err:*"
        | .error (some e) => s!"err:{showNErr e} " ++ showTree r.ch)
    | _, _ => (c, "bad-op")
  | _ => (c, "bad-op")

end BbRe.Drivers.NaiveDir

def main (_args : List String) : IO UInt32 := do
  BbRe.Drivers.runLoop (BbRe.Drivers.NaiveDir.emptyCAS 64) BbRe.Drivers.NaiveDir.step
  return 0
