/- Line-protocol helpers shared by all model drivers (core Lean only). -/
namespace BbRe.Drivers

def words (line : String) : List String :=
  (line.splitOn " ").filter (fun w => w ≠ "") |>.map (fun w => w.trimAscii.toString) |>.filter (fun w => w ≠ "")

/-- Run `step` over stdin lines, printing one output line per input line. -/
partial def loop {σ : Type} (h : IO.FS.Stream) (out : IO.FS.Stream) (s : σ)
    (step : σ → List String → σ × String) : IO Unit := do
  let line ← h.getLine
  if line.isEmpty then
    out.flush
    return ()
  let ws := words line
  if ws.isEmpty then
    loop h out s step
  else
    let (s', o) := step s ws
    out.putStrLn o
    out.flush
    loop h out s' step

def runLoop {σ : Type} (init : σ) (step : σ → List String → σ × String) : IO Unit := do
  loop (← IO.getStdin) (← IO.getStdout) init step

def natList (ws : List String) : Option (List Nat) := ws.mapM String.toNat?

def joinSp (xs : List String) : String := " ".intercalate xs

end BbRe.Drivers
