import BbRe.Model.FileRef
import BbRe.Drivers.Util
/-!
Line-protocol driver for `Model/FileRef.lean` (C16).  Up to any number of files
(index `f`); the delay channels `k` are shared by all files (`fire k` is broadcast,
files created later inherit the fired channels).

  `reset`
  `new f layered r w x size [legacy]`         → `ok | <dump>`   (`legacy`: code before fix 17054c0)
  `op f <op…>`                                → `<out> | <dump>` or `disabled`
  `legal f <op…>`                             → `yes` | `no` | `disabled`
  `wakes f`                                   → enabled wake steps, `;`-separated (`mwake t` / `uwake t 0|1`) or `-`
  `fire k`                                    → `ok`
  `dump f`, `save`, `restore`

`<op…>`: `link` `unlink` `open r w` `close r w` `read off len` `seek off` `getattr`
`setperm x` `chown` `persist` `write t off <bytes>` `alloc t off len`
`setattr t size x|-` `opentrunc t r w` `mwake t` `ubegin t upload k|- fn` `uwake t viaDelay`
`udigest t` `putdone t ok` `fread t off len` `fclose t` `statopen t fn` `statfinish t`
`fault kind v`.  `<bytes>` = `.`-separated decimals, `-` = empty.
-/
namespace BbRe.Drivers.FileRef
open BbRe.Drivers BbRe.FileRef

structure Entry where
  st : State
  seen : List Nat

structure St where
  files : List (Nat × Entry)
  fired : List Nat
  saved : List (Nat × Entry) × List Nat

def init : St := ⟨[], [], ([], [])⟩

def lookup (s : St) (f : Nat) : Option Entry := (s.files.find? (fun e => e.1 = f)).map (·.2)

def store (s : St) (f : Nat) (e : Entry) : St :=
  { s with files := (f, e) :: s.files.filter (fun x => x.1 ≠ f) }

def insertSorted (t : Nat) : List Nat → List Nat
  | [] => [t]
  | x :: xs => if t < x then t :: x :: xs else if t = x then x :: xs else x :: insertSorted t xs

def flag? : String → Option Bool
  | "1" => some true | "0" => some false | _ => none

def bytes? (w : String) : Option Bytes :=
  if w = "-" then some [] else (w.splitOn ".").mapM String.toNat?

def showBytes (b : Bytes) : String :=
  if b.isEmpty then "-" else ".".intercalate (b.map toString)

def showDigest (d : Digest) : String := s!"{d.1}:{showBytes d.2}"

def showB (b : Bool) : String := if b then "1" else "0"

def statusTok : Status → String
  | .ok => "ok" | .stale => "stale" | .io => "io" | .perm => "perm" | .nxio => "nxio"
  | .notFound => "notfound" | .internal => "internal" | .putErr => "puterr"

def outTok : Out → String
  | .st s => statusTok s
  | .attrs size chg x links => s!"attrs {size} {showB x} {links} {chg}"
  | .wrote n s => s!"wrote {n} {statusTok s}"
  | .data b eof => s!"data {showBytes b} {showB eof}"
  | .parked => "parked"
  | .opened => "opened"
  | .putting d => s!"putting {showDigest d}"
  | .digest none => "digest none"
  | .digest (some d) => s!"digest {showDigest d}"
  | .panic => "panic"

def pcTok : PC → String
  | .idle => "idle"
  | .mutWait _ w => s!"mwait{showB w}"
  | .upWait _ _ _ w => s!"uwait{showB w}"
  | .upFrozen _ => "ufrozen"
  | .upPut _ => "uput"
  | .held => "held"
  | .statFrozen _ => "sfrozen"

def dump (e : Entry) : String :=
  let s := e.st
  let pcs := (e.seen.filter (fun t => s.pc t ≠ .idle)).map (fun t => s!"{t}:{pcTok (s.pc t)}")
  let cached := match s.cached with | none => "-" | some d => showDigest d
  s!"refs={s.refs} writers={s.writers} frozen={s.frozen} closed={showB s.closed} closes={s.closeCalls} " ++
  s!"links={s.linkCount} rd={s.rd} wr={s.wr} x={showB s.exec} chg={s.changeID} cached={cached} " ++
  s!"bytes={showBytes s.bytes} pcs={",".intercalate pcs} cas={s.cas.length} panic={showB s.panicked}"

def mask? (r w : String) : Option Mask := do
  let r ← flag? r; let w ← flag? w; some ⟨r, w⟩

/-- Parse an op; the thread it belongs to (if any) is recorded in `seen`. -/
def parseOp : List String → Option (Op × Option Nat)
  | ["link"] => some (.link, none)
  | ["unlink"] => some (.unlink, none)
  | ["open", r, w] => do let m ← mask? r w; some (.open_ m, none)
  | ["close", r, w] => do let m ← mask? r w; some (.close m, none)
  | ["read", off, len] => do let o ← off.toNat?; let l ← len.toNat?; some (.read o l, none)
  | ["seek", off] => do let o ← off.toNat?; some (.seek o, none)
  | ["getattr"] => some (.getattr, none)
  | ["setperm", x] => do let x ← flag? x; some (.setperm x, none)
  | ["chown"] => some (.chown, none)
  | ["persist"] => some (.persist, none)
  | ["write", t, off, b] => do
    let t ← t.toNat?; let o ← off.toNat?; let b ← bytes? b; some (.mbegin t (.write o b), some t)
  | ["alloc", t, off, len] => do
    let t ← t.toNat?; let o ← off.toNat?; let l ← len.toNat?; some (.mbegin t (.alloc o l), some t)
  | ["setattr", t, size, x] => do
    let t ← t.toNat?; let n ← size.toNat?
    let x ← (if x = "-" then some none else (flag? x).map some)
    some (.mbegin t (.setattr n x), some t)
  | ["opentrunc", t, r, w] => do
    let t ← t.toNat?; let m ← mask? r w; some (.mbegin t (.openTrunc m), some t)
  | ["mwake", t] => do let t ← t.toNat?; some (.mwake t, some t)
  | ["ubegin", t, u, k, fn] => do
    let t ← t.toNat?; let u ← flag? u; let fn ← fn.toNat?
    let k ← (if k = "-" then some none else k.toNat?.map some)
    some (.ubegin t u k fn, some t)
  | ["uwake", t, v] => do let t ← t.toNat?; let v ← flag? v; some (.uwake t v, some t)
  | ["udigest", t] => do let t ← t.toNat?; some (.udigest t, some t)
  | ["putdone", t, ok] => do let t ← t.toNat?; let ok ← flag? ok; some (.putDone t ok, some t)
  | ["fread", t, off, len] => do
    let t ← t.toNat?; let o ← off.toNat?; let l ← len.toNat?; some (.fread t o l, some t)
  | ["fclose", t] => do let t ← t.toNat?; some (.fclose t, some t)
  | ["statopen", t, fn] => do let t ← t.toNat?; let fn ← fn.toNat?; some (.statOpen t fn, some t)
  | ["statfinish", t] => do let t ← t.toNat?; some (.statFinish t, some t)
  | ["fault", k, v] => do let k ← k.toNat?; let v ← v.toNat?; some (.fault k v, none)
  | _ => none

def wakesOf (e : Entry) : List String :=
  e.seen.filterMap (fun t =>
    match e.st.pc t with
    | .mutWait _ true => some s!"mwake {t}"
    | .upWait _ k _ w =>
      let byDelay := match k with | some k' => e.st.fired k' | none => false
      if byDelay then some s!"uwake {t} 1" else if w then some s!"uwake {t} 0" else none
    | _ => none)

def step (s : St) (ws : List String) : St × String :=
  match ws with
  | ["reset"] => (init, "ok")
  | ["save"] => ({ s with saved := (s.files, s.fired) }, "ok")
  | ["restore"] => ({ s with files := s.saved.1, fired := s.saved.2 }, "ok")
  | "new" :: f :: l :: r :: w :: x :: size :: rest =>
    -- an optional 8th word `legacy` selects the code before fix 17054c0
    match f.toNat?, flag? l, mask? r w, flag? x, size.toNat? with
    | some f, some l, some m, some x, some size =>
      let st0 := BbRe.FileRef.init (rest != ["legacy"]) l x size m
      let st : State := { st0 with fired := fun k => s.fired.contains k }
      let e : Entry := ⟨st, []⟩
      (store s f e, s!"ok | {dump e}")
    | _, _, _, _, _ => (s, "bad-op")
  | ["fire", k] =>
    match k.toNat? with
    | some k =>
      let files := s.files.map (fun (f, e) =>
        match BbRe.FileRef.step e.st (.fire k) with
        | some (st', _) => (f, { e with st := st' })
        | none => (f, e))
      ({ s with files := files, fired := k :: s.fired }, "ok")
    | none => (s, "bad-op")
  | ["dump", f] =>
    match f.toNat?.bind (lookup s) with
    | some e => (s, dump e)
    | none => (s, "bad-op")
  | ["wakes", f] =>
    match f.toNat?.bind (lookup s) with
    | some e =>
      let l := wakesOf e
      (s, if l.isEmpty then "-" else ";".intercalate l)
    | none => (s, "bad-op")
  | "legal" :: f :: rest =>
    match f.toNat?, parseOp rest with
    | some f, some (op, _) =>
      match lookup s f with
      | some e =>
        match BbRe.FileRef.step e.st op with
        | none => (s, "disabled")
        | some _ => (s, if legal e.st op then "yes" else "no")
      | none => (s, "bad-op")
    | _, _ => (s, "bad-op")
  | "op" :: f :: rest =>
    match f.toNat?, parseOp rest with
    | some f, some (op, t) =>
      match lookup s f with
      | some e =>
        let e : Entry := match t with | some t => { e with seen := insertSorted t e.seen } | none => e
        match BbRe.FileRef.step e.st op with
        | none => (s, "disabled")
        | some (st', o) =>
          let e' : Entry := { e with st := st' }
          (store s f e', s!"{outTok o} | {dump e'}")
      | none => (s, "bad-op")
    | _, _ => (s, "bad-op")
  | _ => (s, "bad-op")

end BbRe.Drivers.FileRef

def main (_args : List String) : IO UInt32 := do
  BbRe.Drivers.runLoop BbRe.Drivers.FileRef.init BbRe.Drivers.FileRef.step
  return 0
