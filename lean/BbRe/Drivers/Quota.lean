import BbRe.Model.Quota
import BbRe.Drivers.Util
/-! Line-protocol driver for `Model/Quota.lean`.

ops (booleans are `0`/`1`):
* `init maxFiles maxBytes`          → `ok`
* `new size baseOk`                 → `<res> base=<0|1> id=<id|->`
* `trunc id size baseOk`            → `<res> base=<0|1>`        (size may be negative)
* `write id off len n baseErr`      → `<res> base=<0|1> n=<n>`  (off may be negative)
* `close id baseErr`                → `<res> base=1`
* `probe`                           → `files=<filesRemaining> bytes=<bytesRemaining> open=<#files> total=<Σ size>`
`res` ∈ `ok`, `invalid` (InvalidArgument from the quota layer), `base` (error of the base pool).
-/
namespace BbRe.Drivers.Quota
open BbRe.Quota BbRe.Drivers

def showRes : Res → String
  | .ok => "ok" | .invalid => "invalid" | .base => "base"

def b01 (b : Bool) : String := if b then "1" else "0"

def parseBool : String → Option Bool
  | "0" => some false | "1" => some true | _ => none

def parseOp : List String → Option Op
  | ["new", size, ok] => do some (.newFile (← size.toNat?) (← parseBool ok))
  | ["trunc", id, size, ok] => do some (.truncate (← id.toNat?) (← size.toInt?) (← parseBool ok))
  | ["write", id, off, len, n, err] => do
    some (.writeAt (← id.toNat?) (← off.toInt?) (← len.toNat?) (← n.toNat?) (← parseBool err))
  | ["close", id, err] => do some (.close (← id.toNat?) (← parseBool err))
  | _ => none

def showOut (op : Op) (o : Out) : String :=
  let base := s!"{showRes o.res} base={b01 o.baseCalled}"
  match op with
  | .newFile _ _ => base ++ " id=" ++ (match o.newId with | some i => toString i | none => "-")
  | .writeAt .. => base ++ s!" n={o.n}"
  | _ => base

def step (st : State) (ws : List String) : State × String :=
  match ws with
  | ["init", f, b] =>
    match f.toNat?, b.toNat? with
    | some f, some b => (init f b, "ok")
    | _, _ => (st, "bad-op")
  | ["probe"] =>
    (st, s!"files={st.filesRemaining} bytes={st.bytesRemaining} open={st.files.length} total={totalSize st.files}")
  | _ =>
    match parseOp ws with
    | some op =>
      match BbRe.Quota.step st op with
      | some r => (r.1, showOut op r.2)
      | none => (st, "bad-op")
    | none => (st, "bad-op")

end BbRe.Drivers.Quota

def main (_args : List String) : IO UInt32 := do
  BbRe.Drivers.runLoop (BbRe.Quota.init 0 0) BbRe.Drivers.Quota.step
  return 0
