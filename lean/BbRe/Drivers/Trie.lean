import BbRe.Model.Trie
import BbRe.Drivers.Util
/-
Line protocol of the `trie` model driver (all tokens are naturals unless stated).

A key is encoded as `<np> n1 v1 … n_np v_np <nc> c1 … c_nc` (properties, then instance-name
components).  Ops:

  reset                      -> ok            (trie, router and queue index)
  newkey <key>               -> ok | invalid  (`platform.NewKey`)
  set <v> <key>              -> ok
  remove <key>               -> ok | panic
  getexact <key>             -> <int>
  contains <key>             -> true | false
  glp <key>                  -> <int>
  spec <key>                 -> `<exact> <longest>` computed by Spec.PrefixMap on the map
                                 obtained from the same set/remove history
  rreset <default>           -> ok
  rreg <id> <key>            -> ok | invalid | exists
  rroute <key>               -> invalid | panic | to <id> <nc> c1 …
  qreset                     -> ok
  qregister <key>            -> ok | invalid | exists
  qsync <key>                -> <index>
  qremove <i>                -> ok | panic
  qexec <key>                -> none | queue <index> dangling | queue <index> <nc> c1 …
  qlen                       -> <n>
  qdump                      -> the keys of `platformQueues` in list order, ` | `-separated
-/
namespace BbRe.Drivers.Trie
open BbRe.Model.Trie BbRe.Spec.PrefixMap BbRe.Drivers

structure St where
  trie : Trie := Trie.empty
  spec : PrefixMap := []
  router : Router := Router.new 0
  pq : PQIndex := PQIndex.empty
deriving Inhabited

def takePairs : Nat → List Nat → Option (List (Nat × Nat) × List Nat)
  | 0, r => some ([], r)
  | n + 1, a :: b :: r => do
    let (ps, r') ← takePairs n r
    some ((a, b) :: ps, r')
  | _, _ => none

/-- raw key: instance components and property list (not validated). -/
def parseKey (ws : List String) : Option (List Nat × List (Nat × Nat)) := do
  let ns ← natList ws
  match ns with
  | np :: r =>
    let (ps, r') ← takePairs np r
    match r' with
    | nc :: cs => if cs.length = nc then some (cs, ps) else none
    | [] => none
  | [] => none

def showComps (cs : List Nat) : String :=
  joinSp (toString cs.length :: cs.map toString)

def showKey (k : Key) : String :=
  joinSp (toString k.plat.length :: (k.plat.flatMap (fun p => [toString p.1, toString p.2]))) ++ " " ++ showComps k.inst

def showStatus : Status → String
  | .ok => "ok" | .invalidArgument => "invalid" | .alreadyExists => "exists"

def step (s : St) (ws : List String) : St × String :=
  match ws with
  | ["reset"] => ({}, "ok")
  | "newkey" :: k =>
    match parseKey k with
    | some (i, p) => (s, if (newKey i p).isSome then "ok" else "invalid")
    | none => (s, "bad-op")
  | "set" :: v :: k =>
    match v.toNat?, parseKey k with
    | some v, some (i, p) =>
      ({ s with trie := s.trie.set ⟨i, p⟩ (v : Int), spec := BbRe.Spec.PrefixMap.set s.spec ⟨i, p⟩ v }, "ok")
    | _, _ => (s, "bad-op")
  | "remove" :: k =>
    match parseKey k with
    | some (i, p) =>
      match s.trie.remove ⟨i, p⟩ with
      | some t => ({ s with trie := t, spec := erase s.spec ⟨i, p⟩ }, "ok")
      | none => (s, "panic")
    | none => (s, "bad-op")
  | "getexact" :: k =>
    match parseKey k with
    | some (i, p) => (s, toString (s.trie.getExact ⟨i, p⟩))
    | none => (s, "bad-op")
  | "contains" :: k =>
    match parseKey k with
    | some (i, p) => (s, toString (s.trie.containsExact ⟨i, p⟩))
    | none => (s, "bad-op")
  | "glp" :: k =>
    match parseKey k with
    | some (i, p) => (s, toString (s.trie.getLongestPrefix ⟨i, p⟩))
    | none => (s, "bad-op")
  | "spec" :: k =>
    match parseKey k with
    | some (i, p) =>
      (s, s!"{toInt (get s.spec ⟨i, p⟩)} {toInt (longestPrefix s.spec ⟨i, p⟩)}")
    | none => (s, "bad-op")
  | ["rreset", d] =>
    match d.toNat? with
    | some d => ({ s with router := Router.new d }, "ok")
    | none => (s, "bad-op")
  | "rreg" :: id :: k =>
    match id.toNat?, parseKey k with
    | some id, some (i, p) =>
      let (r, st) := s.router.register i p id
      ({ s with router := r }, showStatus st)
    | _, _ => (s, "bad-op")
  | "rroute" :: k =>
    match parseKey k with
    | some (i, p) =>
      (s, match s.router.route i p with
        | .extractFailed => "invalid"
        | .panic => "panic"
        | .to id inst => s!"to {id} {showComps inst}")
    | none => (s, "bad-op")
  | ["qreset"] => ({ s with pq := PQIndex.empty }, "ok")
  | "qregister" :: k =>
    match parseKey k with
    | some (i, p) =>
      let (q, st) := s.pq.register i p
      ({ s with pq := q }, showStatus st)
    | none => (s, "bad-op")
  | "qsync" :: k =>
    match parseKey k with
    | some (i, p) =>
      let (q, idx) := s.pq.synchronize ⟨i, p⟩
      ({ s with pq := q }, toString idx)
    | none => (s, "bad-op")
  | ["qremove", i] =>
    match i.toNat? with
    | some i =>
      match s.pq.removeQueue i with
      | some q => ({ s with pq := q }, "ok")
      | none => (s, "panic")
    | none => (s, "bad-op")
  | "qexec" :: k =>
    match parseKey k with
    | some (i, p) =>
      (s, match s.pq.execute ⟨i, p⟩ with
        | none => "none"
        | some (idx, none) => s!"queue {idx} dangling"
        | some (idx, some sfx) => s!"queue {idx} {showComps sfx}")
    | none => (s, "bad-op")
  | ["qlen"] => (s, toString s.pq.queues.length)
  | ["qdump"] => (s, " | ".intercalate (s.pq.queues.map showKey))
  | _ => (s, "bad-op")

end BbRe.Drivers.Trie

def main (_args : List String) : IO UInt32 := do
  BbRe.Drivers.runLoop ({} : BbRe.Drivers.Trie.St) BbRe.Drivers.Trie.step
  return 0
