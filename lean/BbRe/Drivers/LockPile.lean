import BbRe.Model.LockPile
import BbRe.Drivers.Util
/-!
Driver for `Model/LockPile.lean` (C14 part b): the harness `lockleak` runs the
REAL `re_sync.LockPile` of one goroutine against mutexes some of which are held
by the harness ("environment", thread 1), and sends the same calls here.

Thread under test = 0, environment = 1. ops:
* `reset`
* `env hold l` / `env release l`         environment takes / releases mutex `l`
* `lock l1 l2 …`                         thread 0 calls `lp.Lock(l1, l2, …)`; runs the machine
                                         until it returns or blocks
* `resume`                               continue after the environment changed
    both answer `done ret=<0|1> held=[…] pile=[lock:recursion …]`
             or `blocked on=<l> held=[…] releases=<n>`   (held = mutexes held by thread 0, sorted)
             or `panic`
* `unlock l`  -> `ok held=[…] pile=[…]` | `panic`
* `unlockall` -> `ok held=[…] pile=[]`
`held` is computed over the mutexes 0..15.
-/
namespace BbRe.Drivers.LockPile
open BbRe.LockPile BbRe.Drivers

structure St where
  pile : Pile
  T : Table
  m : Option MState   -- a `Lock` call in progress

def St.init : St := ⟨[], Table.free, none⟩

def heldBy (T : Table) (t : Nat) : List Nat := (List.range 16).filter (fun l => T l == some t)

def showNats (xs : List Nat) : String := "[" ++ " ".intercalate (xs.map toString) ++ "]"

def showPile (p : Pile) : String :=
  "[" ++ " ".intercalate (p.map (fun h => s!"{h.lock}:{h.recursion}")) ++ "]"

/-- Run thread 0 until it is not enabled (returned, blocked or panicked). -/
def runM : Nat → MState → Table → MState × Table
  | 0, s, T => (s, T)
  | fuel + 1, s, T =>
    match step 0 s T with
    | none => (s, T)
    | some (s', T') => runM fuel s' T'

def report (st : St) (s : MState) (T : Table) : St × String :=
  match s.pc with
  | .done =>
    ({ pile := s.pile, T := T, m := none },
     s!"done ret={if s.completed then 1 else 0} held={showNats (heldBy T 0)} pile={showPile s.pile}")
  | .panic => ({ st with m := none }, "panic")
  | _ =>
    match awaited s with
    | some l => ({ st with T := T, m := some s }, s!"blocked on={l} held={showNats (heldBy T 0)} releases={s.releases}")
    | none => ({ st with T := T, m := some s }, "stuck")

def step' (st : St) (ws : List String) : St × String :=
  match ws with
  | ["reset"] => (St.init, "ok")
  | ["env", "hold", l] =>
    match l.toNat? with
    | some l => if st.T l == none then ({ st with T := st.T.set l (some 1) }, "ok") else (st, "busy")
    | none => (st, "bad-op")
  | ["env", "release", l] =>
    match l.toNat? with
    | some l => if st.T l == some 1 then ({ st with T := st.T.set l none }, "ok") else (st, "not-held")
    | none => (st, "bad-op")
  | "lock" :: ls =>
    match natList ls, st.m with
    | some news, none =>
      let (s, T) := runM 10000 (lockInit st.pile news) st.T
      report st s T
    | _, _ => (st, "bad-op")
  | ["resume"] =>
    match st.m with
    | some s => let (s', T) := runM 10000 s st.T; report st s' T
    | none => (st, "bad-op")
  | ["unlock", l] =>
    match l.toNat?, st.m with
    | some l, none =>
      match unlock st.pile st.T l with
      | some (p, T) => ({ st with pile := p, T := T }, s!"ok held={showNats (heldBy T 0)} pile={showPile p}")
      | none => (st, "panic")
    | _, _ => (st, "bad-op")
  | ["unlockall"] =>
    match st.m with
    | none =>
      let (p, T) := unlockAll st.pile st.T
      ({ st with pile := p, T := T }, s!"ok held={showNats (heldBy T 0)} pile={showPile p}")
    | some _ => (st, "bad-op")
  | _ => (st, "bad-op")

end BbRe.Drivers.LockPile

def main (_args : List String) : IO UInt32 := do
  BbRe.Drivers.runLoop BbRe.Drivers.LockPile.St.init BbRe.Drivers.LockPile.step'
  return 0
