import BbRe.Model.Outputs
import BbRe.Drivers.Util
/-!
Line protocol of the C10 model driver (`drv_outputs`).

Byte strings are lower-case hex, `-` is the empty string.  File-system trees are
prefix token streams: `d <readable> <n> (<name> <node>)^n | f <exec> <content> | l <target> | s`.

* `new <upDirs> <wd> <path>*`            → `ok` | `err`           (`NewOutputHierarchy`)
* `mkparents <tree>`                     → `ok <tree>` | `err`    (`CreateParentDirectories`; tree printed with entries sorted by name)
* `upload <force> <faults> <tree>`       → `<ok|err> F <files> S <symlinks> D <dirs>` (`UploadOutputs`; all lists sorted)
  with `faults = 1|2` the CAS rejects file contents whose id is `9 mod 10` and every
  Directory/Tree blob that contains an entry named `PUTFAIL`, and `Readlink` fails for symlinks
  whose target is `RLFAIL`.
-/
namespace BbRe.Drivers.Outputs
open BbRe.Outputs BbRe.Drivers

def hexDigit (n : Nat) : Char := "0123456789abcdef".toList.getD n '?'
def toHex (bs : List Nat) : String :=
  if bs.isEmpty then "-" else String.ofList (bs.flatMap fun b => [hexDigit (b / 16 % 16), hexDigit (b % 16)])

def hexVal (c : Char) : Option Nat :=
  if '0' ≤ c ∧ c ≤ '9' then some (c.toNat - '0'.toNat)
  else if 'a' ≤ c ∧ c ≤ 'f' then some (c.toNat - 'a'.toNat + 10)
  else none

def fromHexAux : List Char → Option (List Nat)
  | [] => some []
  | [_] => none
  | a :: b :: r => do
    let x ← hexVal a; let y ← hexVal b; let rest ← fromHexAux r
    some ((x * 16 + y) :: rest)

def fromHex (s : String) : Option (List Nat) :=
  if s = "-" then some [] else fromHexAux s.toList

def parseBool (s : String) : Option Bool :=
  if s = "0" then some false else if s = "1" then some true else none

mutual
partial def parseNode : List String → Option (Node × List String)
  | "d" :: r :: n :: rest => do
    let r ← parseBool r; let n ← n.toNat?
    let (es, rest) ← parseEntries n rest
    some (.dir r es, rest)
  | "f" :: x :: c :: rest => do
    let x ← parseBool x; let c ← c.toNat?
    some (.file x c, rest)
  | "l" :: t :: rest => do
    let t ← fromHex t
    some (.symlink t, rest)
  | "s" :: rest => some (.special, rest)
  | _ => none
partial def parseEntries : Nat → List String → Option (Entries × List String)
  | 0, ws => some ([], ws)
  | n + 1, name :: ws => do
    let name ← fromHex name
    let (node, ws) ← parseNode ws
    let (es, ws) ← parseEntries n ws
    some ((name, node) :: es, ws)
  | _, _ => none
end

def bytesLe : List Nat → List Nat → Bool
  | [], _ => true
  | _ :: _, [] => false
  | a :: as, b :: bs => a < b || (a == b && bytesLe as bs)

def b01 (b : Bool) : String := if b then "1" else "0"

partial def showNode : Node → String
  | .dir r es =>
    let es := es.mergeSort (fun a b => bytesLe a.1 b.1)
    joinSp (["d", b01 r, toString es.length] ++ es.flatMap fun (n, c) => [toHex n, showNode c])
  | .file x c => s!"f {b01 x} {c}"
  | .symlink t => s!"l {toHex t}"
  | .special => "s"

partial def showMsg : DirMsg → String
  | .mk fs ds ss =>
    "(" ++ ",".intercalate
      (fs.map (fun (n, c, x) => s!"F{toHex n}.{c}.{b01 x}") ++
       ds.map (fun (n, m) => s!"D{toHex n}={showMsg m}") ++
       ss.map (fun (n, t) => s!"L{toHex n}.{toHex t}")) ++ ")"

def sortStrings (l : List String) : List String := l.mergeSort (fun a b => !(b < a))

def showList (l : List String) : String := "[" ++ " ".intercalate (sortStrings l) ++ "]"

def showRes (r : Res) : String :=
  let fs := r.files.map fun (p, c, x) => s!"{toHex p}:{c}:{b01 x}"
  let ss := r.symlinks.map fun (p, t) => s!"{toHex p}:{toHex t}"
  let ds := r.dirs.map fun (p, tree, rd) =>
    let root := match tree with | [] => "none" | m :: _ => showMsg m
    let rdS := match rd with | none => "norootdigest" | some m => showMsg m
    s!"{toHex p}:{root}:{rdS}:{tree.length}:" ++ ";".intercalate (sortStrings (tree.drop 1 |>.map showMsg))
  (if r.errs.isEmpty then "ok" else "err") ++ " F " ++ showList fs ++ " S " ++ showList ss ++ " D " ++ showList ds

def marker : Name := [80, 85, 84, 70, 65, 73, 76]   -- "PUTFAIL"

def rlMarker : Str := [82, 76, 70, 65, 73, 76]   -- "RLFAIL"

def hasMarker (m : DirMsg) : Bool :=
  m.files.any (fun e => e.1 == marker) || m.dirs.any (fun e => e.1 == marker) || m.symlinks.any (fun e => e.1 == marker)

def faultyEnv : Env where
  putFails
    | .file c => c % 10 == 9
    | .dirmsg m => hasMarker m
    | .tree ms => ms.any hasMarker
  readlinkFails t := t == rlMarker

def okEnv : Env := { putFails := fun _ => false }

/-- faults field of the `upload` op: 0 = none, 1 = faults, 2 = faults with unreadable directories
realised as enter failures by the harness (same model behaviour) -/
def parseFaults (s : String) : Option Bool :=
  if s = "0" then some false else if s = "1" ∨ s = "2" then some true else none

abbrev State := Option Hierarchy

def step (st : State) (ws : List String) : State × String :=
  match ws with
  | "new" :: up :: wd :: paths =>
    match parseBool up, fromHex wd, paths.mapM fromHex with
    | some up, some wd, some paths =>
      match newHierarchy wd paths up with
      | .ok h => (some h, "ok")
      | .error _ => (none, "err")
    | _, _, _ => (st, "bad-op")
  | "mkparents" :: tree =>
    match st, parseNode tree with
    | some h, some (root, []) =>
      match h.createParentDirectories root with
      | .ok root' => (st, "ok " ++ showNode root')
      | .error _ => (st, "err")
    | _, _ => (st, "bad-op")
  | "upload" :: force :: faults :: tree =>
    match st, parseBool force, parseFaults faults, parseNode tree with
    | some h, some force, some faults, some (root, []) =>
      (st, showRes (h.uploadOutputs (if faults then faultyEnv else okEnv) force root))
    | _, _, _, _ => (st, "bad-op")
  | _ => (st, "bad-op")

end BbRe.Drivers.Outputs

def main (_args : List String) : IO UInt32 := do
  BbRe.Drivers.runLoop (none : BbRe.Drivers.Outputs.State) BbRe.Drivers.Outputs.step
  return 0
