import BbRe.Generated.LockSkel
import BbRe.Lemmas.LockSkelDiag
import BbRe.Drivers.Util
/-!
Driver for the C14 lock skeletons: answers questions of the `lockleak` harness
about the *generated* program (it is rebuilt after every regeneration).

ops (one line in, one line out):
* `violations` -> `n || <explanation 1> || …` : functions whose obligation
  `checkFn sigma f body = true` fails, each with the offending path;
* `orderviolations` -> the acquired-while-holding edges that break the lock-class order, with functions;
* `edges` -> all acquired-while-holding class pairs;
* `txviolations` -> functions failing the check-then-act (transaction) obligation;
* `needs` / `needsnocaller` / `eitherlock` -> inferred entry requirements and what is not checked;
* `stats` -> `functions=… locks=… classes=… entries=… declared=… skipped=… inlined=… trivial=…`;
* `skipped` / `declared` / `inlined` / `files` -> the corresponding generated tables;
* `consistent` -> `true|false` (the compiled `consistent sigma prog`).
-/
namespace BbRe.Drivers.LockSkel
open BbRe.LockSkel BbRe.Generated.LockSkel BbRe.Drivers

def names : Diag.Names where
  lock := fun i => if isGhost i then "‹a lock of class " ++ classNames.getD (gcls i) "?" ++ " held by the caller›"
    else (lockNames.lookup i).getD s!"lock#{i}"
  gclass := fun c => classNames.getD c s!"class#{c}"
  pile := fun i => pileNames.getD i s!"pile#{i}"
  fn := fun i => fnNames.getD i s!"fn#{i}"
  why := fun i => whyNames.getD i s!"why#{i}"

def sep (xs : List String) : String := s!"{xs.length}" ++ String.join (xs.map (fun x => " || " ++ x))

def step (_ : Unit) (ws : List String) : Unit × String :=
  match ws with
  | ["violations"] => ((), sep ((Diag.explainAll names sigma prog).map (·.2)))
  | ["orderviolations"] => ((), sep (Diag.explainEdges names (fun c => classNames.getD c s!"class#{c}") classNames.length edgeClass acqTbl sigma prog))
  | ["edges"] => ((), sep (Diag.showEdges (fun c => classNames.getD c s!"class#{c}") ((edgesProg edgeClass acqTbl sigma prog []).getD [])))
  | ["txviolations"] => ((), sep (Diag.explainTx names edgeClass relTbl prog))
  | ["needs"] => ((), sep inferredNeeds)
  | ["needsnocaller"] => ((), sep needsWithoutCaller)
  | ["eitherlock"] => ((), sep eitherLockHelpers)
  | ["guardexempt"] => ((), sep guardExempt)
  | ["consistent"] => ((), toString (consistent sigma prog && entriesBalanced sigma entries && txOk edgeClass relTbl prog))
  | ["stats"] => ((), s!"functions={prog.length} locks={lockNames.length} classes={classNames.length} entries={entries.length} declared={declared.length} skipped={skipped.length} inlined={inlinedFns.length} trivial={trivialFns.length} touches={touchCount} inferredNeeds={inferredNeeds.length} needsWithoutCaller={needsWithoutCaller.length} eitherLockHelpers={eitherLockHelpers.length}")
  | ["skipped"] => ((), sep (skipped.map (fun x => x.1 ++ " — " ++ x.2)))
  | ["declared"] => ((), sep (declared.map (fun x => x.1 ++ " — " ++ x.2)))
  | ["inlined"] => ((), sep inlinedFns)
  | ["files"] => ((), sep files)
  | _ => ((), "bad-op")

end BbRe.Drivers.LockSkel

def main (_args : List String) : IO UInt32 := do
  BbRe.Drivers.runLoop () BbRe.Drivers.LockSkel.step
  return 0
