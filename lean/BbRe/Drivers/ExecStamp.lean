import BbRe.Model.ExecStamp
import BbRe.Drivers.Util
/-!
Line-protocol driver for `Model/ExecStamp.lean` (C11, stamping and run-stage endings).

A timestamp token is `sec:nanos` or `-` (absent); readings of the clock are plain ns numbers.

* `begin q t0`                      -> `ok`     timestampedBuildExecutor.Execute entered: `request.QueuedTimestamp = q`, `Now() = t0`
* `upd k now`                       -> `ok`     update received (`k` = 0 FetchingInputs, 1 Running, 2 UploadingOutputs, 3 anything else) with `Now() = now`
* `fin now virt q ws wd fs fd es ed us ud` -> `q ws wd fs fd es ed us ud virt`
                                                 response received with `Now() = now`; `virt` (`-` or ns, may be negative) and the nine
                                                 timestamp tokens are what the inner executor put into its ExecutionMetadata; answer: the
                                                 metadata returned
* `cfg maxSusp thr`, `s t`, `r t`   -> as in drv_susclock
* `execx t0 d` | `execx t0 d te pre kind code`
                                    -> `status exit virt instant killed`   run stage; ender at `te`: kind 0 exit(code), 1 runner error
                                                 with gRPC code, 2 outer context done (code 0 Canceled, 1 DeadlineExceeded), 3 I/O error with gRPC code
* `srun t0 d a0 a1 a2 a3 a4` | `srun t0 d a0 a1 a2 a3 a4 te pre kind code`
                                    -> `status exit virt instant killed | q ws wd fs fd es ed us ud virt`   `stampedRun`
-/
namespace BbRe.Drivers.ExecStamp
open BbRe.SusClock BbRe.ExecStamp BbRe.Drivers

structure DS where
  P    : Params := ⟨0, 1⟩
  tl   : List Ev := []
  last : Nat := 0
  w    : Option W := none

def parseTs (s : String) : Option (Option Ts) :=
  if s == "-" then some none
  else match s.splitOn ":" with
    | [a, b] => match a.toNat?, b.toNat? with
      | some a, some b => some (some ⟨a, b⟩)
      | _, _ => none
    | _ => none

def parseInt (s : String) : Option (Option Int) :=
  if s == "-" then some none
  else if s.startsWith "n" then (s.drop 1).toNat?.map (fun n => some (-(n : Int)))
  else s.toNat?.map (fun n => some (n : Int))

def showTs : Option Ts → String
  | none => "-"
  | some t => s!"{t.sec}:{t.nanos}"

def showInt : Option Int → String
  | none => "-"
  | some v => if v < 0 then s!"n{(-v).toNat}" else s!"{v.toNat}"

def showMeta (m : Meta) : String :=
  joinSp [showTs m.queued, showTs m.workerStart, showTs m.workerDone, showTs m.fetchStart, showTs m.fetchDone,
    showTs m.execStart, showTs m.execDone, showTs m.uploadStart, showTs m.uploadDone, showInt m.virt]

def showX (o : XResult) : String :=
  let e := match o.exitCode with | some x => toString x | none => "-"
  s!"{o.status} {e} {o.virt} {o.instant} {if o.killed then 1 else 0}"

def stageOf : Nat → Option Stage
  | 0 => some .fetching | 1 => some .running | 2 => some .uploading | 3 => some .other | _ => none

def enderOf (kind code : Nat) : Option Ender :=
  match kind with
  | 0 => some (.exit code)
  | 1 => if code = 0 then none else some (.failed code)
  | 2 => match code with | 0 => some (.outer .canceled) | 1 => some (.outer .deadlineExceeded) | _ => none
  | 3 => if code = 0 then none else some (.ioError code)
  | _ => none

def endOf (t0 : Nat) : List Nat → Option (Option End)
  | [] => some none
  | [te, pre, kind, code] =>
    if te < t0 || pre > 1 then none else (enderOf kind code).map (fun e => some ⟨te, pre == 1, e⟩)
  | _ => none

def addEv (s : DS) (e : Ev) : DS × String :=
  if e.time < s.last then (s, "bad-op")
  else
    let c := clockAt s.tl e.time
    if !e.isSuspend && !c.resumeOk then (s, "panic")
    else
      let tl := s.tl ++ [e]
      let c' := clockAt tl e.time
      ({ s with tl := tl, last := e.time }, s!"ok {c'.cnt} {c'.totalNow e.time}")

def step (s : DS) (ws : List String) : DS × String :=
  match ws with
  | ["begin", q, t0] =>
    match parseTs q, t0.toNat? with
    | some q, some t0 => ({ s with w := some (W.start q (Ts.ofNs t0)) }, "ok")
    | _, _ => (s, "bad-op")
  | ["upd", k, now] =>
    match s.w, k.toNat?.bind stageOf, now.toNat? with
    | some w, some st, some now => ({ s with w := some (w.update st (Ts.ofNs now)) }, "ok")
    | _, _, _ => (s, "bad-op")
  | ["fin", now, virt, q, ws, wd, fs, fd, es, ed, us, ud] =>
    match s.w, now.toNat?, parseInt virt, [q, ws, wd, fs, fd, es, ed, us, ud].mapM parseTs with
    | some w, some now, some virt, some [q, ws, wd, fs, fd, es, ed, us, ud] =>
      let base : Meta := { queued := q, workerStart := ws, workerDone := wd, fetchStart := fs, fetchDone := fd,
                           execStart := es, execDone := ed, uploadStart := us, uploadDone := ud, virt := virt }
      ({ s with w := none }, showMeta (w.finish (Ts.ofNs now) base))
    | _, _, _, _ => (s, "bad-op")
  | ["cfg", m, t] =>
    match m.toNat?, t.toNat? with
    | some m, some t => ({ P := ⟨m, t⟩ }, "ok")
    | _, _ => (s, "bad-op")
  | ["s", t] =>
    match t.toNat? with
    | some t => addEv s (.suspend t)
    | none => (s, "bad-op")
  | ["r", t] =>
    match t.toNat? with
    | some t => addEv s (.resume t)
    | none => (s, "bad-op")
  | "execx" :: t0 :: d :: rest =>
    match t0.toNat?, d.toNat?, natList rest with
    | some t0, some d, some rest =>
      match endOf t0 rest with
      | some en =>
        match execRunX s.P s.tl t0 d en with
        | some o => (s, showX o)
        | none => (s, "out-of-fuel")
      | none => (s, "bad-op")
    | _, _, _ => (s, "bad-op")
  | "srun" :: t0 :: d :: a0 :: a1 :: a2 :: a3 :: a4 :: rest =>
    match natList [t0, d, a0, a1, a2, a3, a4], natList rest with
    | some [t0, d, a0, a1, a2, a3, a4], some rest =>
      match endOf t0 rest with
      | some en =>
        match stampedRun s.P s.tl t0 d en none a0 a1 a2 a3 a4 with
        | some (o, m) => (s, showX o ++ " | " ++ showMeta m)
        | none => (s, "out-of-fuel")
      | none => (s, "bad-op")
    | _, _ => (s, "bad-op")
  | _ => (s, "bad-op")

end BbRe.Drivers.ExecStamp

def main (_args : List String) : IO UInt32 := do
  BbRe.Drivers.runLoop ({} : BbRe.Drivers.ExecStamp.DS) BbRe.Drivers.ExecStamp.step
  return 0
