import BbRe.Model.Handles
import BbRe.Drivers.Util
/-!
Line-protocol driver for `Model/Handles.lean` (C16, handle allocators).  `k` = `nfs` | `fuse`.

  `reset`                              → `ok`
  `new i k u n`                        → `done` | `invalid`
  `link i`                             → `ok` | `stale`
  `unlink i`                           → `unlinked 0|1` | `panic`
  `getattr i mask uchg`                → `attrs fwd=<m|-> fh=<n|-> ino=<n|-> lc=<n|-> chg=<n|->`
  `setattr i mask ust uchg`            → the same, or `ust <code>`
  `open i mask ust uchg`               → the same, or `ust <code>`
  `resolve n`                          → `leaf i` | `dir d` | `stale`
  `resolveshort`                       → `badhandle`
  `newdir d k u n`                     → `done` | `invalid`
  `dirattr d`                          → `dirattrs fh=<n|-> ino=<n>`
  `notify d name`                      → `notes j:ino:name,...` | `notes -`
  `release d`                          → `done`
  `register`                           → `done`
  `log`                                → the ghost log, `;`-separated (or `-`)
  `entries i`                          → the ghost entry count of leaf `i`
-/
namespace BbRe.Drivers.Handles
open BbRe.Drivers BbRe.Handles

def kind? : String → Option Kind
  | "nfs" => some .nfs | "fuse" => some .fuse | _ => none

def optTok : Option Nat → String
  | none => "-" | some n => toString n

def statusTok : Status → String
  | .ok => "ok" | .stale => "stale" | .badHandle => "badhandle"

def outTok : Out → String
  | .st s => statusTok s
  | .ust c => s!"ust {c}"
  | .attrs a => s!"attrs fwd={optTok a.fwd} fh={optTok a.fh} ino={optTok a.ino} lc={optTok a.lc} chg={optTok a.chg}"
  | .leaf i => s!"leaf {i}"
  | .dir d => s!"dir {d}"
  | .unlinked f => s!"unlinked {if f then 1 else 0}"
  | .dirAttrs fh ino => s!"dirattrs fh={optTok fh} ino={ino}"
  | .notes l => "notes " ++ (if l.isEmpty then "-" else ",".intercalate (l.map (fun x => s!"{x.1}:{x.2.1}:{x.2.2}")))
  | .panic => "panic"
  | .done => "done"
  | .invalid => "invalid"

def eventTok : Event → String
  | .fwdUnlink u => s!"unlink {u}"
  | .fwdGetAttr u m => s!"getattr {u} {m}"
  | .fwdSetAttr u m => s!"setattr {u} {m}"
  | .fwdOpen u m => s!"open {u} {m}"
  | .mapInsert n i => s!"mapinsert {n} {i}"
  | .mapDelete n => s!"mapdelete {n}"
  | .dirInsert n d => s!"dirinsert {n} {d}"
  | .dirDelete n => s!"dirdelete {n}"
  | .notified j n name => s!"notified {j} {n} {name}"

def parse (ws : List String) : Option Op :=
  match ws with
  | ["new", i, k, u, n] => do
      let k ← kind? k
      match natList [i, u, n] with
      | some [i, u, n] => some (.newLeaf i k u n)
      | _ => none
  | ["newdir", d, k, u, n] => do
      let k ← kind? k
      match natList [d, u, n] with
      | some [d, u, n] => some (.newDir d k u n)
      | _ => none
  | "resolveshort" :: [] => some .resolveShort
  | "register" :: [] => some .register
  | cmd :: args =>
    match cmd, natList args with
    | "link", some [i] => some (.link i)
    | "unlink", some [i] => some (.unlink i)
    | "getattr", some [i, m, c] => some (.getattr i m c)
    | "setattr", some [i, m, st, c] => some (.setattr i m st c)
    | "open", some [i, m, st, c] => some (.openSelf i m st c)
    | "resolve", some [n] => some (.resolve n)
    | "dirattr", some [d] => some (.dirAttr d)
    | "notify", some [d, name] => some (.notify d name)
    | "release", some [d] => some (.release d)
    | _, _ => none
  | [] => none

def stepLine (s : State) (ws : List String) : State × String :=
  match ws with
  | ["reset"] => (init, "ok")
  | ["log"] => (s, if s.log.isEmpty then "-" else ";".intercalate (s.log.map eventTok))
  | ["entries", i] =>
    match i.toNat? with
    | some i => (s, toString (s.entries i))
    | none => (s, "bad-op")
  | _ =>
    match parse ws with
    | none => (s, "bad-op")
    | some op =>
      let (s', o) := step s op
      (s', outTok o)

end BbRe.Drivers.Handles

def main (_args : List String) : IO UInt32 := do
  BbRe.Drivers.runLoop BbRe.Handles.init BbRe.Drivers.Handles.stepLine
  return 0
