import BbRe.Model.SusClock
import BbRe.Drivers.Util
/-!
Line-protocol driver for `Model/SusClock.lean` (C11).

ops (all numbers are ticks of the fake base clock):
* `cfg maxSusp thr`          -> `ok`                      new clock, empty timeline
* `s t` / `r t`              -> `ok cnt total`            Suspend / Resume at `t` (`total` = getTotalUnsuspendedNow at `t`);
                                `panic` for a Resume without Suspend (state unchanged)
* `ctx t0 d`                 -> `instant reason dur`      NewContextWithTimeout at `t0`, never cancelled
* `ctx t0 d tc pre`          -> `instant reason dur`      … cancelled at `tc` (`pre`=1: cancellation wins a tie with an expiry)
* `ctxl t0 d tc pre g dlLate dlPre late1 pos1 late2 pos2 …`
                             -> `instant reason dur stamp`  … with expiries handled late: the k-th base timer expiry
                                is handled `late_k <= g` after its stamp, after `pos_k` calls of the timeline; the
                                base deadline is delivered `dlLate` late (`dlPre`=1: before a timer handled at the
                                same instant); `bad-oracle` when a position does not fit
* `exec t0 d` | `exec t0 d tend pre kind code`
                             -> `status exit virt instant`  run stage of localBuildExecutor.Execute: timeout `d`, the command
                                never ends by itself | ends at `tend` with exit code `code` (`kind`=0) or a runner error
                                (`kind`=1); status ok|deadline|runner-error, exit `-` when there is no response
* `unsusp a b`               -> `n`                       specification-side unsuspended time in `[a,b)`
* `total t`                  -> `n`                       getTotalUnsuspendedNow at `t`
-/
namespace BbRe.Drivers.SusClock
open BbRe.SusClock BbRe.Drivers

structure DS where
  P    : Params := ⟨0, 1⟩
  tl   : List Ev := []
  last : Nat := 0

def showReason : Reason → String
  | .timeout => "timeout" | .capped => "capped" | .cancelled => "cancelled"

def showResult : Out → String
  | .outOfFuel => "out-of-fuel"
  | .badOracle => "bad-oracle"
  | .done r => s!"{r.instant} {showReason r.reason} {r.dur}"

def showResultL : Out → String
  | .outOfFuel => "out-of-fuel"
  | .badOracle => "bad-oracle"
  | .done r => s!"{r.instant} {showReason r.reason} {r.dur} {r.stamp}"

def showExec : Option ExecResult → String
  | none => "out-of-fuel"
  | some o =>
    let c := match o.code with | .ok => "ok" | .deadlineExceeded => "deadline" | .runnerError => "runner-error"
    let e := match o.exitCode with | some x => toString x | none => "-"
    s!"{c} {e} {o.virt} {o.instant}"

def pairs : List Nat → Option (List Delivery)
  | [] => some []
  | l :: p :: rest => (pairs rest).map (fun ds => ⟨l, p⟩ :: ds)
  | _ => none

def addEv (s : DS) (e : Ev) : DS × String :=
  if e.time < s.last then (s, "bad-op")
  else
    let c := clockAt s.tl e.time
    if !e.isSuspend && !c.resumeOk then (s, "panic")
    else
      let tl := s.tl ++ [e]
      let c' := clockAt tl e.time
      ({ s with tl := tl, last := e.time }, s!"ok {c'.cnt} {c'.totalNow e.time}")

def step (s : DS) (ws : List String) : DS × String :=
  match ws with
  | ["cfg", m, t] =>
    match m.toNat?, t.toNat? with
    | some m, some t => ({ P := ⟨m, t⟩ }, "ok")
    | _, _ => (s, "bad-op")
  | ["s", t] =>
    match t.toNat? with
    | some t => addEv s (.suspend t)
    | none => (s, "bad-op")
  | ["r", t] =>
    match t.toNat? with
    | some t => addEv s (.resume t)
    | none => (s, "bad-op")
  | ["ctx", t0, d] =>
    match t0.toNat?, d.toNat? with
    | some t0, some d => (s, showResult (fire s.P s.tl none t0 d))
    | _, _ => (s, "bad-op")
  | ["ctx", t0, d, tc, pre] =>
    match t0.toNat?, d.toNat?, tc.toNat?, pre.toNat? with
    | some t0, some d, some tc, some pre =>
      if tc < t0 || pre > 1 then (s, "bad-op")
      else (s, showResult (fire s.P s.tl (some ⟨tc, pre == 1⟩) t0 d))
    | _, _, _, _ => (s, "bad-op")
  | "ctxl" :: t0 :: d :: tc :: pre :: g :: dlLate :: dlPre :: rest =>
    match natList [t0, d, tc, pre, g, dlLate, dlPre], (natList rest).bind pairs with
    | some [t0, d, tc, pre, g, dlLate, dlPre], some dv =>
      if tc < t0 || pre > 1 || dlPre > 1 then (s, "bad-op")
      else (s, showResultL (fireL s.P g s.tl (some ⟨tc, pre == 1⟩) t0 d dlLate (dlPre == 1) dv))
    | _, _ => (s, "bad-op")
  | ["exec", t0, d] =>
    match t0.toNat?, d.toNat? with
    | some t0, some d => (s, showExec (execRun s.P s.tl t0 d none))
    | _, _ => (s, "bad-op")
  | ["exec", t0, d, tend, pre, kind, code] =>
    match natList [t0, d, tend, pre, kind, code] with
    | some [t0, d, tend, pre, kind, code] =>
      if tend < t0 || pre > 1 || kind > 1 then (s, "bad-op")
      else (s, showExec (execRun s.P s.tl t0 d (some ⟨tend, pre == 1, if kind == 0 then .exit code else .failed⟩)))
    | _ => (s, "bad-op")
  | ["unsusp", a, b] =>
    match a.toNat?, b.toNat? with
    | some a, some b => (s, toString (unsuspended s.tl a b))
    | _, _ => (s, "bad-op")
  | ["total", t] =>
    match t.toNat? with
    | some t => (s, toString ((clockAt s.tl t).totalNow t))
    | none => (s, "bad-op")
  | _ => (s, "bad-op")

end BbRe.Drivers.SusClock

def main (_args : List String) : IO UInt32 := do
  BbRe.Drivers.runLoop ({} : BbRe.Drivers.SusClock.DS) BbRe.Drivers.SusClock.step
  return 0
