import BbRe.Model.Fair
import BbRe.Model.FairDyn
import BbRe.Drivers.Util
/-!
Driver for `Model/Fair.lean`.  One request per line:

  pick <now> L <n> <limit>* S <n> <start>* K <n> <key>* U <n> <update>* T <tree>
      (the updates — see `apply` — are applied to the tree first: what the segment did before the decision)
      -> wf=<0|1> cache=<0|1> multi=<0|1> code=<op>/<retained>|- legacy=<op>/<retained>|- spec=<op>/<retained>,..
         code   = pickFromQueue (the code's walk over the heap roots)
         legacy = the same walk with the window of the code before fix 5bea868 (level-0 starting time)
         spec   = specPick, the documented admissible set (full scan, per-level windows)
  handoff I <n> (<len> <key>*)* T <tree>
      -> targets=<worker>,..          (empty list: the task is queued)
  apply U <n> (enq <n> <key>* <id> <prio> <dur> <ts> | deq <n> <key>* <queueIndex> | inc <n> <key>* <now> |
             dec <n> <key>* <now> | park <n> <key>* <worker> | unpark <n> <key>* <listIndex> |
             mk <n> <key>* <newKey> <now> | rm <n> <key>* <childKey>)* T <tree>
      -> p=<path>;prio=..;ops=<ids>;q=<keys>;pk=<keys>;pw=<workers>;e=..;s=..;c=..  per invocation
         (Model/FairDyn.lean: the code's update functions with container/heap at their call sites)
  scorelt <e1> <p1> <e2> <p2> <tie>   -> <0|1>   (isPreferred with the exact score order)
  scorerow <e1> <p1> <p2> <tie> <n>   -> one digit per e2 = 0..n

  <tree> = <key> <prio> <exec> <started> <completed>
           <nops> (<id> <prio> <dur> <ts>)* <nqueued> <key>* <nparked> <worker>*
           <nparkedKids> <key>* <nkids> <tree>*
-/
namespace BbRe.Drivers.Fair
open BbRe.Fair BbRe.Drivers

abbrev P := StateT (List String) Option

def tok : P String := fun s => match s with | [] => none | t :: r => some (t, r)
def nat : P Nat := do let t ← tok; t.toNat?
def int : P Int := do let t ← tok; t.toInt?
def lit (x : String) : P Unit := do let t ← tok; if t = x then pure () else failure

def rep {α : Type} (p : P α) : Nat → P (List α)
  | 0 => pure []
  | n + 1 => do let x ← p; let xs ← rep p n; pure (x :: xs)

def counted {α : Type} (p : P α) : P (List α) := do let n ← nat; rep p n

def op : P Op := do
  let id ← nat; let pr ← int; let d ← nat; let ts ← nat
  pure ⟨id, pr, d, ts⟩

partial def tree : P Inv := do
  let key ← nat; let pr ← int; let ex ← nat; let st ← nat; let co ← nat
  let ops ← counted op
  let q ← counted nat
  let pk ← counted nat
  let pkk ← counted nat
  let n ← nat
  let kids ← rep tree n
  pure (.mk key ops q pr ex st pk pkk co kids)

def showPick : Option (Op × Nat) → String
  | none => "-"
  | some (o, r) => s!"{o.id}/{r}"

def showSet (l : List (Op × Nat)) : String :=
  if l.isEmpty then "-" else ",".intercalate (l.map fun x => s!"{x.1.id}/{x.2}")

def b01 (b : Bool) : String := if b then "1" else "0"

/-- Did the code's walk pass an invocation with at least two candidates (operations or children)?
(non-triviality of a decision; reporting only) -/
def multiAlong (win : Nat → Bool) (nlim : Nat) : Nat → Inv → List Nat → Nat → Bool
  | 0, _, _, _ => false
  | fuel + 1, i, keys, lvl =>
    match i.ops with
    | _ :: rest => !rest.isEmpty
    | [] =>
      (cands i).length ≥ 2 ||
      match chooseChild win nlim i keys lvl with
      | none => false
      | some (c, keys', lvl') =>
        match i.child c with
        | none => false
        | some ci => multiAlong win nlim fuel ci keys' lvl'

def handoffReq : P String := do
  lit "I"; let invs ← counted (counted nat)
  lit "T"; let t ← tree
  let ws := handoffTargets t invs
  pure ("targets=" ++ (if ws.isEmpty then "-" else ",".intercalate (ws.map toString)))

def scoreReq : P String := do
  let e1 ← nat; let p1 ← int; let e2 ← nat; let p2 ← int; let tie ← nat
  pure (b01 (isPreferred e1 p1 e2 p2 (tie != 0)))

/-- `scorerow e1 p1 p2 tie n`: `isPreferred e1 p1 e2 p2 tie` for `e2 = 0..n`, one digit each. -/
def scoreRowReq : P String := do
  let e1 ← nat; let p1 ← int; let p2 ← int; let tie ← nat; let n ← nat
  pure (String.join ((List.range (n + 1)).map fun e2 => b01 (isPreferred e1 p1 e2 p2 (tie != 0))))

/-! The dynamic model (`Model/FairDyn.lean`): apply updates, print the resulting tree. -/

def showNats (l : List Nat) : String := ",".intercalate (l.map toString)

partial def showTree (path : List Nat) (i : Inv) : List String :=
  s!"p={showNats path};prio={i.prio};ops={showNats (i.ops.map (·.id))};q={showNats i.queued};pk={showNats i.parkedKids};pw={showNats i.parked};e={i.exec};s={i.started};c={i.completed}" ::
    i.kids.flatMap fun c => showTree (path ++ [c.key]) c

def update : P Update := do
  let kind ← tok
  match kind with
  | "enq" => do let path ← counted nat; let o ← op; pure (.enqueue path o)
  | "deq" => do let path ← counted nat; let idx ← nat; pure (.removeQueued path idx)
  | "inc" => do let path ← counted nat; let now ← nat; pure (.increment path now fun _ => true)
  | "dec" => do let path ← counted nat; let now ← nat; pure (.decrement path now fun _ => true)
  | "park" => do let path ← counted nat; let w ← nat; pure (.park path w)
  | "unpark" => do let path ← counted nat; let idx ← nat; pure (.unpark path idx)
  | "mk" => do let path ← counted nat; let k ← nat; let now ← nat; pure (.create path k now)
  | "rm" => do let path ← counted nat; let k ← nat; pure (.removeIfEmpty path k)
  | _ => failure

def pickReq : P String := do
  let now ← nat
  lit "L"; let limits ← counted nat
  lit "S"; let starts ← counted nat
  lit "K"; let keys ← counted nat
  lit "U"; let us ← counted update
  lit "T"; let t0 ← tree
  let t := applyAll us t0
  let w : WView := ⟨keys, limits, starts, now⟩
  let code := pickFromQueue t w
  let legacy := pickFromQueue t w true
  let multi := multiAlong w.docWindow limits.length t.depth t keys 0
  pure s!"wf={b01 t.wf} cache={b01 t.cacheOk} multi={b01 multi} code={showPick code} legacy={showPick legacy} spec={showSet (specPick t w)}"

/-- `apply U <n> <update>* T <tree>` -> the tree after the updates, one entry per invocation. -/
def applyReq : P String := do
  lit "U"; let us ← counted update
  lit "T"; let t ← tree
  pure (" ".intercalate (showTree [] (applyAll us t)))

def run (p : P String) (ws : List String) : String :=
  match p ws with
  | some (out, []) => out
  | _ => "bad-op"

def step (s : Unit) (ws : List String) : Unit × String :=
  match ws with
  | "pick" :: rest => (s, run pickReq rest)
  | "handoff" :: rest => (s, run handoffReq rest)
  | "apply" :: rest => (s, run applyReq rest)
  | "scorelt" :: rest => (s, run scoreReq rest)
  | "scorerow" :: rest => (s, run scoreRowReq rest)
  | _ => (s, "bad-op")

end BbRe.Drivers.Fair

def main (_args : List String) : IO UInt32 := do
  BbRe.Drivers.runLoop () BbRe.Drivers.Fair.step
  return 0
