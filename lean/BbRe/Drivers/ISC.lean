import BbRe.Model.ISC
import BbRe.Drivers.Util
/-!
Line-protocol driver for `Model/ISC.lean` (C07 part (b)).

Ops (one per line; output = one line of `k=v` tokens):

* `cfg <fb|fd> <pr|small> <historySize> <failureCacheDuration> <minTimeout> <exponent> <mulNum> <mulDen>
       <epsNum> <epsDen> <fuel> <defaultTimeout> <maxTimeout>`            → `ok` (resets everything)
* `stats <key> <lastFailure|-> [<sizeClass>:<pnum>/<pden>:<o,o,…>]…`       → `ok` (o = `F` | `T<ns>` | `S<ns>` | `U`)
* `analyze <req> <key> <unset | <secs> <nanos>> <ok|err>`                  → `sel to=<ns> gets=<n>` | `err what=timeout|get gets=<n>`
* `select <req> <now> <rnum>/<rden> <c1,c2,…>`                             → choice line
* `sabandon <req>`                                                        → `rel=0 …`
* `succ <req> <duration> <c1,c2,…>` / `fail <req> <0|1> <now>` / `aband <req>` → choice line | `panic`
* `isfaster <failuresA> <failuresB> <a1,a2,…|-> <b1,…|->`                   → `isf=<rat> isr=<rat>` (IsFaster both ways)
* `dump <key>`                                                            → `stats=… sp=…`
-/
namespace BbRe.Drivers.ISC
open BbRe.ISC BbRe.Drivers

structure Req where
  key : Nat
  origTO : Int
  pendingSelect : Bool
  cur : Option Learner
  releases : List Bool
  mutated : Bool
deriving Inhabited

structure St where
  fallback : Bool := false
  env : Env := { calculator := .smallest, historySize := 1, failureCacheDuration := 0 }
  defaultTO : Int := 0
  maxTO : Int := 0
  /-- the in-memory message of every key (equal to `persist` while no handle is out) -/
  store : List (Nat × Stats) := []
  /-- what the fake Initial Size Class Cache holds: the harness' store serialises the message
  when the last handle of a key is released and one of the releases since loading was dirty,
  drops the in-memory copy, and deserialises on the next Get (as BlobAccessMutableProtoStore does) -/
  persist : List (Nat × Stats) := []
  live : List (Nat × Nat) := []
  dirty : List (Nat × Bool) := []
  reqs : List (Nat × Req) := []
  gets : Nat := 0

def lookupNat {α : Type} : List (Nat × α) → Nat → Option α
  | [], _ => none
  | (k, v) :: m, x => if k = x then some v else lookupNat m x

def setNat {α : Type} : List (Nat × α) → Nat → α → List (Nat × α)
  | [], x, v => [(x, v)]
  | (k, w) :: m, x, v => if k = x then (k, v) :: m else (k, w) :: setNat m x v

def showRat (r : Rat) : String := if r.den = 1 then s!"{r.num}" else s!"{r.num}/{r.den}"

def parseRat (s : String) : Option Rat :=
  match s.splitOn "/" with
  | [a] => do let a ← a.toInt?; some (a : Rat)
  | [a, b] => do
    let a ← a.toInt?; let b ← b.toNat?
    if b = 0 then none else some ((a : Rat) / (b : Rat))
  | _ => none

def parseOutcome (s : String) : Option Outcome :=
  if s = "F" then some .failed
  else if s = "U" then some .unset
  else if s.startsWith "T" then (s.drop 1).toString.toInt?.map .timedOut
  else if s.startsWith "S" then (s.drop 1).toString.toInt?.map .succeeded
  else none

def showOutcome : Outcome → String
  | .failed => "F"
  | .unset => "U"
  | .timedOut d => s!"T{d}"
  | .succeeded d => s!"S{d}"

def parseClassList (s : String) : Option (List Nat) :=
  if s = "-" then some [] else (s.splitOn ",").mapM String.toNat?

def parseStored (s : String) : Option StoredProb :=
  if s = "NaN" then some .nan
  else if s = "+Inf" then some .posInf
  else if s = "-Inf" then some .negInf
  else (parseRat s).map .fin

def showStored : StoredProb → String
  | .nan => "NaN"
  | .posInf => "+Inf"
  | .negInf => "-Inf"
  | .fin q => showRat q

def parseClassEntry (s : String) : Option (Nat × PerClass) :=
  match s.splitOn ":" with
  | [sc, p, outs] => do
    let sc ← sc.toNat?
    let p ← parseStored p
    let os ← if outs = "" then some [] else (outs.splitOn ",").mapM parseOutcome
    some (sc, { execs := os, prob := p })
  | _ => none

def insertByKey (e : Nat × PerClass) : List (Nat × PerClass) → List (Nat × PerClass)
  | [] => [e]
  | x :: xs => if e.1 ≤ x.1 then e :: x :: xs else x :: insertByKey e xs

def sortByKey (m : ClassMap) : ClassMap := m.foldr insertByKey []

def showStats (s : Stats) : String :=
  -- an empty entry (created on the fly for an unseen size class) means the same as no entry
  let m := (sortByKey s.classes).filter (fun e => !(e.2.execs.isEmpty && e.2.prob == .fin 0))
  let lsf := match s.lastFailure with | none => "-" | some t => s!"{t}"
  let cls := m.map (fun e => s!"{e.1}:" ++ ",".intercalate (e.2.execs.map showOutcome))
  let sp := m.map (fun e => s!"{e.1}:{showStored e.2.prob}")
  "stats=" ++ "|".intercalate (s!"lsf={lsf}" :: cls) ++ " sp=" ++ (if sp.isEmpty then "-" else ",".intercalate sp)

def showRel : Option Bool → String
  | none => "-"
  | some false => "0"
  | some true => "1"

def learnerKind : Option Learner → String
  | none => "nil"
  | some (.smallerFg ..) => "smallerFg"
  | some (.largestFg ..) => "largestFg"
  | some (.largestBg ..) => "largestBg"
  | some (.smallerBg ..) => "smallerBg"
  | some (.onlyLargest ..) => "largest"
  | some (.fbSmaller ..) => "fbSmaller"
  | some .fbLargest => "fbLargest"

def showChoice (o : StepOut) (rels : List Bool) : String :=
  s!"idx={o.idx} exp={o.expected} to={o.timeout} learner={if o.next.isSome then 1 else 0} kind={learnerKind o.next} rel={showRel o.release} mut={if o.mutated then 1 else 0} nrel={rels.length} " ++ showStats o.stats

def statsOf (st : St) (key : Nat) : Stats := (lookupNat st.store key).getD {}

/-- Record the outcome of a call on request `rid`. -/
def commit (st : St) (rid : Nat) (rq : Req) (o : StepOut) : St × String :=
  let rels := rq.releases ++ o.release.toList
  let rq' : Req := { rq with pendingSelect := false, cur := o.next, releases := rels, mutated := rq.mutated || o.mutated }
  let st1 : St := { st with reqs := setNat st.reqs rid rq' }
  match o.release with
  | none => ({ st1 with store := setNat st.store rq.key o.stats }, showChoice o rels)
  | some d =>
    let users := (lookupNat st.live rq.key).getD 0 - 1
    let anyDirty := (lookupNat st.dirty rq.key).getD false || d
    if users = 0 then
      -- last handle: write back if dirty, then drop the in-memory copy
      let final := if anyDirty then o.stats else (lookupNat st.persist rq.key).getD {}
      ({ st1 with store := setNat st.store rq.key final, persist := setNat st.persist rq.key final,
                  live := setNat st.live rq.key 0, dirty := setNat st.dirty rq.key false },
       showChoice { o with stats := final } rels)
    else
      ({ st1 with store := setNat st.store rq.key o.stats, live := setNat st.live rq.key users,
                  dirty := setNat st.dirty rq.key anyDirty }, showChoice o rels)

def step (st : St) (ws : List String) : St × String :=
  match ws with
  | ["cfg", kind, cname, hist, fcd, minTO, e, mnum, mden, epsn, epsd, fuel, dflt, maxTO] =>
    match hist.toNat?, fcd.toInt?, minTO.toInt?, e.toNat?, mnum.toNat?, mden.toNat?, epsn.toInt?, epsd.toNat?,
          fuel.toNat?, dflt.toInt?, maxTO.toInt? with
    | some hist, some fcd, some minTO, some e, some mnum, some mden, some epsn, some epsd, some fuel, some dflt, some maxTO =>
      if (kind ≠ "fb" ∧ kind ≠ "fd") ∨ (cname ≠ "pr" ∧ cname ≠ "small") ∨ mnum = 0 ∨ mden = 0 ∨ epsd = 0 then (st, "bad-op")
      else
        let c : Calc := if cname = "pr" then
            .pageRank { F := exactOps e mnum mden, minTO, eps := (epsn : Rat) / (epsd : Rat), fuel }
          else .smallest
        ({ fallback := kind = "fb", env := { calculator := c, historySize := hist, failureCacheDuration := fcd },
           defaultTO := dflt, maxTO := maxTO }, "ok")
    | _, _, _, _, _, _, _, _, _, _, _ => (st, "bad-op")
  | "stats" :: key :: lsf :: entries =>
    match key.toNat?, (if lsf = "-" then some none else lsf.toInt?.map some), entries.mapM parseClassEntry with
    | some key, some lsf, some cls =>
      if (lookupNat st.live key).getD 0 ≠ 0 then (st, "bad-op")
      else
        ({ st with store := setNat st.store key { classes := cls, lastFailure := lsf },
                   persist := setNat st.persist key { classes := cls, lastFailure := lsf } }, "ok")
    | _, _, _ => (st, "bad-op")
  | "analyze" :: rid :: key :: rest =>
    let parsed : Option (ActionTimeout × Bool) := match rest with
      | ["unset", g] => if g = "ok" then some (.unset, true) else if g = "err" then some (.unset, false) else none
      | [s, n, g] => do
        let s ← s.toInt?; let n ← n.toInt?
        if g = "ok" then some (.set s n, true) else if g = "err" then some (.set s n, false) else none
      | _ => none
    match rid.toNat?, key.toNat?, parsed with
    | some rid, some key, some (tmo, getOk) =>
      if (lookupNat st.reqs rid).isSome then (st, "bad-op")
      else
        match extractTimeout st.defaultTO st.maxTO tmo with
        | none => (st, s!"err what=timeout gets={st.gets}")
        | some t =>
          if st.fallback then
            ({ st with reqs := setNat st.reqs rid { key, origTO := t, pendingSelect := true, cur := none, releases := [], mutated := false } },
             s!"sel to={t} gets={st.gets}")
          else if !getOk then ({ st with gets := st.gets + 1 }, s!"err what=get gets={st.gets + 1}")
          else
            ({ st with gets := st.gets + 1, live := setNat st.live key ((lookupNat st.live key).getD 0 + 1),
                       reqs := setNat st.reqs rid { key, origTO := t, pendingSelect := true, cur := none, releases := [], mutated := false } },
             s!"sel to={t} gets={st.gets + 1}")
    | _, _, _ => (st, "bad-op")
  | ["select", rid, now, r, classes] =>
    match rid.toNat?, now.toInt?, parseRat r, parseClassList classes with
    | some rid, some now, some r, some classes =>
      match lookupNat st.reqs rid with
      | some rq =>
        if !rq.pendingSelect then (st, "bad-op")
        else if st.fallback then
          let (st', line) := commit st rid rq (selectFallback (statsOf st rq.key) rq.origTO classes)
          (st', line ++ " drew=0 iters=0 margin=2 cmargin=2 probs=- bgs=- tos=-")
        else
          match selectFD st.env (statsOf st rq.key) rq.origTO classes now r with
          | none => (st, "panic")
          | some so =>
            let (st', line) := commit st rid rq so.out
            let probs := ",".intercalate (so.strategies.map (fun s => showRat s.prob))
            let bgs := ",".intercalate (so.strategies.map (fun s => if s.background then "1" else "0"))
            let tos := ",".intercalate (so.strategies.map (fun s => s!"{s.fgTimeout}"))
            let dash (s : String) := if s = "" then "-" else s
            let cm : Rat := match st.env.calculator with
              | .pageRank c =>
                if useStrategies st.env (statsOf st rq.key) now then
                  pageRankConvMargin c (statsOf st rq.key).classes classes rq.origTO
                else 2
              | .smallest => 2
            (st', line ++ s!" drew={if so.drew then 1 else 0} iters={so.iterations} margin={showRat (pickMargin so.strategies r)} cmargin={showRat cm} probs={dash probs} bgs={dash bgs} tos={dash tos}")
      | none => (st, "bad-op")
    | _, _, _, _ => (st, "bad-op")
  | ["sabandon", rid] =>
    match rid.toNat? with
    | some rid =>
      match lookupNat st.reqs rid with
      | some rq =>
        if !rq.pendingSelect then (st, "bad-op")
        else if st.fallback then commit st rid rq { stats := statsOf st rq.key }
        else commit st rid rq (selectorAbandoned (statsOf st rq.key))
      | none => (st, "bad-op")
    | none => (st, "bad-op")
  | ["succ", rid, d, classes] =>
    match rid.toNat?, d.toInt?, parseClassList classes with
    | some rid, some d, some classes =>
      match lookupNat st.reqs rid with
      | some rq =>
        match rq.cur with
        | some l =>
          match l.succeeded st.env (statsOf st rq.key) d classes with
          | some o => commit st rid rq o
          | none => ({ st with reqs := setNat st.reqs rid { rq with cur := none } }, "panic")
        | none => (st, "bad-op")
      | none => (st, "bad-op")
    | _, _, _ => (st, "bad-op")
  | ["fail", rid, t, now] =>
    match rid.toNat?, t.toNat?, now.toInt? with
    | some rid, some t, some now =>
      match lookupNat st.reqs rid with
      | some rq =>
        match rq.cur with
        | some l => commit st rid rq (l.failed st.env (statsOf st rq.key) (t != 0) now)
        | none => (st, "bad-op")
      | none => (st, "bad-op")
    | _, _, _ => (st, "bad-op")
  | ["aband", rid] =>
    match rid.toNat? with
    | some rid =>
      match lookupNat st.reqs rid with
      | some rq =>
        match rq.cur with
        | some l => commit st rid rq (l.abandoned (statsOf st rq.key))
        | none => (st, "bad-op")
      | none => (st, "bad-op")
    | none => (st, "bad-op")
  | ["isfaster", fa, fb, a, b] =>
    let parseInts (x : String) : Option (List Int) := if x = "-" then some [] else (x.splitOn ",").mapM String.toInt?
    match fa.toNat?, fb.toNat?, parseInts a, parseInts b with
    | some fa, some fb, some a, some b =>
      (st, s!"isf={showRat (isFaster (newOutcomes a fa) (newOutcomes b fb))} isr={showRat (isFaster (newOutcomes b fb) (newOutcomes a fa))}")
    | _, _, _, _ => (st, "bad-op")
  | ["dump", key] =>
    match key.toNat? with
    | some key => (st, showStats (statsOf st key))
    | none => (st, "bad-op")
  | _ => (st, "bad-op")

end BbRe.Drivers.ISC

def main (_args : List String) : IO UInt32 := do
  BbRe.Drivers.runLoop ({} : BbRe.Drivers.ISC.St) BbRe.Drivers.ISC.step
  return 0
