import BbRe.Model.LockRange
import BbRe.Model.BRL
import BbRe.Drivers.Util
/-!
Line-protocol driver of `Model/LockRange.lean` (C20, NFS layer).

  conv <offset> <length>      -> st=<nfsstat4> | <start> <end>      (st=22 INVAL, st=10042 BAD_RANGE)
  legacyconv <offset> <length> -> inval | <start> <end>                (the conversion before 3d4b513)
  denied <start> <end>        -> <offset> <length>
  unlockall                   -> <start> <end>
-/
namespace BbRe.Drivers.LockRange
open BbRe.LockRange BbRe.Drivers

def step (s : Unit) (ws : List String) : Unit × String :=
  match ws with
  | ["conv", o, l] =>
    match o.toNat?, l.toNat? with
    | some o, some l =>
      (s, match offsetLengthToStartEnd o l with
          | .error st => s!"st={st}"
          | .ok (a, b) => s!"{a} {b}")
    | _, _ => (s, "bad-op")
  | ["legacyconv", o, l] =>
    match o.toNat?, l.toNat? with
    | some o, some l =>
      (s, match legacyOffsetLengthToStartEnd o l with
          | none => "inval"
          | some (a, b) => s!"{a} {b}")
    | _, _ => (s, "bad-op")
  | ["denied", a, b] =>
    match a.toNat?, b.toNat? with
    | some a, some b => let d := toDenied a b; (s, s!"{d.1} {d.2}")
    | _, _ => (s, "bad-op")
  | ["unlockall"] => (s, s!"{unlockAllRange.1} {unlockAllRange.2}")
  | _ => (s, "bad-op")

end BbRe.Drivers.LockRange

def main (_args : List String) : IO UInt32 := do
  BbRe.Drivers.runLoop () BbRe.Drivers.LockRange.step
  return 0
