import BbRe.Model.Bitmap
import BbRe.Drivers.Util
/-! Line-protocol driver for `Model/Bitmap.lean`.

ops:
* `new n`                → `ok`
* `alloc max`            → `<first> <count>` | `exhausted`
* `freec first count`    → `ok` | `panic`   (state unchanged on panic; the harness ends the history)
* `freel s1 s2 …`        → `ok` | `panic`
* `free`                 → `[s1,s2,…]` the free sectors (1-based) according to the model
-/
namespace BbRe.Drivers.Bitmap
open BbRe.Bitmap BbRe.Drivers

abbrev St := Nat × State

def step (s : St) (ws : List String) : St × String :=
  match ws with
  | ["new", n] =>
    match n.toNat? with
    | some n => ((n, new n), "ok")
    | none => (s, "bad-op")
  | ["alloc", m] =>
    match m.toNat? with
    | some m =>
      let r := alloc s.2 m
      ((s.1, r.1), match r.2 with | some (f, c) => s!"{f} {c}" | none => "exhausted")
    | none => (s, "bad-op")
  | ["freec", f, c] =>
    match f.toNat?, c.toNat? with
    | some f, some c =>
      match freeContiguous s.2 f c with
      | some st => ((s.1, st), "ok")
      | none => (s, "panic")
    | _, _ => (s, "bad-op")
  | "freel" :: rest =>
    match natList rest with
    | some l =>
      match freeList s.2 l with
      | some st => ((s.1, st), "ok")
      | none => (s, "panic")
    | none => (s, "bad-op")
  | ["free"] => (s, "[" ++ ",".intercalate ((freeSectors s.2 s.1).map toString) ++ "]")
  | _ => (s, "bad-op")

end BbRe.Drivers.Bitmap

def main (_args : List String) : IO UInt32 := do
  BbRe.Drivers.runLoop ((0, BbRe.Bitmap.new 0) : BbRe.Drivers.Bitmap.St) BbRe.Drivers.Bitmap.step
  return 0
