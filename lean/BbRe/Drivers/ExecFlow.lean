import BbRe.Model.ExecFlow
import BbRe.Drivers.Util
/-!
Line-protocol driver for `Model/ExecFlow.lean` (control flow of `localBuildExecutor.Execute`;
C10/C11/C12 executor part), used by `harness/cmd/localexec`.

ops (times in the harness's tick, ms):
* `flow timeout maxSusp uploadDelay consumer prep tok…`
      `tok` = `r<d>` (run segment), `s<d>` (stall segment), `l<d>` (an uploaded file whose last writing
      descriptor is closed `d` after the command's exit), in order
   -> `acceptFetching acceptRunning budgetStart killed unsusp wall completed runEnd acceptUploading delayStart complete finish`
      (`killed` 0/1, `complete` a string of 0/1 per `l` token, `-` when there is none)
* `world`                        -> `ok`      a new worker: no directories, counter 0
* `get dnc digest16 observed`    -> `ok` | `bad <what the model expected>`
      an action (do_not_cache = `dnc`) was handed the build directory `observed`.  The order in which
      concurrent threads draw from `nextParallelActionID` is not observable, so for a numbered directory
      the observed number is the oracle: it must be a decimal numeral ≥ 1 that was not drawn before, and
      `Dirs.get` with the counter at that value must hand out exactly that name.
* `getfail dnc digest16`         -> `ok` if `Dirs.get` refuses the request in the current state (name taken),
                                    `bad …` if the model hands out a directory
* `done observed`                -> `ok`      the action holding `observed` closes it
* `end n`                        -> `ok` | `bad …`   `n` numbered directories were requested in this world:
                                    the numbers drawn are exactly 1..n
-/
namespace BbRe.Drivers.ExecFlow
open BbRe.ExecFlow BbRe.Drivers

structure DS where
  dirs   : Dirs := Dirs.init
  issued : List Nat := []

def parseToks : List String → Option (List Seg × List Nat)
  | [] => some ([], [])
  | w :: rest => do
    let (segs, ls) ← parseToks rest
    let n ← (w.drop 1).toNat?
    if w.startsWith "r" then some (.run n :: segs, ls)
    else if w.startsWith "s" then some (.stall n :: segs, ls)
    else if w.startsWith "l" then some (segs, n :: ls)
    else none

def b01 (b : Bool) : String := if b then "1" else "0"

def showTrace (t : Trace) : String :=
  let c := if t.complete.isEmpty then "-" else String.join (t.complete.map b01)
  s!"{t.acceptFetching} {t.acceptRunning} {t.budgetStart} {b01 t.run.killed} {t.run.unsusp} {t.run.wall} {t.run.completed} {t.runEnd} {t.acceptUploading} {t.delayStart} {c} {t.finish}"

def getOracle (s : DS) (r : Req) (obs : String) : Option DS :=
  match request r with
  | none =>
    match obs.toNat? with
    | some k =>
      if k = 0 ∨ k ∈ s.issued then none
      else
        let res := ({ s.dirs with next := k - 1 }).get r
        if res.2 = some obs then some { dirs := { res.1 with next := max s.dirs.next k }, issued := k :: s.issued }
        else none
    | none => none
  | some _ =>
    let res := s.dirs.get r
    if res.2 = some obs then some { s with dirs := res.1 } else none

def expectName (s : DS) (r : Req) : String :=
  match (s.dirs.get r).2 with
  | some n => if r.doNotCache then "a-fresh-number" else n
  | none => "refusal"

def step (s : DS) (ws : List String) : DS × String :=
  match ws with
  | "flow" :: rest =>
    match natList (rest.take 5), parseToks (rest.drop 5) with
    | some [t, m, d, c, p], some (segs, ls) =>
      (s, showTrace (execute { timeout := t, maxSusp := m, uploadDelay := d, consumer := c, prep := p, script := segs, lingers := ls }))
    | _, _ => (s, "bad-op")
  | ["world"] => ({}, "ok")
  | ["get", dnc, dg, obs] =>
    if dnc ≠ "0" ∧ dnc ≠ "1" then (s, "bad-op") else
    let r : Req := ⟨dnc = "1", dg⟩
    match getOracle s r obs with
    | some s' => (s', "ok")
    | none => (s, "bad expected " ++ expectName s r)
  | ["getfail", dnc, dg] =>
    if dnc ≠ "0" ∧ dnc ≠ "1" then (s, "bad-op") else
    let r : Req := ⟨dnc = "1", dg⟩
    match (s.dirs.get r).2 with
    | none => (s, "ok")
    | some _ => (s, "bad expected " ++ expectName s r)
  | ["done", obs] => ({ s with dirs := s.dirs.finish obs }, "ok")
  | ["end", n] =>
    match n.toNat? with
    | some k =>
      if s.issued.length = k ∧ s.issued.all (· ≤ k) then (s, "ok")
      else (s, s!"bad numbers-drawn {s.issued.reverse}")
    | none => (s, "bad-op")
  | _ => (s, "bad-op")

end BbRe.Drivers.ExecFlow

def main (_ : List String) : IO UInt32 := do
  BbRe.Drivers.runLoop ({} : BbRe.Drivers.ExecFlow.DS) BbRe.Drivers.ExecFlow.step
  return 0
