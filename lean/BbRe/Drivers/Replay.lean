import BbRe.Model.Replay41
import BbRe.Model.Replay40
import BbRe.Drivers.Util
/-! Line-protocol driver of the NFSv4 replay models (C19).

NFSv4.1 ops (`41 ...`):
* `41 cfg <maxOps> <nslots> <legacy 0|1> <legacyJoin 0|1>`                      -> `ok` (also resets)
* `41 exch <client> <ver> <obs>`                              -> `inc <k> <confirmed 0|1> <seq>`
* `41 cs <inc> <seq>`                                         -> `created <sid>` | `cached <sid>` | `cached-misordered` | `misordered` | `stale` | `delay`
* `41 destroy <sid>`                                          -> `ok` | `badsession`
* `41 arrive <call> <sess> <slot> <seq> <cache 0|1> <cid> <ops...>` -> `reply <cres>` | `started` | `parked`
* `41 finish <sess> <slot> <status> <b> <resops...>`          -> `deliver <call>=<cres> ...` | `bad-op`
* `41 execs`                                                  -> the execution log `call:sess:slot:seq:cid ...`
where `<cres>` = `<status>/<body>/<resops joined by ,>` and body = `e<code>` | `f<b>` | `u<b>`.
-/
namespace BbRe.Drivers.Replay
open BbRe.Drivers

structure St where
  s41 : BbRe.Replay41.State := {}
  s40 : BbRe.Replay40.State := {}

namespace R41
open BbRe.Replay41

def showBody : Body → String
  | .seqErr c => s!"e{c}"
  | .full b => s!"f{b}"
  | .uncached b => s!"u{b}"

def showCRes (r : CRes) : String :=
  s!"{r.status}/{showBody r.body}/{",".intercalate (r.resops.map toString)}"

def b01 : String → Option Bool
  | "0" => some false | "1" => some true | _ => none

def step (s : State) (ws : List String) : State × String :=
  match ws with
  | ["cfg", a, b, c, d] =>
    match a.toNat?, b.toNat?, b01 c, b01 d with
    | some a, some b, some c, some d => (init a b c d, "ok")
    | _, _, _, _ => (s, "bad-op")
  | ["exch", c, v, o] =>
    match c.toNat?, v.toNat?, o.toNat? with
    | some c, some v, some o =>
      let r := exchangeId s c v o
      (r.1, s!"inc {r.2.1} {if r.2.2.1 then 1 else 0} {r.2.2.2}")
    | _, _, _ => (s, "bad-op")
  | ["cs", k, q] =>
    match k.toNat?, q.toNat? with
    | some k, some q =>
      let r := createSession s k q
      (r.1, match r.2 with
        | .created sid => s!"created {sid}"
        | .cached (some sid) => s!"cached {sid}"
        | .cached none => "cached-misordered"
        | .misordered => "misordered"
        | .stale => "stale"
        | .delay => "delay")
    | _, _ => (s, "bad-op")
  | ["destroy", k] =>
    match k.toNat? with
    | some k => let r := destroySession s k; (r.1, if r.2 then "ok" else "badsession")
    | none => (s, "bad-op")
  | "arrive" :: call :: sess :: slot :: seq :: cache :: cid :: ops =>
    match call.toNat?, sess.toNat?, slot.toNat?, seq.toNat?, b01 cache, cid.toNat?, natList ops with
    | some call, some sess, some slot, some seq, some cache, some cid, some ops =>
      let r := arrive s call ⟨sess, slot, seq, ops, cache, cid⟩
      (r.1, match r.2 with
        | .reply c => "reply " ++ showCRes c
        | .started => "started"
        | .parked => "parked")
    | _, _, _, _, _, _, _ => (s, "bad-op")
  | "finish" :: sess :: slot :: status :: b :: resops =>
    match sess.toNat?, slot.toNat?, status.toNat?, b.toNat?, natList resops with
    | some sess, some slot, some status, some b, some resops =>
      let r := finish s sess slot ⟨status, resops, b⟩
      if r.2.isEmpty then (s, "bad-op")
      else (r.1, "deliver " ++ joinSp (r.2.map (fun d => s!"{d.1}={showCRes d.2}")))
    | _, _, _, _, _ => (s, "bad-op")
  | ["execs"] =>
    (s, "execs " ++ joinSp (s.execs.map (fun e => s!"{e.1}:{e.2.sess}:{e.2.slot}:{e.2.seq}:{e.2.cid}")))
  | _ => (s, "bad-op")

end R41

/-! NFSv4.0 ops (`40 ...`), kinds: 0 OPEN, 1 OPEN_CONFIRM, 2 OPEN_DOWNGRADE, 3 CLOSE, 4 LOCK, 5 LOCKU;
a response is `<kind>/<status>/<sid>/<body>` with sid = `<other>.<seqid>` or a dash:
* `40 reset`                                                             -> `ok`
* `40 should <status>`                                                   -> `1` | `0` (transactionShouldComplete)
* `40 arrive <call> <kind> <owner> <other> <argSeq> <seq> <cid>`         -> `reply c:<resp> fh=<other|->` | `reply e:<code> fh=-` | `started <owner>` | `waiting <owner>`
* `40 finish <owner> <kind> <status> <other|-> <seqid> <body> <lockOwner> <lockSeq> <reached 0|1>` -> `done <call> <reply> fh=<other|-> woken <c,...>` | `bad-op` (fh: the file OPEN made the current filehandle)
* `40 locktx <kind> <other> <argSeq> <seq> <xkind> <xstatus> <xother|-> <xseqid> <xbody>` -> `reply ... exec=<0|1>`
-/
namespace R40
open BbRe.Replay40

def kindOfNat : Nat → Option Kind
  | 0 => some .open_ | 1 => some .openConfirm | 2 => some .openDowngrade | 3 => some .close
  | 4 => some .lock | 5 => some .locku | _ => none
def kindToNat : Kind → Nat
  | .open_ => 0 | .openConfirm => 1 | .openDowngrade => 2 | .close => 3 | .lock => 4 | .locku => 5

def showResp (r : Resp) : String :=
  let sid := match r.sid with | some (o, q) => s!"{o}.{q}" | none => "-"
  s!"{kindToNat r.kind}/{r.status}/{sid}/{r.body}"

def showReply : Reply → String
  | .cached r => "c:" ++ showResp r
  | .err c => s!"e:{c}"

def parseResp (k st o q b : String) : Option Resp := do
  let k ← kindOfNat (← k.toNat?)
  let st ← st.toNat?
  let q ← q.toNat?
  let b ← b.toNat?
  let sid ← (if o == "-" then some none else (o.toNat?).map (fun o => some (o, q)))
  some ⟨k, st, sid, b⟩

def step (s : State) (ws : List String) : State × String :=
  match ws with
  | ["reset"] => ({}, "ok")
  | ["should", st] =>
    match st.toNat? with
    | some st => (s, if shouldComplete st then "1" else "0")
    | none => (s, "bad-op")
  | ["arrive", call, k, owner, other, argSeq, seq, cid] =>
    match call.toNat?, k.toNat?.bind kindOfNat, owner.toNat?, other.toNat?, argSeq.toNat?, seq.toNat?, cid.toNat? with
    | some call, some k, some owner, some other, some argSeq, some seq, some cid =>
      let r : Req := ⟨k, owner, other, argSeq, seq, cid⟩
      let res := arrive s call r
      let o := match resolve s r with | some o => toString o | none => "-"
      let fh := match arriveFH s call r with | some f => toString f | none => "-"
      (res.1, match res.2 with
        | .reply rep => "reply " ++ showReply rep ++ " fh=" ++ fh
        | .started => "started " ++ o
        | .waiting => "waiting " ++ o)
    | _, _, _, _, _, _, _ => (s, "bad-op")
  | ["finish", owner, k, st, o, q, b, lk, lq, reached] =>
    match owner.toNat?, parseResp k st o q b, lk.toNat?, lq.toNat?, reached.toNat? with
    | some owner, some resp, some lk, some lq, some reached =>
      let res := finish s owner ⟨resp, lk, lq, reached != 0⟩
      match res.2.1 with
      | some (call, rep) =>
        let fh := match (s.oo owner).busy with
          | some (_, r) => (match finishFH r (effResp s r ⟨resp, lk, lq, reached != 0⟩) with | some f => toString f | none => "-")
          | none => "-"
        (res.1, s!"done {call} {showReply rep} fh={fh} woken {",".intercalate (res.2.2.map toString)}")
      | none => (s, "bad-op")
    | _, _, _, _, _ => (s, "bad-op")
  | ["locktx", k, other, argSeq, seq, xk, xst, xo, xq, xb] =>
    match k.toNat?.bind kindOfNat, other.toNat?, argSeq.toNat?, seq.toNat?, parseResp xk xst xo xq xb with
    | some k, some other, some argSeq, some seq, some x =>
      let res := lockTx s ⟨k, other, argSeq, seq⟩ x
      (res.1, s!"reply {showReply res.2.1} exec={if res.2.2 then 1 else 0}")
    | _, _, _, _, _ => (s, "bad-op")
  | _ => (s, "bad-op")

end R40

def step (st : St) (ws : List String) : St × String :=
  match ws with
  | "41" :: rest => let r := R41.step st.s41 rest; ({ st with s41 := r.1 }, r.2)
  | "40" :: rest => let r := R40.step st.s40 rest; ({ st with s40 := r.1 }, r.2)
  | ["reset"] => ({}, "ok")
  | _ => (st, "bad-op")

end BbRe.Drivers.Replay

def main (_args : List String) : IO UInt32 := do
  BbRe.Drivers.runLoop ({} : BbRe.Drivers.Replay.St) BbRe.Drivers.Replay.step
  return 0
