import BbRe.Model.NfsState
import BbRe.Drivers.Util
/-!
Line-protocol driver of `Model/NfsState.lean` (C18, C20 NFS layer).

  init <ver 40|41> <nfiles>          -> ok
  <op> <nat args…>                   -> <reply of the segment> | eff=<leaf events> [| panic=<msg>]
  dump                               -> canonical abstract state
  ledger                             -> per (leaf,bit): opens, closes, held

Op names are the constructors of `BbRe.NfsState.Op`.
-/
namespace BbRe.Drivers.NfsState
open BbRe.NfsState BbRe.NfsShare BbRe.Drivers

def parseOp (name : String) (a : List Nat) : Option Op :=
  match name, a with
  | "tick", [d] => some (.tick d)
  | "setclientid", [l, v] => some (.setclientid l v)
  | "confirm", [c] => some (.confirm c)
  | "destroySession", [c, k] => some (.destroySession c k)
  | "destroyClient", [c] => some (.destroyClient c)
  | "renew", [c] => some (.renew c)
  | "seqBegin", [t, c, k] => some (.seqBegin t c k)
  | "seqEnd", [t] => some (.seqEnd t)
  | "open40a", [t, c, k, s, acc, deny, how, claim, fh, name] => some (.open40a t c k s acc deny how claim fh name)
  | "open40b", [t] => some (.open40b t)
  | "open40c", [t] => some (.open40c t)
  | "open41a", [t, q, k, acc, deny, how, claim, fh, name, chk] => some (.open41a t q k acc deny how claim fh name chk)
  | "open41b", [t] => some (.open41b t)
  | "openConfirm", [sid, ss, fh, os] => some (.openConfirm sid ss fh os)
  | "downgrade", [q, sid, ss, fh, os, acc, deny] => some (.downgrade q sid ss fh os acc deny)
  | "close", [q, sid, ss, fh, os] => some (.close q sid ss fh os)
  | "lockNew", [q, sid, ss, fh, os, lcl, lk, ls, ty, off, len] => some (.lockNew q sid ss fh os lcl lk ls ty off len)
  | "lockOld", [q, sid, ss, fh, ls, ty, off, len] => some (.lockOld q sid ss fh ls ty off len)
  | "lockt", [q, c, lk, fh, ty, off, len] => some (.lockt q c lk fh ty off len)
  | "locku", [q, sid, ss, fh, ls, off, len] => some (.locku q sid ss fh ls off len)
  | "releaseLockOwner", [c, lk] => some (.releaseLockOwner c lk)
  | "freeStateid", [q, sid, ss] => some (.freeStateid q sid ss)
  | "ioA", [t, q, sid, ss, fh, kind] => some (.ioA t q sid ss fh kind)
  | "ioB", [t] => some (.ioB t 0)
  | "ioB", [t, fault] => some (.ioB t fault)
  | "putfh", [fh] => some (.putfh fh)
  | "unlink", [d, n] => some (.unlink d n)
  | _, _ => none

def b01 (b : Bool) : Nat := if b then 1 else 0

def evStr : Ev → String
  | .openEv leaf m c t => s!"o:{leaf}:{m.toNat}:{b01 c}:{b01 t}"
  | .closeEv leaf m => s!"c:{leaf}:{m.toNat}"

def isClose : Ev → Bool
  | .closeEv _ _ => true
  | _ => false

def insertSorted (x : String) : List String → List String
  | [] => [x]
  | y :: ys => if x ≤ y then x :: y :: ys else y :: insertSorted x ys

def sortStrings (xs : List String) : List String := xs.foldl (fun acc x => insertSorted x acc) []

/-- Render events; every maximal run of closes is sorted (one `leavesToClose`
batch is closed in Go map iteration order). -/
def renderEvents (evs : List Ev) : String :=
  let rec go (evs : List Ev) (run : List String) (acc : List String) : List String :=
    match evs with
    | [] => acc ++ sortStrings run
    | e :: rest =>
      if isClose e then go rest (evStr e :: run) acc
      else go rest [] (acc ++ sortStrings run ++ [evStr e])
  ",".intercalate (go evs [] [])

def loName (s : State) (id : Nat) : String :=
  match s.lowners.find? (fun l => l.id == id) with
  | some l => s!"{l.key}@{l.cl}"
  | none => "?"

def tyNat : BRL.Ty → Nat
  | .unlocked => 0 | .excl => 1 | .shared => 2

def dump (s : State) : String :=
  let head := s!"now={s.now};idle={",".intercalate (s.idle.map toString)};unused={",".intercalate (s.proto.unused.map (fun u => s!"{u.1}.{u.2}"))}"
  let cs := s.clients.map fun c =>
    s!"C {c.id} long={c.long} ver={c.ver} conf={b01 c.confirmed} hold={c.hold} seen={if c.hold == 0 then toString c.lastSeen else "-"} sess={c.sessions.length}"
  let os := s.oowners.map fun o =>
    let closed := match o.resp with | some (_, _, _, _, some _) => 1 | _ => 0
    let un := s.proto.unused.any (fun u => u.1 == o.cl && u.2 == o.key)
    s!"O {o.cl} {o.key} conf={b01 o.confirmed} lastseq={o.lastSeq} resp={b01 o.resp.isSome} closed={closed} tx={b01 o.tx} used={if un then toString o.lastUsed else "-"}"
  let fs := (s.files.filter (·.live)).map fun f =>
    let ls := sortStrings (f.lofs.map fun l => s!"[L {l.sid} lo={loName s l.lo} sh={l.share.toNat} cnt={l.lockCount} seq={seqOf s l.sid}]")
    s!"F {f.sid} cl={f.cl} o={f.owner} f={f.file} sh={f.share.toNat} r={f.count.readers} w={f.count.writers} seq={seqOf s f.sid}{"".intercalate ls}"
  let ls := s.lowners.map fun l =>
    let n := (s.files.map (fun f => (f.lofs.filter (fun x => x.lo == l.id)).length)).foldl (· + ·) 0
    s!"W {l.key}@{l.cl} nfiles={n} lastseq={l.lastSeq} resp={b01 l.resp.isSome}"
  let ps := s.pool.map fun e =>
    s!"P {e.file} use={e.useCount} locks={",".intercalate (e.locks.map fun k => s!"{k.start}:{k.stop}:{loName s k.owner}:{tyNat k.ty}")}"
  " ## ".intercalate (head :: (sortStrings cs ++ sortStrings os ++ sortStrings fs ++ sortStrings ls ++ sortStrings ps))

def countEv (log : List Ev) (leaf : Nat) (bit opens : Bool) : Nat :=
  log.countP fun e => match e with
    | .openEv l m _ _ => opens && l == leaf && m.get bit
    | .closeEv l m => !opens && l == leaf && m.get bit

def ledger (s : State) : String :=
  let leaves := (s.log.map fun e => match e with | .openEv l _ _ _ => l | .closeEv l _ => l).eraseDups
  let items := leaves.flatMap fun l => [false, true].map fun b =>
    let held := s.files.countP (fun f => f.file == l && decide (0 < f.count.get b))
      + s.pend.countP (fun p => p.2.1 == l && p.2.2.get b) + s.temps.countP (fun t => t.leaf == l && t.share.get b)
    s!"{l}.{b01 b}:{countEv s.log l b true}-{countEv s.log l b false}={held}"
  " ".intercalate items

def step (s : State) (ws : List String) : State × String :=
  match ws with
  | ["init", v, n] =>
    match v.toNat?, n.toNat? with
    | some v, some n => (init v n, "ok")
    | _, _ => (s, "bad-op")
  | ["dump"] => (s, dump s)
  | ["ledger"] => (s, ledger s)
  | name :: args =>
    match natList args with
    | none => (s, "bad-op")
    | some a =>
      match parseOp name a with
      | none => (s, "bad-op")
      | some op =>
        let r := BbRe.NfsState.step s op
        let s' := r.1
        let evs := s'.log.drop s.log.length
        let out := r.2 ++ " | eff=" ++ renderEvents evs ++
          (match s'.panic with | some m => " | panic=" ++ m | none => "")
        -- the ghost log is only needed for the delta: keep the state small
        (s', out)
  | _ => (s, "bad-op")

end BbRe.Drivers.NfsState

def main (_args : List String) : IO UInt32 := do
  BbRe.Drivers.runLoop (BbRe.NfsState.init 41 0) BbRe.Drivers.NfsState.step
  return 0
