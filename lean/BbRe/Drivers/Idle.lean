import BbRe.Model.Idle
import BbRe.Model.BuildDirs
import BbRe.Drivers.Util
/-!
Line-protocol driver for `Model/Idle.lean` and `Model/BuildDirs.lean` (C12).

Idle ops (answer: `<ret> | <dump>` or `disabled`):
  `acq t` `wake t` `cancel t` `done t ok|err` `rel t`
  where `<ret>` is `-` or `t:ok|err|cancelled` (the call that returned in this segment)
  and `<dump>` is `u=<useCount> w=<0|1> p=<0|1> pcs=t:pc,...` (threads seen so far, ascending).
`chain o1 .. ok` answers `<result> <invoked>` of `NewChainedCleaner` (0 = nil).
`runres e1 e2` answers the result class of `cleanRunner.Run`.
BuildDirs ops (answer: `<token> | <dump>` or `disabled`):
  `dbegin t <name|->` `dname t` `dmkdir t f` `denter t f` `drmdir t f` `dwrite t file`
  `dcc t e1` `dra t f` `drel t` `dfin t relErr` `dclean ok|err`
`reset`, `dump`, `idump`, `ddump`; `isave` / `irestore` snapshot and restore the Idle state (the
harness looks for an order of the wake-ups of one segment that explains what it observed).
-/
namespace BbRe.Drivers.Idle
open BbRe.Drivers

structure St where
  idle : BbRe.Idle.State
  dirs : BbRe.BuildDirs.State
  seen : List Nat
  saved : BbRe.Idle.State   -- `isave` / `irestore`: the harness may try several orders of one segment

def init : St := ⟨BbRe.Idle.init, BbRe.BuildDirs.init, [], BbRe.Idle.init⟩

def insertSorted (t : Nat) : List Nat → List Nat
  | [] => [t]
  | x :: xs => if t < x then t :: x :: xs else if t = x then x :: xs else x :: insertSorted t xs

def pcTok : BbRe.Idle.PC → String
  | .out => "out" | .waiting _ => "wait" | .cleanAcq => "cleanA" | .inUse => "in" | .cleanRel => "cleanR"

def resTok : BbRe.Idle.Res → String
  | .ok => "ok" | .err => "err" | .cancelled => "cancelled"

def idleDump (s : St) : String :=
  let i := s.idle
  let pcs := s.seen.map (fun t => s!"{t}:{pcTok (i.pc t)}")
  s!"u={i.useCount} w={if i.wakeup.isSome then 1 else 0} p={if i.panicked then 1 else 0} pcs={",".intercalate pcs}"

def dpcTok : BbRe.BuildDirs.DPC → String
  | .idle => "idle" | .acquired _ => "acquired" | .named n => s!"named:{n}" | .made n => s!"made:{n}"
  | .enterFailed n => s!"efail:{n}" | .holding n => s!"hold:{n}" | .closing n _ => s!"closing:{n}"
  | .finishing _ _ => "fin" | .releasing _ _ => "rel"

def dresTok : BbRe.BuildDirs.Res → String
  | .ok => "ok" | .internal => "internal" | .childErr => "childErr" | .cleanErr => "cleanErr"

def dirsDump (s : St) : String :=
  let d := s.dirs
  let root := d.root.mergeSort (fun a b => !(b.1 < a.1))
  let ents := root.map (fun e =>
    s!"{e.1}:{".".intercalate ((e.2.mergeSort (fun a b => a ≤ b)).map toString)}")
  let pcs := s.seen.map (fun t => s!"{t}:{dpcTok (d.pc t)}")
  s!"next={d.next} active={d.active} root={",".intercalate ents} pcs={",".intercalate pcs}"

def boolTok? : String → Option Bool
  | "ok" => some true | "err" => some false | _ => none
def flag? : String → Option Bool
  | "1" => some true | "0" => some false | _ => none

def idleStep (s : St) (t : Nat) (op : BbRe.Idle.Op) : St × String :=
  let s := { s with seen := insertSorted t s.seen }
  match BbRe.Idle.step s.idle op with
  | none => (s, "disabled")
  | some i' =>
    let r := match BbRe.Idle.ret s.idle op with
      | none => "-"
      | some (t, r) => s!"{t}:{resTok r}"
    let s' := { s with idle := i' }
    (s', s!"{r} | {idleDump s'}")

def dirStep (s : St) (t : Option Nat) (op : BbRe.BuildDirs.Op) (tok : BbRe.BuildDirs.State → BbRe.BuildDirs.State → String) :
    St × String :=
  let s := match t with | some t => { s with seen := insertSorted t s.seen } | none => s
  match BbRe.BuildDirs.step s.dirs op with
  | none => (s, "disabled")
  | some d' =>
    let s' := { s with dirs := d' }
    (s', s!"{tok s.dirs d'} | {dirsDump s'}")

open BbRe.BuildDirs in
def step (s : St) (ws : List String) : St × String :=
  match ws with
  | ["reset"] => (init, "ok")
  | ["dump"] => (s, s!"{idleDump s} | {dirsDump s}")
  | ["idump"] => (s, idleDump s)
  | ["ddump"] => (s, dirsDump s)
  | ["isave"] => ({ s with saved := s.idle }, "ok")
  | ["irestore"] => ({ s with idle := s.saved }, "ok")
  | ["acq", t] => match t.toNat? with
    | some t => idleStep s t (.acquireEnter t) | none => (s, "bad-op")
  | ["wake", t] => match t.toNat? with
    | some t => idleStep s t (.wake t) | none => (s, "bad-op")
  | ["cancel", t] => match t.toNat? with
    | some t => idleStep s t (.cancel t) | none => (s, "bad-op")
  | ["done", t, ok] => match t.toNat?, boolTok? ok with
    | some t, some ok => idleStep s t (.cleanDone t ok) | _, _ => (s, "bad-op")
  | ["rel", t] => match t.toNat? with
    | some t => idleStep s t (.releaseEnter t) | none => (s, "bad-op")
  | "chain" :: outs => match natList outs with
    | some os => let r := BbRe.Idle.chained os; (s, s!"{r.1} {r.2}")
    | none => (s, "bad-op")
  | ["runres", e1, e2] => match flag? e1, flag? e2 with
    | some e1, some e2 => (s, toString (BbRe.Idle.cleanRunnerResult e1 e2)) | _, _ => (s, "bad-op")
  | ["dbegin", t, d] => match t.toNat? with
    | some t => dirStep s (some t) (.begin t (if d = "-" then none else some d)) (fun _ _ => "ok")
    | none => (s, "bad-op")
  | ["dname", t] => match t.toNat? with
    | some t => dirStep s (some t) (.name t) (fun _ d' =>
        match d'.pc t with | .named n => s!"name {n}" | _ => "name ?")
    | none => (s, "bad-op")
  | ["dmkdir", t, f] => match t.toNat?, flag? f with
    | some t, some f => dirStep s (some t) (.mkdir t f) (fun d d' =>
        match d'.pc t, d.pc t with
        | .made _, _ => "ok"
        | _, .named n => if f then "fault" else if hasName d.root n then "exists" else "?"
        | _, _ => "?")
    | _, _ => (s, "bad-op")
  | ["denter", t, f] => match t.toNat?, flag? f with
    | some t, some f => dirStep s (some t) (.enter t f) (fun _ d' =>
        match d'.pc t with
        | .holding n => if lookup d'.root n == some [] then "ok empty" else "ok nonempty"
        | _ => "fail")
    | _, _ => (s, "bad-op")
  | ["drmdir", t, f] => match t.toNat?, flag? f with
    | some t, some f => dirStep s (some t) (.rmdir t f) (fun d d' =>
        if d.root.length = d'.root.length then "kept" else "removed")
    | _, _ => (s, "bad-op")
  | ["dwrite", t, f] => match t.toNat?, f.toNat? with
    | some t, some f => dirStep s (some t) (.write t f) (fun _ _ => "ok")
    | _, _ => (s, "bad-op")
  | ["dcc", t, e] => match t.toNat?, flag? e with
    | some t, some e => dirStep s (some t) (.closeChild t e) (fun _ _ => "ok")
    | _, _ => (s, "bad-op")
  | ["dra", t, f] => match t.toNat?, flag? f with
    | some t, some f => dirStep s (some t) (.removeAll t f) (fun d d' =>
        match d.pc t with
        | .closing n _ => if f then "fault" else if hasName d'.root n then "present" else "removed"
        | _ => "?")
    | _, _ => (s, "bad-op")
  | ["drel", t] => match t.toNat? with
    | some t => dirStep s (some t) (.release t) (fun _ _ => "ok")
    | none => (s, "bad-op")
  | ["dfin", t, e] => match t.toNat?, flag? e with
    | some t, some e => dirStep s (some t) (.finish t e) (fun d _ =>
        match d.pc t with
        | .releasing g r => s!"ret {dresTok (finishResult g r e)}"
        | _ => "?")
    | _, _ => (s, "bad-op")
  | ["dclean", ok] => match boolTok? ok with
    | some ok => dirStep s none (.clean ok) (fun _ _ => "ok")
    | none => (s, "bad-op")
  | _ => (s, "bad-op")

end BbRe.Drivers.Idle

def main (_args : List String) : IO UInt32 := do
  BbRe.Drivers.runLoop BbRe.Drivers.Idle.init BbRe.Drivers.Idle.step
  return 0
