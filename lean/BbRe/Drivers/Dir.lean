import BbRe.Model.Dir
import BbRe.Drivers.Util
/-!
Line-protocol driver of `Model/Dir.lean` (C13).

`cfg N n_0 … n_{N-1} h_0 … h_{N-1}` : N names; `n_i` = normalised form of name `i`
(a name id), `h_i` = 1 when name `i` matches the hidden-files pattern.  Resets
the store.  Every other line is one operation (see `parseOp`); the answer is
`<status> [c=<child>] [ci=a:b,…] [aux=n] [r=cookie:name:child;…]`.
`dump d` prints the representation of one directory (compared with the `verif`
hook `VerifDumpDirectory` of the real code).
-/
namespace BbRe.Drivers.Dir
open BbRe.Dir BbRe.Drivers

structure St where
  norm   : List Nat := []
  hidden : List Nat := []
  store  : Store := {}

def St.params (st : St) : Params :=
  { normalize := fun n => st.norm[n]?.getD n, hidden := fun n => st.hidden[n]?.getD 0 == 1 }

def showStatus : Status → String
  | .ok => "ok" | .exist => "exist" | .io => "io" | .isdir => "isdir" | .noent => "noent"
  | .notdir => "notdir" | .notempty => "notempty" | .perm => "perm" | .stale => "stale"
  | .xdev => "xdev" | .symlink => "symlink" | .panic => "panic" | .bad => "bad-op"

def showChild : Child → String
  | .dir d => s!"D{d}"
  | .leaf l => s!"L{l}"

def showReport (r : Report) : String := s!"{r.cookie}:{r.name}:{showChild r.child}"

/-- `ReadDir` only shows the file type. -/
def showTyped (s : Store) (r : Report) : String :=
  match r.child with
  | .dir _ => s!"{r.name}:D"
  | .leaf l => s!"{r.name}:K{(s.leaf l).kind}"

def showOut (typed : Bool) (s : Store) (o : Out) : String :=
  let parts := [showStatus o.status]
    ++ (match o.child with | some c => ["c=" ++ showChild c] | none => [])
    ++ (if o.ci.isEmpty then [] else ["ci=" ++ ",".intercalate (o.ci.map (fun p => s!"{p.1}:{p.2}"))])
    ++ (match o.aux with | some a => [s!"aux={a}"] | none => [])
    ++ (if o.reports.isEmpty then [] else
          ["r=" ++ ";".intercalate (o.reports.map (if typed then showTyped s else showReport))])
  joinSp parts

def showEntry (e : Entry) : String := s!"{e.name}:{e.norm}:{e.cookie}:{showChild e.child}"

def showDir (x : Dir) : String :=
  s!"lazy={if x.lazy.isSome then 1 else 0} del={if x.deleted then 1 else 0} cid={x.changeID} e=" ++
    ";".intercalate (x.entries.map showEntry)

def parseBool : String → Option Bool
  | "0" => some false
  | "1" => some true
  | _ => none

/-- children: `name L leaf` / `name D tmpl` triples. -/
def parseChildren : List String → Option (List (Nat × TChild))
  | [] => some []
  | n :: "L" :: l :: rest => do
    let n ← n.toNat?; let l ← l.toNat?; let r ← parseChildren rest
    some ((n, .leaf l) :: r)
  | n :: "D" :: t :: rest => do
    let n ← n.toNat?; let t ← t.toNat?; let r ← parseChildren rest
    some ((n, .dir t) :: r)
  | _ => none

def parseOp : List String → Option Op
  | ["mkdir", d, n] => do some (.mkdir (← d.toNat?) (← n.toNat?))
  | ["mknod", d, n, k] => do some (.mknod (← d.toNat?) (← n.toNat?) (← k.toNat?))
  | ["open", d, n, c, e] => do some (.openc (← d.toNat?) (← n.toNat?) (← parseBool c) (← parseBool e))
  | ["link", d, n, l] => do some (.link (← d.toNat?) (← n.toNat?) (← l.toNat?))
  | ["lookup", d, n] => do some (.lookup (← d.toNat?) (← n.toNat?))
  | ["readdir", d, c, k] => do some (.readdir (← d.toNat?) (← c.toNat?) (← k.toNat?))
  | ["rename", d1, n1, d2, n2] => do
    some (.rename (← d1.toNat?) (← n1.toNat?) (← d2.toNat?) (← n2.toNat?))
  | ["vremove", d, n, a, b] => do
    some (.vremove (← d.toNat?) (← n.toNat?) (← parseBool a) (← parseBool b))
  | ["getattr", d] => do some (.getattr (← d.toNat?))
  | ["lookupchild", d, n] => do some (.lookupChild (← d.toNat?) (← n.toNat?))
  | ["lookupall", d] => do some (.lookupAll (← d.toNat?))
  | ["readdirb", d] => do some (.readDirB (← d.toNat?))
  | ["remove", d, n] => do some (.remove (← d.toNat?) (← n.toNat?))
  | ["removeall", d, n] => do some (.removeAll (← d.toNat?) (← n.toNat?))
  | ["removeallchildren", d, b] => do some (.removeAllChildren (← d.toNat?) (← parseBool b))
  | "createchildren" :: d :: ow :: rest => do
    some (.createChildren (← d.toNat?) (← parseBool ow) (← parseChildren rest))
  | ["createandenter", d, n] => do some (.createAndEnter (← d.toNat?) (← n.toNat?))
  | ["filter", d, k] => do some (.filter (← d.toNat?) (← k.toNat?))
  | ["installhooks", d] => do some (.installHooks (← d.toNat?))
  | ["newroot", f] => do some (.newRoot (← f.toNat?))
  | ["newleaf", k] => do some (.newLeaf (← k.toNat?))
  | "deftmpl" :: rest => do some (.defTmpl (← parseChildren rest))
  | ["fetchfail", b] => do some (.setFetchFail (← parseBool b))
  | ["allocfail", b] => do some (.setAllocFail (← parseBool b))
  | _ => none

def isTyped : Op → Bool
  | .readDirB _ => true
  | _ => false

def step (st : St) (ws : List String) : St × String :=
  match ws with
  | "cfg" :: n :: rest =>
    match n.toNat?, natList rest with
    | some n, some xs =>
      if xs.length = 2 * n then ({ norm := xs.take n, hidden := xs.drop n, store := {} }, "ok")
      else (st, "bad-op")
    | _, _ => (st, "bad-op")
  | ["reset"] => ({ st with store := {} }, "ok")
  | ["dump", d] =>
    match d.toNat? with
    | some d => if d < st.store.dirs.length then (st, showDir (st.store.dir d)) else (st, "bad-op")
    | none => (st, "bad-op")
  | ["sizes"] => (st, s!"{st.store.dirs.length} {st.store.leaves.length} {st.store.tmpls.length}")
  | ["leafinfo", l] =>
    match l.toNat? with
    | some l => if l < st.store.leaves.length then (st, s!"links={(st.store.leaf l).links}") else (st, "bad-op")
    | none => (st, "bad-op")
  | _ =>
    match parseOp ws with
    | none => (st, "bad-op")
    | some op =>
      let r := BbRe.Dir.step st.params st.store op
      ({ st with store := r.1 }, showOut (isTyped op) r.1 r.2)

end BbRe.Drivers.Dir

def main (_args : List String) : IO UInt32 := do
  BbRe.Drivers.runLoop ({} : BbRe.Drivers.Dir.St) BbRe.Drivers.Dir.step
  return 0
