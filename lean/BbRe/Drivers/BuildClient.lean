import BbRe.Model.BuildClient
import BbRe.Drivers.Util
/-!
Driver for `Model/BuildClient.lean`.

One harness op per line; each op is expanded into the fine-grained model
events it enables and the model is then run to quiescence exactly like the real
code is by `synctest.Wait()`: the worker thread and the executor goroutine run
until they block again.  The last token of every op is `seen=<0|1>`, the
harness's observation of the only race the Go code has (did the non-blocking
consume loop observe `close(updates)`); the model uses it only where the race is
real and otherwise decides itself, so a wrong value shows up in the output.

ops:
  init <t0> <mode>            mode 0: harness calls Run itself; 1: LaunchWorkerThread
  run                         mode 0: call Run; mode 1: end of the error back-off sleep
  ready <0|1>                 CheckReadiness returns ok / error
  timer                       the fake timer fires
  emit <u>                    Execute writes update kind u
  finish <rid> <ok>           Execute returns response rid (status ok or not)
  reply err | reply <ts|bad> none|idle|unknown|exec <d> <ok|sfx|fn>
  cancel                      the thread's context is cancelled
  tick <n>                    the fake clock advances
output: at=<pc> rdy=<0|1> tmr=<d|-> sent=<req|-> ret=<mt><err>|- xs=<id:d|-> xc=<ids|-> run=<n>
-/
namespace BbRe.Drivers.BuildClient
open BbRe.BuildClient BbRe.Drivers

structure DState where
  s : State
  mode : Nat := 0
  /-- mode 1: the thread is in the error back-off of `LaunchWorkerThread` -/
  sleeping : Bool := false
  /-- mode 1: the back-off is the `select` that `ctx.Done()` interrupts -/
  interruptible : Bool := false
deriving Inhabited

def showPhase : Phase → String
  | .started => "started"
  | .upd u => s!"upd{u}"
  | .completed r => s!"done{r.id}"

def showReq (r : Request) : String :=
  (match r.state with
   | .idle => "idle"
   | .executing d p => s!"exec:{d}:{showPhase p}") ++ (if r.preferIdle then "/1" else "/0")

def showPc (d : DState) : String :=
  match d.s.pc with
  | .top => if d.mode = 1 then "busy" else "top"
  | .ready => "ready"
  | .select _ => "select"
  | .sync _ => "sync"
  | .drain _ => "busy"
  | .terminated => "term"

def b01 (b : Bool) : String := if b then "1" else "0"

def closeEnabled (s : State) : Bool := (close s).isSome

/-- Install a new model state; in mode 1 a `Run` that just returned an error
is followed by the back-off sleep of `LaunchWorkerThread`. -/
def upd (d : DState) (s' : State) : DState :=
  let errRet := match s'.log.getLast? with
    | some (.ret _ true _) => true
    | _ => false
  -- an interruptible back-off (select on timer / ctx.Done()) ends at once when
  -- the context is already cancelled
  if d.mode = 1 && s'.pc = .top && s'.log.length > d.s.log.length && errRet &&
      !(d.interruptible && s'.cancelled) then
    { d with s := s', sleeping := true }
  else { d with s := s' }

/-- Run worker thread and executor goroutine until both are blocked. -/
def quiesce (seen : Bool) : Nat → DState → DState
  | 0, d => d
  | fuel + 1, d =>
    let s := d.s
    match s.pc with
    | .select _ =>
      match wakeUpdate s seen with
      | some s' => quiesce seen fuel (upd d s')
      | none => if closeEnabled s then quiesce seen fuel (upd d (step s .close)) else d
    | .drain _ =>
      match drainRecv s with
      | some s' => quiesce seen fuel (upd d s')
      | none =>
        if closeEnabled s then quiesce seen fuel (upd d (step s .close)) else
        match drainDone s with
        | some s' => quiesce seen fuel (upd d s')
        | none => d
    | .top =>
      if closeEnabled s then quiesce seen fuel (upd d (step s .close))
      else if d.mode = 1 && !d.sleeping then
        -- LaunchWorkerThread loops straight into the next Run
        match runBegin s with
        | some s' => quiesce seen fuel (upd { d with interruptible := !s.cancelled } s')
        | none => d
      else d
    | _ => if closeEnabled s then quiesce seen fuel (upd d (step s .close)) else d

def fuel0 : Nat := 64

def settle (seen : Bool) (d : DState) : DState := quiesce seen fuel0 d

/-- number of `Execute` calls that have not returned -/
def running (s : State) : Nat :=
  (match s.cur with | some e => if e.returned.isNone then 1 else 0 | none => 0) +
    (s.retired.filter (fun e => e.returned.isNone)).length

def render (before : Nat) (rdy : Bool) (d : DState) : String :=
  let delta := d.s.log.drop before
  let tmr := delta.filterMap (fun o => match o with | .timer t => some (toString t) | _ => none)
  let sent := delta.filterMap (fun o => match o with | .sent r _ => some (showReq r) | _ => none)
  let ret := delta.filterMap (fun o => match o with
    | .ret mt err _ => some (b01 mt ++ b01 err) | _ => none)
  let xs := delta.filterMap (fun o => match o with | .spawn id dg _ => some s!"{id}:{dg}" | _ => none)
  let xc := delta.filterMap (fun o => match o with | .cancelExec id => some (toString id) | _ => none)
  let f (l : List String) : String := if l.isEmpty then "-" else ",".intercalate l
  let at_ := if d.sleeping && d.s.pc = .top then "busy" else showPc d
  s!"at={at_} rdy={b01 rdy} tmr={f tmr} sent={f sent} ret={if d.mode = 1 then "-" else f ret} xs={f xs} xc={f xc} run={running d.s}"

def parseSeen (w : String) : Option Bool :=
  if w = "seen=1" then some true else if w = "seen=0" then some false else none

def parseReply : List String → Option Reply
  | ["err"] => some .rpcError
  | ts :: rest =>
    let t : Option (Option Nat) := if ts = "bad" then some none else (ts.toNat?).map some
    match t with
    | none => none
    | some t =>
      match rest with
      | ["none"] => some (.reply t .none)
      | ["idle"] => some (.reply t .idle)
      | ["unknown"] => some (.reply t .unknown)
      | ["exec", d, k] =>
        match d.toNat? with
        | none => none
        | some d =>
          if k = "ok" then some (.reply t (.execute (.ok d)))
          else if k = "sfx" then some (.reply t (.execute (.badSuffix d)))
          else if k = "fn" then some (.reply t (.execute (.badDigestFunction d)))
          else none
      | _ => none
  | _ => none

/-- Apply an enabled model event, then settle; `bad-op` when it is not enabled. -/
def fire (d : DState) (ev : Ev) (seen : Bool) (rdy : Bool := false) : DState × String :=
  match step? d.s ev with
  | none => (d, "bad-op")
  | some s' =>
    let before := d.s.log.length
    let d' := settle seen (upd d s')
    (d', render before (rdy || (d'.s.pc = .ready && d.s.pc ≠ .ready)) d')

def step (d : DState) (ws : List String) : DState × String :=
  match ws with
  | ["init", t0, mode] =>
    match t0.toNat?, mode.toNat? with
    | some t0, some m =>
      let d0 : DState := { s := init t0, mode := m }
      let d1 := settle false d0
      (d1, render 0 (d1.s.pc = .ready) d1)
    | _, _ => (d, "bad-op")
  | _ =>
    match ws.getLast? >>= parseSeen with
    | none => (d, "bad-op")
    | some seen =>
      match ws.dropLast with
      | ["run"] =>
        if d.mode = 1 then
          if d.sleeping && d.s.pc = .top then
            let before := d.s.log.length
            let d' := settle seen { d with sleeping := false }
            (d', render before (d'.s.pc = .ready) d')
          else (d, "bad-op")
        else fire d .runBegin seen
      | ["ready", b] =>
        if b = "1" then fire d (.readyResult true) seen
        else if b = "0" then fire d (.readyResult false) seen
        else (d, "bad-op")
      | ["timer"] => fire d .wakeTimer seen
      | ["emit", u] =>
        match u.toNat? with
        | some u => fire d (.emit u) seen
        | none => (d, "bad-op")
      | ["finish", rid, ok] =>
        match rid.toNat? with
        | some rid =>
          if ok = "1" then fire d (.finish ⟨rid, true⟩) seen
          else if ok = "0" then fire d (.finish ⟨rid, false⟩) seen
          else (d, "bad-op")
        | none => (d, "bad-op")
      | "reply" :: rest =>
        match parseReply rest with
        | some r => fire d (.reply r) seen
        | none => (d, "bad-op")
      | ["cancel"] =>
        -- an interruptible back-off ends when the context is cancelled
        let d0 := if d.sleeping && d.interruptible then { d with sleeping := false } else d
        fire d0 .cancel seen
      | ["tick", n] =>
        match n.toNat? with
        | some n => fire d (.tick n) seen
        | none => (d, "bad-op")
      | _ => (d, "bad-op")

end BbRe.Drivers.BuildClient

def main (_args : List String) : IO UInt32 := do
  BbRe.Drivers.runLoop (default : BbRe.Drivers.BuildClient.DState) BbRe.Drivers.BuildClient.step
  return 0
