import BbRe.Lemmas.SchedInvProps
/-!
# C01 — every task is held by exactly one queue or one worker

Theorems about `Model/Sched.lean` + `Model/SchedStep.lean` (the transcription of
`pkg/scheduler/in_memory_build_queue.go`, tied to the code by `harness/cmd/sched`).
All statements quantify over `Reachable` states: every interleaving of lock-held
segments (`Seg`) with every oracle answer, any number of clients, workers and queues.
The invariant itself (`Inv`, 40 clauses) and its preservation by every helper of the
model live in `BbRe/Lemmas/SchedInv*.lean`.
-/
namespace BbRe.Properties.C01
open BbRe.Sched BbRe.Lemmas.SchedInv

/-! ### sample run used by the non-vacuity examples:
register a queue, `Execute` (task 1 is queued), an idle worker synchronizes and is handed the task -/
def cfg0 : Cfg := ⟨60, 60, 60, 900, 10, 60, 2, 0⟩
def h0 : Hints := { assign := [], sel := 0, bg := none, retry := false }
def q0 : ScqId := ⟨1, 0⟩
def w0 : WId := ⟨1, 1⟩
def queuedState : State := run (State.init cfg0)
  [ .register 1 [] 7 [0] 0 0, .exec h0 0 100 55 55 false [] 7 [1] 0 ]
def assignSeg : Seg := .sync { h0 with assign := [(q0, w0, 1)] } 0 q0 [] 7 w0 .idle false
def assignedState : State := run queuedState [assignSeg]
def okResp : Resp := ⟨cOK, 0, 9, .worker⟩
def completedState : State := run assignedState
  [ .sync h0 5 q0 [] 7 w0 (.completed 55 okResp) false ]

theorem queuedState_reachable : Reachable queuedState := reachable_run (Reachable.init cfg0) _
theorem assignedState_reachable : Reachable assignedState := reachable_run queuedState_reachable _
theorem completedState_reachable : Reachable completedState := reachable_run assignedState_reachable _

/-- **`C01.inv_reachable`.**  The whole invariant `Inv` (`BbRe/Lemmas/SchedInvDefs.lean`: `Core` —
table well-formedness, `ptr`, `queued`, dedup exactness, learner bookkeeping, worker flags; `OInv` —
operations ↔ tasks; `SInv` — waiter counts, parked streams, no-waiter cleanup entries; `LogInv` — the
ghost event log) holds in every reachable state. -/
theorem inv_reachable {s : State} (hr : Reachable s) : Inv s := BbRe.Lemmas.SchedInv.inv_reachable hr

/-- **`Inv.ptr`, worker ⇒ task.**  A worker's `currentTask` names an existing,
uncompleted task whose `currentWorker` is that worker. -/
theorem ptr_worker_to_task {s : State} (hr : Reachable s) {q : ScqId} {w : WId} {wk : Worker} {tid : Nat}
    (hw : s.worker? q w = some wk) (ht : wk.task = some tid) :
    ∃ t, s.task? tid = some t ∧ t.worker = some (q, w) ∧ t.response = none := by
  have hI := inv_reachable hr
  obtain ⟨t, h1, h2⟩ := hI.core.p1 q w wk tid hw ht
  exact ⟨t, h1, h2, hI.core.p3 tid t h1 (by rw [h2]; rfl)⟩

example : assignedState.worker? q0 w0 ≠ none ∧
    (assignedState.worker? q0 w0).map (·.task) = some (some 1) := by decide

/-- **`Inv.ptr`, task ⇒ worker.**  A task's `currentWorker` names an existing worker whose
`currentTask` is that task. -/
theorem ptr_task_to_worker {s : State} (hr : Reachable s) {tid : Nat} {t : Task} {q : ScqId} {w : WId}
    (ht : s.task? tid = some t) (hw : t.worker = some (q, w)) :
    ∃ wk, s.worker? q w = some wk ∧ wk.task = some tid :=
  (inv_reachable hr).core.p2 tid t q w ht hw

example : (assignedState.task? 1).map (·.worker) = some (some (q0, w0)) := by decide

/-- the two directions as one equivalence (restricted to entries that exist) -/
theorem ptr_iff {s : State} (hr : Reachable s) (q : ScqId) (w : WId) (tid : Nat) :
    (∃ wk, s.worker? q w = some wk ∧ wk.task = some tid) ↔
    (∃ t, s.task? tid = some t ∧ t.worker = some (q, w)) := by
  constructor
  · rintro ⟨wk, h1, h2⟩
    obtain ⟨t, a, b, _⟩ := ptr_worker_to_task hr h1 h2
    exact ⟨t, a, b⟩
  · rintro ⟨t, h1, h2⟩
    exact ptr_task_to_worker hr h1 h2

/-- the worker table holds one record per worker and the task table one record per id,
so `worker?` / `task?` are the tables -/
theorem tables_wellformed {s : State} (hr : Reachable s) :
    WNodup s.workers ∧ (keys s.tasks).Nodup ∧ ∀ k t, s.task? k = some t → t.id = k ∧ k < s.nextTask :=
  ⟨(inv_reachable hr).core.wnd, (inv_reachable hr).core.tnd, (inv_reachable hr).core.tid⟩

/-- a task is assigned to at most one worker: two worker records pointing to the same task are
the same worker -/
theorem one_worker_per_task {s : State} (hr : Reachable s) {a b : Worker} {tid : Nat}
    (ha : a ∈ s.workers) (hb : b ∈ s.workers) (hat : a.task = some tid) (hbt : b.task = some tid) :
    a = b := by
  have hI := inv_reachable hr
  have ha' := wfind_of_mem hI.core.wnd ha
  have hb' := wfind_of_mem hI.core.wnd hb
  obtain ⟨t, h1, h2⟩ := hI.core.p1 _ _ a tid ha' hat
  obtain ⟨t', h1', h2'⟩ := hI.core.p1 _ _ b tid hb' hbt
  rw [h1] at h1'; cases h1'
  rw [h2] at h2'
  simp only [Option.some.injEq, Prod.mk.injEq] at h2'
  rw [h2'.1, h2'.2] at ha'
  rw [ha'] at hb'
  exact Option.some.inj hb'

example : (assignedState.workers.filter (fun w => w.task = some 1)).length = 1 := by decide

/-- **`Inv.queued`, exclusion.**  A queued task has no worker and no response. -/
theorem queued_excl {s : State} (hr : Reachable s) {tid : Nat} {t : Task} (ht : s.task? tid = some t)
    (hq : t.queued = true) : t.worker = none ∧ t.response = none :=
  (inv_reachable hr).core.q1 tid t ht hq

example : (queuedState.task? 1).map (·.queued) = some true := by decide

/-- an assigned task has no response -/
theorem assigned_not_completed {s : State} (hr : Reachable s) {tid : Nat} {t : Task}
    (ht : s.task? tid = some t) (hw : t.worker.isSome = true) : t.response = none :=
  (inv_reachable hr).core.p3 tid t ht hw

example : (assignedState.task? 1).map (fun t => (t.worker.isSome, t.response.isNone, t.queued)) =
    some (true, true, false) := by decide

/-- **`Inv.queued`, coverage** (at segment boundaries — inside `task.complete` and between the
creation of a task and `task.schedule` a task is transiently neither; the proof carries that
as the exception set of `InvX`).  Every uncompleted task is queued or assigned. -/
theorem live_held {s : State} (hr : Reachable s) {tid : Nat} {t : Task} (ht : s.task? tid = some t)
    (hl : t.response = none) : t.queued = true ∨ t.worker.isSome = true := by
  rcases (inv_reachable hr).core.q2 tid t ht hl with h | h | h
  · exact Or.inl h
  · exact Or.inr h
  · exact absurd h id

/-- **exactly one holder**: for every accepted, uncompleted task,
`#queues holding it + #workers holding it = 1`. -/
theorem exactly_one_holder {s : State} (hr : Reachable s) {tid : Nat} {t : Task} (ht : s.task? tid = some t)
    (hl : t.response = none) :
    (if t.queued then 1 else 0) + (s.workers.filter (fun w => w.task = some tid)).length = 1 :=
  holders_eq_one (inv_reachable hr) ht hl

example : (queuedState.task? 1).map (holders queuedState 1) = some 1 ∧
    (assignedState.task? 1).map (holders assignedState 1) = some 1 := by decide

/-- **A Synchronize response only tells a worker to execute the task assigned to it.**
Whenever a segment emits `syncExecute q w d _`, in the post-state worker `(q, w)` holds a task
with digest `d` that has no response (`ExecOK`). -/
theorem sync_executes_only_assigned {s s' : State} (hr : Reachable s) (g : Seg) (h : step s g = .ok s') :
    ∃ new, s'.events = new ++ s.events ∧
      ∀ q w d n, Event.syncExecute q w d n ∈ new →
        ∃ wk tid t, s'.worker? q w = some wk ∧ wk.task = some tid ∧ s'.task? tid = some t ∧
          t.digest = d ∧ t.response = none := by
  obtain ⟨new, he, hn⟩ := step_exec_events g (inv_reachable hr) h
  exact ⟨new, he, fun q w d n hm => hn _ hm⟩

/-- the sample segment succeeds and emits `execute 55` -/
example : (match step queuedState assignSeg with
    | .ok s' => s'.events.any (fun e => match e with | .syncExecute _ _ 55 _ => true | _ => false)
    | .error _ => false) = true := by decide

/-- `k` names a task that is completed or was dropped after completion -/
abbrev Finished (s : State) (k : Nat) : Prop := Dead s.tasks s.nextTask k

/-- **Once completed, never restarted (one segment).**  If `tid` is finished then after any
segment it still is (its response never goes away and its id is never reused), the ghost log
of assignments gains no entry for it, and no worker points to it. -/
theorem completed_never_restarted {s s' : State} (hr : Reachable s) (g : Seg) (h : step s g = .ok s')
    {tid : Nat} (hf : Finished s tid) :
    Finished s' tid ∧ (∀ x, x ∈ s'.assigned → x.2.2 = tid → x ∈ s.assigned) ∧
      (∀ wk, wk ∈ s'.workers → wk.task ≠ some tid) ∧
      (∀ t, s'.task? tid = some t → t.worker = none ∧ t.queued = false) := by
  have hI := inv_reachable hr
  have hI' := inv_step g hI h
  have hm := mono_step g hI h
  have hf' := hm.dead tid hf
  refine ⟨hf', ?_, ?_, ?_⟩
  · intro x hx hxt
    obtain ⟨new, he, hn⟩ := hm.asg
    rw [he] at hx
    rcases List.mem_append.mp hx with hx | hx
    · exact absurd (hxt ▸ hf) (hn x hx)
    · exact hx
  · intro wk hwk hwt
    obtain ⟨t, h1, h2⟩ := hI'.core.p1 _ _ wk tid (wfind_of_mem hI'.core.wnd hwk) hwt
    have := hI'.core.p3 tid t h1 (by rw [h2]; rfl)
    have := hf'.2 t h1
    simp_all
  · intro t ht
    have hrs := hf'.2 t ht
    constructor
    · cases hw : t.worker with
      | none => rfl
      | some x => have := hI'.core.p3 tid t ht (by rw [hw]; rfl); rw [this] at hrs; cases hrs
    · cases hq : t.queued with
      | false => rfl
      | true => have := (hI'.core.q1 tid t ht hq).2; rw [this] at hrs; cases hrs

example : Finished completedState 1 := by
  refine ⟨by decide, ?_⟩
  intro t ht
  have : completedState.task? 1 = some t := ht
  revert this
  cases hh : completedState.task? 1 with
  | none => intro e; cases e
  | some t' =>
    intro e; cases e
    have : (completedState.task? 1).map (·.response.isSome) = some true := by decide
    rw [hh] at this; exact Option.some.inj this

/-- **Once completed, never restarted (any continuation).** -/
theorem completed_stays {s : State} (hr : Reachable s) {tid : Nat} (hf : Finished s tid) (gs : List Seg) :
    Finished (run s gs) tid ∧ ∀ x, x ∈ (run s gs).assigned → x.2.2 = tid → x ∈ s.assigned := by
  have hm := (run_inv_mono (inv_reachable hr) gs).2
  refine ⟨hm.dead tid hf, ?_⟩
  intro x hx hxt
  obtain ⟨new, he, hn⟩ := hm.asg
  rw [he] at hx
  rcases List.mem_append.mp hx with hx | hx
  · exact absurd (hxt ▸ hf) (hn x hx)
  · exact hx

/-- and therefore no later segment tells a worker to execute it: every `execute` instruction
emitted after `tid` finished names a task different from `tid` -/
theorem completed_no_execute {s s' : State} (hr : Reachable s) (g : Seg) (h : step s g = .ok s')
    {tid : Nat} (hf : Finished s tid) :
    ∃ new, s'.events = new ++ s.events ∧
      ∀ q w d n, Event.syncExecute q w d n ∈ new → ∀ wk, s'.worker? q w = some wk → wk.task ≠ some tid := by
  obtain ⟨new, he, hn⟩ := sync_executes_only_assigned hr g h
  refine ⟨new, he, ?_⟩
  intro q w d n hm wk hwk hwt
  have := (completed_never_restarted hr g h hf).2.2.1 wk (wfind_mem hwk)
  exact this hwt

/-- **No panic.**  In a reachable state `step` never fails with one of the code's `panic`
guards that the model transcribes (`panicErrors`), nor with a model-internal dangling-pointer
error (`internalErrors`): every failure is an oracle mismatch / a segment that is not enabled /
`bad-op`, or one of the three registry errors listed in `okErrors` (platform queue without size
classes / size-class queue, worker without queue — the queue registry is not part of `Inv`). -/
theorem no_panic {s : State} (hr : Reachable s) (g : Seg) {e : String} (h : step s g = .error e) :
    e ∈ okErrors ∧ e ∉ panicErrors ∧ e ∉ internalErrors := by
  have hok : e ∈ okErrors := step_error g (inv_reachable hr) h
  have hdisj : ∀ x ∈ okErrors, x ∉ panicErrors ∧ x ∉ internalErrors := by decide
  exact ⟨hok, hdisj e hok⟩

/-- errors do occur: synchronizing again while the first call is still blocked is a mismatch -/
example : (match step assignedState (.syncWake h0 6 q0 w0 0) with | .error _ => true | .ok _ => false) = true := by
  decide

end BbRe.Properties.C01
