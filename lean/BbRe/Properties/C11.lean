import BbRe.Lemmas.SusClockIntervals
/-!
# C11 — execution timeouts fire, compensated but bounded

Property theorems about `Model/SusClock.lean`, the transcription of
`pkg/clock/suspendable_clock.go`.  They hold for **every** timeline `tl` of
`Suspend`/`Resume` calls (non-decreasing times, no `Resume` without an earlier
`Suspend`; arbitrary nesting and overlap), every timeout `d`, every
`maximumSuspension`, every positive `timeoutThreshold`, every creation time
`t0`, and every cancellation (absent, or at any time `≥ t0`, winning or losing
a tie against a wake-up at the same instant).

`fireL P g tl cn t0 d dlLate dlPre dv = .done r`: the context created by
`NewContextWithTimeout(parent, d)` at `t0` is done at `r.instant` with
`Err() = DeadlineExceeded` (`timeout`, `capped`) or `Canceled` (`cancelled`) and
`Value(UnsuspendedDurationKey{}) = r.dur`, when the successive base timer
expiries are handled as the oracle `dv` says: the expiry stamped `T` is handled
at `T + late ≤ T + g`, on the clock state reached after `pos` calls - i.e. any
`Suspend`/`Resume`/cancel events may happen between "timer `T` is due" and "its
value is handled by the goroutine" (the window in which the goroutine waits for
`c.lock` or is not scheduled).  `r.stamp` is the stamp of the last expiry,
`(r.pStamp, r.pAt)` stamp and handling instant of the one before.  The deadline
of the base context is delivered `dlLate` late.  `fire` is the prompt case
(`g = 0`, nothing late).  `NewTimer(d)` runs the same loop (`Stop` = cancel,
published value = `r.stamp`), so the results cover it too.

`unsuspended tl a b` is the specification: the number of unit intervals
`[τ, τ+1) ⊆ [a, b)` that no suspension covers.

Helper lemmas: `BbRe/Lemmas/SusClock*.lean`.
-/
namespace BbRe.Properties.C11
open BbRe.SusClock BbRe.Lemmas.SusClock

/-! ## Termination -/

/-- **Fuel elimination / no infinite postponement.** With a positive threshold the
re-arm loop never runs out of fuel, however late expiries are handled: at most
`maximumSuspension + dlLate + 2` iterations. No hypothesis on the timeline or the
oracle is needed. -/
theorem fire_total (P : Params) (g : Nat) (tl : List Ev) (cn : Option Cancel) (t0 d dlLate : Nat) (dlPre : Bool)
    (dv : List Delivery) (hthr : 1 ≤ P.thr) :
    fireL P g tl cn t0 d dlLate dlPre dv ≠ .outOfFuel := by
  unfold fireL fuelFor
  exact loop_total P g tl cn _ _ _ _ hthr _ _ _ _ _ (by omega) (by omega)

/-- The prompt run always completes with a result. -/
theorem fire_completes (P : Params) (tl : List Ev) (cn : Option Cancel) (t0 d : Nat) (hthr : 1 ≤ P.thr) :
    ∃ r, fire P tl cn t0 d = .done r :=
  fire_done P tl cn t0 d hthr

/-- The answer does not depend on the amount of fuel once there is enough. -/
theorem fuel_irrelevant (P : Params) (g : Nat) (tl : List Ev) (cn : Option Cancel) (t0 d dlLate : Nat)
    (dlPre : Bool) (dv : List Delivery) (r : Result)
    (h : fireL P g tl cn t0 d dlLate dlPre dv = .done r) (k : Nat) :
    loop P g tl cn ((clockAt tl t0).totalNow t0) ((clockAt tl t0).totalNow t0 + d)
      (t0 + d + P.maxSusp + dlLate) dlPre (fuelFor P dlLate + k) t0 d t0 dv = .done r :=
  loop_fuel_mono P g tl cn _ _ _ _ _ _ _ _ _ _ h (by intro h; cases h) k

/-! ## The guard of `getTotalUnsuspendedWithTime` -/

/-- **late_expiry_charge.** An expiry stamped `T` that is handled at `at_ ≥ T`, after
exactly `pos` calls of the timeline (some of them possibly later than `T`), is charged
`getTotalUnsuspendedWithTime(T)` on the current state. That value never under-counts
the stamp and never over-counts the present,
`unsuspTo T ≤ value ≤ unsuspTo at_`, and it is exactly the unsuspended time at the stamp
when no `Suspend` has intervened (count 0 and `unsuspensionStart < T`). (Dropping the
`now.After(unsuspensionStart)` guard breaks the lower bound: a `Resume` after `T` would
make `now.Sub(unsuspensionStart)` negative.) -/
theorem late_expiry_charge {tl : List Ev} (hs : Sorted tl) (hb : Balanced tl) {pos at_ T : Nat}
    (hv : validPos tl pos at_ = true) (hT : T ≤ at_) :
    unsuspTo tl T ≤ (stateAt tl pos).totalWithTime T ∧ (stateAt tl pos).totalWithTime T ≤ unsuspTo tl at_ ∧
    ((stateAt tl pos).cnt = 0 → (stateAt tl pos).us < T → (stateAt tl pos).totalWithTime T = unsuspTo tl T) :=
  charge_bracket hs hb hv hT

/-! ## Expiries handled late (at most `g` ticks) -/

/-- **wall_bound (late).** The context is done no later than the delivery of the base
deadline, `t0 + d + maximumSuspension + dlLate`; an expiry is handled within `g` of its stamp. -/
theorem wall_bound_late {P : Params} {g : Nat} {tl : List Ev} {cn : Option Cancel} {t0 d dlLate : Nat}
    {dlPre : Bool} {dv : List Delivery} {r : Result}
    (hs : Sorted tl) (hb : Balanced tl) (hcn : ∀ c, cn = some c → t0 ≤ c.t)
    (h : fireL P g tl cn t0 d dlLate dlPre dv = .done r) :
    t0 ≤ r.instant ∧ r.instant ≤ t0 + d + P.maxSusp + dlLate ∧
      r.stamp ≤ r.instant ∧ r.instant ≤ r.stamp + g := by
  have ok := fireL_ok hs hb hcn h
  exact ⟨Nat.le_trans ok.start ok.stampLe, ok.wall, ok.stampLe, ok.late⟩

/-- **reported_duration (late).** A cancelled or capped context reports exactly the
unsuspended time between creation and completion. A timed-out one reports the value charged
for its last expiry: at least the unsuspended time up to the stamp, at most the
unsuspended time up to the completion instant - never more than the command really ran. -/
theorem reported_duration_late {P : Params} {g : Nat} {tl : List Ev} {cn : Option Cancel} {t0 d dlLate : Nat}
    {dlPre : Bool} {dv : List Delivery} {r : Result}
    (hs : Sorted tl) (hb : Balanced tl) (hcn : ∀ c, cn = some c → t0 ≤ c.t)
    (h : fireL P g tl cn t0 d dlLate dlPre dv = .done r) :
    unsuspended tl t0 r.stamp ≤ r.dur ∧ r.dur ≤ unsuspended tl t0 r.instant ∧
      (r.reason ≠ .timeout → r.dur = unsuspended tl t0 r.instant) := by
  have ok := fireL_ok hs hb hcn h
  have hsi := Nat.le_trans ok.start ok.stampLe
  rw [unsuspended_eq tl ok.start, unsuspended_eq tl hsi]
  have h1 := ok.durUp
  have h2 := ok.durLo
  have h3 := unsuspTo_mono tl ok.start
  refine ⟨by omega, by omega, fun hr => ?_⟩
  have := ok.durExact hr
  omega

/-- **fires_after_budget (late).** A timeout is never early, measured at the instant the
context is really cancelled (`d − thr < unsuspended(t0, instant)`), and at the stamp of
the expiry that caused it the budget is exceeded by at most the unsuspended time that
elapsed while the *previous* expiry was waiting to be handled. -/
theorem fires_after_budget_late {P : Params} {g : Nat} {tl : List Ev} {cn : Option Cancel} {t0 d dlLate : Nat}
    {dlPre : Bool} {dv : List Delivery} {r : Result}
    (hs : Sorted tl) (hb : Balanced tl) (hcn : ∀ c, cn = some c → t0 ≤ c.t)
    (h : fireL P g tl cn t0 d dlLate dlPre dv = .done r) (hr : r.reason = .timeout) :
    d < unsuspended tl t0 r.instant + P.thr ∧ d < r.dur + P.thr ∧
      unsuspended tl t0 r.stamp ≤ d + unsuspended tl r.pStamp r.pAt := by
  have ok := fireL_ok hs hb hcn h
  have hsi := Nat.le_trans ok.start ok.stampLe
  rw [unsuspended_eq tl ok.start, unsuspended_eq tl hsi]
  have h1 := ok.timeout hr
  have h2 := ok.budgetStamp
  have h3 := unsuspTo_mono tl ok.start
  have h4 := ok.durUp
  omega

/-- **budget (late).** Whatever ends the context, when it ends the command has run at
most its timeout plus the unsuspended time that elapsed while the last two expiries were
waiting to be handled (`[pStamp, pAt)` and `[stamp, instant)`); hence at most `d + 2g`.
The reported duration obeys the same bound. This is the precise sense in which the
timeout is "never late" when the goroutine is. -/
theorem budget_late {P : Params} {g : Nat} {tl : List Ev} {cn : Option Cancel} {t0 d dlLate : Nat}
    {dlPre : Bool} {dv : List Delivery} {r : Result}
    (hs : Sorted tl) (hb : Balanced tl) (hcn : ∀ c, cn = some c → t0 ≤ c.t)
    (h : fireL P g tl cn t0 d dlLate dlPre dv = .done r) :
    unsuspended tl t0 r.instant ≤ d + unsuspended tl r.pStamp r.pAt + unsuspended tl r.stamp r.instant ∧
      r.dur ≤ d + unsuspended tl r.pStamp r.pAt + unsuspended tl r.stamp r.instant ∧
      unsuspended tl t0 r.instant ≤ d + 2 * g := by
  have ok := fireL_ok hs hb hcn h
  have hsi := Nat.le_trans ok.start ok.stampLe
  have hsplit := unsuspTo_eq_add tl ok.stampLe
  have h2 := ok.budgetStamp
  have h3 := unsuspTo_mono tl ok.start
  have h4 := ok.durUp
  have h5 := unsuspended_le tl r.pStamp r.pAt
  have h6 := unsuspended_le tl r.stamp r.instant
  have h7 := ok.late
  have h8 := ok.prevLate
  have h9 := ok.prevLe
  rw [unsuspended_eq tl hsi]
  omega

/-- **not_early (late).** If at `t1` (before the wall bound) at most `d − thr` of unsuspended
time has run, then no `DeadlineExceeded` has been raised up to and including `t1`, however
late expiries are handled. -/
theorem not_early {P : Params} {g : Nat} {tl : List Ev} {cn : Option Cancel} {t0 d dlLate t1 : Nat}
    {dlPre : Bool} {dv : List Delivery} {r : Result}
    (hs : Sorted tl) (hb : Balanced tl) (hcn : ∀ c, cn = some c → t0 ≤ c.t)
    (h : fireL P g tl cn t0 d dlLate dlPre dv = .done r) (hr : r.reason ≠ .cancelled)
    (h01 : t0 ≤ t1) (hwall : t1 < t0 + d + P.maxSusp) (hbud : unsuspended tl t0 t1 + P.thr ≤ d) :
    t1 < r.instant := by
  have ok := fireL_ok hs hb hcn h
  rw [unsuspended_eq tl h01] at hbud
  have hm := unsuspTo_mono tl h01
  cases hreason : r.reason with
  | cancelled => exact absurd hreason hr
  | capped => rw [ok.capped hreason]; omega
  | timeout =>
    have h1 := ok.timeout hreason
    have h2 := ok.durUp
    apply Nat.lt_of_not_le
    intro hle
    have := unsuspTo_mono tl hle
    omega

/-- A cancellation is honoured at its own instant, and a context reported as
`Canceled` was in fact cancelled then (also with late expiries). -/
theorem cancel_prompt {P : Params} {g : Nat} {tl : List Ev} {c : Cancel} {t0 d dlLate : Nat}
    {dlPre : Bool} {dv : List Delivery} {r : Result}
    (hs : Sorted tl) (hb : Balanced tl) (hc : t0 ≤ c.t)
    (h : fireL P g tl (some c) t0 d dlLate dlPre dv = .done r) :
    r.instant ≤ c.t ∧ (r.reason = .cancelled → r.instant = c.t) := by
  have ok := fireL_ok hs hb (by intro c' hc'; cases hc'; exact hc) h
  refine ⟨ok.prompt c rfl, fun hr => ?_⟩
  obtain ⟨c', hc', ht⟩ := ok.cancelled hr
  cases hc'
  exact ht.symm

/-! ## Expiries handled when they are due (`fire`) -/

/-- **wall_bound.** The context is done no later than `t0 + d + maximumSuspension`. -/
theorem wall_bound {P : Params} {tl : List Ev} {cn : Option Cancel} {t0 d : Nat} {r : Result}
    (hs : Sorted tl) (hb : Balanced tl) (hcn : ∀ c, cn = some c → t0 ≤ c.t)
    (h : fire P tl cn t0 d = .done r) :
    t0 ≤ r.instant ∧ r.instant ≤ t0 + d + P.maxSusp := by
  have := wall_bound_late hs hb hcn h
  exact ⟨this.1, by simpa using this.2.1⟩

/-- **reported_duration.** `UnsuspendedDurationKey` is the unsuspended time between
creation and completion, for every completion reason. -/
theorem reported_duration {P : Params} {tl : List Ev} {cn : Option Cancel} {t0 d : Nat} {r : Result}
    (hs : Sorted tl) (hb : Balanced tl) (hcn : ∀ c, cn = some c → t0 ≤ c.t)
    (h : fire P tl cn t0 d = .done r) :
    r.dur = unsuspended tl t0 r.instant := by
  have hp := fire_prompt hs hb hcn h
  have hl := reported_duration_late hs hb hcn h
  rw [hp.2.1] at hl
  omega

/-- **fires_after_budget (1).** A timeout happens only when the unsuspended time
that has run is within one threshold below the timeout, and never above it:
`d − thr < unsuspended ≤ d`. -/
theorem fires_after_budget {P : Params} {tl : List Ev} {cn : Option Cancel} {t0 d : Nat} {r : Result}
    (hs : Sorted tl) (hb : Balanced tl) (hcn : ∀ c, cn = some c → t0 ≤ c.t)
    (h : fire P tl cn t0 d = .done r) (hr : r.reason = .timeout) :
    d < unsuspended tl t0 r.instant + P.thr ∧ unsuspended tl t0 r.instant ≤ d := by
  have hp := fire_prompt hs hb hcn h
  have hl := fires_after_budget_late hs hb hcn h hr
  rw [hp.2.1, hp.2.2] at hl
  omega

/-- The budget is never exceeded, whatever ends the context: at completion at most
`d` of unsuspended time has run (so the timeout is never late). -/
theorem budget_never_exceeded {P : Params} {tl : List Ev} {cn : Option Cancel} {t0 d : Nat} {r : Result}
    (hs : Sorted tl) (hb : Balanced tl) (hcn : ∀ c, cn = some c → t0 ≤ c.t)
    (h : fire P tl cn t0 d = .done r) :
    unsuspended tl t0 r.instant ≤ d := by
  have := (budget_late hs hb hcn h).2.2
  omega

/-- **Compensation is complete up to the cap.** The cap ends the context only after at
least `maximumSuspension` of stall time has really been excluded: when the reason is
`capped`, the suspended time in `[t0, instant)` is `≥ maximumSuspension` (and `instant`
is exactly the wall bound). Together with `fires_after_budget`: stall time is excluded
in full, but never more than the configured maximum. -/
theorem capped_only_after_max_compensation {P : Params} {tl : List Ev} {cn : Option Cancel} {t0 d : Nat}
    {r : Result} (hs : Sorted tl) (hb : Balanced tl) (hcn : ∀ c, cn = some c → t0 ≤ c.t)
    (h : fire P tl cn t0 d = .done r) (hr : r.reason = .capped) :
    r.instant = t0 + d + P.maxSusp ∧ P.maxSusp ≤ (r.instant - t0) - unsuspended tl t0 r.instant := by
  have ok := (fire_prompt hs hb hcn h).1
  have hi := ok.capped hr
  have hb' := budget_never_exceeded hs hb hcn h
  exact ⟨hi, by omega⟩

/-- **fires_after_budget (2): no infinite postponement.** Without a cancellation the
context does fire with `DeadlineExceeded`, at the latest at
`t0 + d + maximumSuspension`; if it is the cap that fired, it fired exactly then. -/
theorem fires_without_cancel (P : Params) (tl : List Ev) (t0 d : Nat)
    (hs : Sorted tl) (hb : Balanced tl) (hthr : 1 ≤ P.thr) :
    ∃ r, fire P tl none t0 d = .done r ∧ r.reason ≠ .cancelled ∧
      r.instant ≤ t0 + d + P.maxSusp ∧ (r.reason = .capped → r.instant = t0 + d + P.maxSusp) := by
  obtain ⟨r, h⟩ := fire_done P tl none t0 d hthr
  have ok := (fire_prompt hs hb (by intro c hc; cases hc) h).1
  refine ⟨r, h, ?_, ok.wall, ok.capped⟩
  intro hr
  obtain ⟨c, hc, _⟩ := ok.cancelled hr
  cases hc

/-- **not_early, as the executor uses it.** A command that ends at `t1` (the executor
then calls the `CancelFunc`) having used at most `d − thr` of unsuspended time, before the
wall bound, is not timed out: the context ends at `t1` with `Canceled`, and the reported
duration is the unsuspended time the command ran. -/
theorem finishes_in_budget {P : Params} {tl : List Ev} {t0 d t1 : Nat} {pre : Bool}
    (hs : Sorted tl) (hb : Balanced tl) (hthr : 1 ≤ P.thr)
    (h01 : t0 ≤ t1) (hwall : t1 < t0 + d + P.maxSusp) (hbud : unsuspended tl t0 t1 + P.thr ≤ d) :
    ∃ r, fire P tl (some ⟨t1, pre⟩) t0 d = .done r ∧ r.instant = t1 ∧ r.reason = .cancelled ∧
      r.dur = unsuspended tl t0 t1 := by
  obtain ⟨r, h⟩ := fire_done P tl (some ⟨t1, pre⟩) t0 d hthr
  have hcn : ∀ c, some (Cancel.mk t1 pre) = some c → t0 ≤ c.t := by
    intro c hc; cases hc; exact h01
  have hp := cancel_prompt hs hb (c := ⟨t1, pre⟩) h01 h
  have hreason : r.reason = .cancelled := by
    apply Classical.byContradiction
    intro hr
    have := not_early hs hb hcn h hr h01 hwall hbud
    have := hp.1
    simp only at this
    omega
  have hinst : r.instant = t1 := hp.2 hreason
  have hdur := reported_duration hs hb hcn h
  exact ⟨r, h, hinst, hreason, by rw [hdur, hinst]⟩

/-! ## The executor (`localBuildExecutor.Execute`, run stage) -/

/-- **exec_virtual_duration.** For every timeline, every timeout and every way the command
ends (exit code 0 or not, runner error, never): the run stage ends no later than the wall
bound and the reported `virtual_execution_duration` is the unsuspended time the command ran. -/
theorem exec_virtual_duration (P : Params) (tl : List Ev) (t0 d : Nat) (fin : Option RunFinish)
    (hs : Sorted tl) (hb : Balanced tl) (hthr : 1 ≤ P.thr) (hfin : ∀ f, fin = some f → t0 ≤ f.t) :
    ∃ o, execRun P tl t0 d fin = some o ∧ o.virt = unsuspended tl t0 o.instant ∧
      t0 ≤ o.instant ∧ o.instant ≤ t0 + d + P.maxSusp ∧ o.virt ≤ d := by
  obtain ⟨r, h⟩ := fire_done P tl (fin.map fun f => ⟨f.t, f.pre⟩) t0 d hthr
  have hcn : ∀ c, (fin.map fun f => (⟨f.t, f.pre⟩ : Cancel)) = some c → t0 ≤ c.t := by
    intro c hc
    cases fin with
    | none => cases hc
    | some f => cases hc; exact hfin f rfl
  have hd := reported_duration hs hb hcn h
  have hw := wall_bound hs hb hcn h
  have hbud := budget_never_exceeded hs hb hcn h
  have hle : r.dur ≤ d := by omega
  unfold execRun
  rw [h]
  obtain ⟨inst, reason, dur, st, pS, pA⟩ := r
  simp only at hd hw hle
  cases reason <;> cases fin with
  | none => exact ⟨_, rfl, hd, hw.1, hw.2, hle⟩
  | some f =>
    first
    | exact ⟨_, rfl, hd, hw.1, hw.2, hle⟩
    | (obtain ⟨ft, fp, fh⟩ := f; cases fh <;> exact ⟨_, rfl, hd, hw.1, hw.2, hle⟩)

/-- **exec_deadline.** `DEADLINE_EXCEEDED` is reported only if the command did not end by
itself first, and then it had used up its budget: `d − thr < virtual duration ≤ d`, or the
wall bound was reached. -/
theorem exec_deadline {P : Params} {tl : List Ev} {t0 d : Nat} {fin : Option RunFinish} {o : ExecResult}
    (hs : Sorted tl) (hb : Balanced tl) (hfin : ∀ f, fin = some f → t0 ≤ f.t)
    (h : execRun P tl t0 d fin = some o) (hc : o.code = .deadlineExceeded) :
    (∀ f, fin = some f → o.instant ≤ f.t) ∧ o.virt ≤ d ∧
      (d < o.virt + P.thr ∨ o.instant = t0 + d + P.maxSusp) := by
  have hcn : ∀ c, (fin.map fun f => (⟨f.t, f.pre⟩ : Cancel)) = some c → t0 ≤ c.t := by
    intro c hc
    cases fin with
    | none => cases hc
    | some f => cases hc; exact hfin f rfl
  unfold execRun at h
  cases hf : fire P tl (fin.map fun f => ⟨f.t, f.pre⟩) t0 d with
  | badOracle => rw [hf] at h; cases h
  | outOfFuel => rw [hf] at h; cases h
  | done r =>
    rw [hf] at h
    have hd := reported_duration hs hb hcn hf
    have hbud := budget_never_exceeded hs hb hcn hf
    have ok := (fire_prompt hs hb hcn hf).1
    have key : o.virt = r.dur ∧ o.instant = r.instant ∧ r.reason ≠ .cancelled := by
      cases hr : r.reason with
      | cancelled =>
        cases fin with
        | none =>
          obtain ⟨c, hc', _⟩ := ok.cancelled hr
          cases hc'
        | some f =>
          simp only [hr] at h
          cases hh : f.how <;> simp only [hh] at h <;> cases h <;> cases hc
      | timeout =>
        cases fin <;> simp only [hr] at h <;> cases h <;> exact ⟨rfl, rfl, by simp⟩
      | capped =>
        cases fin <;> simp only [hr] at h <;> cases h <;> exact ⟨rfl, rfl, by simp⟩
    obtain ⟨hv, hi, hne⟩ := key
    refine ⟨?_, by omega, ?_⟩
    · intro f hf'
      subst hf'
      have := ok.prompt ⟨f.t, f.pre⟩ rfl
      simpa [hi] using this
    · cases hr : r.reason with
      | cancelled => exact absurd hr hne
      | capped => right; rw [hi]; exact ok.capped hr
      | timeout => left; have := (fires_after_budget hs hb hcn hf hr).1; omega

/-- **exec_in_budget.** A command that ends by itself at `t1`, before the wall bound, having
run at most `d − thr` of unsuspended time, is reported with its own outcome (never
`DEADLINE_EXCEEDED`) and with virtual duration `unsuspended(t0, t1)` - whatever its exit code,
and also when the runner failed. -/
theorem exec_in_budget {P : Params} {tl : List Ev} {t0 d : Nat} {f : RunFinish}
    (hs : Sorted tl) (hb : Balanced tl) (hthr : 1 ≤ P.thr)
    (h01 : t0 ≤ f.t) (hwall : f.t < t0 + d + P.maxSusp) (hbud : unsuspended tl t0 f.t + P.thr ≤ d) :
    execRun P tl t0 d (some f) = some (match f.how with
      | .exit c => ⟨.ok, some c, unsuspended tl t0 f.t, f.t⟩
      | .failed => ⟨.runnerError, none, unsuspended tl t0 f.t, f.t⟩) := by
  obtain ⟨r, h, hi, hr, hd⟩ := finishes_in_budget (pre := f.pre) hs hb hthr h01 hwall hbud
  unfold execRun
  simp only [Option.map_some, h, hr]
  cases f.how <;> simp [hd, hi]

/-! ## The counters -/

/-- **nesting (counter form).** The clock's counters compute the measure of the time
not covered by any suspension: `getTotalUnsuspendedNow()` at `t` is the number of unit
intervals of `[0,t)` with covering depth `#Suspend − #Resume = 0`. The right-hand side
does not depend on the order of the calls. -/
theorem nesting_counter {tl : List Ev} (hs : Sorted tl) (hb : Balanced tl) (t : Nat) :
    (clockAt tl t).totalNow t = unsuspTo tl t ∧ (clockAt tl t).totalWithTime t = unsuspTo tl t :=
  ⟨clockAt_total hs hb t, clockAt_totalWithTime hs hb t⟩

/-- **nesting (interval form).** Let storage reads occupy the intervals `[s_i, r_i)`
(any overlaps, nestings, duplicates) and let the clock see their `Suspend@s_i` /
`Resume@r_i` calls in any sorted, balanced interleaving. Then the unsuspended total is
the measure of `[0,t)` minus the **union** of the intervals: a point covered by several
reads is excluded exactly once. -/
theorem nesting {ivs : List (Nat × Nat)} (hiv : ∀ iv ∈ ivs, iv.1 ≤ iv.2) {tl : List Ev}
    (hp : tl.Perm (eventsOf ivs)) (hs : Sorted tl) (hb : Balanced tl) (t : Nat) :
    (clockAt tl t).totalNow t = ((List.range t).filter (freeOf ivs)).length := by
  rw [clockAt_total hs hb]
  exact countFree_eq_filter _ _ t (fun τ _ => depthAt_zero_iff hiv hp τ)

/-- Calls made at the very instant of a timer expiry may be handled before or after
it: the value the loop reads is the same (so the model's choice "calls first" loses
no behaviour). -/
theorem same_instant_order_irrelevant (c : Clk) (e : Ev) :
    (c.apply e).totalNow e.time = c.totalNow e.time :=
  totalNow_apply c e

/-! ## Non-vacuity: concrete timelines meeting the hypotheses -/

/-- reads [12,20) and [15,30) overlap, [40,41) is short. -/
private def tlEx : List Ev :=
  [.suspend 12, .suspend 15, .resume 20, .resume 30, .suspend 40, .resume 41]

example : Sorted tlEx ∧ Balanced tlEx := ⟨rfl, rfl⟩
example : tlEx.Perm (eventsOf [(12, 20), (15, 30), (40, 41)]) := by decide
/-- d = 20 at t0 = 10: first expiry at 30 has 18 suspended ticks left, re-arm to 48; at 48 one
more tick (< thr = 2) is outstanding: timeout at 48 with 19 unsuspended ticks. -/
example : fire ⟨100, 2⟩ tlEx none 10 20 = .done ⟨48, .timeout, 19, 48, 30, 30⟩ := by decide
/-- the same context with a cap of 5 ticks is cut at 10 + 20 + 5. -/
example : fire ⟨5, 2⟩ tlEx none 10 20 = .done ⟨35, .capped, 7, 35, 30, 30⟩ := by decide
/-- a command ending at 45 (16 unsuspended ticks ≤ 20 − 2) is not timed out. -/
example : fire ⟨100, 2⟩ tlEx (some ⟨45, false⟩) 10 20 = .done ⟨45, .cancelled, 16, 45, 30, 30⟩ := by decide
example : unsuspended tlEx 10 45 = 16 ∧ unsuspended tlEx 10 48 = 19 := by decide
/-- cancel and expiry at the same instant: the flag decides. -/
example : fire ⟨100, 2⟩ tlEx (some ⟨48, true⟩) 10 20 = .done ⟨48, .cancelled, 19, 48, 30, 30⟩ ∧
    fire ⟨100, 2⟩ tlEx (some ⟨48, false⟩) 10 20 = .done ⟨48, .timeout, 19, 48, 30, 30⟩ := by decide

/-- Late handling, the scenario the `now.After` guard exists for: timeout 10 at t0 = 0; the timer is
due at 10; a read suspends at 10 and resumes at 15; only then (5 late, after both calls) the
expiry stamped 10 is handled. It is charged 10 = unsuspended(0,10): timeout at 15, reported 10. -/
example : fireL ⟨100, 1⟩ 5 [.suspend 10, .resume 15] none 0 10 0 false [⟨5, 2⟩] =
    .done ⟨15, .timeout, 10, 10, 0, 0⟩ := by decide
example : validPos [.suspend 10, .resume 15] 2 15 = true ∧ unsuspended [.suspend 10, .resume 15] 0 10 = 10 := by decide
/-- Late handling where the reported duration exceeds the timeout although the code is right:
nothing is suspended until 13, the expiry stamped 10 is handled at 15 after `Suspend@13`:
the command really ran 13 ticks, 13 = d + unsuspended(10,15) is reported (`budget_late` is tight). -/
example : fireL ⟨100, 1⟩ 5 [.suspend 13, .resume 20] none 0 10 0 false [⟨5, 1⟩] =
    .done ⟨15, .timeout, 13, 10, 0, 0⟩ ∧ unsuspended [.suspend 13, .resume 20] 10 15 = 3 := by decide
/-- The executor: 5 ticks of work, a 30-tick stall, then the command spins: `DEADLINE_EXCEEDED` at
40 with a virtual duration of 10 (not the 40 ticks of wall time); the same command exiting with
code 3 at 38 reports 8; a runner failure at 38 also reports 8. -/
example : execRun ⟨100, 1⟩ [.suspend 5, .resume 35] 0 10 none = some ⟨.deadlineExceeded, none, 10, 40⟩ ∧
    execRun ⟨100, 1⟩ [.suspend 5, .resume 35] 0 10 (some ⟨38, false, .exit 3⟩) = some ⟨.ok, some 3, 8, 38⟩ ∧
    execRun ⟨100, 1⟩ [.suspend 5, .resume 35] 0 10 (some ⟨38, false, .failed⟩) = some ⟨.runnerError, none, 8, 38⟩ := by
  decide
/-- A position that is not a position of the timeline at the handling instant is rejected. -/
example : fireL ⟨100, 1⟩ 5 [.suspend 13, .resume 20] none 0 10 0 false [⟨5, 2⟩] = .badOracle := by decide

end BbRe.Properties.C11
