import BbRe.Lemmas.SusClockIntervals
/-!
# C11 — execution timeouts fire, compensated but bounded

Property theorems about `Model/SusClock.lean`, the transcription of
`pkg/clock/suspendable_clock.go`.  They hold for **every** timeline `tl` of
`Suspend`/`Resume` calls (non-decreasing times, no `Resume` without an earlier
`Suspend`; arbitrary nesting and overlap), every timeout `d`, every
`maximumSuspension`, every positive `timeoutThreshold`, every creation time
`t0`, and every cancellation (absent, or at any time `≥ t0`, winning or losing
a tie against a timer expiry at the same instant).

`fire P tl cn t0 d = some ⟨instant, reason, dur⟩`: the context created by
`NewContextWithTimeout(parent, d)` at `t0` is done at `instant` with
`Err() = DeadlineExceeded` (`timeout`, `capped`) or `Canceled` (`cancelled`)
and `Value(UnsuspendedDurationKey{}) = dur`.  `NewTimer(d)` runs the same loop
(`Stop` = cancel), so the instant results cover it too.

`unsuspended tl a b` is the specification: the number of unit intervals
`[τ, τ+1) ⊆ [a, b)` that no suspension covers.

Helper lemmas: `BbRe/Lemmas/SusClock*.lean`.
-/
namespace BbRe.Properties.C11
open BbRe.SusClock BbRe.Lemmas.SusClock

/-- **Fuel elimination / no infinite postponement.** With a positive threshold the
re-arm loop always terminates within `maximumSuspension + 2` iterations: the
context (timer) always completes, whatever the suspensions do. No hypothesis on
the timeline is needed. -/
theorem fire_total (P : Params) (tl : List Ev) (cn : Option Cancel) (t0 d : Nat) (hthr : 1 ≤ P.thr) :
    ∃ r, fire P tl cn t0 d = some r := by
  unfold fire fuelFor
  exact loop_total P tl cn _ _ _ hthr _ _ _ (by omega) (by omega)

/-- The answer does not depend on the amount of fuel once there is enough. -/
theorem fuel_irrelevant (P : Params) (tl : List Ev) (cn : Option Cancel) (t0 d : Nat) (r : Result)
    (h : fire P tl cn t0 d = some r) (k : Nat) :
    loop P tl cn ((clockAt tl t0).totalNow t0) ((clockAt tl t0).totalNow t0 + d) (t0 + d + P.maxSusp)
      (fuelFor P + k) t0 d = some r :=
  loop_fuel_mono P tl cn _ _ _ _ _ _ r h k

/-- **wall_bound.** The context is done no later than `t0 + d + maximumSuspension`. -/
theorem wall_bound {P : Params} {tl : List Ev} {cn : Option Cancel} {t0 d : Nat} {r : Result}
    (hs : Sorted tl) (hb : Balanced tl) (hcn : ∀ c, cn = some c → t0 ≤ c.t)
    (h : fire P tl cn t0 d = some r) :
    t0 ≤ r.instant ∧ r.instant ≤ t0 + d + P.maxSusp :=
  ⟨(fire_ok hs hb hcn h).start, (fire_ok hs hb hcn h).wall⟩

/-- **reported_duration.** `UnsuspendedDurationKey` is the unsuspended time between
creation and completion, for every completion reason. -/
theorem reported_duration {P : Params} {tl : List Ev} {cn : Option Cancel} {t0 d : Nat} {r : Result}
    (hs : Sorted tl) (hb : Balanced tl) (hcn : ∀ c, cn = some c → t0 ≤ c.t)
    (h : fire P tl cn t0 d = some r) :
    r.dur = unsuspended tl t0 r.instant := by
  have ok := fire_ok hs hb hcn h
  rw [unsuspended_eq tl ok.start]
  exact ok.dur

/-- **fires_after_budget (1).** A timeout happens only when the unsuspended time
that has run is within one threshold below the timeout, and never above it:
`d − thr < unsuspended ≤ d`. -/
theorem fires_after_budget {P : Params} {tl : List Ev} {cn : Option Cancel} {t0 d : Nat} {r : Result}
    (hs : Sorted tl) (hb : Balanced tl) (hcn : ∀ c, cn = some c → t0 ≤ c.t)
    (h : fire P tl cn t0 d = some r) (hr : r.reason = .timeout) :
    d < unsuspended tl t0 r.instant + P.thr ∧ unsuspended tl t0 r.instant ≤ d := by
  have ok := fire_ok hs hb hcn h
  rw [unsuspended_eq tl ok.start]
  have h1 := ok.timeout hr
  have h2 := ok.budget
  have h3 := unsuspTo_mono tl ok.start
  omega

/-- The budget is never exceeded, whatever ends the context: at completion at most
`d` of unsuspended time has run (so the timeout is never late). -/
theorem budget_never_exceeded {P : Params} {tl : List Ev} {cn : Option Cancel} {t0 d : Nat} {r : Result}
    (hs : Sorted tl) (hb : Balanced tl) (hcn : ∀ c, cn = some c → t0 ≤ c.t)
    (h : fire P tl cn t0 d = some r) :
    unsuspended tl t0 r.instant ≤ d := by
  have ok := fire_ok hs hb hcn h
  rw [unsuspended_eq tl ok.start]
  have h2 := ok.budget
  omega

/-- **Compensation is complete up to the cap.** The cap ends the context only after at
least `maximumSuspension` of stall time has really been excluded: when the reason is
`capped`, the suspended time in `[t0, instant)` is `≥ maximumSuspension` (and `instant`
is exactly the wall bound). Together with `fires_after_budget`: stall time is excluded
in full, but never more than the configured maximum. -/
theorem capped_only_after_max_compensation {P : Params} {tl : List Ev} {cn : Option Cancel} {t0 d : Nat}
    {r : Result} (hs : Sorted tl) (hb : Balanced tl) (hcn : ∀ c, cn = some c → t0 ≤ c.t)
    (h : fire P tl cn t0 d = some r) (hr : r.reason = .capped) :
    r.instant = t0 + d + P.maxSusp ∧ P.maxSusp ≤ (r.instant - t0) - unsuspended tl t0 r.instant := by
  have ok := fire_ok hs hb hcn h
  have hi := ok.capped hr
  refine ⟨hi, ?_⟩
  rw [unsuspended_eq tl ok.start]
  have h2 := ok.budget
  have h3 := unsuspTo_mono tl ok.start
  omega

/-- **fires_after_budget (2): no infinite postponement.** Without a cancellation the
context does fire with `DeadlineExceeded`, at the latest at
`t0 + d + maximumSuspension`; if it is the cap that fired, it fired exactly then. -/
theorem fires_without_cancel (P : Params) (tl : List Ev) (t0 d : Nat)
    (hs : Sorted tl) (hb : Balanced tl) (hthr : 1 ≤ P.thr) :
    ∃ r, fire P tl none t0 d = some r ∧ r.reason ≠ .cancelled ∧
      r.instant ≤ t0 + d + P.maxSusp ∧ (r.reason = .capped → r.instant = t0 + d + P.maxSusp) := by
  obtain ⟨r, h⟩ := fire_total P tl none t0 d hthr
  have ok := fire_ok hs hb (by intro c hc; cases hc) h
  refine ⟨r, h, ?_, ok.wall, ok.capped⟩
  intro hr
  obtain ⟨c, hc, _⟩ := ok.cancelled hr
  cases hc

/-- A cancellation is honoured at its own instant, and a context reported as
`Canceled` was in fact cancelled then. -/
theorem cancel_prompt {P : Params} {tl : List Ev} {c : Cancel} {t0 d : Nat} {r : Result}
    (hs : Sorted tl) (hb : Balanced tl) (hc : t0 ≤ c.t)
    (h : fire P tl (some c) t0 d = some r) :
    r.instant ≤ c.t ∧ (r.reason = .cancelled → r.instant = c.t) := by
  have ok := fire_ok hs hb (by intro c' hc'; cases hc'; exact hc) h
  refine ⟨ok.prompt c rfl, fun hr => ?_⟩
  obtain ⟨c', hc', ht⟩ := ok.cancelled hr
  cases hc'
  exact ht.symm

/-- **not_early.** If at `t1` (before the wall bound) at most `d − thr` of unsuspended
time has run, then no `DeadlineExceeded` has been raised up to and including `t1`. -/
theorem not_early {P : Params} {tl : List Ev} {cn : Option Cancel} {t0 d t1 : Nat} {r : Result}
    (hs : Sorted tl) (hb : Balanced tl) (hcn : ∀ c, cn = some c → t0 ≤ c.t)
    (h : fire P tl cn t0 d = some r) (hr : r.reason ≠ .cancelled)
    (h01 : t0 ≤ t1) (hwall : t1 < t0 + d + P.maxSusp) (hbud : unsuspended tl t0 t1 + P.thr ≤ d) :
    t1 < r.instant := by
  have ok := fire_ok hs hb hcn h
  rw [unsuspended_eq tl h01] at hbud
  have hm := unsuspTo_mono tl h01
  cases hreason : r.reason with
  | cancelled => exact absurd hreason hr
  | capped => rw [ok.capped hreason]; exact hwall
  | timeout =>
    have h1 := ok.timeout hreason
    apply Nat.lt_of_not_le
    intro hle
    have := unsuspTo_mono tl hle
    omega

/-- **not_early, as the executor uses it.** A command that ends at `t1` (the executor
then calls the `CancelFunc`) having used at most `d − thr` of unsuspended time, before the
wall bound, is not timed out: the context ends at `t1` with `Canceled`, and the reported
duration is the unsuspended time the command ran. -/
theorem finishes_in_budget {P : Params} {tl : List Ev} {t0 d t1 : Nat} {pre : Bool}
    (hs : Sorted tl) (hb : Balanced tl) (hthr : 1 ≤ P.thr)
    (h01 : t0 ≤ t1) (hwall : t1 < t0 + d + P.maxSusp) (hbud : unsuspended tl t0 t1 + P.thr ≤ d) :
    fire P tl (some ⟨t1, pre⟩) t0 d = some ⟨t1, .cancelled, unsuspended tl t0 t1⟩ := by
  obtain ⟨r, h⟩ := fire_total P tl (some ⟨t1, pre⟩) t0 d hthr
  have hcn : ∀ c, some (Cancel.mk t1 pre) = some c → t0 ≤ c.t := by
    intro c hc; cases hc; exact h01
  have hp := cancel_prompt hs hb (c := ⟨t1, pre⟩) h01 h
  have hreason : r.reason = .cancelled := by
    apply Classical.byContradiction
    intro hr
    have := not_early hs hb hcn h hr h01 hwall hbud
    have := hp.1
    simp only at this
    omega
  have hinst : r.instant = t1 := hp.2 hreason
  have hdur := reported_duration hs hb hcn h
  rw [h]
  cases r
  simp only at hreason hinst hdur
  subst hreason hinst hdur
  rfl

/-- **nesting (counter form).** The clock's counters compute the measure of the time
not covered by any suspension: `getTotalUnsuspendedNow()` at `t` is the number of unit
intervals of `[0,t)` with covering depth `#Suspend − #Resume = 0`. The right-hand side
does not depend on the order of the calls. -/
theorem nesting_counter {tl : List Ev} (hs : Sorted tl) (hb : Balanced tl) (t : Nat) :
    (clockAt tl t).totalNow t = unsuspTo tl t ∧ (clockAt tl t).totalWithTime t = unsuspTo tl t :=
  ⟨clockAt_total hs hb t, clockAt_totalWithTime hs hb t⟩

/-- **nesting (interval form).** Let storage reads occupy the intervals `[s_i, r_i)`
(any overlaps, nestings, duplicates) and let the clock see their `Suspend@s_i` /
`Resume@r_i` calls in any sorted, balanced interleaving. Then the unsuspended total is
the measure of `[0,t)` minus the **union** of the intervals: a point covered by several
reads is excluded exactly once. -/
theorem nesting {ivs : List (Nat × Nat)} (hiv : ∀ iv ∈ ivs, iv.1 ≤ iv.2) {tl : List Ev}
    (hp : tl.Perm (eventsOf ivs)) (hs : Sorted tl) (hb : Balanced tl) (t : Nat) :
    (clockAt tl t).totalNow t = ((List.range t).filter (freeOf ivs)).length := by
  rw [clockAt_total hs hb]
  exact countFree_eq_filter _ _ t (fun τ _ => depthAt_zero_iff hiv hp τ)

/-- Calls made at the very instant of a timer expiry may be handled before or after
it: the value the loop reads is the same (so the model's choice "calls first" loses
no behaviour). -/
theorem same_instant_order_irrelevant (c : Clk) (e : Ev) :
    (c.apply e).totalNow e.time = c.totalNow e.time :=
  totalNow_apply c e

/-! ## Non-vacuity: concrete timelines meeting the hypotheses -/

/-- reads [12,20) and [15,30) overlap, [40,41) is short. -/
private def tlEx : List Ev :=
  [.suspend 12, .suspend 15, .resume 20, .resume 30, .suspend 40, .resume 41]

example : Sorted tlEx ∧ Balanced tlEx := ⟨rfl, rfl⟩
example : tlEx.Perm (eventsOf [(12, 20), (15, 30), (40, 41)]) := by decide
/-- d = 20 at t0 = 10: first expiry at 30 has 18 suspended ticks left, re-arm to 48; at 48 one
more tick (< thr = 2) is outstanding: timeout at 48 with 19 unsuspended ticks. -/
example : fire ⟨100, 2⟩ tlEx none 10 20 = some ⟨48, .timeout, 19⟩ := by decide
/-- the same context with a cap of 5 ticks is cut at 10 + 20 + 5. -/
example : fire ⟨5, 2⟩ tlEx none 10 20 = some ⟨35, .capped, 7⟩ := by decide
/-- a command ending at 45 (16 unsuspended ticks ≤ 20 − 2) is not timed out. -/
example : fire ⟨100, 2⟩ tlEx (some ⟨45, false⟩) 10 20 = some ⟨45, .cancelled, 16⟩ := by decide
example : unsuspended tlEx 10 45 = 16 ∧ unsuspended tlEx 10 48 = 19 := by decide
/-- cancel and expiry at the same instant: the flag decides. -/
example : fire ⟨100, 2⟩ tlEx (some ⟨48, true⟩) 10 20 = some ⟨48, .cancelled, 19⟩ ∧
    fire ⟨100, 2⟩ tlEx (some ⟨48, false⟩) 10 20 = some ⟨48, .timeout, 19⟩ := by decide

end BbRe.Properties.C11
