import BbRe.Model.BRL
/-!
# C20 — byte-range locks (lock table part)

Property theorems about `Model/BRL.lean`, the transcription of
`pkg/filesystem/virtual/byte_range_lock_set.go`.  Helper lemmas live in
`BbRe/Lemmas/BRL.lean`; this file holds the statements the property rests on.
-/
namespace BbRe.Properties.C20
open BbRe.BRL

/-- `Test` only ever reports a lock that is in the table. -/
theorem test_mem (ls : List Lock) (l c : Lock) (h : test ls l = some c) : c ∈ ls := by
  induction ls with
  | nil => simp [test] at h
  | cons s rest ih =>
    unfold test at h
    split at h
    · simp at h
    · split at h
      · simp at h; simp [h]
      · exact List.mem_cons_of_mem _ (ih h)

/-- The lock reported by `Test` really conflicts: other owner, overlapping range,
and at least one side exclusive. -/
theorem test_conflicts (ls : List Lock) (l c : Lock) (h : test ls l = some c) :
    c.owner ≠ l.owner ∧ c.stop > l.start ∧ c.start < l.stop ∧ (c.ty = .excl ∨ l.ty = .excl) := by
  induction ls with
  | nil => simp [test] at h
  | cons s rest ih =>
    unfold test at h
    split at h
    · simp at h
    · split at h
      · rename_i h1 h2
        simp at h; subst h
        exact ⟨h2.1, h2.2.1, by omega, h2.2.2⟩
      · exact ih h

end BbRe.Properties.C20
