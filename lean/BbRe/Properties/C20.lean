import BbRe.Model.BRL
import BbRe.Spec.ByteLocks
import BbRe.Lemmas.BRLUnlockAll
import BbRe.Lemmas.BRLPanic
/-!
# C20 — byte-range locks (lock table part)

Property theorems about `Model/BRL.lean`, the transcription of
`pkg/filesystem/virtual/byte_range_lock_set.go`, against the per-byte
specification `Spec/ByteLocks.lean` (`abs`, `WF`, `applyReq`, `run`).  Helper
lemmas live in `BbRe/Lemmas/BRL*.lean`; this file holds the statements the
property rests on.  All statements are universally quantified (no size bounds).

Precondition used throughout: requests have a non-empty range
(`l.start < l.stop`).  `ByteRangeLock` is documented as "a lock held on a
non-empty range of bytes"; the `…_empty_range_counterexample` theorems below
show that the precondition cannot be dropped.
-/
namespace BbRe.Properties.C20
open BbRe.BRL BbRe.Spec.ByteLocks BbRe.Lemmas.BRL

/-- A non-trivial well-formed table used for the non-vacuity examples:
overlapping shared locks of owners 1 and 2, then exclusive ones. -/
def exLs : List Lock :=
  [⟨0, 5, 1, .shared⟩, ⟨3, 8, 2, .shared⟩, ⟨8, 12, 1, .excl⟩, ⟨20, 30, 2, .excl⟩]

/-! ## `Test` -/

/-- `Test` only ever reports a lock that is in the table. -/
theorem test_mem (ls : List Lock) (l c : Lock) (h : test ls l = some c) : c ∈ ls := by
  induction ls with
  | nil => simp [test] at h
  | cons s rest ih =>
    unfold test at h
    split at h
    · simp at h
    · split at h
      · simp at h; simp [h]
      · exact List.mem_cons_of_mem _ (ih h)

example : test exLs ⟨4, 10, 3, .shared⟩ = some ⟨8, 12, 1, .excl⟩ := by decide

/-- The lock reported by `Test` really conflicts: other owner, overlapping range,
and at least one side exclusive.  In particular an owner's own locks never
block it. -/
theorem test_conflicts (ls : List Lock) (l c : Lock) (h : test ls l = some c) :
    c.owner ≠ l.owner ∧ c.stop > l.start ∧ c.start < l.stop ∧ (c.ty = .excl ∨ l.ty = .excl) := by
  induction ls with
  | nil => simp [test] at h
  | cons s rest ih =>
    unfold test at h
    split at h
    · simp at h
    · split at h
      · rename_i h1 h2
        simp at h; subst h
        exact ⟨h2.1, h2.2.1, by omega, h2.2.2⟩
      · exact ih h

/-- `Test` is exact w.r.t. the per-byte view: it reports no conflict iff no byte
of the requested range is held by another owner with an exclusive side.  The
scan stops at the first entry with `start ≥ l.stop`; this is sound because the
table is sorted (`WF`).  Hence `LOCKT` denies exactly when `LOCK` would. -/
theorem test_exact (ls : List Lock) (l : Lock) (hwf : WF ls) (hl : l.start < l.stop) :
    test ls l = none ↔
      ¬ ∃ o' b t, o' ≠ l.owner ∧ l.start ≤ b ∧ b < l.stop ∧ abs ls o' b = some t ∧
        (t = .excl ∨ l.ty = .excl) := by
  have hwf' := (wf_iff ls).1 hwf
  rw [test_none_iff hwf.sorted l]
  constructor
  · rintro h ⟨o', b, t, ho, hb1, hb2, habs, hx⟩
    obtain ⟨e, he, hc, ht⟩ := abs_some_mem habs
    exact h e he (by rw [hc.1]; exact ho) (by omega) (by omega) (by rw [ht]; exact hx)
  · intro h y hy ho h1 h2 hx
    apply h
    have hne := hwf.nonempty y hy
    refine ⟨y.owner, max y.start l.start, y.ty, ho, by omega, by omega, ?_, hx⟩
    exact (abs_eq_some_iff hwf'.1 hwf'.2).2 ⟨y, hy, ⟨rfl, by omega, by omega⟩, rfl⟩

example : WF exLs ∧ (2 : Nat) < 7 ∧ test exLs ⟨2, 7, 3, .shared⟩ = none := by decide
example : WF exLs ∧ (4 : Nat) < 10 ∧ test exLs ⟨4, 10, 3, .shared⟩ ≠ none := by decide

/-- Without `l.start < l.stop`, `test_exact` is false: for an empty range strictly
inside another owner's exclusive lock, `Test` reports a conflict although no
byte is requested.  (Conservative, harmless; callers never pass empty ranges
except `offset = length = 2^64-1`, where `Test` cannot conflict.) -/
theorem test_exact_empty_range_counterexample :
    ∃ ls l, WF ls ∧ l.start = l.stop ∧ test ls l ≠ none ∧
      ¬ ∃ o' b t, o' ≠ l.owner ∧ l.start ≤ b ∧ b < l.stop ∧ abs ls o' b = some t ∧
        (t = .excl ∨ l.ty = .excl) := by
  refine ⟨[⟨0, 10, 2, .excl⟩], ⟨5, 5, 1, .shared⟩, by decide, rfl, by decide, ?_⟩
  rintro ⟨o', b, t, _, h1, h2, _⟩
  simp only at h1 h2
  omega

/-! ## `Set` preserves the representation invariant -/

theorem wf_init : WF [] := wf_nil

/-- `WF` (sorted by start; ranges non-empty; no `unlocked` entries; per owner
pairwise disjoint and same-type entries not even adjacent; different owners
overlap only if both shared) is preserved by `Set` for unlock requests always,
and for lock requests whenever `Test` reported no conflict. -/
theorem wf_preserved (ls : List Lock) (l : Lock) (hwf : WF ls) (hl : l.start < l.stop)
    (ht : l.ty ≠ .unlocked → test ls l = none) : WF (setList ls l) := by
  by_cases hty : l.ty = .unlocked
  · exact wf_setList_unlock hwf hl hty
  · exact wf_setList_lock hwf hl hty (ht hty)

-- lock request that merges and cuts (owner 1, shared over [4,10): merges with
-- [0,5), cuts the head of the exclusive [8,12)) although it overlaps owner 2's
-- shared lock; and an unlock request punching a hole
example : WF exLs ∧ (4 : Nat) < 10 ∧ test exLs ⟨4, 10, 1, .shared⟩ = none ∧
    setList exLs ⟨4, 10, 1, .shared⟩ =
      [⟨0, 10, 1, .shared⟩, ⟨3, 8, 2, .shared⟩, ⟨10, 12, 1, .excl⟩, ⟨20, 30, 2, .excl⟩] := by decide
example : setList exLs ⟨22, 25, 2, .unlocked⟩ =
    [⟨0, 5, 1, .shared⟩, ⟨3, 8, 2, .shared⟩, ⟨8, 12, 1, .excl⟩, ⟨20, 22, 2, .excl⟩,
     ⟨25, 30, 2, .excl⟩] := by decide

/-- The non-empty-range precondition of `wf_preserved` cannot be dropped, even
for unlock requests: unlocking the empty range `[5,5)` inside `[0,10)` splits
it into the two *adjacent same-type* entries `[0,5)`, `[5,10)` (per-byte view
unchanged, but not the merged normal form). -/
theorem wf_preserved_empty_range_counterexample :
    ∃ ls l, WF ls ∧ l.ty = .unlocked ∧ l.start = l.stop ∧ ¬ WF (setList ls l) :=
  ⟨[⟨0, 10, 1, .excl⟩], ⟨5, 5, 1, .unlocked⟩, by decide, rfl, rfl, by decide⟩

/-- The two `panic("New entry has multiple trailing overlapping entries, which is
impossible")` statements of `Set` are indeed unreachable on a well-formed table
(the model itself would silently overwrite the trailing part there; see
`Lemmas/BRLPanic.lean` for the instrumented recursion `setPanics`).  No `Test`
hypothesis is needed: only the owner's own entries matter. -/
theorem set_no_panic (ls : List Lock) (l : Lock) (hwf : WF ls) (hl : l.start < l.stop) :
    setPanics ls l = false :=
  setPanics_false hwf hl

-- the instrumentation is not vacuous: on a table violating per-owner
-- disjointness the second trailing part is created and the flag is raised
example : setPanics [⟨0, 10, 1, .excl⟩, ⟨2, 12, 1, .excl⟩] ⟨4, 6, 1, .shared⟩ = true := by decide
example : WF exLs ∧ setPanics exLs ⟨21, 25, 2, .shared⟩ = false := by decide

/-! ## `Set` refines the per-byte specification -/

/-- Key refinement theorem: the owner's new lock replaces / splits / merges
exactly its own bytes in the range, and nothing else changes. -/
theorem set_pointwise (ls : List Lock) (l : Lock) (hwf : WF ls) (hl : l.start < l.stop)
    (o b : Nat) :
    abs (setList ls l) o b =
      if o = l.owner ∧ l.start ≤ b ∧ b < l.stop then
        (if l.ty = .unlocked then none else some l.ty)
      else abs ls o b := by
  by_cases ho : o = l.owner
  · subst ho
    rw [setList_abs_own hwf hl b]
    simp
  · rw [setList_abs_other ls l ho b]
    simp [ho]

example : WF exLs ∧ (4 : Nat) < 10 ∧ abs exLs 1 9 = some .excl ∧
    abs (setList exLs ⟨4, 10, 1, .shared⟩) 1 9 = some .shared ∧
    abs (setList exLs ⟨4, 10, 1, .shared⟩) 1 10 = some .excl := by decide

/-- Other owners are not affected by `Set` at all — no hypothesis needed. -/
theorem set_pointwise_other (ls : List Lock) (l : Lock) (o b : Nat) (ho : o ≠ l.owner) :
    abs (setList ls l) o b = abs ls o b :=
  setList_abs_other ls l ho b

/-! ## The returned delta -/

/-- The returned delta is the change in the number of entries. -/
theorem delta (ls : List Lock) (l : Lock) :
    (set ls l).1 = setList ls l ∧
    (set ls l).2 = ((setList ls l).length : Int) - (ls.length : Int) := ⟨rfl, rfl⟩

/-- `Set` leaves the entries of all other owners untouched, in the same order. -/
theorem entries_other_owner_unchanged (ls : List Lock) (l : Lock) :
    (setList ls l).filter (fun e => e.owner ≠ l.owner) =
      ls.filter (fun e => e.owner ≠ l.owner) :=
  setList_filter_others ls l

/-- … hence the number of entries of any other owner is unchanged. -/
theorem count_other_owner_unchanged (ls : List Lock) (l : Lock) (o : Nat) (ho : o ≠ l.owner) :
    (setList ls l).countP (fun e => e.owner = o) = ls.countP (fun e => e.owner = o) := by
  have h := setList_filter_others ls l
  have key : ∀ xs : List Lock, xs.countP (fun e => e.owner = o) =
      (xs.filter (fun e => e.owner ≠ l.owner)).countP (fun e => e.owner = o) := by
    intro xs
    rw [List.countP_filter]
    apply List.countP_congr
    intro e _
    simp only [decide_eq_true_eq, Bool.and_eq_true, ne_eq, decide_not, Bool.not_eq_eq_eq_not,
      Bool.not_true, decide_eq_false_iff_not]
    omega
  rw [key (setList ls l), key ls, h]

/-- … and the returned delta is exactly the change in the number of entries of
the requesting owner (what `lockCount` accumulates). -/
theorem delta_owner (ls : List Lock) (l : Lock) :
    (set ls l).2 = ((setList ls l).countP (fun e => e.owner = l.owner) : Int) -
      (ls.countP (fun e => e.owner = l.owner) : Int) := by
  have h := congrArg List.length (setList_filter_others ls l)
  have key : ∀ xs : List Lock, xs.length = xs.countP (fun e => e.owner = l.owner) +
      (xs.filter (fun e => e.owner ≠ l.owner)).length := by
    intro xs
    rw [List.length_eq_countP_add_countP (fun e => decide (e.owner = l.owner)) (l := xs)]
    congr 1
    rw [List.countP_eq_length_filter]
    congr 2
    funext e
    simp
  have h1 := key (setList ls l)
  have h2 := key ls
  show ((setList ls l).length : Int) - (ls.length : Int) = _
  omega

/-- Over a whole history the sum of the deltas reported for owner `o`'s requests
equals the change in the number of `o`'s entries; starting from the empty table
`lockCount = 0 ↔ o has no entries`. -/
theorem lock_count (o : Nat) (ls : List Lock) (reqs : List Req) :
    deltaSum o ls reqs = ((run ls reqs).countP (fun e => e.owner = o) : Int) -
      (ls.countP (fun e => e.owner = o) : Int) := by
  induction reqs generalizing ls with
  | nil => simp [deltaSum, run]
  | cons r rs ih =>
    simp only [deltaSum, run, ih]
    by_cases happ : r.ty = .unlocked ∨ test ls r = none
    · have happly : applyReq ls r = setList ls r := by
        unfold applyReq
        rcases happ with h | h
        · rw [if_pos h]
        · split <;> simp
      rw [happly]
      by_cases ho : r.owner = o
      · subst ho
        rw [if_pos rfl]
        unfold stepDelta
        rw [if_pos happ, delta_owner]
        omega
      · rw [if_neg ho, count_other_owner_unchanged ls r o (Ne.symm ho)]
        omega
    · have happly : applyReq ls r = ls := by
        unfold applyReq
        rw [if_neg (fun h => happ (Or.inl h)), if_neg (fun h => happ (Or.inr h))]
      rw [happly]
      unfold stepDelta
      rw [if_neg happ]
      split <;> omega

/-! ## Mutual exclusion in every reachable table -/

/-- One caller step preserves the invariant. -/
theorem wf_applyReq (ls : List Lock) (r : Req) (hwf : WF ls) (hv : r.Valid) :
    WF (applyReq ls r) := by
  unfold applyReq
  split
  · rename_i h
    exact wf_preserved ls r hwf hv (fun h' => absurd h h')
  · split
    · rename_i h
      exact wf_preserved ls r hwf hv (fun _ => h)
    · exact hwf

/-- Every table reachable from a well-formed one by valid requests is well-formed. -/
theorem wf_run (ls : List Lock) (reqs : List Req) (hwf : WF ls) (hv : ∀ r ∈ reqs, r.Valid) :
    WF (run ls reqs) := by
  induction reqs generalizing ls with
  | nil => exact hwf
  | cons r rs ih =>
    exact ih (applyReq ls r) (wf_applyReq ls r hwf (hv r (by simp)))
      (fun r' hr' => hv r' (by simp [hr']))

/-- In a well-formed table no byte is held by two different owners unless both
hold it shared. -/
theorem wf_mutual_exclusion (ls : List Lock) (hwf : WF ls) (o₁ o₂ b : Nat) (t₁ t₂ : Ty)
    (hne : o₁ ≠ o₂) (h₁ : abs ls o₁ b = some t₁) (h₂ : abs ls o₂ b = some t₂) :
    t₁ = .shared ∧ t₂ = .shared := by
  have hwf' := (wf_iff ls).1 hwf
  obtain ⟨e₁, he₁, hc₁, ht₁⟩ := abs_some_mem h₁
  obtain ⟨e₂, he₂, hc₂, ht₂⟩ := abs_some_mem h₂
  have := cross_of_mem hwf'.2 he₁ he₂ (by rw [hc₁.1, hc₂.1]; exact hne) (by omega) (by omega)
  rw [← ht₁, ← ht₂]
  exact this

/-- Mutual exclusion: after any history of (non-empty-range) requests starting
from the empty table, where every lock request is applied only if `Test`
returned no conflict, no byte is held by two different owners unless both hold
it shared. -/
theorem mutual_exclusion (reqs : List Req) (hv : ∀ r ∈ reqs, r.Valid)
    (o₁ o₂ b : Nat) (t₁ t₂ : Ty) (hne : o₁ ≠ o₂)
    (h₁ : abs (run [] reqs) o₁ b = some t₁) (h₂ : abs (run [] reqs) o₂ b = some t₂) :
    t₁ = .shared ∧ t₂ = .shared :=
  wf_mutual_exclusion _ (wf_run [] reqs wf_init hv) o₁ o₂ b t₁ t₂ hne h₁ h₂

/-- A history with two denied lock requests (the 2nd and the 4th), overlapping
shared locks of two owners, an own-lock split and a hole punched by an unlock. -/
def exReqs : List Req :=
  [⟨0, 10, 1, .shared⟩, ⟨5, 15, 2, .excl⟩, ⟨5, 15, 2, .shared⟩, ⟨3, 6, 1, .excl⟩,
   ⟨0, 4, 1, .excl⟩, ⟨12, 13, 2, .unlocked⟩]

example : (∀ r ∈ exReqs, r.Valid) ∧
    run [] exReqs =
      [⟨0, 4, 1, .excl⟩, ⟨4, 10, 1, .shared⟩, ⟨5, 12, 2, .shared⟩, ⟨13, 15, 2, .shared⟩] ∧
    abs (run [] exReqs) 1 5 = some .shared ∧ abs (run [] exReqs) 2 5 = some .shared ∧
    deltaSum 1 [] exReqs = 2 ∧ deltaSum 2 [] exReqs = 2 := by
  decide

/-! ## Unlocking everything (`UnlockAll`, CLOSE, lease expiry) -/

/-- `Set(unlock o [0, M))` with every entry ending at or before `M` releases
all of `o`'s bytes and changes nothing for any other owner.  (The Go caller uses
`M = 2^64-1`; ranges never contain byte `2^64-1`.) -/
theorem unlock_all (ls : List Lock) (o M : Nat) (hwf : WF ls) (hM : ∀ e ∈ ls, e.stop ≤ M) :
    (∀ b, abs (setList ls ⟨0, M, o, .unlocked⟩) o b = none) ∧
    (∀ o' b, o' ≠ o → abs (setList ls ⟨0, M, o, .unlocked⟩) o' b = abs ls o' b) := by
  refine ⟨?_, fun o' b ho => set_pointwise_other ls _ o' b ho⟩
  intro b
  by_cases hM0 : 0 < M
  · rw [set_pointwise ls _ hwf hM0 o b]
    simp only [true_and, Nat.zero_le, if_true]
    split
    · rfl
    · rename_i hb
      rw [abs_eq_none_iff]
      intro e he hc
      have := hM e he
      omega
  · have : ls = [] := by
      cases ls with
      | nil => rfl
      | cons e rest =>
        have h1 := hM e (by simp)
        have h2 := hwf.nonempty e (by simp)
        omega
    subst this
    rfl

/-- Entry-level form: the result is literally the table with `o`'s entries
removed (so `o`'s `lockCount` drops to 0 and every other entry is untouched). -/
theorem unlock_all_entries (ls : List Lock) (o M : Nat) (hwf : WF ls)
    (hM : ∀ e ∈ ls, e.stop ≤ M) :
    setList ls ⟨0, M, o, .unlocked⟩ = ls.filter (fun e => e.owner ≠ o) :=
  setList_unlock_all ls o M (fun e he => ⟨hwf.nonempty e he, hM e he⟩)

example : WF exLs ∧ (∀ e ∈ exLs, e.stop ≤ 2^64 - 1) ∧
    setList exLs ⟨0, 2^64 - 1, 1, .unlocked⟩ = [⟨3, 8, 2, .shared⟩, ⟨20, 30, 2, .excl⟩] := by
  decide

end BbRe.Properties.C20
