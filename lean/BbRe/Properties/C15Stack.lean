import BbRe.Lemmas.PoolStack3
import BbRe.Lemmas.PoolStackCount
import BbRe.Lemmas.PoolStackOracle
import BbRe.Lemmas.FilePoolAllocSpec
/-!
# C15 (the whole stack) — quota pool over block-device pool over bitmap allocator

Property theorems about `Model/PoolStack.lean`, the composition of the three C15 models
(`Model/Quota.lean` over `Model/FilePool.lean` over `Model/Bitmap.lean`): the file layer's allocator
oracle is answered by the word-level bitmap model, the quota layer's base pool is the file layer.
A history is a list of `(Op, Inputs)`: the operation with the fault inputs of that call (device
read/write faults, hole-source read/seek/`Truncate`/`Close` faults, an injected allocation
refusal).  All theorems quantify over every sector size `≥ 1`, device size, quota, number of files
and history.

`broken` is the model's consistency flag (`Model/PoolStack.lean`, `syncFree` / `settle`): raised
when the bitmap model panics on a free, when the file layer holds a sector it was never handed, or
when the base reports more bytes written than it was given.  `stack_consistent` shows it is never
raised, so all theorems here are unconditional.
Not proved: that the file model accepts every answer of the replay (never takes its `.oracle`
branch in the stack); `Lemmas/PoolStackOracle.lean` has the acceptance step (`alloc_accepts_bitmap`)
and lists what is missing (replay determinism, `nextMax` = the requested maximum); compared at run time.
Helper lemmas: `BbRe/Lemmas/PoolStack.lean`, `PoolStack2.lean`, `PoolStackSub.lean`, `PoolStack3.lean`.
-/
namespace BbRe.Properties.C15Stack
open BbRe BbRe.PoolStack BbRe.FilePool BbRe.Lemmas.PoolStack

/-- the state after a history -/
abbrev after (c : Cfg) (mf mb : Nat) (ops : List (Op × Inputs)) : PoolStack.State :=
  PoolStack.run (PoolStack.init c mf mb) ops

/-- **The composition is consistent**: after any history the consistency flag is down — no free ever
makes the bitmap model panic (no double free, nothing out of range), the file layer never holds a
sector the bitmap did not hand to it (`Lemmas/PoolStackSub.lean`: `step_allocd_sub`), and the base
never reports more bytes written than it was given. -/
theorem stack_consistent (c : Cfg) (hss : 1 ≤ c.ss) (mf mb : Nat) (ops : List (Op × Inputs)) :
    (after c mf mb ops).broken = false :=
  (run_notbroken c hss mf mb ops).2

/-- **`stack_oracle_valid`**.
In every state reached by the composed model, every `AllocateContiguous(m)`, `m ≥ 1`, that the
bitmap model answers with `(first, count)` is an `AllocSpec.AllocOk` step *on the file layer's own
allocated set* (`absAlloc allocd`: the abstract allocator state `Model/FilePool.lean` checks its oracle
against): `1 ≤ count ≤ m`, sectors numbered from 1 and on the device, none of them held by any file.
So the oracle of `Model/FilePool.lean` is answered within the contract, and the file-level theorems
of `Properties/C15.lean` apply to the stack. -/
theorem stack_oracle_valid (c : Cfg) (hss : 1 ≤ c.ss) (mf mb : Nat) (ops : List (Op × Inputs))
    (m first count : Nat) (hm : 1 ≤ m)
    (h : (Bitmap.alloc (after c mf mb ops).bm m).2 = some (first, count)) :
    AllocSpec.AllocOk c.nsec (Lemmas.FilePool.absAlloc (after c mf mb ops).fp.allocd) m first count
      (Bitmap.abs c.nsec (Bitmap.alloc (after c mf mb ops).bm m).1) := by
  have hc := (run_notbroken c hss mf mb ops).1
  have hcfg : (after c mf mb ops).fp.cfg = c := (run_fpInv ops _ (coupled_init c hss mf mb).fpInv).2
  have he : Lemmas.FilePool.absAlloc (after c mf mb ops).fp.allocd = Bitmap.abs c.nsec (after c mf mb ops).bm := by
    funext s
    have := hc.agree s
    rw [hcfg] at this
    exact this.symm
  rw [he]
  have hinv := hc.bmInv
  rw [hcfg] at hinv
  exact Lemmas.Bitmap.alloc_ok_spec c.nsec _ m first count hinv hm h

/-- **The answers produced during one call**: whatever operation comes next, with
whatever faults, the sectors the bitmap model hands to the file layer during that call are pairwise
distinct, lie on the device, and none of them is held by a file when the call starts; the bitmap's
representation invariant holds after the last answer. -/
theorem stack_answers_fresh (c : Cfg) (hss : 1 ≤ c.ss) (mf mb : Nat) (ops : List (Op × Inputs))
    (op : Op) (inp : Inputs) :
    Bitmap.Inv c.nsec (answersFor (after c mf mb ops) op inp).1 ∧
      (ansSectors (answersFor (after c mf mb ops) op inp).2).Nodup ∧
      ∀ s ∈ ansSectors (answersFor (after c mf mb ops) op inp).2,
        1 ≤ s ∧ s ≤ c.nsec ∧ s ∉ (after c mf mb ops).fp.allocd := by
  have hc := (run_notbroken c hss mf mb ops).1
  have hcfg : (after c mf mb ops).fp.cfg = c := (run_fpInv ops _ (coupled_init c hss mf mb).fpInv).2
  have hA := answersFor_ok (after c mf mb ops) op inp hc.bmInv
  rw [hcfg] at hA
  refine ⟨hA.inv, hA.nodup, fun s hs => ?_⟩
  have h1 : Bitmap.abs c.nsec (answersFor (after c mf mb ops) op inp).1 s = true := by
    rw [hA.abs s]; simp [hs]
  have hw := Lemmas.Bitmap.abs_wf c.nsec _ s h1
  refine ⟨hw.1, hw.2, fun hmem => ?_⟩
  have h2 := hA.fresh s hs
  have h3 := hc.agree s
  rw [hcfg, h2] at h3
  simp [hmem] at h3

/-- **`stack_conservation`, quota** (unconditional).  After any history — including operations
refused for quota, failed device writes, allocation failures, failing hole-source `Truncate` /
`Close` — files remaining + open files = `maxFiles` and bytes remaining + the sizes charged to the
open files = `maxBytes`; in particular once no file is open both counters are back at their
maxima. -/
theorem stack_conservation_quota (c : Cfg) (mf mb : Nat) (ops : List (Op × Inputs)) :
    (after c mf mb ops).q.filesRemaining + (after c mf mb ops).q.files.length = mf ∧
      (after c mf mb ops).q.bytesRemaining + Quota.totalSize (after c mf mb ops).q.files = mb ∧
      ((after c mf mb ops).q.files = [] →
        (after c mf mb ops).q.filesRemaining = mf ∧ (after c mf mb ops).q.bytesRemaining = mb) := by
  have h0 : Lemmas.Quota.Conserved (PoolStack.init c mf mb).q := by
    simp [Lemmas.Quota.Conserved, PoolStack.init, Quota.init, Quota.totalSize]
  obtain ⟨⟨a, b⟩, e1, e2⟩ := run_quota ops _ h0
  have e1' : (after c mf mb ops).q.maxFiles = mf := e1
  have e2' : (after c mf mb ops).q.maxBytes = mb := e2
  refine ⟨a.trans e1', b.trans e2', fun hnil => ?_⟩
  have a' := a.trans e1'
  have b' := b.trans e2'
  rw [hnil] at a' b'
  simp [Quota.totalSize] at a' b'
  exact ⟨a', b'⟩

/-- **`stack_conservation`, sectors**.
At every point a sector of the device is in use in the bitmap exactly if an open file references
it — so free sectors of the bitmap + sectors owned by files = `sectorCount`, sector by sector —
also after failed operations; and once every file is closed the bitmap is entirely free. -/
theorem stack_conservation_sectors (c : Cfg) (hss : 1 ≤ c.ss) (mf mb : Nat) (ops : List (Op × Inputs)) :
    (∀ s, Bitmap.abs c.nsec (after c mf mb ops).bm s = true ↔
        ∃ (i : Nat) (f : File), (after c mf mb ops).fp.files[i]? = some f ∧ s ∈ f.sectors ∧ s ≠ 0) ∧
      ((∀ f ∈ (after c mf mb ops).fp.files, f.closed = true) →
        ∀ s, Bitmap.abs c.nsec (after c mf mb ops).bm s = false) := by
  have hc := (run_notbroken c hss mf mb ops).1
  have hcfg : (after c mf mb ops).fp.cfg = c := (run_fpInv ops _ (coupled_init c hss mf mb).fpInv).2
  have hag : ∀ s, Bitmap.abs c.nsec (after c mf mb ops).bm s = (after c mf mb ops).fp.allocd.contains s := by
    intro s; have := hc.agree s; rw [hcfg] at this; exact this
  have hown : ∀ s, s ∈ (after c mf mb ops).fp.allocd ↔
      ∃ (i : Nat) (f : File), (after c mf mb ops).fp.files[i]? = some f ∧ s ∈ f.sectors ∧ s ≠ 0 := by
    intro s
    constructor
    · intro hs
      obtain ⟨i, f, hf, hsf⟩ := hc.fpInv.noLeak s hs
      exact ⟨i, f, hf, hsf, by have := hc.fpInv.allocRange s hs; omega⟩
    · rintro ⟨i, f, hf, hsf, hs0⟩
      exact hc.fpInv.owned i f hf s hsf hs0
  refine ⟨fun s => ?_, fun hclosed s => ?_⟩
  · rw [hag s, ← hown s]; simp
  · cases hx : Bitmap.abs c.nsec (after c mf mb ops).bm s
    · rfl
    · exfalso
      rw [hag s] at hx
      obtain ⟨i, f, hf, hsf, _⟩ := (hown s).1 (by simpa using hx)
      rw [hc.fpInv.closedEmpty i f hf (hclosed f (List.mem_of_getElem? hf))] at hsf
      cases hsf

/-- **`stack_conservation`, count form**: in every reachable state the number of free sectors of the
bitmap (`AllocSpec.freeCount` of its abstraction over sectors `1 … sectorCount`) plus the number of
non-zero sector entries of all files equals `sectorCount` — also after failed operations. -/
theorem stack_conservation_count (c : Cfg) (hss : 1 ≤ c.ss) (mf mb : Nat) (ops : List (Op × Inputs)) :
    AllocSpec.freeCount (Bitmap.abs c.nsec (after c mf mb ops).bm) c.nsec +
      ((after c mf mb ops).fp.files.map fun f => (f.sectors.filter (· ≠ 0)).length).sum = c.nsec := by
  have hc := (run_notbroken c hss mf mb ops).1
  have hcfg : (after c mf mb ops).fp.cfg = c := (run_fpInv ops _ (coupled_init c hss mf mb).fpInv).2
  have he : Bitmap.abs c.nsec (after c mf mb ops).bm = fun s => (after c mf mb ops).fp.allocd.contains s := by
    funext s; have := hc.agree s; rw [hcfg] at this; exact this
  rw [he, ← allocd_length hc.fpInv]
  refine freeCount_contains c.nsec _ hc.fpInv.allocNodup (fun s hs => ?_)
  have := hc.fpInv.allocRange s hs
  rw [hcfg] at this
  exact this

/-- **No sector is owned by two open files** (unconditional): in every state of the composed model
the non-zero sector entries of different files are disjoint and no file lists a sector twice. -/
theorem stack_no_sector_owned_twice (c : Cfg) (hss : 1 ≤ c.ss) (mf mb : Nat) (ops : List (Op × Inputs)) :
    (∀ (i j : Nat) (f g : File), i ≠ j → (after c mf mb ops).fp.files[i]? = some f →
        (after c mf mb ops).fp.files[j]? = some g → ∀ s, s ≠ 0 → s ∈ f.sectors → s ∉ g.sectors) ∧
      ∀ (i : Nat) (f : File), (after c mf mb ops).fp.files[i]? = some f → (f.sectors.filter (· ≠ 0)).Nodup := by
  have h := (run_fpInv ops _ (coupled_init c hss mf mb).fpInv).1
  exact ⟨h.disjoint, h.nodup⟩

/-! ## Non-vacuity

Two files on a 5-sector device with 2-byte sectors and a quota of 2 files / 20 bytes: a third
`NewFile` is refused, a fragmented write, a write that exhausts the bitmap, a failing device write,
a shrinking truncate, a write refused for quota, a `Close` whose hole source fails. -/

def exHole : Hole := { tag := 1, g := 1, m := 1, d := 0, salt := 0, limit := 0, eofStyle := false }

def exHist : List (Op × Inputs) :=
  [(.new exHole 3, {}), (.new exHole 0, {}), (.new exHole 0, {}),
   (.write 0 1 [10, 11, 12, 13], {}), (.write 1 0 [1, 2, 3, 4, 5, 6, 7, 8], {}),
   (.write 1 5 [1], { faults := { dw := some (0, 0) } }), (.trunc 0 2, {}), (.write 0 30 [1], {})]

/-- the flag, the allocated set, the bitmap and the quota after the history -/
example : (after ⟨2, 5⟩ 2 20 exHist).broken = false ∧ (after ⟨2, 5⟩ 2 20 exHist).fp.allocd = [4, 5, 1] ∧
    Bitmap.freeSectors (after ⟨2, 5⟩ 2 20 exHist).bm 5 = [2, 3] ∧
    (after ⟨2, 5⟩ 2 20 exHist).q.filesRemaining = 0 ∧ (after ⟨2, 5⟩ 2 20 exHist).q.bytesRemaining = 14 := by
  decide

/-- hypothesis `h` of `stack_oracle_valid`: the next request is answered with a freed sector -/
example : (Bitmap.alloc (after ⟨2, 5⟩ 2 20 exHist).bm 3).2 = some (2, 2) := by decide

/-- hypothesis `hclosed`, and the flag, after closing both files (one `Close` fails) -/
example : let st := after ⟨2, 5⟩ 2 20 (exHist ++ [(Op.close 0, ({} : Inputs)), (Op.close 1, ({ faults := { hc := true } } : Inputs))])
    (∀ f ∈ st.fp.files, f.closed = true) ∧ st.broken = false ∧ st.q.files = [] ∧
      Bitmap.freeSectors st.bm 5 = [1, 2, 3, 4, 5] := by
  decide

end BbRe.Properties.C15Stack
