import BbRe.Model.FilePool
import BbRe.Spec.ByteFile
import BbRe.Lemmas.FilePoolRefine
import BbRe.Lemmas.FilePoolAllocSpec
import BbRe.Lemmas.FilePoolSeek3
import BbRe.Lemmas.FilePoolHistory2
import BbRe.Lemmas.FilePoolOffset
/-!
# C15 (file half) — independent sparse files, sectors conserved

Property theorems about `Model/FilePool.lean`, the transcription of
`pkg/filesystem/pool/block_device_backed_file_pool.go`.  A history is a list of
`(Op, Oracle)`: the operation together with the environment's answers during
that call — the `SectorAllocator`'s answers (each checked by the model against
the interface contract of `sector_allocator.go`: `1 ≤ count ≤ maximum`, sectors
numbered from 1, on the device, currently free; anything else is rejected) and
the fault plan for device reads/writes and hole-source reads/seeks/`Truncate`/
`Close`.  All theorems quantify over every sector size `≥ 1`, every device
size, every number of files and every such history; `sector_conservation` and
`isolation` hold for *every* oracle (all failure positions).  A history is
*well-formed* (`WFOp`) when every `NewFile(holeSource, size)` gets a hole source
without data at or beyond `size` (see `hole_source.go`; `ZeroHoleSource`
always qualifies).  Helper lemmas: `BbRe/Lemmas/FilePool*.lean`; the byte-array
specification: `BbRe/Spec/ByteFile.lean`.
-/
namespace BbRe.Properties.C15
open BbRe.FilePool BbRe.Lemmas.FilePool BbRe.ByteFile

/-- the state after a history -/
abbrev after (c : Cfg) (ops : List (Op × Oracle)) : State := run (init c) ops

/-! ## the allocator is abstract -/

/-- **"For any allocator satisfying the abstract spec".**  The allocator answers that the model
accepts are exactly the `AllocOk` steps of `Spec/AllocSpec.lean` (the contract
`Properties/C15Alloc.lean` proves for the bitmap allocator): every accepted answer is such a step
on the abstraction of the model's allocated list, every answer the specification allows is
accepted, and `FreeList` under the specification's precondition has the specification's effect.
(An `AF` answer — allocation failure — is accepted in any state, which only widens the set of
allocators covered.) -/
theorem allocator_contract_is_AllocSpec (c : Cfg) (e : Env) (maximum first count : Nat) :
    (∀ e', e.alloc c maximum = (e', .ok first count) →
        AllocSpec.AllocOk c.nsec (absAlloc e.allocd) maximum first count (absAlloc e'.allocd)) ∧
      (∀ rest, e.answers = .range first count :: rest →
        AllocSpec.allocAnswerOk c.nsec (absAlloc e.allocd) maximum first count = true →
        (e.alloc c maximum).2 = .ok first count) ∧
      (∀ l, e.allocd.Nodup → AllocSpec.FreeListPre (absAlloc e.allocd) l →
        AllocSpec.FreeListPost (absAlloc e.allocd) l (absAlloc (e.freeList l).allocd) ∧
          (e.freeList l).dfree = e.dfree) :=
  ⟨fun _ h => alloc_ok_spec h, fun rest ha hok => alloc_accepts_spec rest ha hok,
    fun l hA hpre => freeList_spec_post e l hA hpre⟩

/-! ## sector conservation -/

/-- **`sector_conservation`**: in every reachable state — after any history,
including operations that failed at any device write, hole-source read,
allocation, hole-source `Truncate`/`Close` (every error path of
`writeToNewSectors` frees what it allocated) — the allocated set is exactly the
union of the files' non-zero sector entries, no sector is allocated twice, all
allocated sectors are on the device, and no sector was ever freed while not
allocated. -/
theorem sector_conservation (c : Cfg) (hss : 1 ≤ c.ss) (ops : List (Op × Oracle)) :
    let st := after c ops
    (∀ s, s ∈ st.allocd ↔ ∃ (i : Nat) (f : File), st.files[i]? = some f ∧ s ∈ f.sectors ∧ s ≠ 0) ∧
      st.allocd.Nodup ∧ st.dfree = false ∧ ∀ s ∈ st.allocd, 1 ≤ s ∧ s ≤ c.nsec := by
  intro st
  have h : Inv st := inv_run (inv_init c hss) ops
  have hcfg : st.cfg = c := run_cfg ops (init c)
  refine ⟨fun s => ⟨fun hs => ?_, ?_⟩, h.allocNodup, h.noDoubleFree, fun s hs => hcfg ▸ h.allocRange s hs⟩
  · obtain ⟨i, f, hf, hsf⟩ := h.noLeak s hs
    exact ⟨i, f, hf, hsf, by have := h.allocRange s hs; omega⟩
  · rintro ⟨i, f, hf, hsf, hs0⟩
    exact h.owned i f hf s hsf hs0

/-- After closing all files nothing is allocated: the full capacity is available again. -/
theorem all_closed_nothing_allocated (c : Cfg) (hss : 1 ≤ c.ss) (ops : List (Op × Oracle))
    (hclosed : ∀ f ∈ (after c ops).files, f.closed = true) : (after c ops).allocd = [] := by
  have h : Inv (after c ops) := inv_run (inv_init c hss) ops
  cases hA : (after c ops).allocd with
  | nil => rfl
  | cons s rest =>
    exfalso
    obtain ⟨i, f, hf, hsf⟩ := h.noLeak s (by rw [hA]; exact List.mem_cons_self)
    have hmem : f ∈ (after c ops).files := List.mem_of_getElem? hf
    rw [h.closedEmpty i f hf (hclosed f hmem)] at hsf
    cases hsf

/-- `Close` (whether or not the hole source's `Close` fails) returns every sector of the file. -/
theorem close_frees_all (c : Cfg) (hss : 1 ≤ c.ss) (ops : List (Op × Oracle)) (i : Nat) (o : Oracle) (f : File)
    (hf : (after c ops).file? i = some f) :
    ∀ s ∈ f.sectors, s ≠ 0 → s ∉ (step (after c ops) (.close i) o).1.allocd := by
  intro s hs hs0 hmem
  have h : Inv (after c ops) := inv_run (inv_init c hss) ops
  have h' : Inv (step (after c ops) (.close i) o).1 := inv_step h _ _
  obtain ⟨j, g, hg, hsg⟩ := h'.noLeak s hmem
  have hfi := file?_some hf
  by_cases hji : j = i
  · subst hji
    have : (step (after c ops) (.close j) o).1.files[j]? =
        some (close f ((after c ops).env o)).1 := by
      unfold step; dsimp only; rw [hf]; dsimp only; rw [finish_fst]
      have hl : j < (after c ops).files.length := (List.getElem?_eq_some_iff.mp hfi.1).1
      simp [List.getElem?_set, hl]
    rw [this] at hg
    cases hg
    have hcl := close_part (f := f) (e := (after c ops).env o) (inv_part h hfi.1) h.noDoubleFree
    rw [hcl.2.2.1] at hsg; cases hsg
  · have hg' : (after c ops).files[j]? = some g := by
      have := (step_others h (.close i) o j g (by simp [opTarget]; omega) · )
      unfold step at hg; dsimp only at hg; rw [hf] at hg; dsimp only at hg; rw [finish_fst] at hg
      dsimp only at hg
      rw [List.getElem?_set] at hg
      rw [if_neg (fun e => hji e.symm)] at hg
      exact hg
    exact h.disjoint i j f g (fun e => hji e.symm) hfi.1 hg' s hs0 hs hsg

/-! ## isolation -/

/-- **`isolation`, sector lists** (`Inv.disjoint`): in every reachable state the
non-zero entries of all files' sector lists are pairwise distinct — within a
file and between files — and all of them are allocated. -/
theorem isolation_sectors (c : Cfg) (hss : 1 ≤ c.ss) (ops : List (Op × Oracle)) :
    let st := after c ops
    (∀ (i j : Nat) (f g : File), i ≠ j → st.files[i]? = some f → st.files[j]? = some g →
        ∀ s, s ≠ 0 → s ∈ f.sectors → s ∉ g.sectors) ∧
      (∀ (i : Nat) (f : File), st.files[i]? = some f → (f.sectors.filter (· ≠ 0)).Nodup) ∧
      (∀ (i : Nat) (f : File), st.files[i]? = some f → ∀ s ∈ f.sectors, s ≠ 0 → s ∈ st.allocd) := by
  intro st
  have h : Inv st := inv_run (inv_init c hss) ops
  exact ⟨h.disjoint, h.nodup, h.owned⟩

/-- **`isolation`, bytes**: whatever is done to one file — write, truncate, close, read, seek, with
any allocator answers and any failures — every other file keeps its entry and every byte readable
through it (its whole contents as a byte array) is unchanged. -/
theorem isolation (c : Cfg) (hss : 1 ≤ c.ss) (ops : List (Op × Oracle)) (op : Op) (o : Oracle)
    (j : Nat) (g : File) (hj : opTarget op ≠ some j) (hg : (after c ops).files[j]? = some g) :
    (step (after c ops) op o).1.files[j]? = some g ∧
      Eqv (absFile c.ss (step (after c ops) op o).1.dev g) (absFile c.ss (after c ops).dev g) := by
  have h : Inv (after c ops) := inv_run (inv_init c hss) ops
  obtain ⟨h1, h2⟩ := step_others h op o j g hj hg
  rw [show (after c ops).cfg = c from run_cfg ops (init c)] at h2
  exact ⟨h1, rfl, h2⟩

/-- **A re-used sector is fully overwritten before it becomes readable.**  When
`writeToNewSectors` succeeds, every byte of every sector it allocated — whatever
a previous owner left there — holds the written data or the hole source's
contents for that file offset; and on every path, success or failure, no byte
of any sector that was allocated before the call changes. -/
theorem new_sectors_fully_written (c : Cfg) (hole : Hole) (e e' : Env) (p : List FilePool.Byte)
    (idx ow n first got : Nat) (hss : 1 ≤ c.ss) (how : ow < c.ss) (hp : 0 < p.length)
    (hr : writeToNewSectors c hole e p idx ow = (e', .ok (n, first, got))) :
    (∀ j, j < got * c.ss → rd e'.dev ((first - 1) * c.ss + j) =
        if ow ≤ j ∧ j < ow + n then p.getD (j - ow) 0 else hole.read (idx * c.ss + j)) ∧
      (∀ t k, k < c.ss → t + 1 ∈ e.allocd → rd e'.dev (t * c.ss + k) = rd e.dev (t * c.ss + k)) := by
  obtain ⟨h1, _⟩ := wns_ok_dev hss how hp hr
  have hw := wns_ok hr
  refine ⟨fun j hj => ?_, fun t k hk ht => ?_⟩
  · rw [h1 j hj]
    unfold tgt
    have hl : (p.take n).length = n := by rw [List.length_take, hw.2.2.2.2.2.2.2]; omega
    rw [hl]
    split
    · rename_i hc; rw [getD_take _ _ _ (by omega)]
    · rfl
  · have := wns_conf (c := c) (h := hole) (e := e) (p := p) (idx := idx) hss how hp t k hk ht
    rw [hr] at this; exact this

/-! ## refinement of the byte-array specification -/

/-- In every state reachable by a well-formed history every file is a well-formed byte array
(nothing but zeros at or beyond its size, so growing it shows zeros). -/
theorem files_wellformed (c : Cfg) (hss : 1 ≤ c.ss) (ops : List (Op × Oracle)) (hwf : ∀ x ∈ ops, WFOp x.1)
    (i : Nat) (f : File) (hf : (after c ops).files[i]? = some f) : WF (absFile c.ss (after c ops).dev f) := by
  have h := inv2_run (inv2_init c hss) ops hwf
  have := h.files i f hf
  rw [show (after c ops).cfg = c from run_cfg ops (init c)] at this
  exact absFile_wf this

/-- **`file_refines_bytes`, `NewFile`**: the new file is the byte array of the hole source's first
`size` bytes. -/
theorem file_refines_bytes_new (c : Cfg) (ops : List (Op × Oracle)) (hole : Hole) (size : Nat)
    (hwf : hole.limit ≤ size) (o : Oracle) (ho : o.answers = []) :
    let st := after c ops
    (step st (.new hole size) o).2 = .created st.files.length ∧
      ∃ f, (step st (.new hole size) o).1.file? st.files.length = some f ∧
        Eqv (absFile c.ss (step st (.new hole size) o).1.dev f) (create hole.read size) := by
  intro st
  have hfin : ∀ st' out, finish (st.env o) st' out = (st', out) := by
    intro st' out; unfold finish State.env; dsimp only; rw [ho]; rfl
  unfold step
  dsimp only
  rw [hfin]
  refine ⟨rfl, ⟨[], size, hole, false⟩, ?_, rfl, fun i => ?_⟩
  · unfold State.file?; dsimp only; simp
  · show content c.ss st.dev ⟨[], size, hole, false⟩ i = _
    rw [content_hole_of_zero _ _ _ _ rfl]
    unfold create
    dsimp only
    split
    · rfl
    · exact hole_read_beyond _ _ (by omega)

/-- **`file_refines_bytes`, `ReadAt`**: in any state reachable by a well-formed history, a read without
device / hole-source read failures returns exactly what the byte-array specification returns —
the latest written bytes, hole-source contents where nothing was written, zeros after a
shrink-and-regrow — including the end-of-file behaviour; it changes nothing. -/
theorem file_refines_bytes_read (c : Cfg) (hss : 1 ≤ c.ss) (ops : List (Op × Oracle)) (i : Nat) (f : File)
    (hf : (after c ops).file? i = some f) (off n : Nat) (o : Oracle) (ho : o.answers = [])
    (hdr : o.faults.dr = none) (hhr : o.faults.hr = none) :
    let st := after c ops
    (step st (.read i off n) o).2 =
      .read (ByteFile.read (absFile c.ss st.dev f) off n).1
        (if (ByteFile.read (absFile c.ss st.dev f) off n).2 then some .eof else none) ∧
    (step st (.read i off n) o).1.files = st.files ∧ (step st (.read i off n) o).1.allocd = st.allocd := by
  intro st
  have hcfg : st.cfg = c := run_cfg ops (init c)
  obtain ⟨h1, h2, h3⟩ := readAt_refines (c := st.cfg) (f := f) (e := st.env o) off n (hcfg ▸ hss) hdr hhr
  rw [hcfg] at h1 h2
  unfold step
  dsimp only
  rw [hf]
  dsimp only
  have hans : (readAt st.cfg f (st.env o) off n).1.answers = [] := h3.2.2.trans ho
  unfold finish
  rw [hans]
  dsimp only [List.isEmpty_nil, ↓reduceIte]
  refine ⟨?_, rfl, h3.1⟩
  rw [hcfg, h1, h2]
  rfl

/-- negative offsets are rejected without touching anything -/
theorem negative_offsets_rejected (st : State) (i : Nat) (f : File) (hf : st.file? i = some f) (off : Int)
    (hneg : off < 0) (n : Nat) (p : List FilePool.Byte) (o : Oracle) (ho : o.answers = []) :
    (step st (.read i off n) o).2 = .read [] (some .invalid) ∧
      (step st (.write i off p) o).2 = .wrote 0 (some .invalid) ∧
      (step st (.trunc i off) o).2 = .done (some .invalid) ∧
      ∀ d, (step st (.seek i off d) o).2 = .offset (.error .invalid) := by
  refine ⟨?_, ?_, ?_, fun d => ?_⟩ <;>
    (unfold step finish State.env; dsimp only; rw [hf]; dsimp only)
  · unfold readAt; rw [if_pos hneg]; dsimp only; rw [ho]; rfl
  · rw [writeAt_neg _ _ hneg]; dsimp only; rw [ho]; rfl
  · rw [truncate_neg _ _ _ _ hneg]; dsimp only; rw [ho]; rfl
  · unfold seek; rw [if_pos hneg]; dsimp only; rw [ho]; rfl

/-- **`file_refines_bytes`, `WriteAt`**: in any reachable state and for *every* oracle (short
allocations, allocation failures, device and hole-source failures at any position): exactly the
`n` bytes reported written are written, as `ByteFile.write` says (the size grows to `off+n` if
needed, a gap reads as zeros); nothing else of the file changes; no error means all of `p` was
written; and none of the panics of the Go code (`incrementSectorIndex`, `insertSectorsContiguous`)
is reachable. -/
theorem file_refines_bytes_write (c : Cfg) (hss : 1 ≤ c.ss) (ops : List (Op × Oracle)) (i : Nat) (f : File)
    (hf : (after c ops).file? i = some f) (off : Nat) (p : List FilePool.Byte) (o : Oracle)
    (n : Nat) (err : Option Err) (hout : (step (after c ops) (.write i off p) o).2 = .wrote n err) :
    ∃ f', (step (after c ops) (.write i off p) o).1.file? i = some f' ∧
      Eqv (absFile c.ss (step (after c ops) (.write i off p) o).1.dev f')
        (ByteFile.write (absFile c.ss (after c ops).dev f) off (p.take n)) ∧
      n ≤ p.length ∧ (err = none → n = p.length) ∧ err ≠ some .panic := by
  have h : Inv (after c ops) := inv_run (inv_init c hss) ops
  have hcfg : (after c ops).cfg = c := run_cfg ops (init c)
  have hfi := file?_some hf
  have hP := inv_part h hfi.1
  have hss' : 0 < (after c ops).cfg.ss := h.ssPos
  obtain ⟨_, hl, _, hnone, hpanic, _⟩ := writeAt_content (O := Oth (after c ops) i) (f := f)
    (e := (after c ops).env o) p off hss' hP h.noDoubleFree
  have href := writeAt_refines (O := Oth (after c ops) i) (f := f) (e := (after c ops).env o) p off hss' hP
    h.noDoubleFree
  have hcl := (writeAt_part (O := Oth (after c ops) i) (c := (after c ops).cfg) (f := f)
    (e := (after c ops).env o) p (off : Int) hss' hP h.noDoubleFree).2.2.1
  unfold step at hout ⊢
  dsimp only at hout ⊢
  rw [hf] at hout ⊢
  dsimp only at hout ⊢
  unfold finish at hout ⊢
  split at hout
  · rename_i hemp
    rw [if_pos hemp]
    simp only [Out.wrote.injEq] at hout
    obtain ⟨rfl, rfl⟩ := hout
    refine ⟨(writeAt (after c ops).cfg f ((after c ops).env o) p off).1, ?_, ?_, hl, hnone, hpanic⟩
    · unfold State.file?
      dsimp only
      have hlen : i < (after c ops).files.length := (List.getElem?_eq_some_iff.mp hfi.1).1
      simp only [List.getElem?_set, hlen, ↓reduceIte]
      rw [hcl, hfi.2]; rfl
    · rw [show c.ss = (after c ops).cfg.ss by rw [hcfg]]; exact href
  · simp at hout

/-- **`file_refines_bytes`, `Truncate`**: in any state reachable by a well-formed history, a
`Truncate` that reports success is `ByteFile.truncate`: bytes below the new size are kept, everything
from the new size on reads as zero — immediately and after growing the file again (shrink-then-grow
never brings back old data or old hole-source contents). -/
theorem file_refines_bytes_truncate (c : Cfg) (hss : 1 ≤ c.ss) (ops : List (Op × Oracle))
    (hwf : ∀ x ∈ ops, WFOp x.1) (i : Nat) (f : File) (hf : (after c ops).file? i = some f) (sz : Nat)
    (o : Oracle) (hout : (step (after c ops) (.trunc i sz) o).2 = .done none) :
    ∃ f', (step (after c ops) (.trunc i sz) o).1.file? i = some f' ∧
      Eqv (absFile c.ss (step (after c ops) (.trunc i sz) o).1.dev f')
        (ByteFile.truncate (absFile c.ss (after c ops).dev f) sz) := by
  have h2 := inv2_run (inv2_init c hss) ops hwf
  have h : Inv (after c ops) := h2.inv
  have hcfg : (after c ops).cfg = c := run_cfg ops (init c)
  have hfi := file?_some hf
  have hP := inv_part h hfi.1
  have hss' : 0 < (after c ops).cfg.ss := h.ssPos
  have hcl := (truncate_part (c := (after c ops).cfg) (f := f) (e := (after c ops).env o) (sz : Int) hP
    h.noDoubleFree).2.2
  unfold step at hout ⊢
  dsimp only at hout ⊢
  rw [hf] at hout ⊢
  dsimp only at hout ⊢
  unfold finish at hout ⊢
  split at hout
  · rename_i hemp
    rw [if_pos hemp]
    simp only [Out.done.injEq] at hout
    have href := truncate_refines (O := Oth (after c ops) i) (f := f) (e := (after c ops).env o) sz hss' hP
      (h2.files i f hfi.1) hout
    refine ⟨(truncate (after c ops).cfg f ((after c ops).env o) sz).1, ?_, ?_⟩
    · unfold State.file?
      dsimp only
      have hlen : i < (after c ops).files.length := (List.getElem?_eq_some_iff.mp hfi.1).1
      simp only [List.getElem?_set, hlen, ↓reduceIte]
      rw [hcl, hfi.2]; rfl
    · rw [show c.ss = (after c ops).cfg.ss by rw [hcfg]]; exact href
  · simp at hout

/-- **`file_refines_bytes`, `Len`**. -/
theorem file_refines_bytes_len (st : State) (i : Nat) (f : File) (hf : st.file? i = some f) (o : Oracle)
    (ho : o.answers = []) (ss : Nat) :
    (step st (.len i) o).2 = .len (absFile ss st.dev f).size := by
  unfold step finish State.env
  dsimp only
  rw [hf]
  dsimp only
  rw [ho]
  rfl

/-- **`file_refines_bytes`, `GetNextRegionOffset`**: in any state reachable by a well-formed history,
for an offset inside the file and without a hole-source seek failure, the result agrees with the
file's data/hole map at sector granularity (`dataAt`: the sector is allocated, or the hole source
has data there): `Data` returns the least data offset `≥ off` or `io.EOF` when there is none;
`Hole` returns the least hole offset `≥ off`, or the file size (the implicit hole at the end).
The scan for the next allocated sector never runs off the sector list (lists never end in a hole). -/
theorem file_refines_bytes_seek (c : Cfg) (hss : 1 ≤ c.ss) (ops : List (Op × Oracle))
    (hwf : ∀ x ∈ ops, WFOp x.1) (i : Nat) (f : File) (hf : (after c ops).file? i = some f) (off : Nat)
    (hoff : off < f.size) (data : Bool) (o : Oracle) (ho : o.answers = []) (hs : o.faults.hs = none) :
    (data = true →
        (∃ j, (step (after c ops) (.seek i off data) o).2 = .offset (.ok j) ∧ off ≤ j ∧ dataAt c f j ∧
            ∀ k, off ≤ k → k < j → ¬ dataAt c f k) ∨
          ((step (after c ops) (.seek i off data) o).2 = .offset (.error .eof) ∧
            ∀ k, off ≤ k → ¬ dataAt c f k)) ∧
      (data = false →
        ∃ j, (step (after c ops) (.seek i off data) o).2 = .offset (.ok j) ∧ off ≤ j ∧ j ≤ f.size ∧
          (∀ k, off ≤ k → k < j → dataAt c f k) ∧ (j < f.size → ¬ dataAt c f j)) := by
  have h2 := inv2_run (inv2_init c hss) ops hwf
  have h3 := inv3_run (inv3_init c hss) ops
  have hcfg : (after c ops).cfg = c := run_cfg ops (init c)
  have hfi := file?_some hf
  have hok := h2.files i f hfi.1
  obtain ⟨s1, s2, s3⟩ := seek_spec (c := (after c ops).cfg) (f := f) (e := (after c ops).env o) off data
    h2.inv.ssPos hs (h3.2 i f hfi.1) hok.1 hoff
  have hstep : (step (after c ops) (.seek i off data) o).2 =
      .offset (seek (after c ops).cfg f ((after c ops).env o) off data).2 := by
    unfold step finish
    dsimp only
    rw [hf]
    dsimp only
    rw [s1]
    have : ((after c ops).env o).answers = [] := ho
    rw [this]; rfl
  rw [hstep]
  rw [hcfg] at s2 s3
  refine ⟨fun hd => ?_, fun hd => ?_⟩
  · rcases s2 hd with ⟨j, e1, e2, e3, e4⟩ | ⟨e1, e2⟩
    · exact Or.inl ⟨j, by rw [hcfg, e1], e2, e3, e4⟩
    · exact Or.inr ⟨by rw [hcfg, e1], e2⟩
  · obtain ⟨j, e1, e2, e3, e4, e5⟩ := s3 hd
    exact ⟨j, by rw [hcfg, e1], e2, e3, e4, e5⟩

/-! ## history-level refinement -/

/-- **`file_refines_bytes`** (history level).  Run the model and the per-file byte-array
specification side by side over *any* history — any number of files, any allocator answers the
allocator contract admits, any fault oracle — that is well-formed (`hwf`: every
`NewFile(holeSource, size)` gets a hole source without data at or beyond `size`).  Then the
abstraction `absFiles` (the list of the pool's files as byte arrays, `none` = closed) moves by
specification steps (`SpecRun`/`SpecStep` in `Lemmas/FilePoolHistory.lean`) that produce exactly the
model's outputs:
* `NewFile`: a new entry `ByteFile.create holeSource.read size`;
* `ReadAt`: without read faults exactly `ByteFile.read` (bytes and `io.EOF`); with read faults a
  prefix of those bytes; never a panic; nothing changes;
* `WriteAt`, every oracle: count `n ≤ |p|`, `n = |p|` when no error, the entry becomes
  `ByteFile.write b off (p.take n)` (also on failure: exactly the bytes reported written), no panic;
* `Truncate`: on success `ByteFile.truncate b size`; on failure the size and all bytes below the
  requested size are unchanged and the entry is still well-formed (zeros beyond its size);
* `Len`: the size; `GetNextRegionOffset` (no seek fault): the least data / hole offset of a data
  map whose holes read as zero (`SeekOk`; `file_refines_bytes_seek` pins the map to sector
  granularity); `Close`: the entry becomes closed;
* negative offsets are refused, operations on closed or unknown ids answer `noFile`; and in
  every step all *other* entries stay the same byte arrays. -/
theorem file_refines_bytes (c : Cfg) (hss : 1 ≤ c.ss) (ops : List (Op × Oracle)) (hwf : ∀ x ∈ ops, WFOp x.1) :
    SpecRun [] ops (outputs (init c) ops) (absFiles (after c ops)) :=
  spec_run (inv2_init c hss) (inv3_init c hss) ops hwf

/-! ## the hole sources that exist in this repository -/

/-- the model's rendering of `pool.ZeroHoleSource` -/
def zeroHoleSource : Hole := { tag := 0, g := 1, m := 1, d := 0, salt := 0, limit := 0, eofStyle := false }

/-- it behaves as `hole_source.go` says: reads give null bytes, `Data` seeks give `io.EOF`, `Hole` seeks
give the offset itself, `Truncate` changes nothing. -/
theorem zeroHoleSource_behaviour (i s : Nat) :
    zeroHoleSource.read i = 0 ∧ zeroHoleSource.nextData i = none ∧ zeroHoleSource.nextHole i = some i ∧
      zeroHoleSource.truncate s = zeroHoleSource := by
  refine ⟨rfl, ?_, ?_, ?_⟩
  · unfold Hole.nextData zeroHoleSource; simp [findFrom]
  · unfold Hole.nextHole zeroHoleSource; simp
  · simp [Hole.truncate, zeroHoleSource]

/-- **The observation of `notes/findings/C15-hole-source-beyond-size.md` cannot occur with the hole
sources used in this repository.**  The only hole source any caller passes to `NewFile`
(`pkg/filesystem/virtual/in_memory_prepopulated_directory.go`; the other callers forward their
argument) is `pool.ZeroHoleSource`, and `NewFile(ZeroHoleSource, size)` is well-formed for every
size — so every history that only uses it satisfies the hypothesis of `file_refines_bytes`. -/
theorem zeroHoleSource_wellformed (ops : List (Op × Oracle))
    (hz : ∀ x ∈ ops, ∀ hole size, x.1 = .new hole size → hole = zeroHoleSource) : ∀ x ∈ ops, WFOp x.1 := by
  intro x hx
  have key : ∀ op, x.1 = op → WFOp op := by
    intro op hop
    cases op with
    | new hole size =>
      have := hz x hx hole size hop
      subst this
      exact Nat.zero_le _
    | read _ _ _ => trivial
    | write _ _ _ => trivial
    | trunc _ _ => trivial
    | seek _ _ _ => trivial
    | len _ => trivial
    | close _ => trivial
  exact key x.1 rfl

def obsHole : Hole := { tag := 1, g := 1, m := 1, d := 1, salt := 5, limit := 100, eofStyle := false }

def obsHist : List (Op × Oracle) :=
  [(.new obsHole 4, {}), (.write 0 0 [170], { answers := [.range 1 1] }), (.trunc 0 2, {}), (.trunc 0 8, {})]

/-- ... and the hypothesis is needed: with a hole source that has data beyond the initial size
(here: data up to offset 100 under a file of size 4), after writing one byte, shrinking to 2 and
growing to 8, byte 4 reads the old hole-source contents (35), where the byte-array specification
(`ByteFile.shrink_then_grow`) demands 0. -/
theorem wellformedness_is_needed :
    ¬ WFOp (.new obsHole 4) ∧ (step (after ⟨8, 2⟩ obsHist) (.read 0 4 1) ({} : Oracle)).2 = .read [35] none := by
  refine ⟨?_, rfl⟩
  show ¬ (100 ≤ 4)
  omega

/-! ## machine arithmetic of `toDeviceOffset` -/

/-- **Device offsets do not wrap.**  `toDeviceOffset` as written in Go — 32-bit sector number,
widening *before* the 64-bit multiplication — is, for every sector number `1 … 2^32-1`, every sector
size `1 … 2^31` and every offset within the sector, exactly the natural number
`(sector-1)*sectorSizeBytes + offsetWithinSector` that `Model/FilePool.lean` computes with. -/
theorem device_offset_exact (sector : BitVec 32) (ss ow : BitVec 64) (hs : 1 ≤ sector.toNat)
    (hss : ss.toNat ≤ 2 ^ 31) (how : ow.toNat < ss.toNat) :
    (toDeviceOffset sector ss ow).toNat = (sector.toNat - 1) * ss.toNat + ow.toNat :=
  toDeviceOffset_toNat sector ss ow hs hss how

/-- **Distinct sectors occupy disjoint device ranges** (intervals `[(s-1)*ss, s*ss)`), for all
sector numbers below 2^32 and all sector sizes up to 2^31 — devices far beyond 4 GiB included. -/
theorem device_ranges_disjoint (s1 s2 : BitVec 32) (ss o1 o2 : BitVec 64) (h1 : 1 ≤ s1.toNat) (h2 : 1 ≤ s2.toNat)
    (hss : ss.toNat ≤ 2 ^ 31) (ho1 : o1.toNat < ss.toNat) (ho2 : o2.toNat < ss.toNat) (hne : s1 ≠ s2) :
    toDeviceOffset s1 ss o1 ≠ toDeviceOffset s2 ss o2 ∧
      (s1.toNat - 1) * ss.toNat ≤ (toDeviceOffset s1 ss o1).toNat ∧
      (toDeviceOffset s1 ss o1).toNat < s1.toNat * ss.toNat :=
  ⟨toDeviceOffset_disjoint s1 s2 ss o1 o2 h1 h2 hss ho1 ho2 hne, toDeviceOffset_range s1 ss o1 h1 hss ho1⟩

/-- The 64-bit product is needed: multiplying in 32 bits before widening maps sector `2^20+1` of a
device with 4 KiB sectors (the first sector beyond 4 GiB) onto sector 1. -/
theorem legacy32_multiplication_collides :
    toDeviceOffsetLegacy32 (2 ^ 20 + 1) 4096 0 = toDeviceOffsetLegacy32 1 4096 0 ∧
      toDeviceOffset (2 ^ 20 + 1) 4096 0 ≠ toDeviceOffset 1 4096 0 :=
  toDeviceOffsetLegacy32_collision

example : ∃ s1 s2 : BitVec 32, 1 ≤ s1.toNat ∧ 1 ≤ s2.toNat ∧ s1 ≠ s2 ∧ (4096 : BitVec 64).toNat ≤ 2 ^ 31 :=
  ⟨2 ^ 20 + 1, 1, by decide, by decide, by decide, by decide⟩

/-! ## Non-vacuity: a concrete history meeting the hypotheses used above

Two files over a non-zero hole source on a 4-sector device with 2-byte sectors: a fragmented
write through file 0 (three allocator answers), a shrinking truncate into the middle of a sector
(frees sectors 4 and 1), then a write through file 1 that re-uses sector 4 and fails at its first
device write (the sector is freed again). -/

def exHole : Hole := { tag := 1, g := 1, m := 1, d := 1, salt := 3, limit := 3, eofStyle := false }

def exHist : List (Op × Oracle) :=
  [(.new exHole 3, {}), (.new exHole 3, {}),
   (.write 0 1 [7, 8, 9, 10], { answers := [.range 2 1, .range 4 1, .range 1 1] }),
   (.trunc 0 2, {}),
   (.write 1 5 [5], { answers := [.range 4 1], faults := { dw := some (0, 0) } })]

example : ∀ x ∈ exHist, WFOp x.1 := by decide
example : (after ⟨2, 4⟩ exHist).allocd = [2] ∧
    (after ⟨2, 4⟩ exHist).files.map (fun f => (f.sectors, f.size)) = [([2], 2), ([], 3)] := by decide
/-- hypotheses `hf` / `hg` / `hj` of the refinement and isolation theorems -/
example : ((after ⟨2, 4⟩ exHist).file? 0).map (·.sectors) = some [2] ∧
    ((after ⟨2, 4⟩ exHist).files[1]?).map (·.size) = some 3 ∧ opTarget (.write 0 0 [1]) ≠ some 1 := by decide
/-- hypothesis `hout` of `file_refines_bytes_write`: a short write with an allocation failure -/
example : (step (after ⟨2, 4⟩ exHist) (.write 1 3 [1, 2, 3]) { answers := [.range 4 1, .fail] }).2 =
    .wrote 1 (some .alloc) := rfl
/-- hypothesis `hout` of `file_refines_bytes_truncate` -/
example : (step (after ⟨2, 4⟩ exHist) (.trunc 0 1) ({} : Oracle)).2 = .done none := rfl
/-- a read through file 0 sees hole-source byte 36 and the written 7 -/
example : (step (after ⟨2, 4⟩ exHist) (.read 0 0 9) ({} : Oracle)).2 = .read [36, 7] (some .eof) := rfl
/-- `GetNextRegionOffset`: file 0 = [hole-source data byte | sector 2]; no hole below the size -/
example : (step (after ⟨2, 4⟩ exHist) (.seek 0 0 false) ({} : Oracle)).2 = .offset (.ok 2) ∧
    (step (after ⟨2, 4⟩ exHist) (.seek 1 1 true) ({} : Oracle)).2 = .offset (.ok 1) := ⟨rfl, rfl⟩
/-- hypothesis `hclosed` of `all_closed_nothing_allocated` -/
example : ∀ f ∈ (after ⟨2, 4⟩ (exHist ++ [(.close 0, ({} : Oracle)),
    (.close 1, { faults := { hc := true } })])).files, f.closed = true := by decide
/-- `SpecStep` is not vacuous: a wrong `Len` answer is not a specification step -/
example : ∀ s', ¬ SpecStep [some ⟨2, fun _ => 0⟩] (.len 0) ({} : Oracle) (.len 5) s' := by
  intro s' h
  unfold SpecStep at h
  simp at h
/-- hypothesis `hr` of `new_sectors_fully_written` -/
example : (writeToNewSectors ⟨2, 4⟩ exHole ((after ⟨2, 4⟩ exHist).env { answers := [.range 3 2] })
    [5, 6, 7] 4 1).2 = .ok (3, 3, 2) := rfl

end BbRe.Properties.C15
