import BbRe.Model.FilePool
import BbRe.Lemmas.FilePoolState
/-!
# C15 (file half) — independent sparse files, sectors conserved

Property theorems about `Model/FilePool.lean`, the transcription of
`pkg/filesystem/pool/block_device_backed_file_pool.go`.  A history is a list of
`(Op, Oracle)`: the operation together with the environment's answers during
that call (allocator answers checked against the interface contract of
`sector_allocator.go`, and the fault plan for device reads/writes, hole-source
reads/seeks/Truncate/Close).  All theorems quantify over every sector size
`≥ 1`, every device size, every number of files and every such history.
Helper lemmas: `BbRe/Lemmas/FilePool*.lean`.
-/
namespace BbRe.Properties.C15
open BbRe.FilePool BbRe.Lemmas.FilePool

/-- **`sector_conservation`**: in every reachable state — after any history,
including operations that failed at any device write, hole-source read,
allocation, hole-source `Truncate`/`Close` — the allocated set is exactly the
union of the files' non-zero sector entries, no sector is allocated twice, and
no sector was ever freed while not allocated. -/
theorem sector_conservation (c : Cfg) (hss : 1 ≤ c.ss) (ops : List (Op × Oracle)) :
    let st := run (init c) ops
    (∀ s, s ∈ st.allocd ↔ ∃ (i : Nat) (f : File), st.files[i]? = some f ∧ s ∈ f.sectors ∧ s ≠ 0) ∧
      st.allocd.Nodup ∧ st.dfree = false ∧ ∀ s ∈ st.allocd, 1 ≤ s ∧ s ≤ c.nsec := by
  intro st
  have h : Inv st := inv_run (inv_init c hss) ops
  have hcfg : st.cfg = c := by
    have : ∀ (ops : List (Op × Oracle)) (s : State), (run s ops).cfg = s.cfg := by
      intro ops
      induction ops with
      | nil => intro s; rfl
      | cons x xs ih =>
        intro s
        show (run (step s x.1 x.2).1 xs).cfg = s.cfg
        rw [ih]
        unfold step
        cases x.1 <;> dsimp only <;> (try split) <;> (try rw [finish_fst]) <;> rfl
    exact this ops (init c)
  refine ⟨fun s => ⟨fun hs => ?_, ?_⟩, h.allocNodup, h.noDoubleFree, fun s hs => hcfg ▸ h.allocRange s hs⟩
  · obtain ⟨i, f, hf, hsf⟩ := h.noLeak s hs
    exact ⟨i, f, hf, hsf, by have := h.allocRange s hs; omega⟩
  · rintro ⟨i, f, hf, hsf, hs0⟩
    exact h.owned i f hf s hsf hs0

/-- After closing all files nothing is allocated: the full capacity is available again. -/
theorem all_closed_nothing_allocated (c : Cfg) (hss : 1 ≤ c.ss) (ops : List (Op × Oracle))
    (hclosed : ∀ f ∈ (run (init c) ops).files, f.closed = true) : (run (init c) ops).allocd = [] := by
  have h : Inv (run (init c) ops) := inv_run (inv_init c hss) ops
  cases hA : (run (init c) ops).allocd with
  | nil => rfl
  | cons s rest =>
    exfalso
    obtain ⟨i, f, hf, hsf⟩ := h.noLeak s (by rw [hA]; exact List.mem_cons_self)
    have hmem : f ∈ (run (init c) ops).files := List.mem_of_getElem? hf
    rw [h.closedEmpty i f hf (hclosed f hmem)] at hsf
    cases hsf

/-- **`isolation`, sector lists** (`Inv.disjoint`): in every reachable state the
non-zero entries of all files' sector lists are pairwise distinct — within a
file and between files — and all of them are allocated. -/
theorem isolation_sectors (c : Cfg) (hss : 1 ≤ c.ss) (ops : List (Op × Oracle)) :
    let st := run (init c) ops
    (∀ (i j : Nat) (f g : File), i ≠ j → st.files[i]? = some f → st.files[j]? = some g →
        ∀ s, s ≠ 0 → s ∈ f.sectors → s ∉ g.sectors) ∧
      (∀ (i : Nat) (f : File), st.files[i]? = some f → (f.sectors.filter (· ≠ 0)).Nodup) ∧
      (∀ (i : Nat) (f : File), st.files[i]? = some f → ∀ s ∈ f.sectors, s ≠ 0 → s ∈ st.allocd) := by
  intro st
  have h : Inv st := inv_run (inv_init c hss) ops
  exact ⟨h.disjoint, h.nodup, h.owned⟩

end BbRe.Properties.C15
