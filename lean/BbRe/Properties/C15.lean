import BbRe.Model.FilePool
namespace BbRe.Properties.C15
open BbRe.FilePool

/-- A fresh pool has nothing allocated and no files. -/
theorem init_empty (c : Cfg) : (init c).allocd = [] ∧ (init c).files = [] ∧ (init c).dfree = false :=
  ⟨rfl, rfl, rfl⟩

end BbRe.Properties.C15
