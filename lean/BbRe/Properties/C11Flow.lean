import BbRe.Lemmas.ExecFlow
/-!
# C11, the executor's part: the run budget starts when the command starts

`Model/ExecFlow.lean` is the control flow of `localBuildExecutor.Execute`
(`pkg/builder/local_build_executor.go`).  Property C11: "A command is cancelled …
once it has run for its timeout …  A command that finishes within its unsuspended
budget is never cancelled by the timeout, and the reported virtual execution
duration equals the unsuspended time it ran."  The clock mechanism behind the
context is `Properties/C11.lean` (`Model/SusClock.lean`); what is shown here is
that `Execute` creates that context only after the RUNNING update was *accepted*
by the receiver of `executionStateUpdates` (an unbuffered channel), so that no
time the executor spends waiting for that receiver is charged to the command.
Tied to the real executor by `harness/cmd/localexec` (every observed instant of
every executed action is compared with `execute`).
-/
namespace BbRe.Properties.C11Flow
open BbRe.ExecFlow BbRe.Lemmas.ExecFlow

/-- The budget of the command starts at the instant the RUNNING update is accepted,
which is not before the receiver is done with the FETCHING_INPUTS update. -/
theorem budget_starts_when_running_is_accepted (e : Env) :
    (execute e).budgetStart = (execute e).acceptRunning ∧
    (execute e).acceptFetching + e.consumer ≤ (execute e).budgetStart ∧
    (execute e).runEnd = (execute e).budgetStart + (execute e).run.wall := by
  dsimp only [execute]
  omega

/-- For all speeds of the receiver of state updates and all preparation times the run
stage (cancelled or not, run time granted, virtual execution duration) is the same. -/
theorem run_stage_independent_of_update_delivery (e : Env) (consumer prep : Nat) :
    (execute { e with consumer := consumer, prep := prep }).run = (execute e).run := rfl

/-- A command that finishes within its budget — its run time does not exceed the
timeout, and run time plus stalls do not exceed timeout + maximum compensation — is
never cancelled, completes every segment, and the virtual execution duration is its
run time: for all timeouts, stall patterns and receivers of state updates. -/
theorem within_budget_never_cancelled (e : Env)
    (h1 : runTime e.script ≤ e.timeout)
    (h2 : runTime e.script + stallTime e.script ≤ e.timeout + e.maxSusp) :
    (execute e).run.killed = false ∧ (execute e).run.unsusp = runTime e.script ∧
      (execute e).run.completed = e.script.length ∧
      (execute e).run.wall = runTime e.script + stallTime e.script := by
  have := runFrom_fits e.timeout (e.timeout + e.maxSusp) e.script 0 0 0 (by omega) (by omega)
  simp only [execute, this, Nat.zero_add, and_self]

/-- A command is cancelled only once it has run for its whole timeout, or once
timeout + maximum compensation of wall-clock time have passed since it was started;
and the virtual execution duration never exceeds the timeout nor the wall-clock time. -/
theorem cancelled_only_after_the_budget (e : Env) :
    ((execute e).run.killed = true →
      (execute e).run.unsusp = e.timeout ∨ e.timeout + e.maxSusp ≤ (execute e).run.wall) ∧
    (execute e).run.unsusp ≤ e.timeout ∧ (execute e).run.unsusp ≤ (execute e).run.wall := by
  have := runFrom_bounds e.timeout (e.timeout + e.maxSusp) e.script 0 0 0 (Nat.zero_le _) (Nat.le_refl _)
  simp only at this
  obtain ⟨a, _, _, d, f⟩ := this
  exact ⟨f, a, by dsimp only [execute]; omega⟩

/-- The demonstration of the seeded change "the RUNNING update is sent after the
context was created": timeout 10 s, a command that needs 7 s, a receiver that takes 4 s
per update.  The command gets its 7 s, starting at 4 s. -/
example :
    let t := execute { timeout := 10, maxSusp := 0, uploadDelay := 60, consumer := 4, prep := 0,
                       script := [.run 7], lingers := [] }
    t.run.killed = false ∧ t.run.unsusp = 7 ∧ t.budgetStart = 4 ∧ t.runEnd = 11 := by decide

/-- Non-vacuity of `cancelled_only_after_the_budget`: a spinning command is cancelled after 10. -/
example :
    (execute { timeout := 10, maxSusp := 5, uploadDelay := 60, consumer := 4, prep := 0,
               script := [.run 3, .stall 2, .run 30], lingers := [] }).run = ⟨true, 10, 12, 2⟩ := by decide

end BbRe.Properties.C11Flow
