import BbRe.Lemmas.SchedLiveRun
import BbRe.Lemmas.SchedLiveResp
import BbRe.Lemmas.SchedLiveTerm
import BbRe.Lemmas.SchedLiveSleep
import BbRe.Lemmas.SchedLiveWaiters3
import BbRe.Lemmas.SchedLiveProgress2
/-!
# C02 — each waiter gets exactly one faithful final result

Theorems about `Model/Sched.lean` (the transcription of
`pkg/scheduler/in_memory_build_queue.go`, tied to the code by the `sched`
differential harness).  They quantify over every `Reachable` state, i.e. over
every list of lock-held segments (`Seg`): all interleavings of `Execute` /
`WaitExecution` arrivals, stream wake-ups (stage change, update timer, client
cancellation), `Synchronize` arrivals and wake-ups, operator calls and clock
advances, with every oracle answer (`Hints`).

The model represents `task.stageChangeWakeup` by the generation counter
`Task.gen` (incremented exactly where the code closes the channel) and a stream
blocked in `waitExecution` by a `Stream` entry whose `snap` is the generation
for which its last message was built.

Helper lemmas: `BbRe/Lemmas/SchedLive*.lean`.
-/
namespace BbRe.Properties.C02
open BbRe.Sched BbRe.Lemmas.SchedLive

/-! ## demo history for the non-vacuity examples -/

def cfg : Cfg := ⟨10, 10, 30, 100, 5, 50, 3, 1000⟩
def h0 : Hints := ⟨[], 0, none, false⟩
def q : ScqId := ⟨1, 0⟩
def w : WId := ⟨1, 1⟩
/-- register a queue; a worker parks; client 1 executes action 55 which is handed to the worker; the worker
wakes, runs it and reports the result (token 77): client 1 is still parked with the old snapshot. -/
def demo : List Seg :=
  [.register 1 [] 7 [0] 0 0,
   .sync h0 1 q [] 7 w .idle false,
   .exec ⟨[(q, w, 1)], 0, none, false⟩ 2 1 55 55 false [] 7 [9] 0,
   .syncWake h0 3 q w 0,
   .sync h0 4 q [] 7 w (.completed 55 ⟨0, 0, 77, .worker⟩) false]
def sDemo : State := run (State.init cfg) demo
theorem demo_reachable : Reachable sDemo := reachable_run (Reachable.init cfg) demo

/-! ## (a) at most one `done`, nothing after it -/

/-- `streamSend` for a completed task emits the final message together with the return of the call,
removes the parked stream of the client, and the message carries exactly the stored response. -/
theorem send_done (s s' : State) (c o : Nat) (op : Op) (t : Task) (r : Resp)
    (hop : s.op? o = some op) (ht : s.task? op.task = some t) (hr : t.response = some r)
    (hs : streamSend s c o = .ok s') :
    s'.events = .ret c cOK :: .msg c o 4 true r.code r.tok :: s.events ∧ hasStream s' c = false := by
  obtain ⟨op', t', h1, h2, ⟨r', h3, _, rfl⟩ | ⟨h3, _⟩⟩ := streamSend_ok hs
  · rw [hop] at h1; injection h1 with h1; subst h1
    rw [ht] at h2; injection h2 with h2; subst h2
    rw [hr] at h3; injection h3 with h3; subst h3
    refine ⟨by simp [stage_of_resp hr], ?_⟩
    simp only [hasStream, sendDone_streams]; exact any_filter_self _ _
  · rw [hop] at h1; injection h1 with h1; subst h1
    rw [ht] at h2; injection h2 with h2; subst h2
    rw [hr] at h3; cases h3

/-- A client without a parked stream cannot be woken: the `streamWake` segment is rejected. -/
theorem wake_without_stream_rejected (h : Hints) (s s' : State) (now c reason : Nat)
    (hc : hasStream s c = false) : streamWake h s now c reason ≠ .ok s' := by
  intro hh
  have := (streamWake_eff hh).2
  rw [hc] at this; cases this

/-- **at_most_one_done (per segment).**  For every successful segment and every client `c`, the
`msg` events the segment appends for `c` are: none (and then the segment does not park a stream
for `c`); or exactly one, marked `done`, after which `c` has no parked stream; or exactly one, not
`done`, after which `c` is parked.  The last two happen only in an `Execute` / `WaitExecution`
segment of `c` itself or when `c` had a parked stream before. -/
theorem at_most_one_done (s s' : State) (g : Seg) (hstep : step s g = .ok s') (c : Nat) :
    ∃ new, s'.events = new ++ s.events ∧
      ((new.filter (isMsgOf c) = [] ∧ (hasStream s' c = true → hasStream s c = true)) ∨
       ((isAttachOf c g = true ∨ hasStream s c = true) ∧
        ((∃ o st code tok, new.filter (isMsgOf c) = [.msg c o st true code tok] ∧ hasStream s' c = false) ∨
         (∃ o st, new.filter (isMsgOf c) = [.msg c o st false 0 0] ∧ hasStream s' c = true)))) :=
  step_client hstep c

/-- **nothing after `done` (run level).**  After a segment that sent `done` to `c` — more
generally from any state in which `c` has no parked stream — every run that contains no new
`Execute` / `WaitExecution` call of `c` appends no `msg` event for `c`. -/
theorem nothing_after_done (s : State) (c : Nat) (gs : List Seg) (hs : hasStream s c = false)
    (hg : noAttach c gs) :
    hasStream (run s gs) c = false ∧
    ∃ new, (run s gs).events = new ++ s.events ∧ new.filter (isMsgOf c) = [] :=
  run_no_msg gs hs hg

/-- a `done` message for client `c` carrying payload token `tok` -/
def isDoneMsg (c tok : Nat) : Event → Bool
  | .msg c' _ _ true _ tok' => c' == c && tok' == tok
  | _ => false

/-- non-vacuity: in the demo the stage-change wake-up of client 1 sends `done` with token 77 (the
payload the worker reported), and afterwards client 1 has no stream. -/
example : (run sDemo [.streamWake h0 5 1 0]).events.any (isDoneMsg 1 77) = true ∧
    hasStream sDemo 1 = true ∧ hasStream (run sDemo [.streamWake h0 5 1 0]) 1 = false := by
  refine ⟨by decide, by decide, by decide⟩

/-! ## (b) no lost wake-up -/

/-- **no_lost_wakeup (invariant).**  In every reachable state, for every parked stream `st` on
operation `op` of task `t`: the snapshot is not ahead of the task's generation, and if the task is
completed the snapshot is strictly behind — the captured `stageChangeWakeup` channel is closed. -/
theorem no_lost_wakeup (s : State) (hs : Reachable s) (st : Stream) (hst : st ∈ s.streams)
    (op : Op) (t : Task) (hop : s.op? st.op = some op) (ht : s.task? op.task = some t) :
    st.snap ≤ t.gen ∧ (t.response.isSome = true → st.snap < t.gen) :=
  (wakeInv_reachable hs st hst).2 op t hop ht

/-- … hence the stage-change wake-up of such a stream is enabled (it does not fail with the
"woke up without a stage change" mismatch) and sends `done` with the stored response. -/
theorem completed_stream_wakes (s : State) (hs : Reachable s) (h : Hints) (c : Nat) (st : Stream)
    (hst : s.streams.find? (fun x => x.client = c) = some st)
    (op : Op) (t : Task) (r : Resp) (hop : s.op? st.op = some op) (ht : s.task? op.task = some t)
    (hr : t.response = some r) (hw : op.waiters ≠ 0) :
    ∃ s', streamWake h s s.now c 0 = .ok s' ∧
      s'.events = .ret c cOK :: .msg c st.op 4 true r.code r.tok :: s.events := by
  have hlt := (no_lost_wakeup s hs st (List.mem_of_find?_eq_some hst) op t hop ht).2 (by simp [hr])
  have hne : t.gen ≠ st.snap := by omega
  refine ⟨sendDone s c st.op op t r, ?_, by simp [stage_of_resp hr]⟩
  simp [streamWake, enter, hst, hop, ht, hne, streamSend, hr, hw, sendDone, bind, Except.bind, pure, Except.pure,
    dropStream, -BbRe.Lemmas.SchedInv.task?_def, -BbRe.Lemmas.SchedInv.op?_def]

/-- **A parked stream's operation cannot disappear under it**: in every reachable state the operation of
every parked stream exists, counts a waiter, and its task exists (the no-waiter cleanup only removes
operations without waiters). -/
theorem parked_stream_operation_exists (s : State) (hs : Reachable s) (st : Stream) (hst : st ∈ s.streams) :
    ∃ op t, s.op? st.op = some op ∧ 0 < op.waiters ∧ s.task? op.task = some t :=
  stream_op_exists hs hst

/-- **no_lost_wakeup, final form.**  In every reachable state, for every client `c` with a parked stream
whose task is completed, the stage-change wake-up segment succeeds and sends exactly the `done` message
with the stored response, together with the return of the call. -/
theorem completed_task_wakes_every_stream (s : State) (hs : Reachable s) (h : Hints) (c : Nat) (st : Stream)
    (hst : s.streams.find? (fun x => x.client = c) = some st)
    (hdone : ∀ op t, s.op? st.op = some op → s.task? op.task = some t → t.response.isSome = true) :
    ∃ s' op t r, s.op? st.op = some op ∧ s.task? op.task = some t ∧ t.response = some r ∧
      streamWake h s s.now c 0 = .ok s' ∧
      s'.events = .ret c cOK :: .msg c st.op 4 true r.code r.tok :: s.events := by
  obtain ⟨op, t, hop, hw, ht⟩ := stream_op_exists hs (List.mem_of_find?_eq_some hst)
  have hsome := hdone op t hop ht
  cases hr : t.response with
  | none => rw [hr] at hsome; cases hsome
  | some r =>
    obtain ⟨s', e1, e2⟩ := completed_stream_wakes s hs h c st hst op t r hop ht hr (by omega)
    exact ⟨s', op, t, r, hop, ht, hr, e1, e2⟩

/-- non-vacuity: the demo state has a parked stream whose task is completed, with snapshot 0 < generation 1 -/
example : sDemo.streams.any (fun st => match sDemo.op? st.op with
    | some op => (match sDemo.task? op.task with
      | some t => t.response.isSome && decide (st.snap < t.gen)
      | none => false)
    | none => false) = true := by decide

/-- **no_lost_wakeup (blocked `TerminateWorkers` calls).**  In every reachable state each captured
`(task, generation)` pair is not ahead of the task's generation, and once the task is no longer executing
(detached from its worker, or completed) its generation has moved on: the captured channel is closed and
the call's wake-up is enabled (`BbRe.Properties.C06.terminate_wakes`). -/
theorem no_lost_wakeup_terminate (s : State) (hs : Reachable s) (tc : TermCall) (htc : tc ∈ s.terms)
    (tg : Nat × Nat) (htg : tg ∈ tc.waits) (tk : Task) (htk : s.task? tg.1 = some tk) :
    tg.2 ≤ tk.gen ∧ ((tk.worker = none ∨ tk.response.isSome = true) → tg.2 < tk.gen) :=
  (termInv_reachable hs tc htc tg htg).2 tk htk

/-- **no_lost_wakeup (workers).**  In every reachable state a worker whose wakeup channel was closed is
inside `Synchronize`, is no longer queued as idle and is not waiting for an undrain; a worker queued as idle
is inside `Synchronize`, not yet woken and holds no task. -/
theorem no_lost_wakeup_workers (s : State) (hs : Reachable s) (wk : Worker) (hm : wk ∈ s.workers) :
    (wk.woken = true → wk.inSync = true ∧ wk.parked = false ∧ wk.drainWait = none) ∧
    (wk.parked = true → wk.inSync = true ∧ wk.woken = false ∧ wk.task = none) := by
  have hok := (winv_reachable hs).ok wk hm
  exact ⟨hok.woken, fun hp => ⟨(hok.parked hp).1, (hok.parked hp).2.1, (hok.parked hp).2.2.1⟩⟩

/-- **The hand-off is signalled.**  When `task.schedule` hands a task to a parked worker (the only way a
blocked `Synchronize` gets work), that worker afterwards holds the task, is no longer queued as idle, and its
wakeup channel is closed — so its wake-up segment is enabled (`BbRe.Properties.C06.woken_worker_wakes`). -/
theorem handoff_signalled (h : Hints) (s s' : State) (hs : Reachable s) (tid : Nat)
    (hh : schedule h s tid = .ok s') :
    s'.assigned = s.assigned ∨
    ∃ q w wk, s'.assigned = (q, w, tid) :: s.assigned ∧ s'.worker? q w = some wk ∧ wk.task = some tid ∧
      wk.parked = false ∧ wk.woken = true ∧ wk.inSync = true :=
  schedule_handoff hh (winv_reachable hs) (fun t ht => ((keysOK_reachable hs).tid tid t ht).1)

/-! ## (c) faithful -/

/-- **faithful (provenance).**  A response that a segment newly stores in a task is either made by the
scheduler itself — its cause is one of `workerDisappeared`, `noWaiters`, `killed`, `retryLimit`,
`queueRemoved` (never `worker`) and it carries no payload — or it is exactly the response passed by a
`Synchronize(Completed d r)` segment of a worker `(q, w)` that the scheduler, at that point of the segment,
believed to be running this very task with the reported digest `d`. -/
theorem faithful (s s' : State) (hs : Reachable s) (g : Seg) (hstep : step s g = .ok s') (k : Nat) (t' : Task)
    (r : Resp) (ht' : s'.task? k = some t') (hr : t'.response = some r)
    (hnew : ∀ t, s.task? k = some t → t.response ≠ some r) :
    (r.cause ≠ .worker ∧ r.tok = 0 ∧ r.exit = 0) ∨
    ∃ h now q comps pf w d pi, g = .sync h now q comps pf w (.completed d r) pi ∧
      ∃ (s3 : State) (wk : Worker), s3.worker? q w = some wk ∧ wk.task = some k ∧
        ∃ t : Task, s3.task? k = some t ∧ t.digest = d := by
  obtain ⟨_, rf⟩ := step_rt hstep (keysOK_reachable hs)
  rcases rf k t' r ht' hr with ⟨t, e1, e2⟩ | h | ⟨h, now, q, comps, pf, w, rep, pi, rfl, d, rfl, s3, wk, e1, e2, tid, t, e3, e4, e5⟩
  · exact absurd e2 (hnew t e1)
  · exact .inl h
  · refine .inr ⟨h, now, q, comps, pf, w, d, pi, rfl, s3, wk, e1, e2, t, ?_, e5⟩
    rw [e2] at e3; injection e3 with e3; subst e3; exact e4


/-- **response set once.**  Once a task stores a response it keeps exactly that response along
every run (so every `done` message of every waiter carries the same `(code, tok)`, see `send_done`). -/
theorem response_set_once (s : State) (hs : Reachable s) (gs : List Seg) (k : Nat) (t t' : Task) (r : Resp)
    (ht : s.task? k = some t) (hr : t.response = some r) (ht' : (run s gs).task? k = some t') :
    t'.response = some r := by
  have hk := keysOK_reachable hs
  obtain ⟨_, rel⟩ := run_tstep (allow := True) gs s (fun _ _ _ => trivial) hk
  exact (trel_task hk rel ht ht').resp r hr

/-- A task identifier is never reused for another action: digest and deduplication key are stable. -/
theorem task_identity_stable (s : State) (hs : Reachable s) (gs : List Seg) (k : Nat) (t t' : Task)
    (ht : s.task? k = some t) (ht' : (run s gs).task? k = some t') :
    t'.digest = t.digest ∧ t'.dkey = t.dkey ∧ t.gen ≤ t'.gen := by
  have hk := keysOK_reachable hs
  obtain ⟨_, rel⟩ := run_tstep (allow := True) gs s (fun _ _ _ => trivial) hk
  have := trel_task hk rel ht ht'
  exact ⟨this.digest, this.dkey, this.gen⟩

/-! ## (d) stage monotone -/

/-- **stage_monotone (per segment).**  The stage of a task never decreases, except in a
`Synchronize` segment that reports a failed completion and whose analyzer asks for a retry
(`isRetrySeg`), where EXECUTING may fall back to QUEUED; COMPLETED is absorbing. -/
theorem stage_monotone (s s' : State) (hs : Reachable s) (g : Seg) (hstep : step s g = .ok s')
    (k : Nat) (t t' : Task) (ht : s.task? k = some t) (ht' : s'.task? k = some t') :
    (t.stage ≤ t'.stage ∨ (isRetrySeg g ∧ t.stage = 3 ∧ t'.stage = 2)) ∧ (t.stage = 4 → t'.stage = 4) := by
  have hk := keysOK_reachable hs
  obtain ⟨_, rel⟩ := step_tstep hstep hk
  have le := trel_task hk rel ht ht'
  have abs : t.stage = 4 → t'.stage = 4 := by
    intro h4
    cases hr : t.response with
    | none => simp [Task.stage, hr] at h4; split at h4 <;> omega
    | some r => exact stage_of_resp (le.resp r hr)
  refine ⟨?_, abs⟩
  by_cases hlt : t'.stage < t.stage
  · have h1 := stage_le_four t
    have h2 := stage_ge_two t'
    refine .inr ⟨le.drop (.inl hlt), ?_⟩
    have : t.stage ≠ 4 := fun h4 => by have := abs h4; omega
    have h3 : t.stage ≠ 2 := by omega
    -- stages are 2, 3 or 4
    have h23 : t.stage = 2 ∨ t.stage = 3 ∨ t.stage = 4 := by unfold Task.stage; (repeat' split) <;> simp
    omega
  · exact .inl (by omega)

/-- **stage_monotone (run level).**  Along a run without retrying segments the stage of a task
never decreases. -/
theorem stage_monotone_run (s : State) (hs : Reachable s) (gs : List Seg) (hg : ∀ g ∈ gs, ¬ isRetrySeg g)
    (k : Nat) (t t' : Task) (ht : s.task? k = some t) (ht' : (run s gs).task? k = some t') :
    t.stage ≤ t'.stage := by
  have hk := keysOK_reachable hs
  obtain ⟨_, rel⟩ := run_tstep (allow := False) gs s (fun g hg' hr => hg g hg' hr) hk
  have le := trel_task hk rel ht ht'
  exact Nat.le_of_not_lt (fun hlt => le.drop (.inl hlt))

/-- non-vacuity: the demo moves task 1 through EXECUTING to COMPLETED. -/
example : ∃ t, sDemo.task? 1 = some t ∧ t.stage = 4 := ⟨_, rfl, by decide⟩

/-! ## (f) progress: every parked stream eventually receives `done`

The *fair completion schedule*: enabled wake-ups are delivered, the workers stop synchronizing, and the
clock advances beyond the cleanup deadlines.  `no_lost_wakeup` says that the stream of a completed task is
enabled; the theorems below say how the task gets completed and count the segments.  The only parked
streams for which the schedule does not produce `done` are those whose task is queued with no worker
on a queue that is never removed (a predeclared platform queue) — there the code, too, waits for a worker
for ever; `eventually_done` states this alternative explicitly. -/

/-- states of the demo history: after the hand-off to the parked worker (3 segments), and after the worker
has picked the task up (4 segments); client 1 is parked in both. -/
def sHandoff : State := run (State.init cfg) (demo.take 3)
def sExecuting : State := run (State.init cfg) (demo.take 4)
theorem sHandoff_reachable : Reachable sHandoff := reachable_run (Reachable.init cfg) _
theorem sExecuting_reachable : Reachable sExecuting := reachable_run (Reachable.init cfg) _

/-- **eventually_done, completed task** (1 segment).  The stream of a client parked on an operation whose
task is completed is enabled for the stage-change wake-up, and delivering it sends `done` with the stored
response and returns the call. -/
theorem eventually_done_completed {s : State} (hs : Reachable s) (h : Hints) {c : Nat} {st : Stream}
    (hst : s.streams.find? (fun x => x.client = c) = some st)
    (hdone : ∀ op t, s.op? st.op = some op → s.task? op.task = some t → t.response.isSome = true) :
    ∃ s' op t r, s.op? st.op = some op ∧ s.task? op.task = some t ∧ t.response = some r ∧
      streamWake h s s.now c 0 = .ok s' ∧
      s'.events = .ret c cOK :: .msg c st.op 4 true r.code r.tok :: s.events :=
  completed_wakes hs h hst hdone

/-- **eventually_done, executing task** (2 segments).  The client `c` is parked on an operation whose task
is held by a worker that is outside `Synchronize` and stays silent.  Then the worker has a cleanup entry,
and for every time `T` at or beyond its deadline: the clock segment `touch T` sends nothing to `c`, and the
stage-change wake-up of `c` after it sends `done` (the scheduler's "worker disappeared" response `r`) and
returns the call. -/
theorem eventually_done_executing {s : State} (hs : Reachable s) (h : Hints) {c : Nat} {st : Stream}
    (hst : s.streams.find? (fun x => x.client = c) = some st) {op : Op} {t : Task}
    (hop : s.op? st.op = some op) (ht : s.task? op.task = some t) {q : ScqId} {w : WId} {wk : Worker}
    (htw : t.worker = some (q, w)) (hwk : s.worker? q w = some wk) (hout : wk.inSync = false) :
    ∃ e ∈ s.cleanup, e.kind = .worker q w ∧ ∀ T, s.now < T → e.deadline ≤ T →
      ∃ (r : Resp) (s1 : State), run s [.touch h T] = s1 ∧
        s1.events.filter (isMsgOf c) = s.events.filter (isMsgOf c) ∧
        (run s [.touch h T, .streamWake h T c 0]).events =
          .ret c cOK :: .msg c st.op 4 true r.code r.tok :: s1.events :=
  eventually_done_exec hs h hst hop ht htw hwk hout

/-- non-vacuity: in `sExecuting` client 1 waits for task 1 on the silent worker; at time 200 it gets `done`
with code 14 (UNAVAILABLE). -/
example : ∃ st op t wk, sExecuting.streams.find? (fun x => x.client = 1) = some st ∧
    sExecuting.op? st.op = some op ∧ sExecuting.task? op.task = some t ∧ t.worker = some (q, w) ∧
    sExecuting.worker? q w = some wk ∧ wk.inSync = false := ⟨_, _, _, _, rfl, rfl, rfl, rfl, rfl, rfl⟩
example : (run sExecuting [.touch h0 200, .streamWake h0 200 1 0]).events.take 2 =
    [.ret 1 cOK, .msg 1 1 4 true 14 0] := rfl

/-- **eventually_done, hand-off pending** (3 segments).  The task was handed to a worker blocked in
`Synchronize` whose wake-up is still pending (`woken`): delivering it makes the worker leave `Synchronize`
with the task; from the resulting state `s0` the previous theorem applies. -/
theorem eventually_done_handoff {s : State} (hs : Reachable s) (h : Hints) {c : Nat} {st : Stream}
    (hst : s.streams.find? (fun x => x.client = c) = some st) {op : Op} {t : Task}
    (hop : s.op? st.op = some op) (ht : s.task? op.task = some t) {q : ScqId} {w : WId} {wk : Worker}
    (htw : t.worker = some (q, w)) (hwk : s.worker? q w = some wk) (hwo : wk.woken = true) :
    ∃ s0, run s [.syncWake h s.now q w 0] = s0 ∧ Reachable s0 ∧ s0.now = s.now ∧
      ∃ e ∈ s0.cleanup, e.kind = .worker q w ∧ ∀ T, s.now < T → e.deadline ≤ T →
        ∃ (r : Resp) (s1 : State), run s0 [.touch h T] = s1 ∧
          (run s [.syncWake h s.now q w 0, .touch h T, .streamWake h T c 0]).events =
            .ret c cOK :: .msg c st.op 4 true r.code r.tok :: s1.events :=
  BbRe.Lemmas.SchedLive.eventually_done_handoff hs h hst hop ht htw hwk hwo

example : ∃ st op t wk, sHandoff.streams.find? (fun x => x.client = 1) = some st ∧
    sHandoff.op? st.op = some op ∧ sHandoff.task? op.task = some t ∧ t.worker = some (q, w) ∧
    sHandoff.worker? q w = some wk ∧ wk.woken = true := ⟨_, _, _, _, rfl, rfl, rfl, rfl, rfl, rfl⟩
example : (run sHandoff [.syncWake h0 sHandoff.now q w 0, .touch h0 200, .streamWake h0 200 1 0]).events.take 2 =
    [.ret 1 cOK, .msg 1 1 4 true 14 0] := rfl

/-- **eventually_done** (general form).  From every reachable state, run the settling schedule `settle`:
every blocked `Synchronize` call returns and no worker calls again, and the clock is advanced beyond all
armed cleanup deadlines, again and again until no cleanup entry is left.  Afterwards no worker, no cleanup
entry and no removable queue exists, every parked stream is still parked, and for every parked stream `st`
of a client `c`: either its task is completed and delivering the stage-change wake-up sends `done` and
returns the call, or the task is queued without a worker — on one of the remaining, never-removed queues —
waiting for a worker to appear. -/
theorem eventually_done {s : State} (hs : Reachable s) {c : Nat} {st : Stream}
    (hst : s.streams.find? (fun x => x.client = c) = some st) :
    Reachable (settle s) ∧ (settle s).workers = [] ∧ (settle s).cleanup = [] ∧
    (∀ q sq, (settle s).scq? q = some sq → sq.mayBeRemoved = false) ∧
    (settle s).streams = s.streams ∧
    ∃ op t, (settle s).op? st.op = some op ∧ (settle s).task? op.task = some t ∧
      ((∃ r, t.response = some r ∧
          (run (settle s) [.streamWake qh (settle s).now c 0]).events =
            .ret c cOK :: .msg c st.op 4 true r.code r.tok :: (settle s).events) ∨
       (t.response = none ∧ t.worker = none ∧ t.queued = true)) :=
  settle_spec hs hst

/-- **eventually_done, bound.**  The settling schedule is a run of at most
`#workers + (#workers + #operations + #queues) + 1` segments: one per worker and at most one clock segment
per object (every clock segment that finds a cleanup entry removes an object), the counts taken after the
workers have left `Synchronize`. -/
theorem eventually_done_bound (s : State) :
    ∃ gs : List Seg, settle s = run s gs ∧
      gs.length ≤ s.workers.length + objCount (run s (syncSegs s.now (s.workers.map wkey))) + 1 :=
  settle_bound s

/-- non-vacuity: settling `sHandoff` completes task 1 (the worker is removed), and client 1 gets `done`. -/
example : (run (settle sHandoff) [.streamWake qh (settle sHandoff).now 1 0]).events.take 2 =
    [.ret 1 cOK, .msg 1 1 4 true 14 0] := rfl

/-! ## (e) re-attach by name -/

/-- **reattach.**  `WaitExecution` attaches to the operation registered under the name *after*
`enter` (the cleanup may have removed it meanwhile) iff one exists; otherwise the call returns
`NOT_FOUND` and nothing else changes. -/
theorem reattach (h : Hints) (s s' : State) (now c name : Nat) (hh : waitArrive h s now c name = .ok s') :
    ∃ s1, enter h s now = .ok s1 ∧
      ((s1.op? name = none ∧ s' = emit s1 (.ret c cNotFound)) ∨
       (∃ op, s1.op? name = some op ∧ streamAttach s1 c name = .ok s')) :=
  waitArrive_ok hh

end BbRe.Properties.C02
