import BbRe.Model.Quota
import BbRe.Lemmas.Quota
/-!
# C15 (allocator and quota half) — storage sectors and quota are conserved

Property theorems about `Model/Quota.lean` (transcription of
`pkg/filesystem/pool/quota_enforcing_file_pool.go`) and `Model/Bitmap.lean`
(transcription of `pkg/filesystem/pool/bitmap_sector_allocator.go`).
Helper lemmas: `BbRe/Lemmas/Quota.lean`, `BbRe/Lemmas/Bitmap*.lean`.
-/
namespace BbRe.Properties.C15Alloc
open BbRe.Quota BbRe.Lemmas.Quota

/-! ## Quota -/

/-- **Conservation, inductive step**: one call of `NewFile`/`Truncate`/`WriteAt`/`Close`
with *any* answer of the base pool (success, failure, short write with or without
error — the answers are fields of `op`) preserves
`filesRemaining + #open = maxFiles` and `bytesRemaining + Σ size = maxBytes`. -/
theorem quota_step_conservation (st : State) (op : Op) (r : State × Out)
    (h : st.filesRemaining + st.files.length = st.maxFiles ∧
         st.bytesRemaining + totalSize st.files = st.maxBytes)
    (hs : step st op = some r) :
    r.1.filesRemaining + r.1.files.length = st.maxFiles ∧
    r.1.bytesRemaining + totalSize r.1.files = st.maxBytes := by
  have := step_conserved hs h
  obtain ⟨⟨a, b⟩, c, d⟩ := this
  exact ⟨c ▸ a, d ▸ b⟩

example : ∃ st op r, (st.filesRemaining + st.files.length = st.maxFiles ∧
    st.bytesRemaining + totalSize st.files = st.maxBytes) ∧ step st op = some r ∧ r.2.res = .base :=
  ⟨init 3 100, .newFile 40 false, _, by decide, rfl, by decide⟩

/-- **`quota_conservation`**: in every state reachable from a fresh pool by any
history of operations with any base-pool outcomes,
`filesRemaining + #open files = maxFiles` and `bytesRemaining + Σ size f = maxBytes`. -/
theorem quota_conservation (maxFiles maxBytes : Nat) (ops : List Op) :
    (run (init maxFiles maxBytes) ops).filesRemaining + (run (init maxFiles maxBytes) ops).files.length
      = maxFiles ∧
    (run (init maxFiles maxBytes) ops).bytesRemaining + totalSize (run (init maxFiles maxBytes) ops).files
      = maxBytes := by
  have h0 : Conserved (init maxFiles maxBytes) := by simp [Conserved, init, totalSize]
  obtain ⟨⟨a, b⟩, c, d⟩ := run_conserved ops _ h0
  exact ⟨a.trans c, b.trans d⟩

/-- Corollary: the counters never exceed their maxima, so the `uint64` additions of
`quotaMetric.release` cannot wrap. -/
theorem quota_never_exceeds (maxFiles maxBytes : Nat) (ops : List Op) :
    (run (init maxFiles maxBytes) ops).filesRemaining ≤ maxFiles ∧
    (run (init maxFiles maxBytes) ops).bytesRemaining ≤ maxBytes := by
  have := quota_conservation maxFiles maxBytes ops
  omega

/-- **After closing everything both counters are back at their maxima**, whatever the
base pool answered during the history and to the `Close` calls. -/
theorem quota_restored_after_close_all (maxFiles maxBytes : Nat) (ops : List Op) (errs : Nat → Bool) :
    (closeAll (run (init maxFiles maxBytes) ops) errs).files = [] ∧
    (closeAll (run (init maxFiles maxBytes) ops) errs).filesRemaining = maxFiles ∧
    (closeAll (run (init maxFiles maxBytes) ops) errs).bytesRemaining = maxBytes := by
  have h0 : Conserved (init maxFiles maxBytes) := by simp [Conserved, init, totalSize]
  have h1 := run_conserved ops _ h0
  have h2 := run_conserved ((run (init maxFiles maxBytes) ops).files.map (fun f => Op.close f.1 (errs f.1))) _ h1.1
  have h3 := run_closeList errs (run (init maxFiles maxBytes) ops)
  unfold closeAll
  obtain ⟨⟨a, b⟩, c, d⟩ := h2
  rw [h3] at a b
  simp [totalSize] at a b
  refine ⟨h3, ?_, ?_⟩
  · rw [a, c, h1.2.1]; rfl
  · rw [b, d, h1.2.2]; rfl

/-- Non-vacuity: a history with a failing `NewFile` of the base pool (the case
repaired by ab88045), a refused allocation, a short write with error and a
failing `Close`; the leak-free numbers. -/
example :
    let st := run (init 2 100) [.newFile 60 true, .newFile 50 true, .newFile 30 false,
      .writeAt 0 50 20 5 true, .truncate 0 10 false]
    st.filesRemaining = 1 ∧ st.bytesRemaining = 40 ∧ st.files = [(0, 60)] ∧
    (closeAll st (fun _ => true)).bytesRemaining = 100 := by decide

end BbRe.Properties.C15Alloc
