import BbRe.Model.Quota
import BbRe.Lemmas.Quota
import BbRe.Lemmas.BitmapSpec
import BbRe.Lemmas.BitmapDrain
/-!
# C15 (allocator and quota half) — storage sectors and quota are conserved

Property theorems about `Model/Quota.lean` (transcription of
`pkg/filesystem/pool/quota_enforcing_file_pool.go`) and `Model/Bitmap.lean`
(transcription of `pkg/filesystem/pool/bitmap_sector_allocator.go`).
Helper lemmas: `BbRe/Lemmas/Quota.lean`, `BbRe/Lemmas/Bitmap*.lean`.
-/
namespace BbRe.Properties.C15Alloc

/-! ## Quota -/
section Quota
open BbRe.Quota BbRe.Lemmas.Quota

/-- **Conservation, inductive step**: one call of `NewFile`/`Truncate`/`WriteAt`/`Close`
with *any* answer of the base pool (success, failure, short write with or without
error — the answers are fields of `op`) preserves
`filesRemaining + #open = maxFiles` and `bytesRemaining + Σ size = maxBytes`. -/
theorem quota_step_conservation (st : State) (op : Op) (r : State × Out)
    (h : st.filesRemaining + st.files.length = st.maxFiles ∧
         st.bytesRemaining + totalSize st.files = st.maxBytes)
    (hs : step st op = some r) :
    r.1.filesRemaining + r.1.files.length = st.maxFiles ∧
    r.1.bytesRemaining + totalSize r.1.files = st.maxBytes := by
  have := step_conserved hs h
  obtain ⟨⟨a, b⟩, c, d⟩ := this
  exact ⟨c ▸ a, d ▸ b⟩

example : ∃ st op r, (st.filesRemaining + st.files.length = st.maxFiles ∧
    st.bytesRemaining + totalSize st.files = st.maxBytes) ∧ step st op = some r ∧ r.2.res = .base :=
  ⟨init 3 100, .newFile 40 false, _, by decide, rfl, by decide⟩

/-- **`quota_conservation`**: in every state reachable from a fresh pool by any
history of operations with any base-pool outcomes,
`filesRemaining + #open files = maxFiles` and `bytesRemaining + Σ size f = maxBytes`. -/
theorem quota_conservation (maxFiles maxBytes : Nat) (ops : List Op) :
    (run (init maxFiles maxBytes) ops).filesRemaining + (run (init maxFiles maxBytes) ops).files.length
      = maxFiles ∧
    (run (init maxFiles maxBytes) ops).bytesRemaining + totalSize (run (init maxFiles maxBytes) ops).files
      = maxBytes := by
  have h0 : Conserved (init maxFiles maxBytes) := by simp [Conserved, init, totalSize]
  obtain ⟨⟨a, b⟩, c, d⟩ := run_conserved ops _ h0
  exact ⟨a.trans c, b.trans d⟩

/-- Corollary: the counters never exceed their maxima, so the `uint64` additions of
`quotaMetric.release` cannot wrap. -/
theorem quota_never_exceeds (maxFiles maxBytes : Nat) (ops : List Op) :
    (run (init maxFiles maxBytes) ops).filesRemaining ≤ maxFiles ∧
    (run (init maxFiles maxBytes) ops).bytesRemaining ≤ maxBytes := by
  have := quota_conservation maxFiles maxBytes ops
  omega

/-- **After closing everything both counters are back at their maxima**, whatever the
base pool answered during the history and to the `Close` calls. -/
theorem quota_restored_after_close_all (maxFiles maxBytes : Nat) (ops : List Op) (errs : Nat → Bool) :
    (closeAll (run (init maxFiles maxBytes) ops) errs).files = [] ∧
    (closeAll (run (init maxFiles maxBytes) ops) errs).filesRemaining = maxFiles ∧
    (closeAll (run (init maxFiles maxBytes) ops) errs).bytesRemaining = maxBytes := by
  have h0 : Conserved (init maxFiles maxBytes) := by simp [Conserved, init, totalSize]
  have h1 := run_conserved ops _ h0
  have h2 := run_conserved ((run (init maxFiles maxBytes) ops).files.map (fun f => Op.close f.1 (errs f.1))) _ h1.1
  have h3 := run_closeList errs (run (init maxFiles maxBytes) ops)
  unfold closeAll
  obtain ⟨⟨a, b⟩, c, d⟩ := h2
  rw [h3] at a b
  simp [totalSize] at a b
  refine ⟨h3, ?_, ?_⟩
  · rw [a, c, h1.2.1]; rfl
  · rw [b, d, h1.2.2]; rfl

/-- Non-vacuity: a history with a failing `NewFile` of the base pool (the case
repaired by ab88045), a refused allocation, a short write with error and a
failing `Close`; the leak-free numbers. -/
example :
    let st := run (init 2 100) [.newFile 60 true, .newFile 50 true, .newFile 30 false,
      .writeAt 0 50 20 5 true, .truncate 0 10 false]
    st.filesRemaining = 1 ∧ st.bytesRemaining = 40 ∧ st.files = [(0, 60)] ∧
    (closeAll st (fun _ => true)).bytesRemaining = 100 := by decide

end Quota

/-! ## Bitmap sector allocator -/
section Bitmap
open BbRe.Bitmap BbRe.Lemmas.Bitmap BbRe

/-- **`bitmap_meets_spec`**: the word-level bitmap allocator (`Model/Bitmap.lean`: `uint64`
words, trailing zeros, rotating `nextSector`) refines `AllocSpec` for *every* device size `n`,
through the abstraction `Bitmap.abs` (sector `s` is allocated iff `1 ≤ s ≤ n` and bit `s-1` is
zero) and the representation invariant `Bitmap.Inv`:
* a fresh allocator has nothing allocated;
* `AllocateContiguous(max)`, `max ≥ 1`, that succeeds returns `1 ≤ count ≤ max` contiguous
  sectors within `1 … n` that were all free, and marks exactly these;
* it fails only when no sector is free, and then changes nothing;
* `FreeContiguous` / `FreeList` on allocated sectors do not panic and free exactly these.
This is a theorem about the full bit-level model (no intermediate `List Bool` layer). -/
theorem bitmap_meets_spec : AllocSpec.Meets impl Inv abs where
  new_inv := new_inv
  new_abs := abs_new
  abs_wf := fun n st _ => abs_wf n st
  alloc_inv := fun n st max h hm => alloc_inv n st max h hm
  alloc_ok := fun n st max first count hinv hmax h => alloc_ok_spec n st max first count hinv hmax h
  alloc_fail := fun n st max _ h => alloc_fail_spec n st max h
  freeContiguous_ok := fun n st first count hinv hc hpre => freeContiguous_ok_spec n st first count hinv hc hpre
  freeList_ok := fun n st sectors hinv hpre => freeList_ok_spec n st sectors hinv hpre

/-- The representation invariant (slice length, permanently used tail, cursor within the
device) holds in every state reachable by contract-respecting calls; hence all the
per-operation statements of `bitmap_meets_spec` apply along every history. -/
theorem bitmap_inv_reachable {n : Nat} {st : State} (h : Reach n st) : Inv n st := by
  induction h with
  | new => exact new_inv n
  | alloc max _ hm ih => exact alloc_inv n _ max ih hm
  | freeContiguous first count _ hc hpre he ih =>
    obtain ⟨st'', e, hinv, _⟩ := freeContiguous_ok_spec n _ first count ih hc hpre
    rw [he] at e; cases e; exact hinv
  | freeList sectors _ hpre he ih =>
    obtain ⟨st'', e, hinv, _⟩ := freeList_ok_spec n _ sectors ih hpre
    rw [he] at e; cases e; exact hinv

/-- **After freeing everything the abstract state is initial**: from any state satisfying
the invariant, `FreeList` of all allocated sectors succeeds and leaves nothing allocated. -/
theorem bitmap_free_all_initial {n : Nat} {st : State} (hinv : Inv n st) :
    ∃ st', freeList st (allocatedList n st) = some st' ∧ Inv n st' ∧ ∀ s, abs n st' s = AllocSpec.init s := by
  have hmem : ∀ s, s ∈ allocatedList n st ↔ abs n st s = true := by
    intro s
    rw [abs_eq_true]
    simp only [allocatedList, List.mem_map, List.mem_filter, List.mem_range]
    constructor
    · rintro ⟨i, ⟨hi, hb⟩, rfl⟩
      simp at hb
      exact ⟨by omega, by omega, by simpa using hb⟩
    · rintro ⟨h1, h2, h3⟩
      exact ⟨s - 1, ⟨by omega, by simp [h3]⟩, by omega⟩
  have hpre : AllocSpec.FreeListPre (abs n st) (allocatedList n st) := by
    refine ⟨fun s hs _ => (hmem s).1 hs, ?_⟩
    apply List.Nodup.sublist (List.filter_sublist)
    unfold allocatedList
    rw [List.nodup_iff_pairwise_ne, List.pairwise_map]
    have := (List.nodup_range (n := n)).sublist (List.filter_sublist (p := fun i => !bit st.bm i))
    exact this.imp (by intro a b h; omega)
  obtain ⟨st', e, hinv', hpost⟩ := freeList_ok_spec n st _ hinv hpre
  refine ⟨st', e, hinv', ?_⟩
  intro s
  rw [hpost s]
  simp only [AllocSpec.init]
  cases ha : abs n st s
  · simp
  · have hm := (hmem s).2 ha
    have h0 : s ≠ 0 := by have := (abs_eq_true.1 ha).1; omega
    simp [h0, hm]


/-- **Progress**: whenever some sector is free, `AllocateContiguous` returns sectors (it only
reports `ResourceExhausted` when the device is full). -/
theorem bitmap_progress {n : Nat} {st : State} (_hinv : Inv n st) {s : Nat}
    (hfree : AllocSpec.IsFree n (abs n st) s) (max : Nat) :
    ∃ first count, (alloc st max).2 = some (first, count) := by
  cases h : (alloc st max).2 with
  | none => exact absurd (alloc_fail_spec n st max h) (AllocSpec.not_full_of_free hfree)
  | some r => exact ⟨r.1, r.2, rfl⟩

/-- **`FreeContiguous` / `FreeList` invert allocation**: giving back exactly the run that
`AllocateContiguous` returned (either way) restores the previous set of allocated sectors. -/
theorem bitmap_free_inverts_alloc {n : Nat} {st : State} (hinv : Inv n st) {max first count : Nat}
    (hmax : 1 ≤ max) (h : (alloc st max).2 = some (first, count)) :
    (∃ st', freeContiguous (alloc st max).1 first count = some st' ∧ Inv n st' ∧
      ∀ s, abs n st' s = abs n st s) ∧
    (∃ st', freeList (alloc st max).1 (List.range' first count) = some st' ∧ Inv n st' ∧
      ∀ s, abs n st' s = abs n st s) := by
  have hok := alloc_ok_spec n st max first count hinv hmax h
  have hinv' := alloc_inv n st max hinv hmax
  have hrun : ∀ s, first ≤ s → s < first + count → abs n (alloc st max).1 s = true := by
    intro s s1 s2
    rw [hok.post s]; simp [AllocSpec.inRun, s1, s2]
  have hback : ∀ s, (abs n (alloc st max).1 s && !AllocSpec.inRun first count s) = abs n st s := by
    intro s
    rw [hok.post s]
    by_cases hr : AllocSpec.inRun first count s = true
    · have : first ≤ s ∧ s < first + count := by simpa [AllocSpec.inRun] using hr
      rw [hok.were_free s this.1 this.2, hr]; rfl
    · simp at hr; rw [hr]; simp
  constructor
  · obtain ⟨st', e, hi, hp⟩ := freeContiguous_ok_spec n _ first count hinv' hok.count_pos ⟨hok.first_pos, hrun⟩
    exact ⟨st', e, hi, fun s => by rw [hp s, hback s]⟩
  · obtain ⟨st', e, hi, hp⟩ := freeList_ok_spec n _ (List.range' first count) hinv' (by
      refine ⟨?_, ?_⟩
      · intro s hs _
        rw [List.mem_range'_1] at hs
        exact hrun s hs.1 hs.2
      · exact List.Nodup.sublist List.filter_sublist (List.nodup_range' (step := 1)))
    refine ⟨st', e, hi, fun s => ?_⟩
    rw [hp s, ← hback s]
    congr 2
    have hfp := hok.first_pos
    rw [Bool.eq_iff_iff]
    simp [AllocSpec.inRun, List.mem_range'_1]
    omega

/-- **The full capacity is available again after freeing everything**: from any state
satisfying the invariant (in particular any reachable one, however fragmented), freeing all
allocated sectors and then calling `AllocateContiguous(max)` `n` times (any `max ≥ 1`) leaves
every sector `1 … n` allocated; by `bitmap_meets_spec.alloc_ok` each of these calls hands out
only sectors that were free, so all `n` sectors are handed out, each exactly once. -/
theorem bitmap_full_capacity_after_free_all {n : Nat} {st : State} (hinv : Inv n st) (max : Nat)
    (hmax : 1 ≤ max) :
    ∃ st', freeList st (allocatedList n st) = some st' ∧ (∀ s, abs n st' s = false) ∧
      ∀ s, 1 ≤ s → s ≤ n → abs n (allocRepeat st' max n) s = true := by
  obtain ⟨st', e, hinv', h0⟩ := bitmap_free_all_initial hinv
  refine ⟨st', e, h0, ?_⟩
  have := allocRepeat_full (n := n) max hmax n st' hinv' (freeCount_le _ _)
  exact full_of_freeCount_eq_zero this.2

example : Inv 130 (new 130) := new_inv 130
example : ∃ first count, (alloc (new 130) 200).2 = some (first, count) :=
  bitmap_progress (new_inv 130) (s := 1) ⟨by omega, by omega, abs_new 130 1⟩ 200
example : (alloc (new 0) 5).2 = none := by decide

end Bitmap

end BbRe.Properties.C15Alloc
