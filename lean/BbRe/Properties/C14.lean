import BbRe.Model.LockSkel
import BbRe.Model.LockPile
import BbRe.Lemmas.LockSkel
import BbRe.Lemmas.LockSkelPile
import BbRe.Lemmas.LockSkelRevalidate
/-!
# C14 — no call leaves a lock behind; concurrent calls never deadlock

Two parts (DESIGN.md §5 C14).

**(a) Lock balance** — `Model/LockSkel.lean` defines the lock-skeleton IR, its path
semantics and the executable checker `consistent`. `checker_sound` (proved once, here)
says that a program accepted by the checker has, on *every* terminating non-panicking
path of *every* function (calls executing the callee's body, to any depth, with any
number of loop iterations), exactly the declared net effect on the multiset of held
locks, and never releases a lock it does not hold. The hypothesis
`consistent Σ prog = true` is discharged for the program translated from the *current*
Go sources in `Properties/C14Generated.lean` (regenerated on every run).

**(b) Deadlock freedom** — `Model/LockPile.lean` transcribes `pkg/sync/lock_pile.go`
as a small-step machine of one thread against a global lock table with an arbitrary
environment. `pile_no_hold_and_wait`: the only blocking acquisition in `LockPile.Lock`
happens while the thread holds no lock of the pile; `pile_post`, `pile_unlock`,
`pile_unlockAll`: what is held afterwards; `no_deadlock`: in any system whose blocked
threads hold nothing or only locks of strictly smaller class than the awaited one,
the wait-for graph has no cycle, and some thread can always proceed. The class-order
premise is discharged from the source in `C14Generated` (`class_graph_ok`).

Helper lemmas: `BbRe/Lemmas/LockSkel.lean`, `BbRe/Lemmas/LockSkelPile.lean`.
-/
namespace BbRe.Properties.C14
open BbRe.LockSkel BbRe.Lemmas.LockSkel

/-! ## (a) the checker is sound -/

/-- **Soundness of the lock-balance checker.** If `consistent Σ prog = true`, then for
every function `f` and every trace `tr` of a run of `f` that returns (`Exec`: any
branch choices, any number of loop iterations, callee bodies executed to any depth,
deferred statements run at every return), replaying `tr` from exactly the locks
`Σ f` requires on entry never releases a lock that is not held (`run … = some _`) and
ends holding exactly the locks `Σ f` promises. -/
theorem checker_sound (sig : Sig) (prog : Prog) (hc : consistent sig prog = true) :
    ∀ (f : Nat) (tr : List Ev), Exec prog f tr →
      ∃ req post, sig.get f = some (req, post) ∧
        ∃ h', run req tr = some h' ∧ h'.Perm post :=
  BbRe.Lemmas.LockSkel.checker_sound sig prog hc

/-- The same in counting form: `net trace = Σ f ∧ neverUnderflows trace`. For every lock
`l`: (held on return) + (#releases) = (held on entry) + (#acquisitions), and no prefix of
the trace has released `l` more often than it was held on entry plus acquired. -/
theorem checker_sound_counts (sig : Sig) (prog : Prog) (hc : consistent sig prog = true)
    (f : Nat) (tr : List Ev) (he : Exec prog f tr) :
    ∃ req post, sig.get f = some (req, post) ∧ NeverUnderflows req tr ∧
      ∀ l, post.count l + rels l tr = req.count l + acqs l tr :=
  BbRe.Lemmas.LockSkel.checker_sound_counts sig prog hc f tr he

/-- No lock operation of any run mentions a ghost lock (`1000*c+999`, "a lock of class `c`
held by my caller"): ghosts only stand for the caller's locks in helper summaries. -/
theorem checker_sound_ghostFree (sig : Sig) (prog : Prog) (hc : consistent sig prog = true) :
    ∀ (f : Nat) (tr : List Ev), Exec prog f tr → GhostFree tr :=
  BbRe.Lemmas.LockSkel.checker_sound_ghostFree sig prog hc

/-- **Guarded-by.** What `run … = some _` says about the `need cs` events of a trace (the
translator emits one for every assignment to / `delete` from / declared mutating method call
on a field of a type listed in tools/lockskel/guards.json): at the moment of the event a
lock of one of the classes `cs` is held. For an `RWMutex` the write mode and the read mode
are different classes, and a mutation lists only the write mode. -/
theorem need_events_hold (h h' : List Nat) (p q : List Ev) (cs : List Nat)
    (hr : run h (p ++ Ev.need cs :: q) = some h') :
    ∃ h1, run h p = some h1 ∧ holdsClass h1 cs = true := by
  rw [run_append] at hr
  cases hp : run h p with
  | none => rw [hp] at hr; cases hr
  | some h1 =>
    rw [hp] at hr
    simp only [Option.bind, run, stepH] at hr
    refine ⟨h1, rfl, ?_⟩
    cases hc : holdsClass h1 cs with
    | true => rfl
    | false => rw [hc] at hr; simp at hr

/-- Guarded-by for a consistent program: in every returning run of every function, every
mutation of guarded state happens while a lock of a guarding class is held — given the
locks the function's summary requires on entry (for helpers: the ghost locks standing for
the caller's locks, whose presence is verified at every translated call site). -/
theorem guarded_mutations_are_locked (sig : Sig) (prog : Prog) (hc : consistent sig prog = true)
    (f : Nat) (p q : List Ev) (cs : List Nat) (he : Exec prog f (p ++ Ev.need cs :: q)) :
    ∃ req post, sig.get f = some (req, post) ∧
      ∃ h1, run req p = some h1 ∧ holdsClass h1 cs = true := by
  obtain ⟨req, post, hs, h', hr, _⟩ := checker_sound sig prog hc f _ he
  obtain ⟨h1, h1r, h1c⟩ := need_events_hold req h' p q cs hr
  exact ⟨req, post, hs, h1, h1r, h1c⟩

/-- Corollary for balanced entry points: a function whose summary is empty, in a
consistent program, returns with nothing held, whatever path it took. -/
theorem balanced_entry_leaves_nothing (sig : Sig) (prog : Prog) (hc : consistent sig prog = true)
    (f : Nat) (hf : sig.get f = some ([], [])) (tr : List Ev) (he : Exec prog f tr) :
    run [] tr = some [] := by
  obtain ⟨req, post, hs, h', hr, hp⟩ := checker_sound sig prog hc f tr he
  rw [hf] at hs
  cases hs
  rw [hr, List.Perm.eq_nil hp]


/-! ## (b) LockPile and deadlock freedom -/
open BbRe.LockPile BbRe.Lemmas.LockPile

/-- **No hold-and-wait.** In every state of `LockPile.Lock` reachable from a well-formed
call (any pile size, any new locks, any behaviour of the other threads), whenever the
thread's next step is the *blocking* acquisition `lhFirst.lock.Lock()`, it holds no lock
of the pile. -/
theorem pile_no_hold_and_wait {t : Nat} {old : Pile} {news : List Nat} {T0 : Table}
    (hwf : WfStart t old news T0) {s : MState} {T : Table}
    (hr : Reach t (lockInit old news) T0 s T) (hpc : s.pc = .block) :
    ∀ h ∈ s.pile, T h.lock ≠ some t :=
  BbRe.Lemmas.LockPile.pile_no_hold_and_wait hwf hr hpc

/-- … and if the thread entered `Lock` holding pile locks only, it holds nothing at all
while blocked. -/
theorem pile_blocked_holds_nothing {t : Nat} {old : Pile} {news : List Nat} {T0 : Table}
    (hwf : WfStart t old news T0) (honly : ∀ l, T0 l = some t → l ∈ locks old)
    {s : MState} {T : Table}
    (hr : Reach t (lockInit old news) T0 s T) (hpc : s.pc = .block) :
    ∀ l, T l ≠ some t :=
  BbRe.Lemmas.LockPile.pile_blocked_holds_nothing hwf honly hr hpc

/-- **Postcondition of `LockPile.Lock`.** When it returns, the thread holds every lock of
the pile, the pile's locks are pairwise distinct and are exactly old ∪ new, the pile is a
permutation of inserting the new locks into the old pile (recursion counts included),
nothing outside the pile changed hands for this thread, and the returned boolean is
`true` iff no lock was released in between. -/
theorem pile_post {t : Nat} {old : Pile} {news : List Nat} {T0 : Table}
    (hwf : WfStart t old news T0) {s : MState} {T : Table}
    (hr : Reach t (lockInit old news) T0 s T) (hpc : s.pc = .done) :
    (∀ h ∈ s.pile, T h.lock = some t) ∧
    (locks s.pile).Nodup ∧
    s.pile.Perm (insertAll old news) ∧
    (∀ l, l ∈ locks s.pile ↔ l ∈ locks old ∨ l ∈ news) ∧
    (∀ h ∈ s.pile, h.recursion + 1 = acq old h.lock + news.count h.lock) ∧
    (∀ l, l ∉ locks s.pile → (T l = some t ↔ T0 l = some t)) ∧
    (result s = some s.completed) ∧
    (s.completed = true ↔ s.releases = 0) :=
  BbRe.Lemmas.LockPile.pile_post hwf hr hpc

/-- `LockPile.Lock` never gets stuck except on a lock held by someone else, and never
hits its index-out-of-range panics when called with at least one lock. -/
theorem pile_lock_progress {t : Nat} {old : Pile} {news : List Nat} {T0 : Table}
    (hwf : WfStart t old news T0) {s : MState} {T : Table}
    (hr : Reach t (lockInit old news) T0 s T) (hstuck : step t s T = none) :
    s.pc = .done ∨ s.pc = .panic ∨ (∃ l, awaited s = some l ∧ T l ≠ none) :=
  BbRe.Lemmas.LockPile.lock_progress hwf hr hstuck

theorem pile_lock_no_panic {t : Nat} {old : Pile} {news : List Nat} {T0 : Table}
    (hwf : WfStart t old news T0) (hne : old ≠ [] ∨ news ≠ []) {s : MState} {T : Table}
    (hr : Reach t (lockInit old news) T0 s T) : s.pc ≠ .panic :=
  BbRe.Lemmas.LockPile.lock_no_panic hwf hne hr

/-- **`LockPile.Unlock`** releases exactly the named lock (or only drops its recursion count). -/
theorem pile_unlock {p : Pile} {T : Table} {l : Nat} (hl : l ∈ locks p) :
    ∃ i h p' T', p[i]? = some h ∧ h.lock = l ∧ unlock p T l = some (p', T') ∧
      (0 < h.recursion →
        p' = p.set i { h with recursion := h.recursion - 1 } ∧ T' = T) ∧
      (h.recursion = 0 →
        T' l = none ∧ (∀ x, x ≠ l → T' x = T x) ∧
        p.Perm (h :: p') ∧ p'.Perm (p.erase h) ∧
        ((locks p).Nodup → l ∉ locks p')) :=
  BbRe.Lemmas.LockPile.pile_unlock hl

/-- **`LockPile.UnlockAll`** frees every lock of the pile, touches nothing else, empties the pile. -/
theorem pile_unlockAll (p : Pile) (T : Table) :
    (unlockAll p T).1 = [] ∧
    (∀ l ∈ locks p, (unlockAll p T).2 l = none) ∧
    (∀ l, l ∉ locks p → (unlockAll p T).2 l = T l) :=
  BbRe.Lemmas.LockPile.pile_unlockAll p T

/-- **No deadlock.** Threads, locks and lock classes are arbitrary. If every blocked
thread holds nothing, or only locks of a class strictly below the class of the lock it is
waiting for (`H`), the wait-for graph has no cycle `t0 ⟶ t1 ⟶ … ⟶ t0` (every member of
such a cycle would be blocked). -/
theorem no_deadlock {holds : Nat → Nat → Prop} {waits : Nat → Option Nat} {cls : Nat → Nat}
    (hH : H holds waits cls) (t0 : Nat) (rest : List Nat) :
    ¬ Chain (Edge holds waits) t0 (rest ++ [t0]) :=
  BbRe.Lemmas.LockPile.no_deadlock hH t0 rest

/-- Consequently, in a finite non-empty set of threads closed under "holder of an awaited
lock", somebody is running or waits for a free lock. -/
theorem some_thread_can_proceed {holds : Nat → Nat → Prop} {waits : Nat → Option Nat}
    {cls : Nat → Nat} (hH : H holds waits cls) (ts : List Nat) (hne : ts ≠ [])
    (hclosed : ∀ t ∈ ts, ∀ l, waits t = some l → (∃ u ∈ ts, holds u l) ∨ (∀ u, ¬ holds u l)) :
    ∃ t ∈ ts, waits t = none ∨ ∃ l, waits t = some l ∧ ∀ u, ¬ holds u l :=
  BbRe.Lemmas.LockPile.some_thread_can_proceed hH ts hne hclosed

/-- A thread that takes its locks through a `LockPile` meets the first disjunct of `H`
whenever it is blocked inside `LockPile.Lock` (link between the two halves). -/
theorem pile_thread_satisfies_H {t : Nat} {old : Pile} {news : List Nat} {T0 : Table}
    (hwf : WfStart t old news T0) (honly : ∀ l, T0 l = some t → l ∈ locks old)
    {s : MState} {T : Table} (hr : Reach t (lockInit old news) T0 s T)
    (holds : Nat → Nat → Prop) (waits : Nat → Option Nat) (cls : Nat → Nat)
    (hholds : ∀ l, holds t l ↔ T l = some t) (hwaits : waits t = awaited s) :
    HAt holds waits cls t :=
  BbRe.Lemmas.LockPile.pile_thread_satisfies_H hwf honly hr holds waits cls hholds hwaits

/-- End to end for piles: any finite system of threads each of which is somewhere inside a
`LockPile.Lock` call (directory operations racing on overlapping directories, renames in
opposite directions) can make a step. -/
theorem pile_system_can_proceed (ts : List Nat) (hne : ts ≠ [])
    (old : Nat → Pile) (news : Nat → List Nat) (T0 : Nat → Table) (s : Nat → MState) (T : Table)
    (hwf : ∀ t ∈ ts, WfStart t (old t) (news t) (T0 t))
    (honly : ∀ t ∈ ts, ∀ l, T0 t l = some t → l ∈ locks (old t))
    (hr : ∀ t ∈ ts, Reach t (lockInit (old t) (news t)) (T0 t) (s t) T)
    (hclosed : ∀ l u, T l = some u → u ∈ ts) :
    ∃ t ∈ ts, awaited (s t) = none ∨ ∃ l, awaited (s t) = some l ∧ T l = none :=
  BbRe.Lemmas.LockPile.pile_system_can_proceed ts hne old news T0 s T hwf honly hr hclosed

/-! ### `getAndLockIfDirectory`: revalidation after a back-tracking acquisition

`Lemmas/LockSkelRevalidate.lean` models the retry loop of
`inMemoryDirectoryContents.getAndLockIfDirectory` (in_memory_prepopulated_directory.go
l.229-253) for one thread against a lock table, the mutable `entriesMap` of the parent
directory (which the environment may change only while the thread does not hold the parent
lock) and the thread's `LockPile`; `LockPile.Lock` enters as its proved specification
(`pile_post`, via `lockSpec_of_lock`). -/
open BbRe.Lemmas.Revalidate in
/-- **Revalidation is sound.** Whatever the number of retries and whatever the other threads
do: when `getAndLockIfDirectory` returns `(entry, true)`, `entry` is at that moment still the
child stored under the name, the parent lock is held, and if the child is a directory its
lock is held by the thread and recorded in the pile; when it returns `(nil, false)` the name
is absent and the parent lock is still held. -/
theorem revalidate_sound {c : Cfg} {s0 s : State} (h0 : Start c s0) (hr : Reach c s0 s) :
    (∀ e, s.pc = .done (some e) →
        s.E c.name = some e ∧ s.T c.P = some c.t ∧
        ∀ l, e.dirLock = some l → s.T l = some c.t ∧ l ∈ locks s.pile) ∧
    (s.pc = .done none → s.E c.name = none ∧ s.T c.P = some c.t) :=
  BbRe.Lemmas.Revalidate.revalidate_sound h0 hr

open BbRe.Lemmas.Revalidate in
/-- Retries leak nothing: at every loop head the pile is the initial one, on return it is the
initial pile plus the child directory's lock (if a directory is returned). -/
theorem revalidate_pile {c : Cfg} {s0 s : State} (h0 : Start c s0) (hr : Reach c s0 s) :
    (s.pc = .fetch → s.pile.Perm c.p0) ∧
    (∀ e, s.pc = .lockChild e → s.pile.Perm c.p0) ∧
    (s.pc = .done none → s.pile.Perm c.p0) ∧
    (∀ e, s.pc = .done (some e) → e.dirLock = none → s.pile.Perm c.p0) ∧
    (∀ e l, s.pc = .done (some e) → e.dirLock = some l → s.pile.Perm (⟨l, 0⟩ :: c.p0)) :=
  BbRe.Lemmas.Revalidate.revalidate_pile h0 hr

open BbRe.Lemmas.Revalidate in
/-- Every call of `LockPile.Lock` made by the loop meets the precondition of `pile_post`. -/
theorem revalidate_lock_pre {c : Cfg} {s0 s : State} (h0 : Start c s0)
    (hn : (locks c.p0).Nodup)
    (hall : ∀ h ∈ c.p0, s0.T h.lock = some c.t)
    (honly : ∀ x, s0.T x = some c.t → x ∈ locks c.p0)
    (hr : Reach c s0 s) :
    (∀ h ∈ s.pile, s.T h.lock = some c.t) ∧
    (∀ x, s.T x = some c.t → x ∈ locks s.pile) ∧
    (∀ e l, s.pc = .lockChild e → e.dirLock = some l → WfStart c.t s.pile [l] s.T) :=
  BbRe.Lemmas.Revalidate.revalidate_lock_pre h0 hn hall honly hr

/-! Non-vacuity of (b): see the `Ex` section at the end of `Lemmas/LockSkelPile.lean`
(thread 0 holds pile `[10]`, calls `Lock(20, 30, 10)`, the `TryLock` of 30 fails, 10 and 20
are released, 30 is awaited; every theorem above is instantiated on that run). -/
example : ∀ h ∈ Ex.blocked.1.pile, Ex.blocked.2 h.lock ≠ some 0 :=
  pile_no_hold_and_wait Ex.wf (reach_lockRun 0 7 [false, true] Ex.old Ex.news Ex.T0) (by decide)
example : ¬ Chain (Edge Ex.holds2 Ex.waits2) 0 ([1] ++ [0]) := no_deadlock Ex.H2 0 [1]

end BbRe.Properties.C14

/-! Non-vacuity: a two-function program with a deferred unlock, an early return, a loop
that drops and re-takes the lock, and a call under the lock; and the same program with
the unlock on the early return removed is rejected. -/
namespace BbRe.Examples.C14
open BbRe.LockSkel BbRe.Lemmas.LockSkel BbRe.Properties.C14
/-- `func f() { l.Lock(); defer l.Unlock(); if c { return }; for c { l.Unlock(); l.Lock() }; g() }`,
`func g() /* requires l */ { l.Unlock(); l.Lock() }` -/
def exProg : Prog :=
  [(0, .seq (.acq 1) (.fin (.seq (.choice 3 (.ret 3) .skip)
        (.seq (.loop true (.seq (.rel 1) (.acq 1))) (.call 1 []))) (.rel 1))),
   (1, .seq (.rel 1) (.acq 1))]
def exSig : Sig := [(0, ([], [])), (1, ([1], [1]))]
example : consistent exSig exProg = true := by decide
/-- the leak pattern of the defect fixed in f1f0436: lock, early `return` without unlock -/
def exLeak : Prog := [(0, .seq (.acq 1) (.seq (.choice 3 (.ret 3) .skip) (.seq (.rel 1) (.ret 5))))]
example : consistent [(0, ([], []))] exLeak = false := by decide
/-- a concrete run of `f` (early return) and what the theorem says about it -/
theorem exRun : Exec exProg 0 [.acq 1, .rel 1] := by
  refine ⟨1, _, rfl, .ret, CS.init, ?_, Or.inr rfl⟩
  simp only [sem]
  refine Or.inl ⟨CS.init, [.acq 1], [.rel 1], by simp, ?_, rfl⟩
  refine ⟨CS.init, [], .ret, ?_, ?_⟩
  · exact Or.inr ⟨by decide, Or.inl (by simp)⟩
  · exact Or.inr ⟨by decide, [.rel 1], .norm, by simp, rfl, rfl⟩
example : run [] [.acq 1, .rel 1] = some [] :=
  balanced_entry_leaves_nothing exSig exProg (by decide) 0 rfl _ exRun
end BbRe.Examples.C14
