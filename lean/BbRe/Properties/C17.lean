import BbRe.Model.InputRoot
import BbRe.Lemmas.InputRootEquiv
import BbRe.Lemmas.InputRootSteps
import BbRe.Lemmas.InputRootFetch
import BbRe.Lemmas.InputRootEager
import BbRe.Lemmas.InputRootPaths
import BbRe.Lemmas.InputRootRename
import BbRe.Lemmas.InputRootState
import BbRe.Lemmas.InputRootCache
import BbRe.Lemmas.InputRootExamples
import BbRe.Lemmas.InputRootHardLink
/-!
# C17 — the input root is exactly the requested tree and cannot be altered

Property theorems about `Model/InputRoot.lean` (transcription of
`cas_initial_contents_fetcher.go`, of the lazy initialisation in
`in_memory_prepopulated_directory.go`, of `blob_access_cas_file_factory.go`, of
`virtualBuildDirectory.MergeDirectoryContents` and of
`caching_directory_fetcher.go`).  Helper lemmas are in `BbRe/Lemmas/InputRoot*.lean`.

Vocabulary (all defined in the lemma files, all computable or first order):

* `Equiv c a b` — `a` and `b` show the same names, kinds, digests, executable bits
  and symlink targets at every depth, where the contents of a directory that has
  not been initialised yet are what a fault-free fetch would produce
  (`equiv_iff`); `SEquiv` adds "same CAS".
* `expand c fuel n` — the eager tree: every directory that can be fetched is
  materialised, `fuel` levels deep.  `Eager c n` — nothing fetchable is left lazy.
* `WellFormed hl m` — all names valid, no name twice within or across the three
  lists, all digests well-formed, all symlink targets usable.
* `nodeAt c n p` — the node the path `p` denotes in the requested tree below `n`.
* `Node.lazy d mon`, `Node.file d x mon` — `mon = some p`: wrapped by the access
  monitoring fetcher for input root path `p` (`NewAccessMonitoringInitialContentsFetcher`);
  `Op.merge d true` merges with such a monitor. `Op.rename`, `Op.link` are
  `VirtualRename`, `VirtualLink`; all theorems about `step`/`run` include them.

Everything is quantified over **every** CAS content (no acyclicity needed except
for `eager_tree_is_eager`), every exploration/mutation history and every choice
of failing storage reads.
-/
namespace BbRe.Properties.C17
open BbRe.InputRoot BbRe.Lemmas.InputRoot BbRe.Lemmas.InputRoot.Ex

/-! ## `lazy_equals_eager` -/

/-- One fault-free operation cannot tell two equivalent trees apart, and keeps them
equivalent.  (`l` lazy, `e` eager is the intended reading; the statement is
symmetric.) -/
theorem lazy_equals_eager_step (l e : State) (op : Op) (h : SEquiv l e) :
    (step l [] op).2 = (step e [] op).2 ∧ SEquiv (step l [] op).1 (step e [] op).1 :=
  step_equiv l e op h

/-- **Every** fault-free history of explorations (lookup, readdir, open, read at any
path, in any order, any number of times) interleaved with local modifications
(remove, create, mkdir) and further merges produces the same outputs on the
lazily populated tree and on any equivalent tree — in particular (next
theorem) on the eagerly materialised one. -/
theorem lazy_equals_eager (l e : State) (h : SEquiv l e) (ops : List Op) :
    (run l (noFaults ops)).2 = (run e (noFaults ops)).2 ∧
    SEquiv (run l (noFaults ops)).1 (run e (noFaults ops)).1 := by
  induction ops generalizing l e with
  | nil => exact ⟨rfl, h⟩
  | cons op rest ih =>
    have hs := step_equiv l e op h
    have hr := ih _ _ hs.2
    simp only [noFaults, List.map_cons, run] at hr ⊢
    exact ⟨by rw [hs.1, hr.1], hr.2⟩

/-- What equivalence means, unfolded once: same kind (for a file: same digest and
executable bit; for a symlink: same target), and the contents — for a directory
that has not been initialised yet: what a fault-free fetch produces — either fail
with the same error or consist of the same names in the same order with
equivalent children. -/
theorem equiv_unfold (c : CAS) (a b : Node) :
    Equiv c a b ↔ kindOf a = kindOf b ∧ ContRel (Equiv c) (contents c [] a) (contents c [] b) :=
  equiv_iff c a b

/-- … hence at every path both trees denote nothing, or nodes of the same kind. -/
theorem equiv_same_observations (c : CAS) (a b : Node) (h : Equiv c a b) (p : Path) :
    (nodeAt c a p = none ∧ nodeAt c b p = none) ∨
    ∃ va vb, nodeAt c a p = some va ∧ nodeAt c b p = some vb ∧ kindOf va = kindOf vb ∧ Equiv c va vb := by
  rcases nodeAt_equiv c p a b h with h0 | ⟨va, vb, h1, h2, h3⟩
  · exact Or.inl h0
  · exact Or.inr ⟨va, vb, h1, h2, h3.kind, h3⟩

/-- The eager tree is equivalent to the lazy one, for every fuel. -/
theorem eager_tree_equiv (c : CAS) (fuel : Nat) (n : Node) : Equiv c (expand c fuel n) n :=
  expand_equiv c fuel n

/-- The lazily populated input root behaves, for every history, exactly like the
eager materialisation of the requested tree to which the same modifications are
applied. -/
theorem lazy_equals_eager_root (s : State) (fuel : Nat) (ops : List Op) :
    (run s (noFaults ops)).2 = (run ⟨s.cas, expand s.cas fuel s.root⟩ (noFaults ops)).2 :=
  (lazy_equals_eager s ⟨s.cas, expand s.cas fuel s.root⟩
    ⟨rfl, (expand_equiv s.cas fuel s.root).symm⟩ ops).1

/-- With fuel above the depth of the DAG below `d` the eager tree really is eager:
whatever is still lazy in it cannot be loaded (malformed or absent directory). -/
theorem eager_tree_is_eager (c : CAS) (rank : Dig → Nat) (hr : Acyclic c rank) (d : Dig)
    (mon : Option Path) (fuel : Nat) (hf : rank d < fuel) : Eager c (expand c fuel (.lazy d mon)) :=
  expand_eager c rank hr fuel d mon hf

/-- Merging a digest into a fresh root and expanding is expanding the digest. -/
theorem merged_root_expand (c : CAS) (d : Dig) (ch : Children) (fuel : Nat)
    (h : (fetch c [] d none).result = .ok ch) :
    (merge (init c) [] d false).1.root = .dir ch ∧
    expand c (fuel + 1) (.dir ch) = expand c (fuel + 1) (.lazy d none) := by
  constructor
  · simp [merge, init, h, contents, actMerge, hasName, lookup]
  · simp [expand, h]

/-- `exCAS` is a DAG of depth 2; fuel 3 leaves only the malformed `bad/` lazy. -/
example : Eager exCAS (expand exCAS 3 (.lazy dA none)) :=
  eager_tree_is_eager exCAS _ exCAS_acyclic dA none 3 (by decide)

/-- A history that looks below a shared subtree first, removes a CAS file, creates a
local one in its place and lists directories gives the same answers lazily and
eagerly; the listing shows the replaced entry as a local file. -/
example :
    (run (merge (init exCAS) [] dA false).1 (noFaults
      [.lookup [[115], [97]] [122], .remove [] [120], .create [] [120], .readdir [[115]],
       .leaf (.read 1 2) [[115]] [121], .lookup [] [120]])).2 =
    [.status .enoent, .ok, .ok, .listing [([97], .dir), ([121], .file f2 false)],
     .data [], .kind .loc] := by decide

/-! ## faults -/

/-- With storage faults an operation either is not affected at all, or fails with
an I/O error (`EIO`; `Unavailable` for a merge) and leaves an equivalent tree. -/
theorem fault_fails_or_unaffected (s : State) (F : List Dig) (op : Op) :
    step s F op = step s [] op ∨ (isFaultOut (step s F op).2 ∧ SEquiv (step s F op).1 s) :=
  step_fault s F op

/-- Lazy with faults against eager without: the operation agrees, or it fails with
an I/O error and the lazy tree is still equivalent to the eager tree *before*
the operation. -/
theorem lazy_with_faults (l e : State) (h : SEquiv l e) (F : List Dig) (op : Op) :
    ((step l F op).2 = (step e [] op).2 ∧ SEquiv (step l F op).1 (step e [] op).1) ∨
    (isFaultOut (step l F op).2 ∧ SEquiv (step l F op).1 e) := by
  rcases step_fault l F op with hf | ⟨h1, h2⟩
  · left; rw [hf]; exact step_equiv l e op h
  · right; exact ⟨h1, h2.trans h⟩

/-- A later retry agrees: after any number of operations that failed because of
faults, a fault-free operation answers what the eager tree answers. -/
theorem retry_agrees (l e : State) (h : SEquiv l e) (F : List Dig) (op op' : Op)
    (hfail : step l F op ≠ step l [] op) :
    (step (step l F op).1 [] op').2 = (step e [] op').2 := by
  rcases step_fault l F op with hf | ⟨_, h2⟩
  · exact absurd hf hfail
  · exact (step_equiv _ e op' (h2.trans h)).1

/-- Whole histories with arbitrary faults: the lazy tree always stays equivalent to
the eager tree that executed exactly the operations the faults did not hit;
`keep` marks them.  The outputs of the kept operations are the eager outputs,
all others are I/O errors. -/
theorem lazy_with_faults_history (hs : List (List Dig × Op)) :
    ∀ (l e : State), SEquiv l e →
    ∃ keep : List Bool, keep.length = hs.length ∧
      (let kept := (hs.zip keep).filterMap fun x => if x.2 then some x.1.2 else none
       let outs := ((run l hs).2.zip keep)
       (outs.filterMap fun x => if x.2 then some x.1 else none) = (run e (noFaults kept)).2 ∧
       (∀ x ∈ outs, x.2 = false → isFaultOut x.1) ∧
       SEquiv (run l hs).1 (run e (noFaults kept)).1) := by
  induction hs with
  | nil => intro l e h; exact ⟨[], rfl, rfl, by simp, h⟩
  | cons hd rest ih =>
    intro l e h
    obtain ⟨F, op⟩ := hd
    rcases lazy_with_faults l e h F op with ⟨h1, h2⟩ | ⟨h1, h2⟩
    · obtain ⟨keep, hk, ho, hf, hs'⟩ := ih _ _ h2
      refine ⟨true :: keep, by simp [hk], ?_, ?_, ?_⟩
      · simp only [run, List.zip_cons_cons, List.filterMap_cons, if_true, noFaults, List.map_cons]
        simp only [noFaults] at ho
        rw [ho, h1]
      · intro x hx
        simp only [run, List.zip_cons_cons, List.mem_cons] at hx
        rcases hx with rfl | hx
        · simp
        · exact hf x hx
      · simpa [run, noFaults] using hs'
    · obtain ⟨keep, hk, ho, hf, hs'⟩ := ih _ _ h2
      refine ⟨false :: keep, by simp [hk], ?_, ?_, ?_⟩
      · simpa [run, noFaults] using ho
      · intro x hx
        simp only [run, List.zip_cons_cons, List.mem_cons] at hx
        rcases hx with rfl | hx
        · intro _; exact h1
        · exact hf x hx
      · simpa [run, noFaults] using hs'

/-- A fault on the shared directory `c0` makes the listing fail; the retry gives the
listing; a fault on a digest that is not needed changes nothing. -/
example :
    (run (merge (init exCAS) [] dA false).1
      [([dC], .readdir [[104]]), ([], .readdir [[104]]), ([dB], .lookup [] [120])]).2 =
    [.status .eio, .listing [], .kind (.file f1 true)] := by decide

/-! ## `malformed_is_error` -/

/-- A malformed Directory message (an invalid name, a name that occurs twice within
or across the three lists, a malformed digest, an unusable symlink target) is
rejected as a whole: the fetch fails with `InvalidArgument`, no children are
returned, and every leaf created before the defect was found has been
unlinked. -/
theorem malformed_is_error (c : CAS) (F : List Dig) (d : Dig) (mon : Option Path) (m : DirMsg)
    (hF : d ∉ F) (hm : assoc c.dirs d = some (some m)) (hw : ¬ WellFormed c.hashLen m) :
    (fetch c F d mon).result = .error .invalidArgument ∧
    (fetch c F d mon).unlinked = (fetch c F d mon).created := by
  obtain ⟨k, hk⟩ := fetch_malformed c F d mon m hF hm hw
  rw [hk]; exact ⟨rfl, rfl⟩

/-- A blob that is not a Directory message at all is rejected the same way. -/
theorem garbage_is_error (c : CAS) (F : List Dig) (d : Dig) (mon : Option Path) (hF : d ∉ F)
    (hm : assoc c.dirs d = some none) :
    (fetch c F d mon).result = .error .invalidArgument ∧ (fetch c F d mon).created = 0 := by
  simp [fetch, fetchBase, hF, hm]

/-- Conversely a well-formed message is attached exactly: its children are the
entries of the message, nothing more, nothing less, nothing unlinked (the access
monitoring wrapper only annotates them with the monitor they report to). -/
theorem wellformed_is_exact (c : CAS) (F : List Dig) (d : Dig) (mon : Option Path) (m : DirMsg)
    (hF : d ∉ F) (hm : assoc c.dirs d = some (some m)) (hw : WellFormed c.hashLen m) :
    fetch c F d mon =
      ⟨.ok ((specChildren c.hashLen m).map (annotate mon)), m.files.length + m.syms.length, 0⟩ :=
  fetch_wellFormed c F d mon m hF hm hw

/-- Leaves are balanced in every case (also under faults). -/
theorem no_leaf_stays_linked (c : CAS) (F : List Dig) (d : Dig) (mon : Option Path) :
    match (fetch c F d mon).result with
    | .ok _ => (fetch c F d mon).unlinked = 0
    | .error _ => (fetch c F d mon).unlinked = (fetch c F d mon).created :=
  fetch_balance c F d mon

/-- All-or-nothing at the root: merging a digest whose message cannot be loaded
returns the error and changes nothing. -/
theorem malformed_root_not_merged (s : State) (F : List Dig) (d : Dig) (m : Bool) (e : Err)
    (h : (fetch s.cas F d (if m then some [] else none)).result = .error e) :
    merge s F d m = (s, .mergeErr e) := by
  simp [merge, h]

/-- Below the root: **every** operation whose path leads through a directory that
cannot be loaded fails with `EIO` — at the first access and at every later one,
whatever was explored or modified elsewhere, with or without faults. It never
yields a listing or a child (`firstPath`: the path of the directory the operation
works on; for link the directory of the source). -/
theorem malformed_never_a_tree (s : State) (F : List Dig) (op : Op) (p q : Path) (b : Node) (e : Err)
    (hpath : firstPath op = some (p ++ q))
    (hb : nodeAt s.cas s.root p = some b) (he : contents s.cas [] b = .err e) :
    (step s F op).2 = .status .eio :=
  step_through_bad s F op p q b e hpath hb he

/-- Nor can anything be renamed out of, renamed into or linked into such a directory
or anything below it (`viaPaths`: the old and the new directory of a rename, the
target directory of a link; the caller's walk to the other directory may fail
first, so the error is not necessarily `EIO`). -/
theorem malformed_never_a_destination (s : State) (F : List Dig) (op : Op) (p q : Path) (b : Node)
    (e : Err) (hpath : (p ++ q) ∈ viaPaths op)
    (hb : nodeAt s.cas s.root p = some b) (he : contents s.cas [] b = .err e) :
    (step s F op).2 ≠ .ok :=
  step_into_bad s F op p q b e hpath hb he

/-- … and the directory itself stays exactly as it was (still lazy: nothing attached). -/
theorem malformed_nothing_attached (c : CAS) (F : List Dig) (act : Children → Children × Out)
    (p : Path) (n : Node) (e : Err) (he : contents c [] n = .err e) :
    withDir c F act p n = (n, .status .eio) :=
  withDir_bad_unchanged c F act p n e he

/-- `dd` lists "y" as a file and as a symlink: not well-formed. -/
example : ¬ WellFormed exCAS.hashLen ⟨[], [⟨[121], raw f1, false⟩], [⟨[121], [116]⟩]⟩ := by
  intro ⟨_, h, _⟩
  simp [entryNames] at h

/-- The duplicate is found after the file leaf was created: created 1, unlinked 1;
through the tree: `bad/` is visible as a directory, reading it or anything below
gives `EIO`, merging it as a root gives `InvalidArgument`. -/
example : ((fetch exCAS [] dD none).created, (fetch exCAS [] dD (some [])).unlinked) = (1, 1) := by decide
example :
    (run (merge (init exCAS) [] dA false).1 (noFaults
      [.lookup [] [98], .readdir [[98]], .lookup [[98]] [121], .remove [] [98], .merge dD false])).2 =
    [.kind .dir, .status .eio, .status .eio, .status .eio, .mergeErr .invalidArgument] := by decide

/-! ## `cas_files_immutable` -/

/-- Every attempt to write, truncate, allocate, open for writing or change the size
of a CAS backed file is refused. -/
theorem cas_file_refuses (c : CAS) (F : List Dig) (op : LeafOp) (hw : isWriteAttempt op = true)
    (d : Dig) (x : Bool) (m : Option Path) : isRefusal (leafOut c F op (.file d x m)) := by
  cases op <;> simp_all [isWriteAttempt, leafOut, isRefusal]

/-- No operation of the model writes to the CAS. -/
theorem cas_unchanged (s : State) (hs : List (List Dig × Op)) : (run s hs).1.cas = s.cas :=
  run_cas s hs

/-- Through the tree, for every state reached in any way: a write attempt on a path
that denotes a CAS backed file is refused (or, if a fault is injected, fails
with `EIO`), the tree stays equivalent and the CAS is untouched. -/
theorem cas_files_immutable (s : State) (F : List Dig) (op : LeafOp) (hw : isWriteAttempt op = true)
    (p : Path) (x : Name) (d : Dig) (ex : Bool) (m : Option Path)
    (hn : nodeAt s.cas s.root (p ++ [x]) = some (.file d ex m)) :
    (isRefusal (step s F (.leaf op p x)).2 ∨ (step s F (.leaf op p x)).2 = .status .eio) ∧
    SEquiv (step s F (.leaf op p x)).1 s ∧ (step s F (.leaf op p x)).1.cas = s.cas := by
  refine ⟨?_, ⟨rfl, ?_⟩, rfl⟩
  · rcases withDir_fault s.cas F _ _ (actLeaf_fault s.cas F op x) p s.root with h | ⟨h1, _⟩
    · left
      simp only [step]
      rw [h, withDir_leaf_out s.cas [] op x p s.root _ hn]
      exact cas_file_refuses s.cas [] op hw d ex m
    · right; exact h1
  · exact withDir_keeps s.cas F _ (actLeaf_keeps s.cas F op x) p s.root

/-- Replacing or removing an entry changes only the local tree: whatever one action
does to its input root, a directory fetch or a file read of any digest gives
another action (or the same one, later) what it gave before. -/
theorem others_unaffected (s : State) (hs : List (List Dig × Op)) (F : List Dig) (d : Dig)
    (mon : Option Path) (op : LeafOp) (n : Node) :
    fetch (run s hs).1.cas F d mon = fetch s.cas F d mon ∧
    leafOut (run s hs).1.cas F op n = leafOut s.cas F op n := by
  rw [run_cas]; exact ⟨rfl, rfl⟩

/-- All five write attempts on the CAS file `x` are refused; removing the entry and
creating a local file under the same name is allowed, the local file accepts
writes; the file read through another path or a fresh merge is unchanged. -/
example :
    (run (merge (init exCAS) [] dA false).1 (noFaults
      [.leaf .openWrite [] [120], .leaf .openTrunc [] [120], .leaf .setSize [] [120],
       .leaf .allocate [] [120], .leaf .write [] [120], .leaf (.read 0 9) [] [120],
       .remove [] [120], .create [] [120], .leaf .write [] [120]])).2 =
    [.status .eacces, .status .eacces, .status .eacces, .status .ewrongtype, .unreachable,
     .data [1, 2, 3, 4], .ok, .ok, .ok] := by decide

/-! ## rename and link: how an action modifies its own copy -/

/-- `VirtualRename` and `VirtualLink` are covered by every theorem above (they are
operations of `step`): in particular they never touch the CAS, cannot tell a lazy
tree from the eager one, and under faults fail with `EIO` without effect. Stated
once more for the two operations, for any equivalent trees: same answer,
equivalent results — renaming a directory that has not been loaded yet and
loading it afterwards under its new name shows what loading it first and moving
the loaded subtree shows. -/
theorem rename_link_lazy_equals_eager (l e : State) (h : SEquiv l e) (p1 : Path) (x1 : Name)
    (p2 : Path) (x2 : Name) :
    ((step l [] (.rename p1 x1 p2 x2)).2 = (step e [] (.rename p1 x1 p2 x2)).2 ∧
      SEquiv (step l [] (.rename p1 x1 p2 x2)).1 (step e [] (.rename p1 x1 p2 x2)).1) ∧
    ((step l [] (.link p1 x1 p2 x2)).2 = (step e [] (.link p1 x1 p2 x2)).2 ∧
      SEquiv (step l [] (.link p1 x1 p2 x2)).1 (step e [] (.link p1 x1 p2 x2)).1) :=
  ⟨step_equiv l e _ h, step_equiv l e _ h⟩

/-- What is attached by a rename is the node that was found under the old name, as
it is: after a successful attach the new path denotes exactly that node. A
directory that was lazy is still the same lazy directory (same digest, same
fetcher wrapper), so it materialises to the same subtree. -/
theorem rename_attaches_the_old_node (c : CAS) (x : Name) (v : Node) (p : Path) (t : Node)
    (h : (withDir c [] (actPut x v) p t).2 = .ok) :
    nodeAt c (withDir c [] (actPut x v) p t).1 (p ++ [x]) = some v :=
  put_lands c x v p t h

/-- Replacing an input by renaming a local file over it, removing it, linking it
elsewhere: the CAS is what it was, so every other directory that refers to the
same digest — in this tree, in another action's tree, now or later — loads and
reads what it did before. -/
theorem rename_over_changes_only_the_local_tree (s : State) (F : List Dig) (p1 : Path) (x1 : Name)
    (p2 : Path) (x2 : Name) (d : Dig) (mon : Option Path) (op : LeafOp) (n : Node) :
    (step s F (.rename p1 x1 p2 x2)).1.cas = s.cas ∧ (step s F (.link p1 x1 p2 x2)).1.cas = s.cas ∧
    fetch (step s F (.rename p1 x1 p2 x2)).1.cas F d mon = fetch s.cas F d mon ∧
    leafOut (step s F (.rename p1 x1 p2 x2)).1.cas F op n = leafOut s.cas F op n :=
  ⟨rfl, rfl, rfl, rfl⟩

/-- `s/` (digest `b0`, never looked at) is renamed to `moved`, a local file is created
and renamed over the CAS file `x`, `l` is linked as `l2`. The moved directory then
lists what `b0` names, `x` is a local file, the name `s` is gone, and the same
history on the eagerly expanded tree gives the same answers. A second action that
merges `a0` sees the original tree. -/
example :
    (run (merge (init exCAS) [] dA false).1 (noFaults
      [.rename [] [115] [] [109], .create [] [116], .rename [] [116] [] [120], .link [] [108] [] [50],
       .readdir [[109]], .lookup [] [120], .lookup [] [115], .lookup [] [50],
       .rename [] [109] [[104]] [109], .readdir [[104]]])).2 =
    [.ok, .ok, .ok, .ok, .listing [([97], .dir), ([121], .file f2 false)], .kind .loc,
     .status .enoent, .kind (.sym [116]), .ok, .listing [([109], .dir)]] := by decide

example :
    (run (merge (init exCAS) [] dA false).1 (noFaults
      [.rename [] [115] [] [109], .readdir [[109]], .rename [] [120] [] [104], .rename [] [104] [] [120],
       .rename [[109]] [97] [] [108]])).2 =
    (run ⟨exCAS, expand exCAS 3 (merge (init exCAS) [] dA false).1.root⟩ (noFaults
      [.rename [] [115] [] [109], .readdir [[109]], .rename [] [120] [] [104], .rename [] [104] [] [120],
       .rename [[109]] [97] [] [108]])).2 := by decide

/-! ## `monitoring_is_transparent` -/

/-- One operation on a tree whose input root was merged with the access monitoring
wrapper (`NewAccessMonitoringInitialContentsFetcher`; every directory below wrapped
for `ResolvedDirectory`, every file with a read monitor) and the same operation
without: same answer, equivalent trees. -/
theorem monitoring_is_transparent_step (l e : State) (h : SEquiv l e) (op : Op) :
    (step l [] op).2 = (step e [] (unmonitored op)).2 ∧
    SEquiv (step l [] op).1 (step e [] (unmonitored op)).1 := by
  cases op with
  | merge d m =>
    -- both fetches fail alike or return the same entries up to the wrapper
    obtain ⟨hc, hr⟩ := h
    simp only [unmonitored, step, merge, ← hc, fetch_result_mon]
    cases (fetchBase l.cas [] d).result with
    | error err => exact ⟨rfl, hc, hr⟩
    | ok new =>
      simp only []
      have hcon := hr.contents
      cases hl : contents l.cas [] l.root <;> cases he : contents l.cas [] e.root <;>
        rw [hl, he] at hcon <;> simp only [ContRel] at hcon
      · exact ⟨rfl, hc, hr⟩
      · exact ⟨rfl, hc, hr⟩
      · have := actMerge_rel l.cas
          (annotated_rel l.cas new (if m = true then some [] else none) (if false = true then some [] else none))
          _ _ hcon
        exact ⟨this.1, rfl, equiv_dir this.2⟩
  | lookup p x => exact step_equiv l e _ h
  | readdir p => exact step_equiv l e _ h
  | leaf o p x => exact step_equiv l e _ h
  | remove p x => exact step_equiv l e _ h
  | create p x => exact step_equiv l e _ h
  | mkdir p x => exact step_equiv l e _ h
  | rename p1 x1 p2 x2 => exact step_equiv l e _ h
  | link ps xs pd xd => exact step_equiv l e _ h

/-- **The access monitoring wrapper does not change what the tree shows**: every
history — merges with a monitor, exploration in any order, write attempts,
remove/create/mkdir/rename/link — answers exactly as the same history without
monitors, and the trees stay equivalent. (With `lazy_with_faults`: also under
faults, up to the operations the faults hit.) -/
theorem monitoring_is_transparent (l e : State) (h : SEquiv l e) (ops : List Op) :
    (run l (noFaults ops)).2 = (run e (noFaults (ops.map unmonitored))).2 ∧
    SEquiv (run l (noFaults ops)).1 (run e (noFaults (ops.map unmonitored))).1 := by
  induction ops generalizing l e with
  | nil => exact ⟨rfl, h⟩
  | cons op rest ih =>
    have hs := monitoring_is_transparent_step l e h op
    have hr := ih _ _ hs.2
    simp only [noFaults, List.map_cons, run] at hr ⊢
    exact ⟨by rw [hs.1, hr.1], hr.2⟩

/-- A directory wrapped for a monitor and the bare one are equivalent, whatever the
monitor: nothing that can be observed through the tree depends on it. -/
theorem monitored_directory_equiv (c : CAS) (d : Dig) (m m' : Option Path) :
    Equiv c (.lazy d m) (.lazy d m') :=
  equiv_mon c d m m'

/-- The same exploration with and without monitor. -/
example :
    (run (init exCAS) (noFaults
      [.merge dA true, .readdir [[115]], .leaf (.read 0 9) [] [120], .leaf .openWrite [] [120],
       .rename [] [115] [] [109], .readdir [[109], [97]], .readdir [[98]]])).2 =
    (run (init exCAS) (noFaults
      [.merge dA false, .readdir [[115]], .leaf (.read 0 9) [] [120], .leaf .openWrite [] [120],
       .rename [] [115] [] [109], .readdir [[109], [97]], .readdir [[98]]])).2 := by decide

/-! ## `cache_keys_separate` -/

open BbRe.InputRoot.Cache BbRe.Lemmas.InputRoot.Cache in
/-- One call of the caching fetcher: if every cached object is the right one for its
key — digest **and** tree-root flag — and the base fetcher answers this call
correctly (or fails), then the reply is an error or the right object for *this
kind* of call, and the cache stays sound.  `content` (Directory by digest) and
`root` (root directory of the Tree with that digest) are arbitrary, unrelated
functions: a `GetDirectory(d)` is never answered with `root d`, nor a
`GetTreeRootDirectory(d)` with `content d`. -/
theorem cache_keys_separate_step (content root : Nat → Nat) (s : Cache.State) (call : Call)
    (base : Option Nat) (size : Nat) (hs : Sound content root s.entries)
    (hb : ∀ m, base = some m → m = expected content root call) :
    Sound content root (Cache.get s call base size).1.entries ∧
    (replyMsg (Cache.get s call base size).2 = none ∨
     replyMsg (Cache.get s call base size).2 = some (expected content root call)) :=
  sound_get content root s call base size hs hb

open BbRe.InputRoot.Cache BbRe.Lemmas.InputRoot.Cache in
/-- For every history of calls, any capacity, any pattern of base failures. -/
theorem cache_keys_separate (content root : Nat → Nat) (maxCount maxSize : Nat)
    (calls : List (Call × Option Nat × Nat))
    (hb : ∀ x ∈ calls, ∀ m, x.2.1 = some m → m = expected content root x.1) :
    ∀ x ∈ calls.zip (runCalls ⟨maxCount, maxSize, []⟩ calls).2,
      replyMsg x.2 = none ∨ replyMsg x.2 = some (expected content root x.1.1) := by
  suffices H : ∀ (s : Cache.State), Sound content root s.entries →
      ∀ x ∈ calls.zip (runCalls s calls).2,
        replyMsg x.2 = none ∨ replyMsg x.2 = some (expected content root x.1.1) from
    H _ (by intro e he; simp at he)
  induction calls with
  | nil => intro s _ x hx; simp [runCalls] at hx
  | cons c rest ih =>
    intro s hs x hx
    obtain ⟨call, base, size⟩ := c
    have h1 := sound_get content root s call base size hs
      (fun m hm => hb (call, base, size) (List.mem_cons_self ..) m hm)
    simp only [runCalls, List.zip_cons_cons, List.mem_cons] at hx
    rcases hx with rfl | hx
    · exact h1.2
    · exact ih (fun y hy => hb y (List.mem_cons_of_mem _ hy)) _ h1.1 x hx

open BbRe.InputRoot.Cache BbRe.Lemmas.InputRoot.Cache in
/-- What is served from the cache was stored under exactly this key, and what is not
served from the cache is what the base fetcher returned for this call (errors
included, and not cached). -/
theorem cache_reply_origin (s : Cache.State) (call : Call) (base : Option Nat) (size : Nat) :
    match (Cache.get s call base size).2 with
    | .hit m => ∃ e ∈ s.entries, e.key = keyOf call ∧ e.msg = m
    | .miss m => base = some m ∧ Cache.find s.entries (keyOf call) = none
    | .error => base = none ∧ (Cache.get s call base size).1 = s := by
  simp only [Cache.get]
  cases hf : Cache.find s.entries (keyOf call) with
  | some e => exact ⟨e, (find_some hf).1, (find_some hf).2, rfl⟩
  | none => cases base <;> simp

open BbRe.InputRoot.Cache in
/-- The two key spaces are disjoint. -/
theorem cache_key_spaces_disjoint (d t t' c : Nat) :
    keyOf (.directory d) ≠ keyOf (.treeRoot t) ∧ keyOf (.treeChild t' c) ≠ keyOf (.treeRoot t) := by
  simp [keyOf]

open BbRe.InputRoot.Cache BbRe.Lemmas.InputRoot.Cache in
/-- Keys stay distinct and the number of objects bounded. -/
theorem cache_bounded (s : Cache.State) (call : Call) (base : Option Nat) (size : Nat)
    (hk : Keyed s.entries) (h : s.entries.length ≤ max s.maxCount 1) :
    Keyed (Cache.get s call base size).1.entries ∧
    (Cache.get s call base size).1.entries.length ≤ max s.maxCount 1 :=
  ⟨keyed_get s call base size hk, (length_get s call base size hk h).1⟩

open BbRe.InputRoot.Cache in
/-- Same digest 7 asked as directory (object 70) and as tree root (object 71): each is
answered with its own object, also from the cache, also after an eviction. -/
example :
    (runCalls ⟨2, 100, []⟩
      [(.directory 7, some 70, 10), (.treeRoot 7, some 71, 10), (.directory 7, none, 10),
       (.treeRoot 7, none, 10), (.directory 8, some 80, 10), (.directory 7, none, 10),
       (.treeChild 9 7, some 70, 10)]).2 =
    [.miss 70, .miss 71, .hit 70, .hit 71, .miss 80, .error, .miss 70] := by decide

/-! ## the hard-linking file fetcher (input roots of non-virtual workers) -/

open BbRe.InputRoot.HardLink BbRe.Lemmas.InputRoot.HardLink in
/-- One `GetFile` under the stated file system assumption: if every regular file in
the cache directory has the contents of its key (`CacheClean`; kept by `GetFile`
and by deletions / replacements by directories behind the worker's back), then a
`nil` return means the target exists **with the requested contents** — there is no
successful return without a file — and cache cleanliness and limits are kept. -/
theorem hardlink_getfile_correct (s : HardLink.State) (k size : Nat) (casHas : Bool)
    (hc : CacheClean s.disk) (hl : Lim s.maxFiles s.maxSize s.entries) :
    ((getFile s k size casHas).2 = .ok k ∨ (getFile s k size casHas).2 = .error) ∧
    CacheClean (getFile s k size casHas).1.disk ∧
    Lim s.maxFiles s.maxSize (getFile s k size casHas).1.entries := by
  obtain ⟨c1, l1, _, _, r1⟩ := getFile_inv s k size casHas hc hl
  exact ⟨r1 _ rfl, c1, l1⟩

open BbRe.InputRoot.HardLink BbRe.Lemmas.InputRoot.HardLink in
/-- Every history of `GetFile` calls and cache directory faults, any limits, any
pattern of CAS misses, starting from an empty cache: every call fails or delivers
the requested contents, and the cache never exceeds its limits (at most
`max maxFiles 1` files; at most `maxSize` bytes unless a single file is larger). -/
theorem hardlink_history (maxFiles maxSize : Nat) (ops : List HLOp) :
    Lim maxFiles maxSize (hlRun ⟨maxFiles, maxSize, [], []⟩ ops).1.entries ∧
    ∀ x ∈ (hlRun ⟨maxFiles, maxSize, [], []⟩ ops).2, x.2 = .ok x.1 ∨ x.2 = .error :=
  hlRun_inv ops ⟨maxFiles, maxSize, [], []⟩ (by intro k c h; simp at h)
    ⟨by simp, Or.inl (by simp [total])⟩

open BbRe.InputRoot.HardLink BbRe.Lemmas.InputRoot.HardLink in
/-- A file the bookkeeping knows but that vanished from the cache directory is
downloaded again and put back (the `ENOENT` of `link(2)` is not a success). -/
theorem hardlink_repairs_vanished_entry (s : HardLink.State) (k size : Nat)
    (hk : known s.entries k = true) (hd : onDisk s.disk k = none) :
    (getFile s k size true).2 = .ok k ∧ onDisk (getFile s k size true).1.disk k = some (.file k) :=
  getFile_repairs s k size hk hd

open BbRe.InputRoot.HardLink BbRe.Lemmas.InputRoot.HardLink in
/-- download, hit, eviction by the file limit, entry deleted by a cleaner (repaired),
entry replaced by a directory (error), CAS miss of an uncached file (error). -/
example :
    (hlRun ⟨2, 100, [], []⟩
      [.get 1 10 true, .get 1 10 false, .get 2 10 true, .get 3 10 true, .get 1 10 false,
       .fault (.remove 3), .get 3 10 true, .fault (.mkdir 2), .get 2 10 true]).2 =
    [(1, .ok 1), (1, .ok 1), (2, .ok 2), (3, .ok 3), (1, .error), (3, .ok 3), (2, .error)] := by decide

end BbRe.Properties.C17
