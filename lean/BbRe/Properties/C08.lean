import BbRe.Lemmas.BuildClientFrame
import BbRe.Lemmas.BuildClientBound
import BbRe.Lemmas.BuildClientHanded
import BbRe.Lemmas.BuildClientDeliv
/-!
# C08 — worker: one action at a time, honest state, safe shutdown

Theorems about `Model/BuildClient.lean` (the transcription of
`pkg/builder/build_client.go`).  All of them quantify over the start time `t0`
and over **every** list of events `evs`: worker-thread segments, scheduler
replies (execute / idle / no change / RPC error / invalid timestamp / bad
execute request), executor progress (`emit`, `finish`, `close`), clock ticks,
readiness results and the shutdown instant (`cancel`), in any interleaving.
Events that are not enabled in a state leave it unchanged, so every list is a
history.  `(run (init t0) evs).log` is the observable trace of the history;
each `sent` / `spawn` / `ret` entry carries a ghost snapshot of the moment it
was produced (number of live executor goroutines, most recently started
executor, the value `ctx.Err()` had, the may-think bound, the clock, the last
scheduler reply).

Helper lemmas: `BbRe/Lemmas/BuildClient*.lean` (`Inv`, `inv_reachable`).
-/
namespace BbRe.Properties.C08
open BbRe.BuildClient BbRe.Lemmas.BuildClient

/-- A small history used for the non-vacuity examples: start action 7, an
update, the action fails, the scheduler sends action 8, shutdown begins, an RPC
error, action 8 completes, the scheduler acknowledges, the thread ends. -/
def demo : List Ev :=
  [.runBegin, .readyResult true, .reply (.reply (some 1010) (.execute (.ok 7))),
   .runBegin, .emit 2, .wakeUpdate false, .reply (.reply (some 1020) .none),
   .runBegin, .finish ⟨5, false⟩, .wakeUpdate true,
   .reply (.reply (some 1030) (.execute (.ok 8))),
   .cancel, .runBegin, .wakeTimer, .reply .rpcError,
   .runBegin, .finish ⟨6, true⟩, .wakeUpdate false, .close, .reply (.reply (some 1040) .idle),
   .drainDone]

/-! ## one action at a time -/

/-- At most one executor goroutine is alive in every reachable state. -/
theorem one_executor (t0 : Nat) (evs : List Ev) : live (run (init t0) evs) ≤ 1 :=
  live_le_one (inv_reachable t0 evs)

/-- `startExecution` spawns a goroutine only when no executor goroutine is alive
(the previous one has been cancelled and has closed its channel). -/
theorem start_only_when_none_live (t0 : Nat) (evs : List Ev) (id : Nat) (d : Digest) (sn : Snap)
    (h : Obs.spawn id d sn ∈ (run (init t0) evs).log) : sn.live = 0 :=
  ((inv_reachable t0 evs).logOK.1 _ h).1

/-- Every goroutine the client no longer references has exited. -/
theorem retired_are_closed (t0 : Nat) (evs : List Ev) (e : Exec)
    (h : e ∈ (run (init t0) evs).retired) : e.closed = true :=
  ((inv_reachable t0 evs).retired e h).1

/-- non-vacuity: in `demo` a second executor is spawned (and the log has `sent`
entries of every kind used below). -/
example : (run (init 1000) demo).log.any
    (fun o => match o with | .spawn 1 8 sn => sn.live == 0 | _ => false) = true := by decide

/-! ### the mechanism: cancel, then wait until the channel is closed -/

/-- An execute instruction that arrives while an executor is current does not
start anything yet: the executor's context is cancelled and the thread blocks
in the drain loop; no goroutine has been spawned (`nextId` unchanged). -/
theorem preempt_cancels_first (s : State) (ce : Bool) (ts : Nat) (d : Digest) (e : Exec)
    (hpc : s.pc = .sync ce) (hc : s.cur = some e) :
    ∃ s', reply s (.reply (some ts) (.execute (.ok d))) = some s' ∧ s'.pc = .drain (.start d) ∧
      s'.cur = some { e with cancelled := true } ∧ s'.nextId = s.nextId := by
  simp only [reply, hpc]
  refine ⟨_, rfl, ?_, ?_, ?_⟩ <;> (split <;> simp [stopThen, touch, hc])

/-- Likewise for an idle instruction. -/
theorem idle_cancels_first (s : State) (ce : Bool) (ts : Nat) (e : Exec)
    (hpc : s.pc = .sync ce) (hc : s.cur = some e) :
    ∃ s', reply s (.reply (some ts) .idle) = some s' ∧ s'.pc = .drain .idle ∧
      s'.cur = some { e with cancelled := true } ∧ s'.req = s.req := by
  simp only [reply, hpc]
  refine ⟨_, rfl, ?_, ?_, ?_⟩ <;> (split <;> simp [stopThen, touch, hc])

/-- The drain loop of `stopExecution` cannot finish before the goroutine has
closed the channel and everything it sent has been taken. -/
theorem drain_waits_for_close (s : State) (k : DrainFor) (e : Exec) (hpc : s.pc = .drain k)
    (hc : s.cur = some e) (h : e.closed = false ∨ e.buf ≠ []) : drainDone s = none := by
  simp only [drainDone, hpc, hc]
  rcases h with h | h
  · simp [h]
  · cases hb : e.buf with
    | nil => exact absurd hb h
    | cons m t => simp

/-! ## honest state -/

/-- Every request sent reports `Idle` only if no executor goroutine is alive;
`Executing d ·` only if `d` is the digest of the most recently started
executor; `Completed r` only if `r` is exactly the response that executor's
`Execute` returned; an update `u` only if `u` is the last update taken off that
executor's channel, and the updates taken are a prefix of the updates emitted
(emission order). -/
theorem honest_state (t0 : Nat) (evs : List Ev) (r : Request) (sn : Snap)
    (h : Obs.sent r sn ∈ (run (init t0) evs).log) :
    (r.state = .idle → sn.live = 0) ∧
    (∀ d p, r.state = .executing d p → ∃ e, sn.last = some e ∧ e.digest = d ∧
      (∀ x, p = .completed x → e.returned = some x) ∧
      (∀ u, p = .upd u → e.received.getLast? = some u ∧ e.received <+: e.emitted)) := by
  have := (inv_reachable t0 evs).logOK.1 _ h
  exact ⟨this.1, this.2.1⟩

/-- The completion is never dropped on its way to the scheduler: while the thread
is outside `stopExecution`'s drain loop and `Execute` has returned `r`, either
`Completed r` is the last message still waiting in (or blocked on) the update
channel — whatever the number of progress updates queued before it, also when
the channel is full — or everything has been taken and the request state is
`Completed r`. -/
theorem completion_not_lost (t0 : Nat) (evs : List Ev) (e : Exec) (r : Resp)
    (hc : (run (init t0) evs).cur = some e) (hr : e.returned = some r)
    (hk : ∀ k, (run (init t0) evs).pc ≠ .drain k) :
    (e.buf ++ e.blocked.toList).getLast? = some ⟨e.digest, .completed r⟩ ∨
      (e.buf ++ e.blocked.toList = [] ∧
        (run (init t0) evs).req = .executing e.digest (.completed r)) :=
  (deliv_reachable t0 evs).1 e r hc hr hk

/-- Once the client has released an execution (observed the closed channel, or
stopped it on the scheduler's instruction) what it reports is `Idle` or a
`Completed` — never "action in progress" with nothing attached.  By
`honest_state` that `Completed` carries the executor's own response. -/
theorem released_reports_completion (t0 : Nat) (evs : List Ev)
    (hc : (run (init t0) evs).cur = none) :
    (run (init t0) evs).req = .idle ∨
      ∃ d r, (run (init t0) evs).req = .executing d (.completed r) :=
  (deliv_reachable t0 evs).2 hc

/-- non-vacuity: ten updates fill the channel while the thread is in
`Synchronize`, `Execute` returns (the `Completed` send blocks), the next `Run`
drains all eleven messages and reports the completion. -/
example : (run (init 1000) [.runBegin, .readyResult true,
    .reply (.reply (some 1000) (.execute (.ok 7))), .runBegin, .wakeTimer,
    .emit 1, .emit 2, .emit 1, .emit 2, .emit 1, .emit 2, .emit 1, .emit 2, .emit 1, .emit 2,
    .finish ⟨4, true⟩, .reply (.reply (some 1001) .none), .runBegin, .wakeUpdate true]).req
      = .executing 7 (.completed ⟨4, true⟩) := by decide

/-! ## idle when told, start only when told -/

/-- The request that follows a (valid) idle instruction reports `Idle` — and by
`honest_state` no executor goroutine is alive at that moment. -/
theorem idle_when_told (t0 : Nat) (evs : List Ev) (r : Request) (sn : Snap)
    (h : Obs.sent r sn ∈ (run (init t0) evs).log) (ts : Nat)
    (ht : sn.lastReply = some (.reply (some ts) .idle)) : r.state = .idle ∧ sn.live = 0 := by
  have := (inv_reachable t0 evs).logOK.1 _ h
  have hi := this.2.2.2.2.2.2 ⟨ts, ht⟩
  exact ⟨hi, this.1 hi⟩

/-- While the thread processes an idle instruction it is either still draining
the cancelled executor, or it is idle with no executor and no may-think bound. -/
theorem idle_instruction_state (t0 : Nat) (evs : List Ev) (ts : Nat)
    (ht : (run (init t0) evs).lastReply = some (.reply (some ts) .idle)) :
    (run (init t0) evs).pc = .drain .idle ∨
      ((run (init t0) evs).req = .idle ∧ (run (init t0) evs).mayThink = none ∧
        (run (init t0) evs).cur = none) :=
  (inv_reachable t0 evs).toldIdle ⟨ts, ht⟩

/-- An executor for digest `d` is started only while processing a scheduler
reply with a valid timestamp that asks to execute exactly `d` (well-formed). -/
theorem start_only_when_told (t0 : Nat) (evs : List Ev) (id : Nat) (d : Digest) (sn : Snap)
    (h : Obs.spawn id d sn ∈ (run (init t0) evs).log) :
    ∃ ts, sn.lastReply = some (.reply (some ts) (.execute (.ok d))) :=
  ((inv_reachable t0 evs).logOK.1 _ h).2

/-! ## prefer being idle after a failure -/

/-- (1) `Completed` with a non-OK status is reported with `PreferBeingIdle`;
(2) an `Idle` request sent while the scheduler may think the worker is executing
has it; (3) an `Idle` request without it is only sent in an iteration whose
readiness check succeeded. -/
theorem prefer_idle_after_failure (t0 : Nat) (evs : List Ev) (r : Request) (sn : Snap)
    (h : Obs.sent r sn ∈ (run (init t0) evs).log) :
    (∀ d x, r.state = .executing d (.completed x) → x.ok = false → r.preferIdle = true) ∧
    (r.state = .idle → sn.mayThink.isSome = true → r.preferIdle = true) ∧
    (r.state = .idle → r.preferIdle = false → sn.readyChecked = true) := by
  have := (inv_reachable t0 evs).logOK.1 _ h
  exact ⟨this.2.2.1, this.2.2.2.1, this.2.2.2.2.1⟩

example : (run (init 1000) demo).log.any
    (fun o => match o with
      | .sent ⟨.executing 7 (.completed ⟨5, false⟩), true⟩ _ => true | _ => false) = true := by decide

example : (run (init 1000) demo).log.any
    (fun o => match o with | .sent ⟨.idle, false⟩ sn => sn.readyChecked | _ => false) = true := by
  decide

/-! ## shutdown -/

/-- Every iteration that observes the cancellation sends `PreferBeingIdle`. -/
theorem shutdown_prefer_idle (t0 : Nat) (evs : List Ev) (r : Request) (sn : Snap)
    (h : Obs.sent r sn ∈ (run (init t0) evs).log) (hc : sn.cancelled = true) :
    r.preferIdle = true :=
  ((inv_reachable t0 evs).logOK.1 _ h).2.2.2.2.2.1 hc

/-- Trace form: in the observable trace of any history, every request sent after
the `cancel` entry (the moment shutdown began) has `PreferBeingIdle = true`. -/
theorem shutdown_all_later_requests_prefer_idle (t0 : Nat) (evs : List Ev) (l1 l2 : List Obs)
    (h : (run (init t0) evs).log = l1 ++ Obs.cancel :: l2) (r : Request) (sn : Snap)
    (hm : Obs.sent r sn ∈ l2) : r.preferIdle = true :=
  (inv_reachable t0 evs).logOK.2.2 l1 l2 h r sn hm

/-- Cancellation is never un-observed: once shutdown began (after any prefix
`evs` of the history) it stays on for every continuation `more`, so by
`shutdown_prefer_idle` every later request asks to be left idle. -/
theorem shutdown_monotone (t0 : Nat) (evs more : List Ev)
    (h : (run (init t0) evs).cancelled = true) :
    (run (init t0) (evs ++ more)).cancelled = true := by
  rw [run_append]; exact run_cancelled more h

/-- `Run` returns `mayTerminate = true` only when the scheduler cannot think the
worker is executing: the may-think bound is unset or has passed. -/
theorem shutdown_may_terminate (t0 : Nat) (evs : List Ev) (err : Bool) (sn : Snap)
    (h : Obs.ret true err sn ∈ (run (init t0) evs).log) :
    sn.mayThink = none ∨ ∃ t, sn.mayThink = some t ∧ sn.now > t :=
  ((inv_reachable t0 evs).logOK.1 _ h) rfl

/-- The worker thread ends only under shutdown. -/
theorem terminates_only_on_shutdown (t0 : Nat) (evs : List Ev)
    (h : (run (init t0) evs).pc = .terminated) : (run (init t0) evs).cancelled = true :=
  run_term evs (by simp [init]) h

/-- Under shutdown, while the scheduler may still think the worker is executing
(bound not passed), the next `Run` does not return: it goes on to `select` /
`Synchronize`. -/
theorem shutdown_keeps_synchronizing (s : State) (t : Nat) (hpc : s.pc = .top)
    (hm : s.mayThink = some t) (hn : s.now ≤ t) :
    ∃ s', runBegin s = some s' ∧ ((∃ rc, s'.pc = .select rc) ∨ ∃ ce, s'.pc = .sync ce) := by
  have : ¬ (s.now > t) := by omega
  refine ⟨afterReady s false, by simp [runBegin, hpc, hm, this], ?_⟩
  unfold afterReady
  split
  · exact Or.inl ⟨_, rfl⟩
  · exact Or.inr ⟨_, rfl⟩

/-- Once an execute instruction has been accepted (the thread has left
`startExecution`'s drain loop) and until the next scheduler reply is processed,
the may-think bound is exactly the `NextSynchronizationAt` handed out *with that
instruction* plus one minute — not the stale previous deadline (a long poll may
return the action long after it). -/
theorem bound_is_handed_out_deadline (t0 : Nat) (evs : List Ev) (ts : Nat) (d : Digest)
    (hl : (run (init t0) evs).lastReply = some (.reply (some ts) (.execute (.ok d))))
    (hnd : ∀ k, (run (init t0) evs).pc ≠ .drain k) :
    (run (init t0) evs).mayThink = some (ts + 60) :=
  ((handed_reachable t0 evs) ts d hl).2 hnd

/-- Hence a worker that was handed an action does not terminate on shutdown
before that deadline + 1 min has passed (unless a later reply settles it): the
next `Run` goes on to `select` / `Synchronize`. -/
theorem no_termination_before_handed_out_deadline (t0 : Nat) (evs : List Ev) (ts : Nat)
    (d : Digest)
    (hl : (run (init t0) evs).lastReply = some (.reply (some ts) (.execute (.ok d))))
    (hpc : (run (init t0) evs).pc = .top) (hn : (run (init t0) evs).now ≤ ts + 60) :
    ∃ s', runBegin (run (init t0) evs) = some s' ∧
      ((∃ rc, s'.pc = .select rc) ∨ ∃ ce, s'.pc = .sync ce) :=
  shutdown_keeps_synchronizing _ (ts + 60) hpc
    (bound_is_handed_out_deadline t0 evs ts d hl (by simp [hpc])) hn

/-- non-vacuity: a long poll (70 s) hands out action 3 with deadline 1075 while
shutdown has begun; the bound is 1135, not the stale 1060. -/
example : (run (init 1000) [.runBegin, .readyResult true, .tick 70, .cancel,
    .reply (.reply (some 1075) (.execute (.ok 3)))]).mayThink = some 1135 := by decide

/-- The may-think bound is at most one minute after the latest synchronization
time the scheduler ever announced (`maxSync`, ghost). -/
theorem maythink_bounded (t0 : Nat) (evs : List Ev) (t : Nat)
    (h : (run (init t0) evs).mayThink = some t) : t ≤ (run (init t0) evs).maxSync + 60 :=
  (bound_reachable t0 evs).2 t h

/-- Hence shutdown cannot be held up for ever: once the clock is more than a
minute past the latest announced synchronization time, the next `Run` under
shutdown returns `mayTerminate` and the thread ends — whatever the scheduler and
the executor did before. -/
theorem shutdown_terminates_after_bound (t0 : Nat) (evs : List Ev)
    (hpc : (run (init t0) evs).pc = .top) (hc : (run (init t0) evs).cancelled = true)
    (hn : (run (init t0) evs).now > (run (init t0) evs).maxSync + 60) :
    ∃ s', runBegin (run (init t0) evs) = some s' ∧ s'.pc = .terminated := by
  have hb := bound_reachable t0 evs
  generalize run (init t0) evs = s at *
  refine ⟨retRun s true false, ?_, by simp [retRun, hc]⟩
  cases hm : s.mayThink with
  | none => simp [runBegin, hpc, hc, hm]
  | some t =>
    have := hb.2 t hm
    have : s.now > t := by omega
    simp [runBegin, hpc, hc, hm, this]

example : (run (init 1000) demo).pc = .terminated := by decide

example : (run (init 1000) demo).log.any
    (fun o => match o with | .sent r sn => sn.cancelled && r.preferIdle | _ => false) = true := by
  decide

example : (run (init 1000) demo).log.any
    (fun o => match o with | .ret true _ sn => sn.cancelled | _ => false) = true := by decide

end BbRe.Properties.C08
