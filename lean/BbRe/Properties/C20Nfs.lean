import BbRe.Model.LockRange
import BbRe.Model.NfsState
import BbRe.Lemmas.NfsLockRange
import BbRe.Lemmas.NfsInv
import BbRe.Lemmas.NfsProps
/-!
# C20, NFS layer — byte-range locks through NFSv4.0/4.1 LOCK, LOCKT, LOCKU, CLOSE, lease expiry

The lock table itself (`ByteRangeLockSet.Set/Test`) is `Properties/C20.lean`.
This file holds the two NFS-level parts of the property:

* `range_conversion…` — `offsetLengthToStartEnd` (`opened_files_pool.go`) is the
  RFC 7530 §16.10.4 mapping from (offset, length) to the half-open table range,
  `byteRangeLockToLock4Denied` inverts it; every accepted request yields a
  non-empty range.  Before the fix 3d4b513 that was false for offset `2^64-1` with
  the all-ones length (finding "LOCK at offset 2^64-1 with length to-EOF yields an
  empty range", now fixed); the `legacy…` theorems keep the counterexample for the
  old conversion.
* `owner_identity…` — one lock-owner object per (client record, owner bytes) in
  `Model/NfsState.lean` (see that section below).

`o l` are `uint64` values of the Go code, hence `o ≤ maxU64`, `l ≤ maxU64`.
Only property theorems live in this namespace; helper lemmas are in
`BbRe/Lemmas/NfsLockRange.lean`, `BbRe/Lemmas/NfsInv*.lean`.
-/
namespace BbRe.Properties.C20Nfs
open BbRe.LockRange BbRe.BRL BbRe.Lemmas.NfsLockRange

/-! ## `range_conversion` -/

/-- The conversion rejects with NFS4ERR_INVAL exactly length 0 and, for a length that is not the
all-ones "to end of file" marker, a range whose end exceeds `2^64-1`; with NFS4ERR_BAD_RANGE
exactly offset `2^64-1` with the all-ones length; and with no other status. -/
theorem range_conversion_rejects (o l : Nat) (ho : o ≤ maxU64) (hl : l ≤ maxU64) :
    (offsetLengthToStartEnd o l = .error stInval ↔ (l = 0 ∨ (l ≠ maxU64 ∧ o + l > maxU64))) ∧
    (offsetLengthToStartEnd o l = .error stBadRange ↔ (o = maxU64 ∧ l = maxU64)) ∧
    (∀ st, offsetLengthToStartEnd o l = .error st → st = stInval ∨ st = stBadRange) :=
  ⟨conv_inval_iff o l ho hl, conv_badRange_iff o l, fun st h => conv_error o l st h⟩

example : offsetLengthToStartEnd 7 0 = .error 22 ∧ offsetLengthToStartEnd (maxU64 - 1) 2 = .error 22 ∧
    offsetLengthToStartEnd maxU64 maxU64 = .error 10042 ∧ offsetLengthToStartEnd maxU64 1 = .error 22 ∧
    offsetLengthToStartEnd 7 3 = .ok (7, 10) ∧ offsetLengthToStartEnd 7 maxU64 = .ok (7, maxU64) := by decide

/-- An accepted request `(o, l)` is converted to the range whose bytes are
`o, o+1, …, o+l-1`, or `o, o+1, …` up to the last representable byte `2^64-2` when
`l` is all ones (RFC 7530 §16.10.4: "a length of all ones means lock to end of
file").  The table only ever sees `start < end ≤ 2^64-1`. -/
theorem range_conversion_bytes (o l s e : Nat) (ho : o ≤ maxU64) (hl : l ≤ maxU64)
    (h : offsetLengthToStartEnd o l = .ok (s, e)) :
    s = o ∧ s < e ∧ e ≤ maxU64 ∧
    ∀ b, (s ≤ b ∧ b < e) ↔ (o ≤ b ∧ b < maxU64 ∧ (l = maxU64 ∨ b < o + l)) := by
  have h1 := conv_some o l s e ho hl h
  exact ⟨h1.1, h1.2.2.1, h1.2.1, conv_bytes o l s e ho hl h⟩

example : offsetLengthToStartEnd 5 10 = .ok (5, 15) ∧ offsetLengthToStartEnd 5 maxU64 = .ok (5, maxU64) ∧
    offsetLengthToStartEnd (maxU64 - 1) 1 = .ok (maxU64 - 1, maxU64) ∧
    offsetLengthToStartEnd (maxU64 - 1) maxU64 = .ok (maxU64 - 1, maxU64) := by decide

/-- **Every accepted request yields a non-empty range** — which is what
`ByteRangeLockSet` needs (`C20.wf_preserved`, `C20.test_exact`, `C20.set_pointwise`
all assume `start < stop`).  Unconditional since 3d4b513; compare
`legacy_range_conversion_nonempty_iff`. -/
theorem range_conversion_nonempty (o l s e : Nat) (ho : o ≤ maxU64) (hl : l ≤ maxU64)
    (h : offsetLengthToStartEnd o l = .ok (s, e)) : s < e :=
  conv_nonempty o l s e ho hl h

/-- `range_conversion`, summary form: every request is either rejected — with
NFS4ERR_INVAL exactly when its length is 0 or it overflows, with NFS4ERR_BAD_RANGE
exactly when it is the byte `2^64-1` alone — or converted to a valid table request
(`Spec.ByteLocks.Req.Valid`: non-empty) covering exactly its bytes. -/
theorem range_conversion (o l : Nat) (ho : o ≤ maxU64) (hl : l ≤ maxU64) :
    (offsetLengthToStartEnd o l = .error stInval ∧ (l = 0 ∨ (l ≠ maxU64 ∧ o + l > maxU64))) ∨
    (offsetLengthToStartEnd o l = .error stBadRange ∧ o = maxU64 ∧ l = maxU64) ∨
    (∃ e, offsetLengthToStartEnd o l = .ok (o, e) ∧ o < e ∧ e ≤ maxU64 ∧
      ¬ (l = 0 ∨ (l ≠ maxU64 ∧ o + l > maxU64)) ∧ ¬ (o = maxU64 ∧ l = maxU64) ∧
      ∀ b, (o ≤ b ∧ b < e) ↔ (o ≤ b ∧ b < maxU64 ∧ (l = maxU64 ∨ b < o + l))) := by
  cases hc : offsetLengthToStartEnd o l with
  | error st =>
    rcases conv_error o l st hc with h | h
    · subst h; exact Or.inl ⟨rfl, (conv_inval_iff o l ho hl).1 hc⟩
    · subst h; exact Or.inr (Or.inl ⟨rfl, (conv_badRange_iff o l).1 hc⟩)
  | ok p =>
    obtain ⟨s, e⟩ := p
    have h1 := conv_some o l s e ho hl hc
    have hs : s = o := h1.1
    subst hs
    refine Or.inr (Or.inr ⟨e, rfl, h1.2.2.1, h1.2.1, ?_, ?_, conv_bytes s l s e ho hl hc⟩)
    · intro hrej
      have := (conv_inval_iff s l ho hl).2 hrej
      rw [hc] at this
      exact absurd this (by simp)
    · intro hrej
      have := (conv_badRange_iff s l).2 hrej
      rw [hc] at this
      exact absurd this (by simp)

/-- `byteRangeLockToLock4Denied` inverts the conversion on every (non-empty)
range a table can hold: the reported (offset, length) converts back to the
conflicting entry's range. -/
theorem denied_inverts_conversion (s e : Nat) (hse : s < e) (he : e ≤ maxU64) :
    offsetLengthToStartEnd (toDenied s e).1 (toDenied s e).2 = .ok (s, e) :=
  denied_inverts s e hse he

/-- … and conversely a granted request is reported with its own offset, and with
its own length unless the range ends exactly at `2^64-1`, in which case the
all-ones length is reported (the same set of representable bytes). -/
theorem denied_of_conversion (o l s e : Nat) (ho : o ≤ maxU64) (hl : l ≤ maxU64)
    (h : offsetLengthToStartEnd o l = .ok (s, e)) :
    (toDenied s e).1 = o ∧ ((toDenied s e).2 = l ∨ ((toDenied s e).2 = maxU64 ∧ o + l = maxU64)) :=
  denied_of_conv o l s e ho hl h

example : toDenied 5 15 = (5, 10) ∧ toDenied 5 maxU64 = (5, maxU64) ∧
    toDenied (maxU64 - 1) maxU64 = (maxU64 - 1, maxU64) := by decide

/-! ### The conversion before 3d4b513 (fixed finding "LOCK at offset 2^64-1 with length to-EOF yields an empty range")

`legacyOffsetLengthToStartEnd` is the old function; it differs from the current one only in the
corner (`legacy_range_conversion_agrees`).  The theorems below are the counterexample that made
`range_conversion_nonempty` need a precondition; the seeded change
`seeded/revert-fix-C20-range-corner` brings the behaviour back and must be reported. -/

/-- The old and the new conversion agree except for (`2^64-1`, all ones). -/
theorem legacy_range_conversion_agrees (o l : Nat) (hc : ¬ (o = maxU64 ∧ l = maxU64)) :
    offsetLengthToStartEnd o l =
      match legacyOffsetLengthToStartEnd o l with
      | none => .error stInval
      | some p => .ok p :=
  conv_eq_legacy o l hc

/-- The old exact precondition: an accepted request yielded a non-empty range unless it was offset
`2^64-1` with the all-ones length. -/
theorem legacy_range_conversion_nonempty_iff (o l s e : Nat) (ho : o ≤ maxU64) (hl : l ≤ maxU64)
    (h : legacyOffsetLengthToStartEnd o l = some (s, e)) :
    s < e ↔ ¬ (o = maxU64 ∧ l = maxU64) :=
  legacy_conv_nonempty_iff o l s e ho hl h

/-- That request was accepted and converted to the EMPTY range `[2^64-1, 2^64-1)`: the half-open
`uint64` representation cannot express byte `2^64-1`. -/
theorem legacy_empty_corner : legacyOffsetLengthToStartEnd maxU64 maxU64 = some (maxU64, maxU64) := by
  decide

/-- For that range `Test` never reports a conflict, whatever the table holds … -/
theorem legacy_empty_corner_never_conflicts (ls : List Lock) (hM : ∀ x ∈ ls, x.stop ≤ maxU64)
    (o : Nat) (ty : Ty) : test ls ⟨maxU64, maxU64, o, ty⟩ = none :=
  test_empty_corner ls hM o ty

/-- … so two different owners were BOTH granted an exclusive lock "from byte
`2^64-1` to the end of the file": the caller model (`Test`, then `Set`) ends with
two exclusive entries of different owners, each `Set` returns `+1` (a byte-less
entry bumps `lockCount`), and the table no longer satisfies its representation
invariant. -/
theorem legacy_empty_corner_two_exclusive_owners :
    legacyOffsetLengthToStartEnd maxU64 maxU64 = some (maxU64, maxU64) ∧
    Spec.ByteLocks.run [] [⟨maxU64, maxU64, 1, .excl⟩, ⟨maxU64, maxU64, 2, .excl⟩] =
      [⟨maxU64, maxU64, 2, .excl⟩, ⟨maxU64, maxU64, 1, .excl⟩] ∧
    (set [] ⟨maxU64, maxU64, 1, .excl⟩).2 = 1 ∧
    (set [⟨maxU64, maxU64, 1, .excl⟩] ⟨maxU64, maxU64, 2, .excl⟩).2 = 1 ∧
    ¬ Spec.ByteLocks.WF [⟨maxU64, maxU64, 2, .excl⟩, ⟨maxU64, maxU64, 1, .excl⟩] :=
  ⟨corner_two_exclusive_owners_run.1, corner_two_exclusive_owners_run.2,
   corner_two_exclusive_owners.2.2.2.2.1, corner_two_exclusive_owners.2.2.2.2.2.1,
   corner_two_exclusive_owners.2.2.2.2.2.2.2⟩

/-- `UnlockAll` (`[0, 2^64-1)`) did remove the byte-less entry: CLOSE and lease
expiry found `lockCount` consistent with the table (no panic from this corner). -/
theorem legacy_empty_corner_unlock_all (o : Nat) (ty : Ty) (hty : ty ≠ .unlocked) :
    setList [⟨maxU64, maxU64, o, ty⟩] ⟨unlockAllRange.1, unlockAllRange.2, o, .unlocked⟩ = [] :=
  corner_unlock_all_removes o ty hty

/-! ## `owner_identity`

The lock table compares owners by identity (Go: the address of the lock-owner object's `owner`
field; model: the id of the `LOwner` record, which `Do.lockSet` / `Do.unlockAllLofs` write into
`BRL.Lock.owner`).  So the per-owner theorems of `Properties/C20.lean` lift to NFS clients iff one
protocol-level owner (client record, owner bytes) is one object.  All statements are about every
state reachable by any sequence of core actions (hence after every protocol history of either
minor version). -/

open BbRe.NfsState BbRe.Lemmas.NfsInv

/-- At most one live lock-owner object per (client record, owner bytes). -/
theorem owner_identity_unique (ver n : Nat) (acts : List Act) (a b : LOwner)
    (ha : a ∈ (applyAll (init ver n) acts).lowners) (hb : b ∈ (applyAll (init ver n) acts).lowners)
    (hcl : a.cl = b.cl) (hkey : a.key = b.key) : a = b :=
  BbRe.Lemmas.NfsProps.lo_unique _ (inv_reachable ver n acts).l a b ha hb hcl hkey

/-- The lookup by (client, owner) that LOCK (`lockOwners[key]` / `cis.lockOwnersByOwner[key]`) and
LOCKT perform returns exactly that object when it exists (and nothing otherwise): LOCKT uses the
owner's own identity iff it is registered. -/
theorem owner_identity_lookup (ver n : Nat) (acts : List Act) (cl key : Nat) (lo : LOwner) :
    (applyAll (init ver n) acts).getLO cl key = some lo ↔
      (lo ∈ (applyAll (init ver n) acts).lowners ∧ lo.cl = cl ∧ lo.key = key) :=
  BbRe.Lemmas.NfsProps.getLO_iff _ (inv_reachable ver n acts).l cl key lo

/-- LOCK with `new_lock_owner` reuses the object if it is present (the registration step changes
nothing) … -/
theorem owner_identity_lock_reuses (s : State) (cl key : Nat) (lo : LOwner)
    (h : s.getLO cl key = some lo) : apply s (Act.loRegister cl key) = s := by
  unfold apply
  split
  · rfl
  · exact BbRe.Lemmas.NfsProps.loRegister_reuses s cl key lo h

/-- … and registers a fresh one otherwise, which every later lookup finds (this is what the fix
adfdf7d restored for NFSv4.1). -/
theorem owner_identity_lock_registers (s : State) (cl key : Nat) (hp : s.panic = none)
    (hc : (s.getClient cl).isSome = true) (h : s.getLO cl key = none) :
    (apply s (Act.loRegister cl key)).getLO cl key =
      some { id := s.nextId, cl := cl, key := key, lastSeq := 0, resp := none } := by
  unfold apply
  simp only [hp, Option.isSome_none, Bool.false_eq_true, if_false]
  exact (BbRe.Lemmas.NfsProps.loRegister_registers s cl key hc h).1

/-- Every lock-owner file stores its locks under the id of a registered object of its own client,
and an open-owner file has at most one lock-owner file per object: protocol-level owners and table
owners coincide. -/
theorem owner_identity_lock_owner_files (ver n : Nat) (acts : List Act) (f : OFile)
    (hf : f ∈ (applyAll (init ver n) acts).files) :
    (∀ l ∈ f.lofs, ∃ lo ∈ (applyAll (init ver n) acts).lowners, lo.id = l.lo ∧ lo.cl = f.cl) ∧
    (f.lofs.map (·.lo)).Nodup :=
  ⟨(inv_reachable ver n acts).l.lofsRef f hf, (inv_reachable ver n acts).l.lofsLoNodup f hf⟩

/-- **Partial** form of "all of an owner's entries on a file disappear on CLOSE of the open-owner
file, lease expiry and re-registration" (all three run `unlockAllLofs` for every lock-owner file of the
open-owner file, see `closeStartActs`): when the lock-owner file counts at least one lock, `UnlockAll`
leaves no entry of its lock-owner object in the table of the opened file and does not touch the
entries of other owners.  Missing for the full statement: `lockCount = 0 → the owner has no entry`,
which holds only when a lock-owner has one lock-owner file per opened file (the known finding
"lock-owner shared by two open-owners" is a counterexample) and needs `C20.lock_count` lifted to the
state machine.  The table holds no byte-less entry (`range_conversion_nonempty`; hypothesis `hv`). -/
theorem owner_identity_unlock_all_partial (s : State) (sid lsid : Nat) (f : OFile) (l : LOFile) (e : PoolEnt)
    (hp : s.panic = none)
    (hf : s.getFile sid = some f) (hl : f.lofs.find? (fun l => l.sid == lsid) = some l)
    (he : s.getPool f.file = some e) (hc : 0 < l.lockCount)
    (hv : ∀ x ∈ e.locks, x.start < x.stop ∧ x.stop ≤ maxU64) :
    (apply s (Act.unlockAllLofs sid lsid)).getPool f.file =
      some { e with locks := e.locks.filter (fun x => x.owner ≠ l.lo) } := by
  unfold apply
  simp only [hp, Option.isSome_none, Bool.false_eq_true, if_false]
  exact BbRe.Lemmas.NfsProps.unlockAll_releases s sid lsid f l e hf hl he hc hv

/-- A reachable state for the `example`s: client 1 has file 0 open (state ID 2) and its lock-owner 7
(object 3) holds the exclusive lock [0,10) through lock-owner file 4. -/
def exS : State :=
  applyAll (init 41 2)
    [.newClient 0 0, .confirmClient 1, .vopen 9 0 NfsShare.Mask.both false false, .openNew 9 1 0,
     .loRegister 1 7, .addLofs 2 3, .lockSet 2 4 ⟨0, 10, 3, .excl⟩]

-- hypotheses of `owner_identity_lock_reuses` / `_registers` / `_unlock_all_partial` are satisfiable
example : (exS.getLO 1 7).isSome = true ∧ exS.getLO 1 8 = none ∧ (exS.getClient 1).isSome = true ∧
    exS.panic = none := by decide
example : ∃ f l e, exS.getFile 2 = some f ∧ f.lofs.find? (fun l => l.sid == 4) = some l ∧
    exS.getPool f.file = some e ∧ 0 < l.lockCount ∧ e.locks = [⟨0, 10, 3, .excl⟩] :=
  ⟨_, _, _, rfl, rfl, rfl, by decide, rfl⟩
example : ((apply exS (Act.unlockAllLofs 2 4)).getPool 0).map (·.locks) = some [] := by decide

end BbRe.Properties.C20Nfs
