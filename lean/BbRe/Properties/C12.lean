import BbRe.Model.Idle
import BbRe.Model.BuildDirs
import BbRe.Lemmas.Idle
import BbRe.Lemmas.IdleDirs
import BbRe.Lemmas.IdleWorker
/-!
# C12 — each action runs isolated and leaves nothing behind

Property theorems about `Model/Idle.lean` (transcription of
`pkg/cleaner/idle_invoker.go`, one step per lock-held segment) and
`Model/BuildDirs.lean` (the shared/clean/root build-directory creator stack, one
step per atomic directory operation).  Every theorem is about *all* reachable
states, i.e. any number of threads (thread ids are arbitrary naturals) and any
interleaving of their segments, cleaner results, cancellations and directory
faults.  Helper lemmas: `BbRe/Lemmas/Idle.lean`, `BbRe/Lemmas/IdleDirs.lean`.
The models are tied to the Go code by `harness/cmd/idle` on every run.
-/
namespace BbRe.Properties.C12
open BbRe.Idle
open BbRe.Lemmas.Idle

/-! ## the invoker -/

/-- `idle_inv`: in every reachable state (1) `wakeup` is set iff exactly one
thread is inside the cleaner, (2) while it is set `useCount = 0`, and
(3) `useCount` is the number of threads that are users (a duplicate-free list
enumerating exactly the `inUse` threads has that length). -/
theorem idle_inv {s : State} (h : Reachable s) :
    (s.wakeup ≠ none ↔ ∃ t, (s.pc t).cleaning = true ∧ ∀ t', (s.pc t').cleaning = true → t' = t) ∧
    (s.wakeup ≠ none → s.useCount = 0) ∧
    (∃ l : List Nat, l.Nodup ∧ (∀ t, t ∈ l ↔ s.pc t = .inUse) ∧ s.useCount = l.length) := by
  have inv := inv_reachable h
  refine ⟨⟨?_, ?_⟩, inv.useZero, inv.users⟩
  · intro hw
    cases hwk : s.wakeup with
    | none => exact absurd hwk hw
    | some c => exact inv.cleanSome c hwk
  · rintro ⟨t, ht, _⟩ hw
    rw [inv.cleanNone hw t] at ht; cases ht

/-- `exclusion`: no reachable state has a cleaner call running together with a
user or with another cleaner call. -/
theorem exclusion {s : State} (h : Reachable s) (t : Nat) (ht : (s.pc t).cleaning = true) :
    (∀ t', s.pc t' ≠ .inUse) ∧ (∀ t', (s.pc t').cleaning = true → t' = t) := by
  have inv := inv_reachable h
  have hw : s.wakeup ≠ none := by
    intro hw; rw [inv.cleanNone hw t] at ht; cases ht
  constructor
  · intro t' ht'
    obtain ⟨l, _, hl2, hl3⟩ := inv.users
    have hmem := (hl2 t').2 ht'
    rw [inv.useZero hw] at hl3
    rw [List.eq_nil_of_length_eq_zero hl3.symm] at hmem
    cases hmem
  · intro t' ht'
    cases hwk : s.wakeup with
    | none => exact absurd hwk hw
    | some c =>
      obtain ⟨t0, _, huniq⟩ := inv.cleanSome c hwk
      exact (huniq t' ht').trans (huniq t ht).symm

/-- Neither `panic` of idle_invoker.go ("Cleaning is already in progress",
"Called Release() on IdleInvoker with a zero use count") is reachable when every
`Release` is preceded by its own successful `Acquire`. -/
theorem no_panic {s : State} (h : Reachable s) : s.panicked = false :=
  (inv_reachable h).noPanic

/-- `transitions`, part 1: a cleaner call starts only in a step that is an
`Acquire` finding the system idle (0 users before, still 0 while it cleans) or a
`Release` taking the number of users from 1 to 0. -/
theorem clean_starts_only_at_transitions {s s' : State} (h : Reachable s) (op : Op)
    (hs : step s op = some s') (hw : s.wakeup = none) (hw' : s'.wakeup ≠ none) :
    (∃ t, (op = .acquireEnter t ∨ op = .wake t) ∧ s.useCount = 0 ∧ s'.useCount = 0 ∧ s'.pc t = .cleanAcq) ∨
    (∃ t, op = .releaseEnter t ∧ s.useCount = 1 ∧ s'.useCount = 0 ∧ s'.pc t = .cleanRel) := by
  have inv := inv_reachable h
  have body : ∀ t, s' = acquireBody s t → s.useCount = 0 ∧ s'.useCount = 0 ∧ s'.pc t = .cleanAcq := by
    intro t e
    subst e
    unfold acquireBody at hw' ⊢
    simp only [hw] at hw' ⊢
    split
    · simp [startClean, *]
    · rename_i hu
      simp [hu, hw] at hw'
  cases op with
  | acquireEnter t =>
    left
    unfold step at hs
    simp only [inv.noPanic, Bool.false_eq_true, ↓reduceIte] at hs
    split at hs
    · cases hs; exact ⟨t, Or.inl rfl, body t rfl⟩
    · cases hs
  | wake t =>
    left
    unfold step at hs
    simp only [inv.noPanic, Bool.false_eq_true, ↓reduceIte] at hs
    split at hs
    · split at hs
      · cases hs; exact ⟨t, Or.inr rfl, body t rfl⟩
      · cases hs
    · cases hs
  | cancel t =>
    unfold step at hs
    simp only [inv.noPanic, Bool.false_eq_true, ↓reduceIte] at hs
    split at hs
    · cases hs; exact absurd hw hw'
    · cases hs
  | cleanDone t ok =>
    unfold step at hs
    simp only [inv.noPanic, Bool.false_eq_true, ↓reduceIte, hw] at hs
    cases hs
  | releaseEnter t =>
    right
    unfold step at hs
    simp only [inv.noPanic, Bool.false_eq_true, ↓reduceIte] at hs
    split at hs
    · split at hs
      · cases hs; exact absurd hw hw'
      · split at hs
        · cases hs; exact absurd hw hw'
        · rename_i hne hnot
          cases hs
          refine ⟨t, rfl, by omega, ?_, ?_⟩ <;> simp [startClean, hw] <;> omega
    · cases hs

/-- `transitions`, part 2 (1→0): the `Release` of the last user always starts the cleaner. -/
theorem last_release_cleans {s s' : State} (h : Reachable s) (t : Nat)
    (hs : step s (.releaseEnter t) = some s') (hu : s.useCount = 1) :
    s'.wakeup ≠ none ∧ s'.pc t = .cleanRel ∧ s'.useCount = 0 ∧ s'.panicked = false := by
  have inv := inv_reachable h
  have hw : s.wakeup = none := by
    cases hwk : s.wakeup with
    | none => rfl
    | some c => have := inv.useZero (by rw [hwk]; simp); omega
  unfold step at hs
  simp only [inv.noPanic, Bool.false_eq_true, ↓reduceIte, hu] at hs
  split at hs
  · simp at hs
    cases hs
    simp [startClean, hw]
  · cases hs

/-- `transitions`, part 2 (0→1): the number of users leaves 0 only by the step
that completes a *successful* cleaner call made by an `Acquire`; that thread
becomes the single user. -/
theorem first_user_follows_clean {s s' : State} (h : Reachable s) (op : Op)
    (hs : step s op = some s') (hu : s.useCount = 0) (hu' : s'.useCount ≠ 0) :
    ∃ t, op = .cleanDone t true ∧ s.pc t = .cleanAcq ∧ s'.pc t = .inUse ∧ s'.useCount = 1 := by
  have inv := inv_reachable h
  have body : ∀ t, s' = acquireBody s t → False := by
    intro t e
    subst e
    unfold acquireBody at hu'
    split at hu'
    · exact hu' hu
    · rename_i hw
      simp [hu, startClean, hw] at hu'
  cases op with
  | acquireEnter t =>
    unfold step at hs
    simp only [inv.noPanic, Bool.false_eq_true, ↓reduceIte] at hs
    split at hs
    · cases hs; exact (body t rfl).elim
    · cases hs
  | wake t =>
    unfold step at hs
    simp only [inv.noPanic, Bool.false_eq_true, ↓reduceIte] at hs
    split at hs
    · split at hs
      · cases hs; exact (body t rfl).elim
      · cases hs
    · cases hs
  | cancel t =>
    unfold step at hs
    simp only [inv.noPanic, Bool.false_eq_true, ↓reduceIte] at hs
    split at hs
    · cases hs; exact absurd hu hu'
    · cases hs
  | cleanDone t ok =>
    unfold step at hs
    simp only [inv.noPanic, Bool.false_eq_true, ↓reduceIte] at hs
    split at hs
    · cases hs
    · split at hs
      · rename_i hpc
        split at hs
        · rename_i hok
          cases hs
          exact ⟨t, by rw [hok], hpc, by simp, by simp [hu]⟩
        · cases hs; exact absurd hu hu'
      · cases hs; exact absurd hu hu'
      · cases hs
  | releaseEnter t =>
    unfold step at hs
    simp only [inv.noPanic, Bool.false_eq_true, ↓reduceIte, hu] at hs
    split at hs
    · cases hs; exact absurd rfl hu'
    · cases hs

/-- `transitions`, part 3: an `Acquire` that arrives at (or is woken on) an idle
system on which no cleaning is in progress starts the cleaner and is not
admitted yet. -/
theorem acquire_on_idle_cleans {s s' : State} (h : Reachable s) (t : Nat) (op : Op)
    (hop : op = .acquireEnter t ∨ op = .wake t)
    (hs : step s op = some s') (hu : s.useCount = 0) (hw : s.wakeup = none) :
    s'.wakeup ≠ none ∧ s'.pc t = .cleanAcq ∧ s'.useCount = 0 := by
  have inv := inv_reachable h
  rcases hop with e | e <;> subst e <;> unfold step at hs <;>
    simp only [inv.noPanic, Bool.false_eq_true, ↓reduceIte] at hs <;> split at hs
  · cases hs
    simp [acquireBody, hw, hu, startClean]
  · cases hs
  · split at hs
    · cases hs
      simp [acquireBody, hw, hu, startClean]
    · cases hs
  · cases hs

/-- `transitions`, part 4: a failed cleaning before an `Acquire` admits nobody:
the thread returns the error, the use count stays 0 and no thread is a user. -/
theorem failed_preclean_admits_nobody {s s' : State} (h : Reachable s) (t : Nat)
    (hpc : s.pc t = .cleanAcq) (hs : step s (.cleanDone t false) = some s') :
    s'.useCount = 0 ∧ s'.pc t = .out ∧ (∀ x, s'.pc x ≠ .inUse) ∧ ret s (.cleanDone t false) = some (t, .err) := by
  have inv := inv_reachable h
  have excl := exclusion h t (by rw [hpc]; rfl)
  unfold step at hs
  simp only [inv.noPanic, Bool.false_eq_true, ↓reduceIte, hpc] at hs
  split at hs
  · cases hs
  · rename_i c hc
    cases hs
    have hu : s.useCount = 0 := inv.useZero (by rw [hc]; simp)
    refine ⟨hu, by simp, ?_, by simp [ret, hpc]⟩
    intro x
    simp only [setPc_pc]
    split
    · simp
    · exact excl.1 x

/-- `transitions` (summary): for every enabled step from a reachable state,
(1) a cleaner call starts in this step **iff** the step is an `Acquire`
(arriving or woken) that finds no cleaning in progress and 0 users, or a
`Release` that takes the number of users from 1 to 0;
(2) the number of users leaves 0 only in the step that completes a successful
cleaner call made by an `Acquire`;
(3) the step that completes a failed one leaves 0 users and nobody admitted. -/
theorem transitions {s s' : State} (h : Reachable s) (op : Op) (hs : step s op = some s') :
    ((s.wakeup = none ∧ s'.wakeup ≠ none) ↔
      ((∃ t, (op = .acquireEnter t ∨ op = .wake t) ∧ s.wakeup = none ∧ s.useCount = 0) ∨
       (∃ t, op = .releaseEnter t ∧ s.useCount = 1))) ∧
    (s.useCount = 0 → s'.useCount ≠ 0 → ∃ t, op = .cleanDone t true ∧ s.pc t = .cleanAcq) ∧
    (∀ t, op = .cleanDone t false → s.pc t = .cleanAcq → s'.useCount = 0 ∧ ∀ x, s'.pc x ≠ .inUse) := by
  refine ⟨⟨?_, ?_⟩, ?_, ?_⟩
  · rintro ⟨hw, hw'⟩
    rcases clean_starts_only_at_transitions h op hs hw hw' with ⟨t, hop, hu, _, _⟩ | ⟨t, hop, hu, _, _⟩
    · exact Or.inl ⟨t, hop, hw, hu⟩
    · exact Or.inr ⟨t, hop, hu⟩
  · rintro (⟨t, hop, hw, hu⟩ | ⟨t, hop, hu⟩)
    · exact ⟨hw, (acquire_on_idle_cleans h t op hop hs hu hw).1⟩
    · subst hop
      have inv := inv_reachable h
      have hw : s.wakeup = none := by
        cases hwk : s.wakeup with
        | none => rfl
        | some c => have := inv.useZero (by rw [hwk]; simp); omega
      exact ⟨hw, (last_release_cleans h t hs hu).1⟩
  · intro hu hu'
    obtain ⟨t, hop, hpc, _, _⟩ := first_user_follows_clean h op hs hu hu'
    exact ⟨t, hop, hpc⟩
  · intro t hop hpc
    subst hop
    obtain ⟨h1, _, h3, _⟩ := failed_preclean_admits_nobody h t hpc hs
    exact ⟨h1, h3⟩

/-- `no_stuck_waiter`, part 1: a parked `Acquire` is either waiting for the
cleaner call that is running right now (whose completion step is enabled,
whatever its result) or its wake-up step is enabled. -/
theorem no_stuck_waiter {s : State} (h : Reachable s) (t c : Nat) (hpc : s.pc t = .waiting c) :
    (s.wakeup = some c ∧ ∃ t0, (s.pc t0).cleaning = true ∧ ∀ ok, (step s (.cleanDone t0 ok)).isSome = true) ∨
    (step s (.wake t)).isSome = true := by
  have inv := inv_reachable h
  rcases inv.chanClosed c (inv.waitChan t c hpc) with hw | hcl
  · left
    obtain ⟨t0, ht0, _⟩ := inv.cleanSome c hw
    refine ⟨hw, t0, ht0, ?_⟩
    intro ok
    unfold step
    simp only [inv.noPanic, Bool.false_eq_true, ↓reduceIte, hw]
    cases hp : s.pc t0 <;> simp_all [PC.cleaning] <;> cases ok <;> simp
  · right
    unfold step
    simp [inv.noPanic, hpc, hcl]

/-- `no_stuck_waiter`, part 2: when a cleaner call completes (`close(wakeup)`),
the wake-up step of *every* parked `Acquire` is enabled. -/
theorem all_waiters_woken {s s' : State} (h : Reachable s) (t0 : Nat) (ok : Bool)
    (hs : step s (.cleanDone t0 ok) = some s') (t c : Nat) (hpc : s'.pc t = .waiting c) :
    (step s' (.wake t)).isSome = true := by
  have h' : Reachable s' := Reachable.step _ h hs
  have inv' := inv_reachable h'
  have hw' : s'.wakeup = none := by
    have inv := inv_reachable h
    unfold step at hs
    simp only [inv.noPanic, Bool.false_eq_true, ↓reduceIte] at hs
    split at hs
    · cases hs
    · split at hs
      · split at hs <;> cases hs <;> rfl
      · cases hs; rfl
      · cases hs
  rcases inv'.chanClosed c (inv'.waitChan t c hpc) with hw | hcl
  · rw [hw'] at hw; cases hw
  · unfold step
    simp [inv'.noPanic, hpc, hcl]

/-- `no_stuck_waiter`, part 3: cancellation of a parked `Acquire` is always
enabled, returns `cancelled` and changes nothing but that thread's state. -/
theorem cancel_returns {s : State} (h : Reachable s) (t c : Nat) (hpc : s.pc t = .waiting c) :
    ∃ s', step s (.cancel t) = some s' ∧ s'.useCount = s.useCount ∧ s'.wakeup = s.wakeup ∧
      s'.pc t = .out ∧ (∀ x, x ≠ t → s'.pc x = s.pc x) ∧ ret s (.cancel t) = some (t, .cancelled) := by
  have inv := inv_reachable h
  refine ⟨s.setPc t .out, ?_, rfl, rfl, by simp, ?_, by simp [ret, hpc]⟩
  · unfold step
    simp [inv.noPanic, hpc]
  · intro x hx
    simp [hx]

/-! ## the chained cleaner -/

/-- `NewChainedCleaner`: the result is nil **iff** every cleaner returned nil —
for every list of cleaners and every combination of outcomes (in particular a
failure at any position, followed by any number of successes, is reported). -/
theorem chained_nil_iff (outs : List Nat) : (chained outs).1 = 0 ↔ ∀ o, o ∈ outs → o = 0 := by
  unfold chained
  rw [chainedFrom_fst_zero_iff]
  simp

/-- ... the error returned is the first one observed, ... -/
theorem chained_first_error (outs : List Nat) : (chained outs).1 = (outs.find? (· ≠ 0)).getD 0 := by
  unfold chained
  rw [chainedFrom_fst]; rfl

/-- ... and every cleaner is invoked, also after a failure. -/
theorem chained_invokes_all (outs : List Nat) : (chained outs).2 = outs.length := by
  unfold chained
  rw [chainedFrom_snd]; omega

example : chained [0, 3, 0, 5] = (3, 4) ∧ chained [0, 0] = (0, 2) ∧ chained [7, 0, 0] = (7, 3) := by decide

/-! ### non-vacuity: concrete reachable states -/

/-- thread 0 is cleaning for its Acquire, threads 1 and 2 are parked behind it -/
def exWaiting : State := run init [.acquireEnter 0, .acquireEnter 1, .acquireEnter 2]
/-- thread 0 was admitted and threads 1, 2 followed; 0 and 1 left, 2 is the last user -/
def exLastUser : State :=
  run exWaiting [.cleanDone 0 true, .wake 1, .wake 2, .releaseEnter 0, .releaseEnter 1]

example : Reachable exWaiting := reachable_run .init _
example : exWaiting.pc 0 = .cleanAcq ∧ exWaiting.pc 1 = .waiting 0 ∧ exWaiting.pc 2 = .waiting 0 ∧
    exWaiting.wakeup = some 0 := by decide
example : (step exWaiting (.cleanDone 0 false)).isSome = true := by decide
example : exLastUser.useCount = 1 ∧ exLastUser.pc 2 = .inUse ∧ exLastUser.wakeup = none := by decide
example : (step exLastUser (.releaseEnter 2)).isSome = true := by decide
example : (run exLastUser [.releaseEnter 2, .acquireEnter 3]).pc 3 = .waiting 1 := by decide

/-! ## the build directories -/

section dirs
open BbRe.BuildDirs
open BbRe.Lemmas.IdleDirs

/-- `distinct_dirs`, part 1: two threads that own a build directory at the same
time (created, handed out or being closed) own different names. -/
theorem distinct_dirs {s : BuildDirs.State} (h : BuildDirs.Reachable s) (t t' : Nat) (n n' : Name)
    (hne : t ≠ t') (ht : (s.pc t).owns n) (ht' : (s.pc t').owns n') : n ≠ n' := by
  intro e
  subst e
  exact hne ((dinv_reachable h).ownsUniq t t' n ht ht')

/-- Special case in the words of the property: directories *held* at the same time. -/
theorem distinct_held_dirs {s : BuildDirs.State} (h : BuildDirs.Reachable s) (t t' : Nat) (n n' : Name)
    (hne : t ≠ t') (ht : s.pc t = .holding n) (ht' : s.pc t' = .holding n') : n ≠ n' :=
  distinct_dirs h t t' n n' hne (by rw [ht]; simp [DPC.owns]) (by rw [ht']; simp [DPC.owns])

/-- `distinct_dirs`, part 2: a directory is empty at the moment it is handed out. -/
theorem handed_out_empty {s s' : BuildDirs.State} (h : BuildDirs.Reachable s) (t : Nat) (fault : Bool) (n : Name)
    (hs : BuildDirs.step s (.enter t fault) = some s') (hpc : s'.pc t = .holding n) :
    lookup s'.root n = some [] := by
  have inv := dinv_reachable h
  simp only [BuildDirs.step] at hs
  split at hs
  · rename_i m hm
    split at hs
    · cases hs; simp at hpc
    · cases hs
      simp at hpc
      subst hpc
      exact inv.freshEmpty t m (Or.inl hm)
  · cases hs

/-- `distinct_dirs`, part 3: `RemoveAll` in `Close` removes the directory with
everything in it, or `Close` is going to return an error whatever `Release` does. -/
theorem close_removes {s s' : BuildDirs.State} (t : Nat) (n : Name) (e1 fault : Bool)
    (hpc : s.pc t = .closing n e1) (hs : BuildDirs.step s (.removeAll t fault) = some s') :
    (hasName s'.root n = false ∧ lookup s'.root n = none) ∨
    (∃ r, s'.pc t = .finishing false r ∧ ∀ relErr, finishResult false r relErr ≠ .ok) := by
  simp only [BuildDirs.step, hpc] at hs
  split at hs
  · right
    cases hs
    refine ⟨(if e1 = true then Res.childErr else Res.internal), by simp, ?_⟩
    intro relErr
    cases e1 <;> simp [finishResult]
  · left
    cases hs
    constructor
    · cases hh : hasName (eraseName s.root n) n
      · rfl
      · have := (hasName_erase s.root n n).1 hh
        exact absurd rfl this.2
    · show lookup (eraseName s.root n) n = none
      rw [lookup_erase]; simp

/-- `Close` returns success only if the child closed, the removal succeeded and
the cleaner (if it ran) succeeded. -/
theorem close_result (r : BuildDirs.Res) (relErr : Bool) (h : finishResult false r relErr = .ok) :
    r = .ok ∧ relErr = false := by
  cases r <;> cases relErr <;> simp_all [finishResult]

/-- `distinct_dirs`, part 4: the names given to actions that may run in
parallel (`nextParallelActionID`) are pairwise distinct over the whole history. -/
theorem counter_names_distinct {s : BuildDirs.State} (h : BuildDirs.Reachable s) : s.issued.Nodup :=
  (dinv_reachable h).issuedNodup

/-- ... and a newly issued counter name was never issued before. -/
theorem counter_name_fresh {s s' : BuildDirs.State} (h : BuildDirs.Reachable s) (t : Nat) (n : Name)
    (hpc : s.pc t = .acquired none) (hs : BuildDirs.step s (.name t) = some s') (hn : s'.pc t = .named n) :
    n ∉ s.issued ∧ s'.issued = n :: s.issued := by
  have h' := dinv_reachable (BuildDirs.Reachable.step _ h hs)
  simp only [BuildDirs.step, hpc] at hs
  cases hs
  simp at hn
  subst hn
  exact ⟨(List.nodup_cons.1 h'.issuedNodup).1, rfl⟩

/-- The cleaner only runs when nobody is between `begin` and `release`, and a
successful run leaves nothing behind in the root build directory. -/
theorem clean_leaves_nothing {s s' : BuildDirs.State} (h : BuildDirs.Reachable s)
    (hs : BuildDirs.step s (.clean true) = some s') :
    s'.root = [] ∧ ∀ t n, ¬ (s.pc t).owns n := by
  have inv := dinv_reachable h
  simp only [BuildDirs.step] at hs
  split at hs
  · rename_i hact
    cases hs
    refine ⟨rfl, ?_⟩
    obtain ⟨l, _, h2, h3⟩ := inv.users
    have hl : l = [] := List.eq_nil_of_length_eq_zero (by omega)
    intro t n hown
    have hu : DPC.user (s.pc t) = true := by
      cases hp : s.pc t <;> simp_all [DPC.owns, DPC.user]
    have := (h2 t).2 hu
    rw [hl] at this; cases this
  · cases hs

/-! ### non-vacuity -/

/-- threads 0 and 1 hold counter-named directories "1" and "2" (0 wrote a file);
thread 2 asked for a digest-named one -/
def exHolding : BuildDirs.State :=
  drun BuildDirs.init [.begin 0 none, .begin 1 none, .name 1, .name 0, .mkdir 0 false, .mkdir 1 false,
    .enter 0 false, .enter 1 false, .write 0 7, .begin 2 (some "a1b2c3d4e5f60718"), .name 2, .mkdir 2 false]

example : BuildDirs.Reachable exHolding := reachable_drun .init _
example : exHolding.pc 0 = .holding "2" ∧ exHolding.pc 1 = .holding "1" ∧
    exHolding.pc 2 = .made "a1b2c3d4e5f60718" ∧ exHolding.issued = ["2", "1"] ∧
    lookup exHolding.root "2" = some [7] := by decide
example : (BuildDirs.step exHolding (.enter 2 false)).isSome = true := by decide
example : (drun exHolding [.closeChild 0 false, .removeAll 0 false]).pc 0 = .finishing false .ok := by decide
example : (BuildDirs.step exHolding (.clean true)).isSome = false := by decide

end dirs

/-! ## invoker and build directories together (`BbRe.Worker`) -/

section worker
open BbRe.Lemmas.IdleWorker

/-- In the coupled system both components stay reachable in their own
transition systems, so every theorem above applies to them; and every
directory thread between `begin` and `release` is a user of the invoker. -/
theorem worker_components {s : Worker.State} (h : Worker.Reachable s) :
    Idle.Reachable s.idle ∧ BuildDirs.Reachable s.dirs ∧
    ∀ t, BuildDirs.DPC.user (s.dirs.pc t) = true → s.idle.pc t = .inUse :=
  let w := winv_reachable h
  ⟨w.idle, w.dirs, w.coupled⟩

/-- The cleaner never runs concurrently with a running action's directory:
while any thread is inside the cleaner, no thread is between `begin` and
`release`, nobody owns a directory, and emptying the root is an enabled
`clean` step of `Model/BuildDirs.lean` (which is how `Worker.Step.cleanDone`
applies it). -/
theorem cleaner_excludes_directory_users {s : Worker.State} (h : Worker.Reachable s) (t : Nat)
    (ht : (s.idle.pc t).cleaning = true) :
    (∀ x, BuildDirs.DPC.user (s.dirs.pc x) = false) ∧ (∀ x n, ¬ (s.dirs.pc x).owns n) ∧
    s.dirs.active = 0 ∧ ∀ ok, (BuildDirs.step s.dirs (.clean ok)).isSome = true := by
  have w := winv_reachable h
  obtain ⟨h1, h2⟩ := no_dir_users_while_cleaning w t ht
  refine ⟨h1, ?_, h2, ?_⟩
  · intro x n hown
    have := h1 x
    cases hp : s.dirs.pc x <;> simp_all [BuildDirs.DPC.owns, BuildDirs.DPC.user]
  · intro ok
    simp only [BuildDirs.step, h2, ↓reduceIte]
    cases ok <;> rfl

/-! ### non-vacuity: a reachable worker state in which the cleaner runs, and one with a directory user -/

def exWorkerCleaning : Worker.State := ⟨Idle.acquireBody Idle.init 0, BuildDirs.init⟩

example : Worker.Reachable exWorkerCleaning ∧ (exWorkerCleaning.idle.pc 0).cleaning = true :=
  ⟨.step .init (.idle Worker.init (.acquireEnter 0) _ rfl (by intro t h; cases h) (by intro t ok h; cases h)),
   by decide⟩

example : ∃ s, Worker.Reachable s ∧ BuildDirs.DPC.user (s.dirs.pc 0) = true := by
  have h1 : Worker.Reachable ⟨(Idle.acquireBody Idle.init 0), BuildDirs.init⟩ :=
    .step .init (.idle Worker.init (.acquireEnter 0) _ rfl (by intro t h; cases h) (by intro t ok h; cases h))
  have h2 := Worker.Reachable.step h1 (.cleanDone _ 0 true _ rfl)
  have h3 := Worker.Reachable.step h2 (.begin _ 0 none _ (by decide) rfl)
  exact ⟨_, h3, by decide⟩

end worker

end BbRe.Properties.C12
