import BbRe.Properties.C13
import BbRe.Lemmas.DirFilter
/-!
# C13 — completeness of the `FilterChildren` traversal

`filterChildrenRecursive` (in_memory_prepopulated_directory.go:622-669) hands to the
callback, per directory, first every leaf (hidden ones too) in list order and then
recurses into the child directories in list order; a directory whose contents are
still pending (`initialContentsFetcher != nil`) is handed to the callback itself and is
NOT initialised and not entered.  `FilterChildren` discards the boolean and returns nil.
The model is the work-list function `filterWalk` with the fuel
`dirs.length + totalEntries + 1` (`filterChildren`); `limit` is the number of the
callback invocation that answers "stop".

`C13.filter_refines` is the soundness half (every callback gets something that is at or
below `d`).  Here: completeness, stopping, and that nothing is modified.

Hypothesis `walkDone … = true`: the work list is exhausted within the model's fuel, i.e.
the Go recursion returns.  It is false on a hierarchy with a cycle through `d`
(`filter_returns_only_without_cycle`; cycles can be made: a rename of a directory into
its own subtree is not rejected).

`filter_visits_every_leaf_partial` keeps that hypothesis.  `filter_returns_on_acyclic` discharges
it for every reachable store in which no directory at or below `d` lies on a cycle
(`NoCyc s [d]`; the directories entered are pairwise different by `contents_inv`'s one-parent
clause, all exist, so there are at most `dirs.length` of them), which gives the unconditional
`filter_visits_every_leaf` and `filter_visits_each_item_once` (no callback item twice).
-/
namespace BbRe.Properties.C13Filter
open BbRe.Dir BbRe.Lemmas.Dir

/-- Callback never stops (`limit` at least the number of items) and the traversal returns:
the callbacks are EXACTLY (as a set) the leaf entries `(owner, name, leaf)` of the
initialised directories at or below `d` in the reference hierarchy, plus, for every
directory at or below `d` whose contents are pending, that directory itself (cookie =
owner, name 0).  Nothing else, nothing missing. -/
theorem filter_visits_every_leaf_partial (P : Params) (ops : List Op) (d limit : Nat)
    (hdone : walkDone ((run P init ops).dirs.length + totalEntries (run P init ops) + 1) (run P init ops) [d] = true)
    (hlimit : (filterWalk ((run P init ops).dirs.length + totalEntries (run P init ops) + 1) (run P init ops) [d]).length ≤ limit)
    (r : Report) :
    r ∈ (filterChildren (run P init ops) d limit).2.reports ↔
      ∃ owner, BbRe.Spec.Posix.Reach (abs (run P init ops)) d owner ∧
        ((((run P init ops).dir owner).lazy ≠ none ∧ r = ⟨owner, 0, .dir owner⟩) ∨
         (((run P init ops).dir owner).lazy = none ∧
            ∃ e ∈ ((run P init ops).dir owner).entries, e.child.isDir = false ∧ r = ⟨owner, e.name, e.child⟩)) := by
  have h : Inv P (run P init ops) := C13.inv_reachable P ops
  have hlazy : ∀ a, ((run P init ops).dir a).lazy ≠ none → ((run P init ops).dir a).entries = [] :=
    fun a => (h.dirOK a).lazy
  unfold filterChildren
  simp only []
  rw [List.take_of_length_le hlimit, mem_filterWalk_iff _ hlazy _ d hdone r]
  constructor
  · rintro ⟨o, hr, hm⟩
    refine ⟨o, (reach_iff (fun a => h.dirOK a) d o).mpr hr, ?_⟩
    unfold dirItems at hm
    cases hl : ((run P init ops).dir o).lazy with
    | some t =>
      rw [hl] at hm
      simp only [] at hm
      left
      exact ⟨by simp, by simpa using hm⟩
    | none =>
      rw [hl] at hm
      simp only [] at hm
      right
      obtain ⟨e, he, rfl⟩ := List.mem_map.mp hm
      have hm' := List.mem_filter.mp he
      exact ⟨rfl, e, hm'.1, by simpa using hm'.2, rfl⟩
  · rintro ⟨o, hr, hcase⟩
    refine ⟨o, (reach_iff (fun a => h.dirOK a) d o).mp hr, ?_⟩
    unfold dirItems
    rcases hcase with ⟨hl, rfl⟩ | ⟨hl, e, he, hleaf, rfl⟩
    · cases hl' : ((run P init ops).dir o).lazy with
      | some t => simp
      | none => exact absurd hl' hl
    · rw [hl]
      simp only []
      exact List.mem_map.mpr ⟨e, List.mem_filter.mpr ⟨he, by simp [hleaf]⟩, rfl⟩

/-- The traversal returns (within any fuel) only when `d` is not on a cycle. -/
theorem filter_returns_only_without_cycle (P : Params) (ops : List Op) (d fuel : Nat)
    (hdone : walkDone fuel (run P init ops) [d] = true) :
    ¬ ∃ c, MEdge (run P init ops) d c ∧ MReach (run P init ops) c d := by
  rintro ⟨c, he, hr⟩
  exact walkDone_no_cycle _ (fun a => ((C13.inv_reachable P ops).dirOK a).lazy) fuel [d] hdone d (by simp) c he hr

/-- On every reachable store in which no directory at or below `d` lies on a cycle, the
traversal returns within the model's fuel. -/
theorem filter_returns_on_acyclic (P : Params) (ops : List Op) (d : Nat)
    (hd : d < (run P init ops).dirs.length) (hacyc : NoCyc (run P init ops) [d]) :
    walkDone ((run P init ops).dirs.length + totalEntries (run P init ops) + 1) (run P init ops) [d] = true :=
  walkDone_of_noCyc (C13.inv_reachable P ops) d hd hacyc _

/-- Conversely to `filter_returns_only_without_cycle`, for all directories at or below `d`:
a traversal that returns has met no cycle. -/
theorem filter_returns_only_on_acyclic (P : Params) (ops : List Op) (d fuel : Nat)
    (hdone : walkDone fuel (run P init ops) [d] = true) : NoCyc (run P init ops) [d] :=
  walkDone_noCyc _ (fun a => ((C13.inv_reachable P ops).dirOK a).lazy) fuel [d] hdone

/-- No callback item is handed out twice (whatever the callback answers). -/
theorem filter_visits_each_item_once (P : Params) (ops : List Op) (d limit : Nat)
    (hacyc : NoCyc (run P init ops) [d]) :
    ((filterChildren (run P init ops) d limit).2.reports).Nodup := by
  have h : Inv P (run P init ops) := C13.inv_reachable P ops
  have hnd := walkDirs_nodup (run P init ops) (fun p a c => edge_parent_unique h) (dirChildren_nodup h)
    ((run P init ops).dirs.length + totalEntries (run P init ops) + 1) [d] hacyc (by simp [BbRe.Lemmas.Dir.Sep])
  have hw := filterWalk_nodup (run P init ops) (fun a => h.dirOK a) _ [d] hnd
  exact hw.sublist (List.take_sublist _ _)

/-- `filter_visits_every_leaf_partial` without the hypothesis that the traversal returns:
on an acyclic hierarchy below an existing `d`, a callback that never stops gets exactly the
leaves of the initialised directories and the pending directories at or below `d` — each
once (`filter_visits_each_item_once`), nothing missing, nothing else. -/
theorem filter_visits_every_leaf (P : Params) (ops : List Op) (d limit : Nat)
    (hd : d < (run P init ops).dirs.length) (hacyc : NoCyc (run P init ops) [d])
    (hlimit : (filterWalk ((run P init ops).dirs.length + totalEntries (run P init ops) + 1) (run P init ops) [d]).length ≤ limit)
    (r : Report) :
    ((filterChildren (run P init ops) d limit).2.reports).Nodup ∧
    (r ∈ (filterChildren (run P init ops) d limit).2.reports ↔
      ∃ owner, BbRe.Spec.Posix.Reach (abs (run P init ops)) d owner ∧
        ((((run P init ops).dir owner).lazy ≠ none ∧ r = ⟨owner, 0, .dir owner⟩) ∨
         (((run P init ops).dir owner).lazy = none ∧
            ∃ e ∈ ((run P init ops).dir owner).entries, e.child.isDir = false ∧ r = ⟨owner, e.name, e.child⟩))) :=
  ⟨filter_visits_each_item_once P ops d limit hacyc,
   filter_visits_every_leaf_partial P ops d limit (filter_returns_on_acyclic P ops d hd hacyc) hlimit r⟩

/-- More fuel than the traversal needs changes nothing: the model's result does not depend
on the particular fuel once the traversal returns. -/
theorem filter_fuel_irrelevant (P : Params) (ops : List Op) (d fuel k : Nat)
    (hdone : walkDone fuel (run P init ops) [d] = true) :
    filterWalk (fuel + k) (run P init ops) [d] = filterWalk fuel (run P init ops) [d] :=
  filterWalk_fuel_stable _ fuel [d] hdone k

/-- A callback that answers "stop" at its `limit`-th invocation: the traversal makes exactly
the first `limit` callbacks of the never-stopping traversal (all of them when there are
fewer) and no more; `FilterChildren` still returns nil (status ok). -/
theorem filter_stops (s : Store) (d limit k : Nat) :
    (filterChildren s d limit).2.reports = ((filterChildren s d (limit + k)).2.reports).take limit ∧
    (filterChildren s d limit).2.status = .ok ∧
    (limit ≤ ((filterChildren s d (limit + k)).2.reports).length →
      ((filterChildren s d limit).2.reports).length = limit) := by
  refine ⟨?_, rfl, ?_⟩
  · simp [filterChildren, List.take_take]
  · simp only [filterChildren, List.length_take]
    omega

/-- `FilterChildren` itself modifies nothing (the removers handed to the callback are
separate operations): the store is the same afterwards, in particular a directory whose
contents are pending is still pending (the Go code hands the fetcher to the callback without
evaluating it) and no change counter moves. -/
theorem filter_does_not_modify (s : Store) (d limit : Nat) :
    (filterChildren s d limit).1 = s ∧
    ∀ a, ((filterChildren s d limit).1.dir a).lazy = (s.dir a).lazy ∧
         ((filterChildren s d limit).1.dir a).changeID = (s.dir a).changeID :=
  ⟨rfl, fun _ => ⟨rfl, rfl⟩⟩

/-! ## Non-vacuity: the two-level example store of `C13` (root 0 with a hidden leaf, a hard
link and the directory 1; directory 1 with a leaf and the not yet initialised directory 3) -/

example : walkDone ((run C13.exP init C13.exOps).dirs.length + totalEntries (run C13.exP init C13.exOps) + 1)
    (run C13.exP init C13.exOps) [0] = true := by decide

example : (filterChildren (run C13.exP init C13.exOps) 0 100).2.reports =
    [⟨0, 9, .leaf 1⟩, ⟨0, 4, .leaf 0⟩, ⟨1, 2, .leaf 0⟩, ⟨3, 0, .dir 3⟩] := by decide

-- the callback stops at its 2nd invocation
example : (filterChildren (run C13.exP init C13.exOps) 0 2).2.reports =
    [⟨0, 9, .leaf 1⟩, ⟨0, 4, .leaf 0⟩] := by decide

-- directory 3 is still pending afterwards
example : ((filterChildren (run C13.exP init C13.exOps) 0 100).1.dir 3).lazy = some 0 := by decide

-- the hypotheses of `filter_visits_every_leaf` hold for the example store and directory 0
example : 0 < (run C13.exP init C13.exOps).dirs.length ∧ NoCyc (run C13.exP init C13.exOps) [0] :=
  ⟨by decide, filter_returns_only_on_acyclic C13.exP C13.exOps 0 _ (by decide : walkDone 9 _ [0] = true)⟩

end BbRe.Properties.C13Filter
