import BbRe.Properties.C01
import BbRe.Lemmas.SchedQExistsSync
/-!
# C01 (continued) — every task and every worker is held by a queue that exists

`C01.no_panic` left the model's *routing errors* open ("complete: no platform queue", "platform queue
without size class queue", "getNextTask: no queue", "syncWake: no queue", "platform queue without
size classes"), because the platform-queue registry is not part of `Inv`.  This file closes that gap with
the separate invariant `QExists` (`BbRe/Lemmas/SchedQExists*.lean`, proved for `State.init` and preserved
by every segment given `Inv`): every task without response names a registered size-class queue whose
platform queue is registered and lists that size class; an assigned task's worker is a worker of that
queue; every worker's queue is registered; a pending removal of a size-class queue (`scq.cleanupKey`)
exists at most once, only for a registered queue without workers — and `sizeClassQueue.remove` cancels
every queued task of the queue before it deletes it.

What remains excluded, and why: "platform queue without size classes" can still be returned by `Execute` /
`Synchronize` when the *request* names a platform queue that was registered with an empty list of size
classes.  `RegisterPredeclaredPlatformQueue` rejects that input (`len(sizeClasses) < 1`), the model's
`register` segment accepts it (second `example` at the end).  For states reached through `register`
segments the Go code accepts (`ReachableV`) the error is excluded as well (`no_sizeless_error`).
-/
namespace BbRe.Properties.C01Queues
open BbRe.Sched BbRe.Lemmas.SchedInv BbRe.Lemmas.SchedQ BbRe.Properties.C01

/-- **`QExists` in every reachable state** (the invariant itself; the readable consequences follow). -/
theorem qexists_reachable {s : State} (hr : Reachable s) : QExists False s :=
  BbRe.Lemmas.SchedQ.qexists_reachable hr

/-- **task → queue.**  In a reachable state every task without response (queued or assigned) names a
size-class queue `t.scq` that is registered, whose platform queue is registered and lists that size class
(`pq.sizeClasses`). -/
theorem task_queue_exists {s : State} (hr : Reachable s) {k : Nat} {t : Task} (ht : s.task? k = some t)
    (hl : t.response = none) :
    (∃ sq, s.scq? t.scq = some sq) ∧ (∃ pq, s.pq? t.scq.pq = some pq) ∧ t.scq.sc ∈ s.sizes t.scq.pq := by
  have hq := qexists_reachable hr
  have h1 : HasScq s t.scq := (taskOK_of_lookup hq ht hl).1
  exact ⟨(hasScq_iff s _).mp h1, (hasPq_iff s _).mp (hq.qp _ h1), (mem_sizes s _ _).mpr h1⟩

example : (queuedState.task? 1).map (fun t => (t.response.isNone, t.scq)) = some (true, q0) ∧
    (queuedState.scq? q0).isSome = true := by decide

/-- **an assigned task is held by a worker of its own size-class queue.** -/
theorem assigned_worker_in_own_queue {s : State} (hr : Reachable s) {k : Nat} {t : Task} {q : ScqId} {w : WId}
    (ht : s.task? k = some t) (hw : t.worker = some (q, w)) : q = t.scq := by
  have hl := (BbRe.Lemmas.SchedInv.inv_reachable hr).core.p3 k t ht (by rw [hw]; rfl)
  exact (taskOK_of_lookup (qexists_reachable hr) ht hl).2 q w hw

example : (assignedState.task? 1).map (fun t => (t.worker, t.scq)) = some (some (q0, w0), q0) := by decide

/-- **worker → queue.**  Every registered worker's size-class queue is registered (and so is its platform
queue). -/
theorem worker_queue_exists {s : State} (hr : Reachable s) {wk : Worker} (hw : wk ∈ s.workers) :
    (∃ sq, s.scq? wk.scq = some sq) ∧ ∃ pq, s.pq? wk.scq.pq = some pq := by
  have hq := qexists_reachable hr
  exact ⟨(hasScq_iff s _).mp (hq.wq wk hw), (hasPq_iff s _).mp (hq.qp _ (hq.wq wk hw))⟩

example : assignedState.workers.length = 1 := by decide

/-- **a size-class queue is only removed when it has no workers.**  A pending removal (`scq.cleanupKey`
active) exists at most once per queue, the queue is registered and no worker belongs to it. -/
theorem pending_removal_has_no_workers {s : State} (hr : Reachable s) {e : CleanupEntry} (he : e ∈ s.cleanup)
    {q : ScqId} (hk : e.kind = .scq q) :
    (∃ sq, s.scq? q = some sq) ∧ (∀ wk ∈ s.workers, wk.scq ≠ q) ∧
      ∀ e' ∈ s.cleanup, e'.kind = .scq q → e' = e := by
  have hq := qexists_reachable hr
  exact ⟨(hasScq_iff s _).mp (hq.cq e he q hk).1, (hq.cq e he q hk).2, fun e' he' hk' => hq.cu e' he' e he q hk' hk⟩

/-- a worker appears for an undeclared platform and disappears: the removal of its queue is pending -/
def removalPending : State := run (State.init cfg0)
  [ .sync h0 0 q0 [] 7 w0 .idle true, .syncWake h0 1 q0 w0 2, .touch h0 100 ]
example : removalPending.cleanup.any (fun e => e.kind = .scq q0) = true ∧ removalPending.workers = [] := by decide

/-- **No routing error.**  In a reachable state no segment fails with "complete: no platform queue",
"platform queue without size class queue", "getNextTask: no queue" or "syncWake: no queue"
(`routingErrors`): the size-class queue of the task being completed / of the synchronizing worker, its
platform queue and the largest size-class queue of that platform queue always exist. -/
theorem no_routing_error {s : State} (hr : Reachable s) (g : Seg) {e : String} (h : step s g = .error e) :
    e ∉ routingErrors := by
  have := wpR_of_error (step_q (ne := False) g (qexists_reachable hr) (BbRe.Lemmas.SchedInv.inv_reachable hr)
    (fun hf => hf.elim)) h
  intro hm; exact this (Or.inl hm)

/-- `no_panic` and `no_routing_error` together: every error of `step` in a reachable state is an oracle
mismatch, a segment that is not enabled, `bad-op`, or "platform queue without size classes". -/
theorem no_panic_no_routing {s : State} (hr : Reachable s) (g : Seg) {e : String} (h : step s g = .error e) :
    e ∈ okErrors.filter (fun x => x ∉ routingErrors) ∧ e ∉ panicErrors ∧ e ∉ internalErrors := by
  obtain ⟨a, b, c⟩ := no_panic hr g h
  exact ⟨List.mem_filter.mpr ⟨a, by simpa using no_routing_error hr g h⟩, b, c⟩

/-- errors do occur in reachable states (the hypothesis of the two theorems is satisfiable) -/
example : (match step assignedState (.syncWake h0 6 q0 w0 0) with | .error _ => true | .ok _ => false) = true := by
  decide

/-- the remaining error list, spelled out -/
example : okErrors.filter (fun x => x ∉ routingErrors) =
  [ "mismatch: parked worker exists but task was not handed to one",
    "mismatch: task handed to a worker that was not parked",
    "mismatch: no such parked stream",
    "mismatch: stream woke up without a stage change",
    "mismatch: worker was given a task that is not queued in its size-class queue",
    "mismatch: tasks are queued but the worker was not given one",
    "mismatch: no such worker",
    "mismatch: worker is not inside Synchronize",
    "mismatch: worker woke up although its wakeup channel is open",
    "mismatch: worker woke up without an undrain",
    "mismatch: worker is not waiting for an undrain",
    "mismatch: no such TerminateWorkers call",
    "mismatch: TerminateWorkers returned while a captured task is still executing",
    "bad-op",
    "platform queue without size classes" ] := by decide

/-- **No "platform queue without size classes" either, for the inputs the Go code accepts.**  In a state
reached through segments whose `register` inputs have a non-empty list of size classes (`ReachableV`;
`RegisterPredeclaredPlatformQueue` returns `InvalidArgument` otherwise) every platform queue has a
size-class queue, and no segment fails with "platform queue without size classes". -/
theorem no_sizeless_error {s : State} (hr : ReachableV s) (g : Seg) {e : String} (h : step s g = .error e) :
    e ≠ sizelessError ∧ e ∉ routingErrors ∧ ∀ p ∈ s.pqs, ∃ sq ∈ s.scqs, sq.id.pq = p.id := by
  have hq := qexists_reachableV hr
  have := wpR_of_error (step_q (ne := True) g hq (BbRe.Lemmas.SchedInv.inv_reachable hr.reachable)
    (fun _ => segValid_of_error h)) h
  refine ⟨fun he => this (Or.inr ⟨trivial, he⟩), fun hm => this (Or.inl hm), ?_⟩
  intro p hp
  obtain ⟨x, hx, hxe⟩ := hq.pn trivial p.id (List.mem_map.mpr ⟨p, hp, rfl⟩)
  obtain ⟨sq, hsq, he⟩ := List.mem_map.mp hx
  exact ⟨sq, hsq, by rw [he]; exact hxe⟩

/-- non-vacuity: the sample state is reachable through valid segments (and errors occur in it, see above) -/
example : ReachableV assignedState := by
  refine reachableV_run (reachableV_run (ReachableV.init cfg0) _ ?_) _ ?_
  · intro g hg
    simp only [List.mem_cons, List.not_mem_nil, or_false] at hg
    rcases hg with rfl | rfl <;> simp [SegValid]
  · intro g hg
    simp only [List.mem_cons, List.not_mem_nil, or_false] at hg
    subst hg; simp [SegValid, assignSeg]

/-- why the restriction is needed: after `register` with an empty list of size classes (which the Go code
rejects) an `Execute` for that platform fails with exactly this error -/
example : (match step (run (State.init cfg0) [.register 1 [] 7 [] 0 0]) (.exec h0 0 100 55 55 false [] 7 [1] 0) with
    | .error e => e == "platform queue without size classes"
    | .ok _ => false) = true := by decide

end BbRe.Properties.C01Queues
