import BbRe.Model.NfsShare
import BbRe.Model.NfsState
import BbRe.Lemmas.NfsShare
import BbRe.Lemmas.NfsInv
import BbRe.Lemmas.NfsProps
import BbRe.Lemmas.NfsClose
import BbRe.Lemmas.NfsExpiry
import BbRe.Lemmas.NfsScope
/-!
# C18 — NFSv4 open and lock state is accounted for and fully reclaimed

Theorems about `Model/NfsShare.lean` (the `shareCount` algebra) and
`Model/NfsState.lean` (the open/lock bookkeeping of both minor versions).
Helper lemmas: `BbRe/Lemmas/NfsShare.lean`, `BbRe/Lemmas/NfsInv*.lean`.
-/
namespace BbRe.Properties.C18
open BbRe.NfsShare BbRe.Lemmas.NfsShare BbRe.NfsState BbRe.Lemmas.NfsInv

/-! ## `share_algebra`

`Consistent sc hs`: the counters `readers` / `writers` equal the number of
holders (the open itself, every lock-owner file's cloned mask, every in-flight
I/O clone) whose mask has the read / write bit. -/

/-- `upgrade` of holder `cur` (at any position among the holders) keeps the
counters consistent, sets the holder's mask to `cur | new`, and returns as
overlap exactly the requested bits that somebody (possibly `cur` itself) already
held — the bits for which the leaf was opened redundantly. -/
theorem share_algebra_upgrade (sc : ShareCount) (cur new : Mask) (pre post : List Mask)
    (h : Consistent sc (pre ++ cur :: post)) :
    Consistent (upgrade sc cur new).1 (pre ++ cur.union new :: post) ∧
    (upgrade sc cur new).2.1 = cur.union new ∧
    ∀ bit, (upgrade sc cur new).2.2.get bit = true ↔
      (new.get bit = true ∧ ∃ m ∈ pre ++ cur :: post, m.get bit = true) :=
  upgrade_consistent sc cur new pre post h

example : Consistent ⟨2, 1⟩ ([Mask.read] ++ Mask.read :: [Mask.write]) ∧
    upgrade ⟨2, 1⟩ Mask.read Mask.both = (⟨2, 2⟩, Mask.both, Mask.both) := by decide

/-- `downgrade` of holder `cur` to a subset `new` never panics, keeps the counters
consistent, and returns exactly the bits nobody holds any more (for which the
leaf has to be closed). -/
theorem share_algebra_downgrade (sc : ShareCount) (cur new : Mask) (pre post : List Mask)
    (h : Consistent sc (pre ++ cur :: post)) (hsub : new.subset cur = true) :
    ∃ sc' z, downgrade sc cur new = some (sc', z) ∧
      Consistent sc' (pre ++ new :: post) ∧
      ∀ bit, z.get bit = true ↔
        (cur.get bit = true ∧ new.get bit = false ∧ ∀ m ∈ pre ++ new :: post, m.get bit = false) :=
  downgrade_consistent sc cur new pre post h hsub

example : Consistent ⟨2, 1⟩ ([] ++ Mask.both :: [Mask.read]) ∧ Mask.read.subset Mask.both = true ∧
    downgrade ⟨2, 1⟩ Mask.both Mask.read = some (⟨2, 0⟩, Mask.write) := by decide

/-- `clone` of a mask all of whose bits are held by somebody never panics and adds
one holder. -/
theorem share_algebra_clone (sc : ShareCount) (m : Mask) (hs : List Mask) (h : Consistent sc hs)
    (hm : ∀ bit, m.get bit = true → ∃ x ∈ hs, x.get bit = true) :
    ∃ sc', clone sc m = some sc' ∧ Consistent sc' (m :: hs) :=
  clone_consistent sc m hs h hm

example : Consistent ⟨2, 1⟩ [Mask.both, Mask.read] ∧ clone ⟨2, 1⟩ Mask.both = some ⟨3, 2⟩ ∧
    clone ⟨2, 0⟩ Mask.both = none := by decide

/-- A counter is positive iff some holder has the bit: the leaf is kept open for
an access bit exactly as long as somebody is entitled to it. -/
theorem share_algebra_positive_iff (sc : ShareCount) (hs : List Mask) (h : Consistent sc hs)
    (bit : Bool) : 0 < sc.get bit ↔ ∃ m ∈ hs, m.get bit = true :=
  consistent_pos_iff h bit

/-! ## The state machine

`Reachable s`: `s` is obtained from the initial state (either minor version, any
number of files) by any sequence of core actions — every interleaving of the
lock-held segments of OPEN, OPEN_DOWNGRADE, CLOSE, LOCK, LOCKU,
RELEASE_LOCKOWNER/FREE_STATEID, I/O begin/end, registration, expiry, and the
`VirtualOpen…`/`VirtualClose` calls between them.  Every protocol history is such
a sequence (`step s op = applyAll s (plan s op).acts` by definition), see
`reachable_of_ops`. -/

def Reachable (s : State) : Prop := ∃ ver n acts, s = applyAll (init ver n) acts

theorem reachable_of_ops (ver n : Nat) (ops : List Op) : Reachable (runOps (init ver n) ops) := by
  suffices h : ∀ (s : State), Reachable s → ∀ ops, Reachable (runOps s ops) from
    h _ ⟨ver, n, [], rfl⟩ ops
  intro s hs ops
  induction ops generalizing s with
  | nil => exact hs
  | cons op rest ih =>
    apply ih
    obtain ⟨v, m, acts, rfl⟩ := hs
    refine ⟨v, m, acts ++ (plan (applyAll (init v m) acts) op).1, ?_⟩
    simp [step, applyAll, List.foldl_append]

theorem reachable_inv {s : State} (h : Reachable s) : Inv s := by
  obtain ⟨ver, n, acts, rfl⟩ := h
  exact inv_reachable ver n acts

/-- A non-trivial reachable state used by the `example`s below: client 1 has file 0 open for
reading and writing (state ID 2) with a lock-owner file (state ID 4, lock-owner object 3) holding a
lock, and a READ in flight (request 7) whose share reservation was cloned; the second open of leaf 0
by request 5 is a temporary open not yet accounted to an open-owner file. -/
def exState : State :=
  applyAll (init 41 2)
    [.newClient 0 0, .confirmClient 1, .holdBegin 100 1, .vopen 9 0 Mask.both false false, .openNew 9 1 0,
     .loRegister 1 0, .addLofs 2 3, .lockSet 2 4 ⟨0, 10, 3, .excl⟩, .ioBegin 7 2 Mask.read false,
     .vopen 5 0 Mask.read false false]

example : Reachable exState := ⟨41, 2, _, rfl⟩

/-! ## `ledger_balance` and its consequences -/

/-- **Main invariant.**  In every reachable state, for every leaf and access bit, the number of
`VirtualOpen…` calls minus the number of `VirtualClose` calls equals the number of open-owner file
records on that leaf whose counter for the bit is positive (live, half-closed, or kept alive by I/O),
plus the pending `leavesToClose` entries with the bit, plus the temporary opens with the bit
(special-state-ID I/O in flight, OPENs between their `VirtualOpen` and their bookkeeping). -/
theorem ledger_balance (s : State) (h : Reachable s) (leaf : Nat) (bit : Bool) :
    opens s leaf bit =
      closes s leaf bit + heldFiles s leaf bit + heldPend s leaf bit + heldTemps s leaf bit := by
  have := (reachable_inv h).g.ledger leaf bit
  unfold held at this
  omega

example : opens exState 0 false = 2 ∧ closes exState 0 false = 0 ∧ heldFiles exState 0 false = 1 ∧
    heldTemps exState 0 false = 1 ∧ opens exState 0 true = 1 := by decide

/-- The counters the ledger refers to are exact: `readers` / `writers` of every record equal the
number of its holders (the open, its lock-owner files, in-flight I/O clones). -/
theorem share_counts_exact (s : State) (h : Reachable s) (f : OFile) (hf : f ∈ s.files) (bit : Bool) :
    f.count.get bit = holders s f bit :=
  (reachable_inv h).k.counts f hf bit

/-- `never_negative`: the server never closes a leaf more often than it opened it — in every
reachable state, hence (each event being appended by a step of its own) after every event. -/
theorem never_negative (s : State) (h : Reachable s) (leaf : Nat) (bit : Bool) :
    closes s leaf bit ≤ opens s leaf bit := by
  have := ledger_balance s h leaf bit
  omega

/-- `no_close_while_entitled`: while an open state ID (its `shareAccess`) or a lock state ID (the
share mask captured when the lock-owner file was created) of a record grants `bit`, or an accepted
READ/WRITE/SETATTR holding a clone of it is in flight, the leaf is open for `bit`:
opens − closes ≥ 1. -/
theorem no_close_while_entitled (s : State) (h : Reachable s) (f : OFile) (hf : f ∈ s.files) (bit : Bool)
    (hent : f.share.get bit = true ∨ (∃ l ∈ f.lofs, l.share.get bit = true) ∨
      (∃ io ∈ s.ios, io.sid = f.sid ∧ io.share.get bit = true)) :
    closes s f.file bit + 1 ≤ opens s f.file bit := by
  apply BbRe.Lemmas.NfsProps.open_while_held s (reachable_inv h) f hf bit
  rcases hent with hb | ⟨l, hl, hb⟩ | ⟨io, hio, hs, hb⟩
  · exact BbRe.Lemmas.NfsProps.holders_pos_of_share s f bit hb
  · exact BbRe.Lemmas.NfsProps.holders_pos_of_lofs s f bit l hl hb
  · exact BbRe.Lemmas.NfsProps.holders_pos_of_io s f bit io hio hs hb

example : ∃ f ∈ exState.files, f.share.get true = true ∧ (∃ l ∈ f.lofs, l.share.get false = true) ∧
    (∃ io ∈ exState.ios, io.sid = f.sid ∧ io.share.get false = true) := by decide

/-! ## `hold_protects` -/

/-- `holdCount` of every client record is the number of requests in flight that hold it (NFSv4.1
SEQUENCE compounds, NFSv4.0 OPEN transactions, NFSv4.0 I/O with a regular state ID); the idle list
contains exactly the records with `holdCount = 0`. -/
theorem hold_count_exact (s : State) (h : Reachable s) (c : Client) (hc : c ∈ s.clients) :
    c.hold = holdsOf s c.id ∧ (c.id ∈ s.idle ↔ c.hold = 0) := by
  have hi := (reachable_inv h).c
  refine ⟨hi.holdCount c hc, ?_⟩
  rw [hi.idleIff]
  constructor
  · rintro ⟨c', hc', hid, h0⟩
    have : c' = c := BbRe.Lemmas.NfsInvC.uniq_id _ hi.clNodup c' hc' c hc hid
    rw [← this]; exact h0
  · intro h0
    exact ⟨c, hc, rfl, h0⟩

/-- `hold_protects`: a record that is held is not in the idle list (the only place `enter()` expires
records from) and survives every action — expiry, re-registration (SETCLIENTID_CONFIRM /
CREATE_SESSION answer NFS4ERR_DELAY), DESTROY_CLIENTID (NFS4ERR_CLIENTID_BUSY) included. -/
theorem hold_protects (s : State) (h : Reachable s) (c : Client) (hc : c ∈ s.clients) (hh : 0 < c.hold)
    (a : Act) : c.id ∉ s.idle ∧ ∃ c' ∈ (apply s a).clients, c'.id = c.id :=
  ⟨BbRe.Lemmas.NfsInvC.held_not_idle s (reachable_inv h).c c hc hh, BbRe.Lemmas.NfsInvC.held_survives s a (reachable_inv h).c c hc hh⟩

example : ∃ c ∈ exState.clients, 0 < c.hold ∧ exState.idle = [] := by decide

/-- every hold is released: ending the request (`holdEnd` of its tag) gives the hold back, and the
record returns to the idle list when it was the last one -/
theorem hold_released (s : State) (h : Reachable s) (tag : Nat) :
    Inv (apply s (Act.holdEnd tag)) := inv_apply s _ (reachable_inv h)

/-! ## `open_file_resolvable` -/

/-- The opened-files pool has an entry for a handle iff some open-owner file that is still in the
maps (incl. half-closed 4.0 ones) refers to it, and `useCount` is their number.  (PUTFH consults the
pool first: `OpenedFilesPool.Resolve`.) -/
theorem open_file_resolvable (s : State) (h : Reachable s) (file : Nat) :
    ((∃ e ∈ s.pool, e.file = file) ↔ (∃ f ∈ s.files, f.live = true ∧ f.file = file)) ∧
    (∀ e ∈ s.pool, e.file = file → e.useCount = liveOn s file) := by
  have hp := (reachable_inv h).p
  refine ⟨⟨?_, ?_⟩, ?_⟩
  · rintro ⟨e, he, rfl⟩
    have := hp.poolCount e he
    have hpos : 0 < liveOn s e.file := by omega
    unfold liveOn at hpos
    obtain ⟨f, hf, hb⟩ := List.countP_pos_iff.1 hpos
    simp only [Bool.and_eq_true, beq_iff_eq] at hb
    exact ⟨f, hf, hb.1, hb.2⟩
  · rintro ⟨f, hf, hl, rfl⟩
    exact hp.poolHas f hf hl
  · rintro e he rfl
    exact (hp.poolCount e he).1

example : (∃ e ∈ exState.pool, e.file = 0 ∧ e.useCount = 1) ∧ ¬ (∃ e ∈ exState.pool, e.file = 1) := by decide

/-! ## `closed_means_closed` -/

/-- CLOSE — and what lease expiry and re-registration do to every file of the record —
(`closeAndFinalizeActs`: unlock and remove every lock-owner file, give up the open's own share
reservation, then the finalising step; for NFSv4.0 the last action runs at the owner's next
transaction, `closeStart_clears` / `finalize_removes` in `Lemmas/NfsClose.lean` are the two phases):
unless the server panics, the record has left the maps, has no share reservation and no lock-owner
file, and — if no I/O was in flight on it — no longer exists at all. -/
theorem closed_means_closed (s : State) (h : Reachable s) (sid : Nat) (f : OFile)
    (hf : s.getFile sid = some f) (hl : f.live = true)
    (hp : (applyAll s (closeAndFinalizeActs s sid)).panic = none) :
    (∀ x ∈ (applyAll s (closeAndFinalizeActs s sid)).files, x.sid = sid →
        x.live = false ∧ x.share = Mask.none ∧ x.lofs = []) ∧
    ((∀ io ∈ s.ios, io.sid ≠ sid) → ∀ x ∈ (applyAll s (closeAndFinalizeActs s sid)).files, x.sid ≠ sid) :=
  BbRe.Lemmas.NfsClose.close_removes s (reachable_inv h) sid f hf hl hp

/-- … and in every reachable state a record that has left the maps (closed, freed, expired, lost by
re-registration) is kept only while in-flight I/O refers to it, and its counters are exactly the
clones of that I/O: once the I/O has ended its term in the ledger is 0 and the record is gone. -/
theorem closed_only_io (s : State) (h : Reachable s) (x : OFile) (hx : x ∈ s.files) (hd : x.live = false) :
    x.share = Mask.none ∧ x.lofs = [] ∧ (∃ io ∈ s.ios, io.sid = x.sid) ∧
    ∀ bit, x.count.get bit = s.ios.countP (fun io => io.sid == x.sid && io.share.get bit) :=
  BbRe.Lemmas.NfsClose.dead_only_io s (reachable_inv h) x hx hd

-- CLOSE of the open of `exState` while its READ is in flight: no panic, the record survives, not live
example : (exState.getFile 2).isSome = true ∧ (applyAll exState (closeAndFinalizeActs exState 2)).panic = none ∧
    ((applyAll exState (closeAndFinalizeActs exState 2)).files.map (fun x => (x.sid, x.live, x.count))) =
      [(2, false, ⟨1, 0⟩)] := by decide

/-! ## `expiry_empties` -/

/-- From any reachable state in which nothing is in flight (`Quiescent`: no SEQUENCE / OPEN
transaction / I/O, no temporary open, no pending close), once every lease has run out
(`lastSeen + lease < now` for every record), the expiry loop of one `enter()` (`expireActs`)
followed by its `ll.closeAll()` leaves — unless the server panics (the known finding "lock-owner
shared by two open-owners" can make it) — no client record, idle-list entry, session holder,
open-owner, lock-owner, open-owner file, lock-owner file, pool entry or lock table, and for every leaf
and access bit exactly as many closes as opens. -/
theorem expiry_empties (s : State) (h : Reachable s) (hq : BbRe.Lemmas.NfsExpiry.Quiescent s)
    (hexp : ∀ c ∈ s.clients, c.lastSeen + s.lease < s.now) :
    let s1 := applyAll s (expireActs s)
    let s2 := applyAll s1 (List.replicate s1.pend.length Act.flush)
    s2.panic = none →
    s2.clients = [] ∧ s2.idle = [] ∧ s2.holders = [] ∧ s2.oowners = [] ∧ s2.lowners = [] ∧
    s2.files = [] ∧ s2.pool = [] ∧ s2.ios = [] ∧ s2.temps = [] ∧ s2.pend = [] ∧
    ∀ leaf bit, opens s2 leaf bit = closes s2 leaf bit :=
  BbRe.Lemmas.NfsExpiry.expiry_empties s (reachable_inv h) hq hexp

/-- Whenever no client record is left (by expiry, DESTROY_CLIENTID, …) nothing else is. -/
theorem no_clients_nothing_retained (s : State) (h : Reachable s) (hc : s.clients = []) :
    s.idle = [] ∧ s.holders = [] ∧ s.oowners = [] ∧ s.lowners = [] ∧ s.pool = [] ∧
    (∀ f ∈ s.files, f.live = false) ∧ (s.ios = [] → s.files = []) ∧
    (s.ios = [] → s.pend = [] → s.temps = [] → ∀ leaf bit, opens s leaf bit = closes s leaf bit) :=
  BbRe.Lemmas.NfsExpiry.no_clients_empty s (reachable_inv h) hc

-- hypotheses of `expiry_empties` are met by a state with a client, an open file and a held lock
example : Reachable BbRe.Lemmas.NfsExpiry.demoState := ⟨41, 1, _, rfl⟩

/-! ## `stateid_scope`

About the state-ID resolution of the protocol layer of `Model/NfsState.lean`: `findOpen`
(`getOpenOwnerFileByStateID`), `findLock` (`getLockOwnerFileByStateID`), `ioTarget`
(`getOpenedLeafWithRegularStateID`), `cmpSeq` (`nfs40/nfs41CompareStateSeqID`), `nextSeq`
(`nextSeqID` / `incrementSeqID`); for every state `s` whatsoever (no reachability needed). -/

open BbRe.Lemmas.NfsScope in
/-- A regular open state ID is honoured only if its `other` maps to an open-owner file that is
still in the maps, of the presenting client (4.1: the incarnation of the session the request came
through; 4.0 state IDs are server-wide), the current file handle is that file's handle, and the
seqid comparison passes; 4.0 additionally: not half-closed, open-owner confirmed. -/
theorem stateid_scope_open (s : State) (q sid sseq fh : Nat) (allowUnconfirmed : Bool)
    (hok : (findOpen s q sid sseq fh allowUnconfirmed).st = St.ok) :
    ∃ f, (findOpen s q sid sseq fh allowUnconfirmed).f = some f ∧
      OpenScope s q sid sseq fh allowUnconfirmed f :=
  findOpen_ok s q sid sseq fh allowUnconfirmed hok

open BbRe.Lemmas.NfsScope in
/-- The same for lock state IDs: a lock-owner file of a live open-owner file of the presenting
client, on the current file handle, with a passing seqid. -/
theorem stateid_scope_lock (s : State) (q lsid lsseq fh : Nat)
    (hok : (findLock s q lsid lsseq fh).st = St.ok) :
    ∃ f l, (findLock s q lsid lsseq fh).f = some f ∧ (findLock s q lsid lsseq fh).l = some l ∧
      LockScope s q lsid lsseq fh f l :=
  findLock_ok s q lsid lsseq fh hok

open BbRe.Lemmas.NfsScope in
/-- READ / WRITE / SETATTR with a regular state ID clone a share reservation only from the file the
state ID is in scope of, and only if the wanted bits are granted: by the open's current
`shareAccess` for an open state ID, by the mask captured at creation for a lock state ID. -/
theorem stateid_scope_io (s : State) (q sid sseq fh : Nat) (want : Mask) (f : OFile)
    (h : ioTarget s q sid sseq fh want = (St.ok, some f)) :
    (OpenScope s q sid sseq fh false f ∧ want.subset f.share = true) ∨
    (∃ l, LockScope s q sid sseq fh f l ∧ want.subset l.share = true) :=
  ioTarget_ok s q sid sseq fh want f h

open BbRe.Lemmas.NfsScope in
/-- … and a state ID in scope that lacks the wanted bits gets NFS4ERR_OPENMODE: an open state ID by
its current `shareAccess`; a lock state ID by its captured mask only (whatever the open's
`shareAccess` has become since). -/
theorem stateid_scope_openmode (s : State) (q sid sseq fh : Nat) (want : Mask) (f : OFile) :
    ((findOpen s q sid sseq fh false).st = St.ok → (findOpen s q sid sseq fh false).f = some f →
      want.subset f.share = false → ioTarget s q sid sseq fh want = (St.openmode, none)) ∧
    (∀ l, (findOpen s q sid sseq fh false).st = St.badStateid → (findLock s q sid sseq fh).st = St.ok →
      (findLock s q sid sseq fh).f = some f → (findLock s q sid sseq fh).l = some l →
      ioTarget s q sid sseq fh want = if want.subset l.share then (St.ok, some f) else (St.openmode, none)) :=
  ⟨ioTarget_openmode_open s q sid sseq fh want f, fun l => ioTarget_openmode_lock s q sid sseq fh want f l⟩

open BbRe.Lemmas.NfsScope in
/-- The seqid comparison: accepted iff equal to the server's (4.1: or 0 = "current"); otherwise
NFS4ERR_BAD_STATEID iff the client's value is 1 … 2^31-1 ahead modulo 2^32 (a seqid from the
future), else NFS4ERR_OLD_STATEID. -/
theorem stateid_seq_compare (ver c srv : Nat) :
    (cmpSeq ver c srv = St.ok ↔ (c = srv ∨ (ver = 41 ∧ c = 0))) ∧
    (¬ (c = srv ∨ (ver = 41 ∧ c = 0)) →
      (cmpSeq ver c srv = St.badStateid ↔ (c + 4294967296 - srv) % 4294967296 < 2147483648) ∧
      (cmpSeq ver c srv = St.oldStateid ↔ ¬ (c + 4294967296 - srv) % 4294967296 < 2147483648)) :=
  ⟨cmpSeq_ok_iff ver c srv, cmpSeq_not_ok ver c srv⟩

open BbRe.Lemmas.NfsScope in
/-- Wrap-around: seqids go from 2^32-1 to 1 (never 0), and across the wrap the successor of the
server's value is still "future" (BAD_STATEID) and the predecessor still "old" (OLD_STATEID), in
both minor versions. -/
theorem stateid_seq_wraparound (x : Nat) (h1 : 1 ≤ x) (hx : x < 4294967296) :
    nextSeq x ≠ 0 ∧ nextSeq x < 4294967296 ∧ (x = 4294967295 → nextSeq x = 1) ∧
    cmpSeq 40 (nextSeq x) x = St.badStateid ∧ cmpSeq 40 x (nextSeq x) = St.oldStateid ∧
    cmpSeq 41 (nextSeq x) x = St.badStateid ∧ cmpSeq 41 x (nextSeq x) = St.oldStateid :=
  ⟨(nextSeq_spec x hx).1, (nextSeq_spec x hx).2.1, (nextSeq_spec x hx).2.2.1, cmpSeq_next x h1 hx⟩

-- non-vacuity: in `exState` (4.1) the open state ID 2 on file 0 is in scope for the session's client,
-- grants READ and WRITE; its lock state ID 4 too; on the other file it is refused
example : (findOpen exState 100 2 0 1 false).st = St.ok ∧ (findLock exState 100 4 0 1).st = St.ok ∧
    (findOpen exState 100 2 0 3 false).st = St.badStateid ∧ (findOpen exState 100 4 0 1 false).st = St.badStateid ∧
    (ioTarget exState 100 2 0 1 Mask.write).1 = St.ok ∧ (ioTarget exState 100 4 0 1 Mask.read).1 = St.ok ∧
    (ioTarget exState 100 2 5 1 Mask.read).1 = St.badStateid ∧ (ioTarget exState 100 2 0 3 Mask.read).1 = St.badStateid := by
  decide
example : cmpSeq 40 1 4294967295 = St.badStateid ∧ cmpSeq 40 4294967295 1 = St.oldStateid ∧
    cmpSeq 41 0 7 = St.ok ∧ cmpSeq 40 0 7 = St.oldStateid := by decide

end BbRe.Properties.C18
