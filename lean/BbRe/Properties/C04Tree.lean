import BbRe.Lemmas.SchedTreeLock
import BbRe.Lemmas.SchedInvParked
/-!
# C04 (tree layer) — the invocation tree as state refines the scheduler model

`Model/SchedTree.lean` adds to the segment model `Model/Sched.lean` the tree of invocations of every
size-class queue as `pkg/scheduler/in_memory_build_queue.go` maintains it, and replaces the oracle for the
two hand-out decisions by a *check*: the observed choice must be in the admissible set computed from the
tree (`Fair.specPick` for `assignNextQueuedTask`, `handoffAdm` for `task.schedule`).  The theorems here are
about every reachable state of that layer / every run (`TReachable`, `trun`): all interleavings of segments,
all analyzer answers, all choices.
-/
namespace BbRe.Properties.C04Tree
open BbRe.Sched BbRe.SchedTree BbRe.Lemmas.SchedTree

/-- **refines_sched.**  The projection to `Sched.State` of a tree-layer step is `Sched.step` of the
projection, with hints := the choice made (the tree layer only rejects more segments: those whose hand-out
decision is not admissible for its tree). -/
theorem refines_sched (ts ts' : TState) (g : TSeg) (h : tstep ts g = .ok ts') :
    step ts.s g.seg = .ok ts'.s :=
  tstep_ref ts ts' g h

/-- The projection of a reachable state of the tree layer is a reachable state of `Model/Sched.lean`. -/
theorem refines_sched_reachable (ts : TState) (h : TReachable ts) : Reachable ts.s := by
  induction h with
  | init cfg => exact Reachable.init cfg
  | step g _ hs ih => exact Reachable.step g.seg ih (refines_sched _ _ g hs)

/-- Hence every theorem proved for all reachable states of `Model/Sched.lean` (C01–C03, C05, C06, C07a)
holds for the `Sched` component of every reachable state of the tree layer. -/
theorem sched_theorems_transfer (P : State → Prop) (hP : ∀ s, Reachable s → P s) (ts : TState)
    (h : TReachable ts) : P ts.s :=
  hP ts.s (refines_sched_reachable ts h)

/-- Runs: the projection of a tree-layer run is the `Sched` run of the accepted segments. -/
theorem refines_sched_run (ts : TState) (gs : List TSeg) :
    ∃ gs' : List Seg, gs'.Sublist (gs.map (·.seg)) ∧ run ts.s gs' = (trun ts gs).s := by
  induction gs generalizing ts with
  | nil => exact ⟨[], List.Sublist.refl _, rfl⟩
  | cons g rest ih =>
    unfold trun
    cases hg : tstep ts g with
    | error e =>
      obtain ⟨gs', hsub, hrun⟩ := ih ts
      exact ⟨gs', List.Sublist.cons _ hsub, hrun⟩
    | ok ts1 =>
      obtain ⟨gs', hsub, hrun⟩ := ih ts1
      refine ⟨g.seg :: gs', by simpa using hsub.cons_cons g.seg, ?_⟩
      simp only [run, refines_sched ts ts1 g hg]
      exact hrun

/-- **handoff_and_pick_admissible.**  The ghost log `decisions` is parallel to `State.assigned` (one
entry per assignment ever made to a real worker, same worker and task), and every entry was in the
admissible set computed from the tree of that moment: a task taken from the queue
(`assignNextQueuedTask`) hands out an operation of `Fair.specPick` on the snapshot of the worker's
size-class queue with the worker's last invocation, stickiness starting times and limits; a task handed
to a parked worker (`task.schedule`) goes to a member of `handoffAdm` for the task's invocations.  This
ties the snapshot theorems of `Properties/C04.lean` to runs. -/
theorem handoff_and_pick_admissible (ts : TState) (h : TReachable ts) :
    ts.decisions.map dkey = ts.s.assigned ∧
    ∀ d ∈ ts.decisions,
      match d with
      | .pick _ _ _ tree view op retained => (op, retained) ∈ Fair.specPick tree view
      | .handoff q w _ nodes invs => w ∈ handoffAdm nodes q invs := by
  have hl := lock_reachable h
  refine ⟨hl.1, fun d hd => ?_⟩
  have := hl.2 d hd
  cases d <;> exact this

/-- **no_queued_while_parked** (C04), scheduler-level form: in every reachable state, while a worker is
parked in a size-class queue no task of that queue is queued, and every parked worker is undrained and
not terminating. -/
theorem no_queued_while_parked (ts : TState) (h : TReachable ts) :
    ∀ wk ∈ ts.s.workers, wk.parked = true →
      queuedTasks ts.s wk.scq = [] ∧ wk.terminating = false ∧
      (∀ sq, ts.s.scq? wk.scq = some sq → isDrained sq wk = false) :=
  BbRe.Lemmas.SchedInv.parkedOK_reachable (refines_sched_reachable ts h)

end BbRe.Properties.C04Tree
