import BbRe.Lemmas.SchedTreeLock
import BbRe.Lemmas.SchedInvParked
import BbRe.Lemmas.SchedTreeRead
import BbRe.Lemmas.SchedTreePrioStep
/-!
# C04 (tree layer) — the invocation tree as state refines the scheduler model

`Model/SchedTree.lean` adds to the segment model `Model/Sched.lean` the tree of invocations of every
size-class queue as `pkg/scheduler/in_memory_build_queue.go` maintains it, and replaces the oracle for the
two hand-out decisions by a *check*: the observed choice must be in the admissible set computed from the
tree (`Fair.specPick` for `assignNextQueuedTask`, `handoffAdm` for `task.schedule`).  The theorems here are
about every reachable state of that layer / every run (`TReachable`, `trun`): all interleavings of segments,
all analyzer answers, all choices.
-/
namespace BbRe.Properties.C04Tree
open BbRe.Sched BbRe.SchedTree BbRe.Lemmas.SchedTree

/-- **refines_sched.**  The projection to `Sched.State` of a tree-layer step is `Sched.step` of the
projection, with hints := the choice made (the tree layer only rejects more segments: those whose hand-out
decision is not admissible for its tree). -/
theorem refines_sched (ts ts' : TState) (g : TSeg) (h : tstep ts g = .ok ts') :
    step ts.s g.seg = .ok ts'.s :=
  tstep_ref ts ts' g h

/-- The projection of a reachable state of the tree layer is a reachable state of `Model/Sched.lean`. -/
theorem refines_sched_reachable (ts : TState) (h : TReachable ts) : Reachable ts.s := by
  induction h with
  | init cfg => exact Reachable.init cfg
  | step g _ hs ih => exact Reachable.step g.seg ih (refines_sched _ _ g hs)

/-- Hence every theorem proved for all reachable states of `Model/Sched.lean` (C01–C03, C05, C06, C07a)
holds for the `Sched` component of every reachable state of the tree layer. -/
theorem sched_theorems_transfer (P : State → Prop) (hP : ∀ s, Reachable s → P s) (ts : TState)
    (h : TReachable ts) : P ts.s :=
  hP ts.s (refines_sched_reachable ts h)

/-- Runs: the projection of a tree-layer run is the `Sched` run of the accepted segments. -/
theorem refines_sched_run (ts : TState) (gs : List TSeg) :
    ∃ gs' : List Seg, gs'.Sublist (gs.map (·.seg)) ∧ run ts.s gs' = (trun ts gs).s := by
  induction gs generalizing ts with
  | nil => exact ⟨[], List.Sublist.refl _, rfl⟩
  | cons g rest ih =>
    unfold trun
    cases hg : tstep ts g with
    | error e =>
      obtain ⟨gs', hsub, hrun⟩ := ih ts
      exact ⟨gs', List.Sublist.cons _ hsub, hrun⟩
    | ok ts1 =>
      obtain ⟨gs', hsub, hrun⟩ := ih ts1
      refine ⟨g.seg :: gs', by simpa using hsub.cons_cons g.seg, ?_⟩
      simp only [run, refines_sched ts ts1 g hg]
      exact hrun

/-- **handoff_and_pick_admissible.**  The ghost log `decisions` is parallel to `State.assigned` (one
entry per assignment ever made to a real worker, same worker and task), and every entry was in the
admissible set computed from the tree of that moment: a task taken from the queue
(`assignNextQueuedTask`) hands out an operation of `Fair.specPick` on the snapshot of the worker's
size-class queue with the worker's last invocation, stickiness starting times and limits; a task handed
to a parked worker (`task.schedule`) goes to a member of `handoffAdm` for the task's invocations.  This
ties the snapshot theorems of `Properties/C04.lean` to runs. -/
theorem handoff_and_pick_admissible (ts : TState) (h : TReachable ts) :
    ts.decisions.map dkey = ts.s.assigned ∧
    ∀ d ∈ ts.decisions,
      match d with
      | .pick _ _ _ tree view op retained => (op, retained) ∈ Fair.specPick tree view
      | .handoff q w _ nodes invs => w ∈ handoffAdm nodes q invs := by
  have hl := lock_reachable h
  refine ⟨hl.1, fun d hd => ?_⟩
  have := hl.2 d hd
  cases d <;> exact this

/-- **no_queued_while_parked** (C04), scheduler-level form: in every reachable state, while a worker is
parked in a size-class queue no task of that queue is queued, and every parked worker is undrained and
not terminating. -/
theorem no_queued_while_parked (ts : TState) (h : TReachable ts) :
    ∀ wk ∈ ts.s.workers, wk.parked = true →
      queuedTasks ts.s wk.scq = [] ∧ wk.terminating = false ∧
      (∀ sq, ts.s.scq? wk.scq = some sq → isDrained sq wk = false) :=
  BbRe.Lemmas.SchedInv.parkedOK_reachable (refines_sched_reachable ts h)

/-- **tree_inv.**  In every reachable state the invocation trees are exactly what the task, operation and
worker tables say (`Lemmas/SchedTreeRead.lean`, `TreeInv`): one invocation per path with its parent, a root
per size-class queue; `queuedOperations` = the operations of QUEUED tasks in that invocation (so the queued
flag of a task and the membership of its operations in `queuedOperations` agree); `queuedChildren` = the
children with a queued operation in their subtree; `idleSynchronizingWorkers` = the workers blocked in
`Synchronize` whose last invocation this is; `idleSynchronizingWorkersChildren` = the children with such a
worker in their subtree; `executingWorkers[w]` = the number of operations in the subtree of tasks executing on
`w` (no zero entries, nothing left of the temporary worker of `task.complete`); `idleWorkersCount` = the
number of workers whose last invocation is in the subtree; a non-root invocation exists iff something of the
above is recorded at or below it (`getOrCreateInvocation` / `removeIfEmpty`).

`firstQueuedOperationPriority` (second conjunct): for a non-root invocation with queued operations of its own
the field is the least priority among them (`queuedOperations[0].priority`; the root is never refreshed).
For an invocation WITHOUT directly queued operations nothing is an invariant of the Go code: the field is a
copy of the value its then-first queued child had when `updateFirstOperationPriority` last ran on the path,
and `incrementExecutingWorkersCount` / `decrementExecutingWorkersCount` reorder `queuedChildren` without
refreshing it (see notes/findings/C04-stale-first-priority.md: the documented meaning "priority of the
operation expected to be executed next" is violated on the real scheduler within 6 segments; the model
reproduces the real values, which the harness compares after every segment). -/
theorem tree_inv (ts : TState) (h : TReachable ts) :
    TreeInv ts ∧ ∀ n ∈ ts.nodes, n.path ≠ [] → n.qops ≠ [] → n.prio = minPrio (n.qops.map ts.prioOf) :=
  ⟨(tinv_reachable h).treeInv, prio_reachable h⟩

/-- the executable checker of `Model/SchedTreeCheck.lean` that the driver runs after every segment
(`treecheck`) tests the clauses of the invariant behind `tree_inv`; the invariant itself, in the form the
lemmas use it (`TInv`: the invariant of `Model/Sched.lean`, `TreeOK` for the four bags, the coupling `Side`) -/
theorem tree_inv_raw (ts : TState) (h : TReachable ts) : TInv ts := tinv_reachable h

/-- **no_queued_while_parked**, tree form: while a worker is enqueued in `idleSynchronizingWorkers` of some
invocation of a size-class queue (or, equivalently, some `idleSynchronizingWorkersChildren` is non-empty),
no invocation of that queue has queued operations or queued children. -/
theorem no_queued_while_parked_tree (ts : TState) (h : TReachable ts) :
    ∀ n ∈ ts.nodes, n.hasParked = true → ∀ m ∈ ts.nodes, m.scq = n.scq → m.isQueued = false := by
  intro n hn hp m hm hq
  have hI := tinv_reachable h
  have hT := hI.treeInv
  -- a worker is parked at or below `n`
  have hpk : ∃ p w, ParkedAt ts n.scq p w := by
    unfold Node.hasParked at hp
    cases hpl : n.parked with
    | cons w r =>
      exact ⟨n.path, w, ((hT.idleSynchronizingWorkers n hn).2 w).mp (by rw [hpl]; exact List.mem_cons_self)⟩
    | nil =>
      cases hkl : n.ikids with
      | nil => rw [hpl, hkl] at hp; simp at hp
      | cons k r =>
        obtain ⟨p, w, hw, _⟩ := ((hT.idleSynchronizingWorkersChildren n hn).2 k).mp (by rw [hkl]; exact List.mem_cons_self)
        exact ⟨p, w, hw⟩
  obtain ⟨p, w, ⟨wk, hwk, hwp⟩, _⟩ := hpk
  rw [BbRe.Lemmas.SchedInv.worker?_def] at hwk
  have hkey := BbRe.Lemmas.SchedInv.wfind_key hwk
  have hnq := (no_queued_while_parked ts h wk (BbRe.Lemmas.SchedInv.wfind_mem hwk) hwp).1
  rw [hkey.1] at hnq
  have hnone : ∀ p' o, ¬ QueuedAt ts n.scq p' o := by
    rintro p' o ⟨k, t, hk, hqd, hs, ho, _⟩
    rw [BbRe.Lemmas.SchedInv.task?_def] at hk
    have : t ∈ queuedTasks ts.s n.scq := by
      unfold queuedTasks
      have hrw := hI.inv.core.q1 k t hk hqd
      refine List.mem_map.mpr ⟨(k, t), List.mem_filter.mpr ⟨BbRe.Lemmas.SchedInv.mem_of_alookup hk, ?_⟩, rfl⟩
      simp [hs, hqd, hrw.1, hrw.2]
    rw [hnq] at this; cases this
  cases hmq : m.isQueued with
  | false => rfl
  | true =>
    exfalso
    unfold Node.isQueued at hmq
    cases hql : m.qops with
    | cons o r =>
      exact hnone _ o (hq ▸ ((hT.queuedOperations m hm).2 o).mp (by rw [hql]; exact List.mem_cons_self))
    | nil =>
      cases hkl : m.qkids with
      | nil => rw [hql, hkl] at hmq; simp at hmq
      | cons k r =>
        obtain ⟨p', o, ho, _⟩ := ((hT.queuedChildren m hm).2 k).mp (by rw [hkl]; exact List.mem_cons_self)
        exact hnone p' o (hq ▸ ho)

end BbRe.Properties.C04Tree
