import BbRe.Lemmas.SchedTreeLock
import BbRe.Lemmas.SchedInvParked
import BbRe.Lemmas.SchedTreeRead
import BbRe.Lemmas.SchedTreePrioStep
import BbRe.Lemmas.SchedTreePrioFixStep
import BbRe.Lemmas.SchedTreeTrue
/-!
# C04 (tree layer) — the invocation tree as state refines the scheduler model

`Model/SchedTree.lean` adds to the segment model `Model/Sched.lean` the tree of invocations of every
size-class queue as `pkg/scheduler/in_memory_build_queue.go` maintains it, and replaces the oracle for the
two hand-out decisions by a *check*: the observed choice must be in the admissible set computed from the
tree (`Fair.specPick` for `assignNextQueuedTask`, `handoffAdm` for `task.schedule`).  The theorems here are
about every reachable state of that layer / every run (`TReachable`, `trun`): all interleavings of segments,
all analyzer answers, all choices.
-/
namespace BbRe.Properties.C04Tree
open BbRe BbRe.Sched BbRe.SchedTree BbRe.Lemmas.SchedTree

/-- **refines_sched.**  The projection to `Sched.State` of a tree-layer step is `Sched.step` of the
projection, with hints := the choice made (the tree layer only rejects more segments: those whose hand-out
decision is not admissible for its tree). -/
theorem refines_sched (ts ts' : TState) (g : TSeg) (h : tstep ts g = .ok ts') :
    step ts.s g.seg = .ok ts'.s :=
  tstep_ref ts ts' g h

/-- The projection of a reachable state of the tree layer is a reachable state of `Model/Sched.lean`. -/
theorem refines_sched_reachable (ts : TState) (h : TReachable ts) : Reachable ts.s := by
  induction h with
  | init cfg => exact Reachable.init cfg
  | step g _ hs ih => exact Reachable.step g.seg ih (refines_sched _ _ g hs)

/-- Hence every theorem proved for all reachable states of `Model/Sched.lean` (C01–C03, C05, C06, C07a)
holds for the `Sched` component of every reachable state of the tree layer. -/
theorem sched_theorems_transfer (P : State → Prop) (hP : ∀ s, Reachable s → P s) (ts : TState)
    (h : TReachable ts) : P ts.s :=
  hP ts.s (refines_sched_reachable ts h)

/-- Runs: the projection of a tree-layer run is the `Sched` run of the accepted segments. -/
theorem refines_sched_run (ts : TState) (gs : List TSeg) :
    ∃ gs' : List Seg, gs'.Sublist (gs.map (·.seg)) ∧ run ts.s gs' = (trun ts gs).s := by
  induction gs generalizing ts with
  | nil => exact ⟨[], List.Sublist.refl _, rfl⟩
  | cons g rest ih =>
    unfold trun
    cases hg : tstep ts g with
    | error e =>
      obtain ⟨gs', hsub, hrun⟩ := ih ts
      exact ⟨gs', List.Sublist.cons _ hsub, hrun⟩
    | ok ts1 =>
      obtain ⟨gs', hsub, hrun⟩ := ih ts1
      refine ⟨g.seg :: gs', by simpa using hsub.cons_cons g.seg, ?_⟩
      simp only [run, refines_sched ts ts1 g hg]
      exact hrun

/-- **handoff_and_pick_admissible.**  The ghost log `decisions` is parallel to `State.assigned` (one
entry per assignment ever made to a real worker, same worker and task), and every entry was in the
admissible set computed from the tree of that moment: a task taken from the queue
(`assignNextQueuedTask`) hands out an operation of `Fair.specPick` on the snapshot of the worker's
size-class queue with the worker's last invocation, stickiness starting times and limits; a task handed
to a parked worker (`task.schedule`) goes to a member of `handoffAdm` for the task's invocations.  This
ties the snapshot theorems of `Properties/C04.lean` to runs. -/
theorem handoff_and_pick_admissible (ts : TState) (h : TReachable ts) :
    ts.decisions.map dkey = ts.s.assigned ∧
    ∀ d ∈ ts.decisions,
      match d with
      | .pick _ _ _ tree view op retained => (op, retained) ∈ Fair.specPick tree view
      | .handoff q w _ nodes invs => w ∈ handoffAdm nodes q invs := by
  have hl := lock_reachable h
  refine ⟨hl.1, fun d hd => ?_⟩
  have := hl.2 d hd
  cases d <;> exact this

/-- **no_queued_while_parked** (C04), scheduler-level form: in every reachable state, while a worker is
parked in a size-class queue no task of that queue is queued, and every parked worker is undrained and
not terminating. -/
theorem no_queued_while_parked (ts : TState) (h : TReachable ts) :
    ∀ wk ∈ ts.s.workers, wk.parked = true →
      queuedTasks ts.s wk.scq = [] ∧ wk.terminating = false ∧
      (∀ sq, ts.s.scq? wk.scq = some sq → isDrained sq wk = false) :=
  BbRe.Lemmas.SchedInv.parkedOK_reachable (refines_sched_reachable ts h)

/-- **tree_inv.**  In every reachable state the invocation trees are exactly what the task, operation and
worker tables say (`Lemmas/SchedTreeRead.lean`, `TreeInv`): one invocation per path with its parent, a root
per size-class queue; `queuedOperations` = the operations of QUEUED tasks in that invocation (so the queued
flag of a task and the membership of its operations in `queuedOperations` agree); `queuedChildren` = the
children with a queued operation in their subtree; `idleSynchronizingWorkers` = the workers blocked in
`Synchronize` whose last invocation this is; `idleSynchronizingWorkersChildren` = the children with such a
worker in their subtree; `executingWorkers[w]` = the number of operations in the subtree of tasks executing on
`w` (no zero entries, nothing left of the temporary worker of `task.complete`); `idleWorkersCount` = the
number of workers whose last invocation is in the subtree; a non-root invocation exists iff something of the
above is recorded at or below it (`getOrCreateInvocation` / `removeIfEmpty`).

`firstQueuedOperationPriority` (second conjunct; for the scheduler with the fix of
notes/findings/C04-stale-first-priority.md — every reachable state has `legacyPrio = false`): every non-root
invocation caches exactly what `updateFirstOperationPriority` would store now: the least priority of its own
queued operations when it has any, otherwise the cached priority of its first queued child (`bestKid`: the
first child in `queuedChildren` that no other queued child is `childLess` than — in the code
`queuedChildren[0]`, which is such a child; where several such children tie with different priorities the
heap layout decides, see the assumptions).  Unfolding the recursion, the cache of an invocation with queued
work is the priority of the operation the documented walk hands out next below it (`true_priorities` below).
The root's cache is never read and only refreshed by increment/decrementExecutingWorkersCount. -/
theorem tree_inv (ts : TState) (h : TReachable ts) :
    TreeInv ts ∧ ts.legacyPrio = false ∧
    ∀ n ∈ ts.nodes, n.path ≠ [] →
      (n.qops ≠ [] → n.prio = minPrio (n.qops.map ts.prioOf)) ∧
      (n.qops = [] → n.qkids ≠ [] → ∃ c, bestKid ts.nodes n = some c ∧ n.prio = c.prio) := by
  refine ⟨(tinv_reachable h).treeInv, legacy_reachable h, ?_⟩
  obtain ⟨hfix, hnd, hqk⟩ := fix_reachable h
  intro n hn hp
  have hf := hfix n hn hp
  constructor
  · intro hq
    rw [← hf]
    unfold updPrio
    have : (!n.qops.isEmpty) = true := by
      cases hx : n.qops with
      | nil => exact absurd hx hq
      | cons _ _ => rfl
    rw [if_pos this]
  · intro hq hk
    -- the first queued child exists
    have hne : kidsOf ts.nodes n ≠ [] := by
      cases hx : n.qkids with
      | nil => exact absurd hx hk
      | cons k r =>
        obtain ⟨c, hc, _⟩ := hqk n hn k (by rw [hx]; exact List.mem_cons_self)
        unfold kidsOf
        rw [hx, List.filterMap_cons, hc]
        exact List.cons_ne_nil _ _
    have hbk : ∃ c, bestKid ts.nodes n = some c := by
      unfold bestKid
      simp only []
      split
      · exact ⟨_, rfl⟩
      · cases hx : kidsOf ts.nodes n with
        | nil => exact absurd hx hne
        | cons a r => exact ⟨a, rfl⟩
    obtain ⟨c, hc⟩ := hbk
    refine ⟨c, hc, ?_⟩
    rw [← hf]
    unfold updPrio
    have : (!n.qops.isEmpty) = false := by rw [hq]; rfl
    rw [this, hc]
    rfl

/-- what `bestKid` is: one of the invocations listed in `queuedChildren`, and — whenever the queued children
have a least element for `childLess` at all — one that no queued child is `childLess` than -/
theorem bestKid_spec (ns : List Node) (n c : Node) (h : bestKid ns n = some c) :
    c ∈ kidsOf ns n ∧
    ((∃ g ∈ kidsOf ns n, ∀ g' ∈ kidsOf ns n, childLess g' g = false) → ∀ g' ∈ kidsOf ns n, childLess g' c = false) := by
  unfold bestKid at h
  simp only [] at h
  split at h
  · rename_i g hg
    cases h
    have := List.find?_some hg
    refine ⟨List.mem_of_find?_eq_some hg, fun _ g' hg' => ?_⟩
    have h2 := List.all_eq_true.mp this g' hg'
    simpa using h2
  · rename_i hnone
    refine ⟨List.mem_of_mem_head? h, ?_⟩
    rintro ⟨g, hg, hmin⟩
    exfalso
    have := List.find?_eq_none.mp hnone g hg
    apply this
    exact List.all_eq_true.mpr (fun g' hg' => by rw [hmin g' hg']; rfl)

/-- the weaker clause that holds before AND after the fix (any `legacyPrio`): own queued operations determine
the cache -/
theorem tree_inv_own_priority (ts : TState) (h : TReachable ts) :
    ∀ n ∈ ts.nodes, n.path ≠ [] → n.qops ≠ [] → n.prio = minPrio (n.qops.map ts.prioOf) :=
  prio_reachable h

/-- **true_priorities.**  Every queue pick ever made was admissible for a tree whose stored priorities are
the TRUE ones: the snapshot recorded with the decision (`handoff_and_pick_admissible`: the pick is in
`Fair.specPick` of it) is `truthful` — every invocation below the root caches
`truePrio` = the least priority of its own queued operations, else the cached priority of the first queued
child that no other queued child is `Fair.childLess` than — and `queuedLive` (`queued` lists existing, queued
children), so that (`Lemmas/SchedTreeTrue.lean`, `truthful_reading`) the priority by which an invocation with
queued work is ordered among its siblings is the priority of an operation queued at or below it, and for an
invocation with own operations the least of them.  (Before the fix of
notes/findings/C04-stale-first-priority.md this fails: `legacy_stale_priority_counterexample`.) -/
theorem true_priorities (ts : TState) (h : TReachable ts) :
    ∀ d ∈ ts.decisions,
      match d with
      | .pick _ _ _ tree view op retained =>
          (op, retained) ∈ Fair.specPick tree view ∧ TrueDefs.truthful tree = true ∧ TrueDefs.queuedLive tree = true
      | .handoff .. => True := by
  intro d hd
  have h1 := (handoff_and_pick_admissible ts h).2 d hd
  have h2 := decfix_reachable h d hd
  cases d with
  | handoff => trivial
  | pick q w t tree view op retained =>
    obtain ⟨opOf, pr, ns, hf, hs, hop, rfl⟩ := h2
    exact ⟨h1, truthful_snapshot q hf hs hop, queuedLive_snapshot q hs⟩

/-! ### the scheduler before the fix: counterexample -/

namespace Cex
def q : ScqId := ⟨1, 0⟩
def wA : WId := ⟨2, 1⟩
def wB : WId := ⟨3, 1⟩
def cfg : Cfg := ⟨10, 10, 30, 100, 5, 50, 3, 1000⟩
def h0 : Hints := ⟨[], 0, none, false⟩
def seg (s : Seg) : TSeg := { seg := s }
/-- the history of notes/findings/C04-stale-first-priority.md: worker A blocks; client 6 (invocation [1,2],
priority -7) is handed to it; clients 9 ([1,2], priority 0) and 13 ([1,3], priority 50) are queued; A times out
at 52 (its task is completed: `decrementExecutingWorkersCount`); client 20 ([2], priority 25) is queued -/
def pre : List TSeg :=
  [ seg (.sync h0 1 q [] 7 wA .idle false),
    seg (.exec ⟨[(q, wA, 1)], 0, none, false⟩ 2 6 10 10 true [] 7 [1, 2] (-7)),
    seg (.syncWake h0 2 q wA 0),
    seg (.exec h0 2 9 11 11 true [] 7 [1, 2] 0),
    seg (.exec h0 2 13 12 12 true [] 7 [1, 3] 50),
    seg (.touch h0 60),
    seg (.exec h0 60 20 13 13 true [] 7 [2] 25) ]
/-- a new worker B asks for work and is given the task with operation `op` -/
def syncB (op : Nat) : TSeg := seg (.sync ⟨[(q, wB, op)], 0, none, false⟩ 60 q [] 7 wB .idle false)
def strictRun (ts : TState) (gs : List TSeg) : M TState := gs.foldlM tstep ts
def legacyInit : TState := { TState.init cfg with legacyPrio := true }
def accepted (r : M TState) : Bool := match r with | .ok _ => true | .error _ => false

def nd (p : List Nat) (qops qkids : List Nat) (prio : Int) (ex : List (Option WId × Nat)) (co : Nat) : Node :=
  { scq := q, path := p, qops := qops, qkids := qkids, ikids := [], prio := prio, exec := ex, started := 2,
    completed := co, idle := 0, parked := [] }
/-- the tree after the first five segments (before the time-out), with either code -/
def nodes5 : List Node :=
  [ nd [] [] [1] 0 [(some wA, 1)] 0, nd [1] [] [2, 3] 50 [(some wA, 1)] 2, nd [1, 2] [2] [] 0 [(some wA, 1)] 2,
    nd [1, 3] [3] [] 50 [] 2 ]
def pr (o : Nat) : Int := if o = 2 then 0 else if o = 3 then 50 else if o = 4 then 25 else -7
def opOf (o : Nat) : Fair.Op := { id := o, prio := pr o, dur := 0, ts := if o = 4 then 60 else 2 }
/-- the tree operations of the last two segments of `pre` that matter: the stage switch of A's task
(`decrementExecutingWorkersCount` for its operation in [1,2]), `getOrCreateInvocation([2])`, `enqueue` of
operation 4 -/
def after (legacy : Bool) : List Node :=
  enqueueOp pr (getOrCreate (decExecR legacy pr nodes5 q [1, 2] (some wA) 60) q [2] 60) q [2] 4
def view : Fair.WView := { lastKeys := [], limits := [], starts := [], now := 60 }
def prioAt (ns : List Node) (p : List Nat) : Option Int := (node? ns q p).map (·.prio)

-- run by the interpreter when this file is built (the kernel cannot evaluate whole runs of the model in
-- reasonable memory): `nodes5` is the model's tree after five segments, with either code; the old code
-- accepts the hand-out of operation 4 (priority 25) to B and rejects that of operation 2 (priority 0), the
-- fixed code the other way round
#guard (match strictRun legacyInit (pre.take 5), strictRun (TState.init cfg) (pre.take 5) with
  | .ok a, .ok b => toString (repr a.nodes) == toString (repr nodes5) && toString (repr b.nodes) == toString (repr nodes5)
  | _, _ => false)
#guard accepted (strictRun legacyInit (pre ++ [syncB 4])) && !accepted (strictRun legacyInit (pre ++ [syncB 2]))
#guard accepted (strictRun (TState.init cfg) (pre ++ [syncB 2])) && !accepted (strictRun (TState.init cfg) (pre ++ [syncB 4]))
end Cex

set_option maxRecDepth 20000 in
/-- **The defect of notes/findings/C04-stale-first-priority.md, on the model of the old code**
(`legacyPrio = true`, proved by evaluation in the kernel).  After the time-out of the worker that executed
in invocation [1,2], invocation [1] still caches priority 50 (that of [1,3], which was its first queued child
while [1,2] had an executing worker) although its first queued child is now [1,2] with priority 0; the
documented rule applied to the tree as the old code stores it then admits exactly operation 4 (invocation
[2], priority 25: score 2^0.25 against the stale 2^0.5) for a worker without stickiness, although operation 2
(priority 0, score 1) is queued.  With the fix the cache is 0 and exactly operation 2 is admitted. -/
theorem legacy_stale_priority_counterexample :
    Cex.prioAt (Cex.after true) [1] = some 50 ∧ Cex.prioAt (Cex.after false) [1] = some 0 ∧
    (Fair.specPick (snapshot Cex.opOf (Cex.after true) Cex.q) Cex.view).map (fun c => (c.1.id, c.1.prio)) = [(4, 25)] ∧
    (Fair.specPick (snapshot Cex.opOf (Cex.after false) Cex.q) Cex.view).map (fun c => (c.1.id, c.1.prio)) = [(2, 0)] := by
  decide

/-- the executable checker of `Model/SchedTreeCheck.lean` that the driver runs after every segment
(`treecheck`) tests the clauses of the invariant behind `tree_inv`; the invariant itself, in the form the
lemmas use it (`TInv`: the invariant of `Model/Sched.lean`, `TreeOK` for the four bags, the coupling `Side`) -/
theorem tree_inv_raw (ts : TState) (h : TReachable ts) : TInv ts := tinv_reachable h

/-- **no_queued_while_parked**, tree form: while a worker is enqueued in `idleSynchronizingWorkers` of some
invocation of a size-class queue (or, equivalently, some `idleSynchronizingWorkersChildren` is non-empty),
no invocation of that queue has queued operations or queued children. -/
theorem no_queued_while_parked_tree (ts : TState) (h : TReachable ts) :
    ∀ n ∈ ts.nodes, n.hasParked = true → ∀ m ∈ ts.nodes, m.scq = n.scq → m.isQueued = false := by
  intro n hn hp m hm hq
  have hI := tinv_reachable h
  have hT := hI.treeInv
  -- a worker is parked at or below `n`
  have hpk : ∃ p w, ParkedAt ts n.scq p w := by
    unfold Node.hasParked at hp
    cases hpl : n.parked with
    | cons w r =>
      exact ⟨n.path, w, ((hT.idleSynchronizingWorkers n hn).2 w).mp (by rw [hpl]; exact List.mem_cons_self)⟩
    | nil =>
      cases hkl : n.ikids with
      | nil => rw [hpl, hkl] at hp; simp at hp
      | cons k r =>
        obtain ⟨p, w, hw, _⟩ := ((hT.idleSynchronizingWorkersChildren n hn).2 k).mp (by rw [hkl]; exact List.mem_cons_self)
        exact ⟨p, w, hw⟩
  obtain ⟨p, w, ⟨wk, hwk, hwp⟩, _⟩ := hpk
  rw [BbRe.Lemmas.SchedInv.worker?_def] at hwk
  have hkey := BbRe.Lemmas.SchedInv.wfind_key hwk
  have hnq := (no_queued_while_parked ts h wk (BbRe.Lemmas.SchedInv.wfind_mem hwk) hwp).1
  rw [hkey.1] at hnq
  have hnone : ∀ p' o, ¬ QueuedAt ts n.scq p' o := by
    rintro p' o ⟨k, t, hk, hqd, hs, ho, _⟩
    rw [BbRe.Lemmas.SchedInv.task?_def] at hk
    have : t ∈ queuedTasks ts.s n.scq := by
      unfold queuedTasks
      have hrw := hI.inv.core.q1 k t hk hqd
      refine List.mem_map.mpr ⟨(k, t), List.mem_filter.mpr ⟨BbRe.Lemmas.SchedInv.mem_of_alookup hk, ?_⟩, rfl⟩
      simp [hs, hqd, hrw.1, hrw.2]
    rw [hnq] at this; cases this
  cases hmq : m.isQueued with
  | false => rfl
  | true =>
    exfalso
    unfold Node.isQueued at hmq
    cases hql : m.qops with
    | cons o r =>
      exact hnone _ o (hq ▸ ((hT.queuedOperations m hm).2 o).mp (by rw [hql]; exact List.mem_cons_self))
    | nil =>
      cases hkl : m.qkids with
      | nil => rw [hql, hkl] at hmq; simp at hmq
      | cons k r =>
        obtain ⟨p', o, ho, _⟩ := ((hT.queuedChildren m hm).2 k).mp (by rw [hkl]; exact List.mem_cons_self)
        exact hnone p' o (hq ▸ ho)

end BbRe.Properties.C04Tree
