import BbRe.Model.FileRef
import BbRe.Lemmas.FileRefProps
import BbRe.Lemmas.FileRefChecked
/-!
# C16 — writable files live exactly as long as referenced; uploads match

Property theorems about `Model/FileRef.lean`, the transcription of
`pkg/filesystem/virtual/pool_backed_file_allocator.go` (one step per lock-held
segment) behind the hard-link counter of the FUSE / NFS handle allocators.  Every
theorem is about *all* reachable states: any number of threads (thread ids are
arbitrary naturals), any interleaving of open/close with any share mask,
link/unlink, read/seek, write, truncate, allocate, set-attributes, uploads, frozen
opens, output-service stats, completions of the CAS `Put` (ok or error), firings of
the delay channels and pool-file faults, for files with and without a handle
allocator in front (`layered`), for the code as it is now (`checked = true`, fix 17054c0)
and as it was before (`checked = false`).  `Reachable` only contains steps that respect the
caller contract `legal` (see `Model/FileRef.lean`); for the current code that contract says
nothing about the mutating calls (`mutating_calls_need_no_contract`).  Helper lemmas:
`BbRe/Lemmas/FileRef*.lean`.  The model is tied to the Go code by
`harness/cmd/fileref` on every run.
-/
namespace BbRe.Properties.C16
open BbRe.FileRef
open BbRe.Lemmas.FileRef

/-- `ref_inv`: in every reachable state `referenceCount` is exactly the number of
references that exist — one for the handle allocator while its link count is positive
(without a handle allocator: one per link), one per share-access bit held by an open
descriptor, one per frozen reader (`frozenDescriptorsCount`, which is the number of
threads that hold a `frozenFileBackedFile`) —, `writableDescriptorsCount` is the number
of write bits held, the pool file is closed iff that count is zero, `Close` has been
called once if it is closed and never otherwise, and no Go panic (nil pool file,
"Invalid reference count", …) has happened. -/
theorem ref_inv {s : State} (h : Reachable s) :
    s.refs = baseLinks s + s.rd + s.wr + s.frozen ∧
    s.writers = s.wr ∧
    FrozenCount s.pc s.frozen ∧
    (s.closed = true ↔ s.refs = 0) ∧
    s.closeCalls = (if s.closed = true then 1 else 0) ∧
    s.panicked = false := by
  have inv := inv_reachable h
  exact ⟨by have := inv.refsEq; omega, inv.writersEq, inv.pcs.fcount, inv.closedIff, inv.closesEq, inv.noPanic⟩

/-- `ref_inv`, second half: the pool file's `Close` happens exactly once, in the step in
which the last reference disappears — every step increases the number of `Close` calls
by one if it takes `referenceCount` from positive to zero and by nothing otherwise. -/
theorem close_exactly_once {s s' : State} {o : Out} (op : Op) (h : Reachable s)
    (hl : legal s op = true) (hs : step s op = some (s', o)) :
    s'.closeCalls = s.closeCalls + (if 0 < s.refs ∧ s'.refs = 0 then 1 else 0) ∧ s'.closeCalls ≤ 1 := by
  have inv := inv_reachable h
  have inv' := inv_step op inv hl hs
  have c := inv.closesEq
  have c' := inv'.closesEq
  cases hc : s.closed
  · have hr : 0 < s.refs := by
      cases Nat.eq_zero_or_pos s.refs with
      | inl h0 => have := inv.closedIff.mpr h0; rw [hc] at this; cases this
      | inr h0 => exact h0
    cases hc' : s'.closed
    · have hr' : s'.refs ≠ 0 := fun h0 => by have := inv'.closedIff.mpr h0; rw [hc'] at this; cases this
      simp only [hc, hc', Bool.false_eq_true, if_false] at c c'
      have : ¬ (0 < s.refs ∧ s'.refs = 0) := fun hh => hr' hh.2
      rw [if_neg this]; omega
    · have hr' := inv'.closedIff.mp hc'
      simp only [hc, hc', Bool.false_eq_true, if_false, if_true] at c c'
      rw [if_pos ⟨hr, hr'⟩]; omega
  · have cs := closed_step op inv hc hl hs
    have hr := inv.closedIff.mp hc
    simp only [hc, if_true] at c
    have : ¬ (0 < s.refs ∧ s'.refs = 0) := fun hh => by omega
    rw [if_neg this, cs.2.2.1]; omega

example : ∃ s s' : State, ∃ o : Out, Reachable s ∧ legal s .unlink = true ∧ step s .unlink = some (s', o) ∧
    0 < s.refs ∧ s'.refs = 0 ∧ s'.closeCalls = 1 :=
  ⟨init true true false 0 ⟨false, false⟩, _, _, Reachable.init _ _ _ _ _, rfl, rfl, by decide, rfl, rfl⟩

/-- `no_use_after_close`: once the last reference is gone (the pool file has been closed),
every further step the caller contract allows keeps `referenceCount = 0`, does not call
`Close` again, leaves the contents alone and does not panic (in the model every access to
the released pool file is a panic: `f.file` is nil); `Link`, `VirtualOpenSelf` with or
without `O_TRUNC`, `VirtualAllocate`, `VirtualSetAttributes` with a size return
`StatusErrStale`, `VirtualWrite` returns `(0, StatusErrStale)`; uploads, frozen opens and
output-service stats return NotFound (`CleanFail`).  For the current code `legal` only
restricts `Unlink`, `VirtualClose`, `VirtualRead` and `VirtualSeek`. -/
theorem no_use_after_close {s s' : State} {o : Out} (op : Op) (h : Reachable s) (hc : s.closed = true)
    (hl : legal s op = true) (hs : step s op = some (s', o)) :
    s'.refs = 0 ∧ s'.closed = true ∧ s'.closeCalls = 1 ∧ s'.bytes = s.bytes ∧ s'.panicked = false ∧
    CleanFail op o := by
  have inv := inv_reachable h
  have cs := closed_step op inv hc hl hs
  have c := inv.closesEq
  simp only [hc, if_true] at c
  exact ⟨cs.1, cs.2.1, by rw [cs.2.2.1, c], cs.2.2.2.1, (inv_step op inv hl hs).noPanic, cs.2.2.2.2⟩

/-- Under the caller contract no reachable state has panicked: no read, write, truncate or
region query ever reaches a pool file that has been released. -/
theorem no_panic {s : State} (h : Reachable s) : s.panicked = false := (inv_reachable h).noPanic

/-- In the current code the caller contract demands nothing for the calls that go through
`lockMutatingData` — neither when they are issued nor when they resume after the wait. -/
theorem mutating_calls_need_no_contract {s : State} (hc : s.checked = true) (t : Nat) (op : MutOp) :
    legal s (.mbegin t op) = true ∧ legal s (.mwake t) = true := by
  constructor
  · simp [legal, hc]
  · show (match s.pc t with
      | .mutWait op _ => s.checked || mutContract s op
      | _ => true) = true
    split <;> simp [hc]

/-- Which version of the code a run models never changes. -/
theorem checked_invariant {s s' : State} {o : Out} (op : Op) (hs : step s op = some (s', o)) :
    s'.checked = s.checked := step_checked op hs

/-- `no_use_after_close` for parked calls, without any contract (current code): a write,
allocation, size change or `O_TRUNC` open that is issued on, or resumes on, a file whose last
reference is gone leaves everything alone, does not panic and returns `StatusErrStale`
(`VirtualWrite`: `(0, StatusErrStale)`) — whatever happened to the caller's descriptor or
directory entry while it waited. -/
theorem no_use_after_close_mutating {s s' : State} {o : Out} (op : Op) (h : Reachable s)
    (hck : s.checked = true) (hc : s.closed = true)
    (hop : (∃ t mop, op = .mbegin t mop) ∨ (∃ t, op = .mwake t))
    (hs : step s op = some (s', o)) :
    s'.refs = 0 ∧ s'.closed = true ∧ s'.closeCalls = 1 ∧ s'.bytes = s.bytes ∧ s'.panicked = false ∧
    (o = .st .stale ∨ o = .wrote 0 .stale) := by
  have hl : legal s op = true := by
    rcases hop with ⟨t, mop, rfl⟩ | ⟨t, rfl⟩
    · exact (mutating_calls_need_no_contract hck t mop).1
    · exact (mutating_calls_need_no_contract hck t (.alloc 0 0)).2
  have r := no_use_after_close op h hc hl hs
  refine ⟨r.1, r.2.1, r.2.2.1, r.2.2.2.1, r.2.2.2.2.1, ?_⟩
  have cf := r.2.2.2.2.2
  rcases hop with ⟨t, mop, rfl⟩ | ⟨t, rfl⟩
  · exact cf
  · exact cf

/-- In the current code no call that waited in `lockMutatingData` can panic, whatever the
other threads did meanwhile (the resumed step is always allowed, so its result is reachable). -/
theorem resumed_call_never_panics {s s' : State} {o : Out} {t : Nat} (h : Reachable s)
    (hck : s.checked = true) (hs : step s (.mwake t) = some (s', o)) : s'.panicked = false :=
  no_panic (Reachable.step (.mwake t) h (mutating_calls_need_no_contract hck t (.alloc 0 0)).2 hs)

/-- Before fix 17054c0 (`checked = false`) the contract for parked calls was needed and was
*not* enforceable by the caller: a size change by path that is parked behind a frozen reader
while the file still has its directory entry resumes after the entry and the frozen reader
are gone, and `virtualTruncate` dereferences the nil pool file (model: `panic`).
`VirtualOpenSelf(O_TRUNC)` re-checked `referenceCount` after the wait; `VirtualSetAttributes`,
`VirtualWrite` and `VirtualAllocate` did not. -/
theorem resumed_size_change_hits_released_file :
    (run (init false true false 3 ⟨false, false⟩)
      [.ubegin 1 false none 0, .mbegin 2 (.setattr 1 none), .unlink, .fclose 1, .mwake 2]).2
      = [.opened, .parked, .st .ok, .st .ok, .panic] := by
  decide

/-- The same history on the current code: the resumed size change fails cleanly. -/
theorem resumed_size_change_fails_cleanly :
    (run (init true true false 3 ⟨false, false⟩)
      [.ubegin 1 false none 0, .mbegin 2 (.setattr 1 none), .unlink, .fclose 1, .mwake 2, .link]).2
      = [.opened, .parked, .st .ok, .st .ok, .st .stale, .st .stale] := by
  decide

example : ∃ s s' : State, ∃ o : Out, Reachable s ∧ s.closed = true ∧ legal s .link = true ∧
    step s .link = some (s', o) ∧ o = .st .stale :=
  ⟨(release { init true true false 0 ⟨false, false⟩ with linkCount := 0 } 1), _, _,
    Reachable.step (s := init true true false 0 ⟨false, false⟩) .unlink (Reachable.init _ _ _ _ _) rfl rfl,
    rfl, rfl, rfl, rfl⟩

/-- `frozen_excludes_writes`: while at least one frozen reader exists no step changes the
contents of the file (writers park in `lockMutatingData`); this holds in every state, not
only in reachable ones. -/
theorem frozen_excludes_writes {s s' : State} {o : Out} (op : Op) (hf : 0 < s.frozen)
    (hs : step s op = some (s', o)) : s'.bytes = s.bytes :=
  step_bytes_frozen op hf hs

/-- A mutating call performs its change — when it is issued or when it resumes after the
`lockMutatingData` wait — only in a state with `frozenDescriptorsCount = 0`: the loop test is
re-evaluated after every wake-up, so if the file has been frozen again between the
`close(unfreezeWakeup)` and the moment the woken call re-takes the lock (a second upload or
frozen open got in first), the step parks the call again and changes nothing.  Holds in every
state and for all interleavings of freezes, unfreezes and wake-ups. -/
theorem mutator_runs_only_unfrozen {s s' : State} {o : Out} (op : Op)
    (hop : (∃ t mop, op = .mbegin t mop) ∨ (∃ t, op = .mwake t))
    (hs : step s op = some (s', o)) :
    (o ≠ .parked → s.frozen = 0) ∧
    (0 < s.frozen → o = .parked ∧ s'.bytes = s.bytes ∧ s'.frozen = s.frozen ∧ s'.refs = s.refs) := by
  have key : 0 < s.frozen → o = .parked ∧ s'.bytes = s.bytes ∧ s'.frozen = s.frozen ∧ s'.refs = s.refs := by
    intro hf
    unfold step at hs
    split at hs
    · cases hs
    · rcases hop with ⟨t, mop, rfl⟩ | ⟨t, rfl⟩
      · simp only at hs
        split at hs
        · rw [mutBody_frozen t mop hf] at hs; cases hs; exact ⟨rfl, rfl, rfl, rfl⟩
        · cases hs
      · simp only at hs
        split at hs
        · rename_i mop _
          rw [mutBody_frozen t mop hf] at hs; cases hs; exact ⟨rfl, rfl, rfl, rfl⟩
        · cases hs
  refine ⟨fun hne => ?_, key⟩
  cases Nat.eq_zero_or_pos s.frozen with
  | inl h0 => exact h0
  | inr hpos => exact absurd (key hpos).1 hne

/-- The interleaving [unfreeze → a second upload freezes the file again → the woken writer
runs]: the writer parks again and upload 2 stores what it digested. -/
example :
    (run (init true true false 0 ⟨false, true⟩)
      [.fire 0, .mbegin 1 (.write 0 [1, 2, 3]), .ubegin 2 true (some 0) 0, .uwake 2 true, .udigest 2,
       .mbegin 3 (.write 0 [9, 9]), .putDone 2 true, .ubegin 4 true (some 0) 0, .uwake 4 true, .udigest 4,
       .mwake 3, .putDone 4 true, .mwake 3]).2
      = [.st .ok, .wrote 3 .ok, .parked, .opened, .putting (0, [1, 2, 3]), .parked,
         .digest (some (0, [1, 2, 3])), .parked, .opened, .putting (0, [1, 2, 3]), .parked,
         .digest (some (0, [1, 2, 3])), .wrote 2 .ok] := by
  decide

example : (step ({ init true true false 0 ⟨false, true⟩ with frozen := 1 }) (.mbegin 7 (.write 0 [1]))).map (·.2)
    = some .parked := by decide

/-- `cached_digest_valid`: a cached digest is always the digest of the current contents
(every content change resets it). -/
theorem cached_digest_valid {s : State} (h : Reachable s) (d : Digest) (hd : s.cached = some d) :
    d = digestOf d.1 s.bytes := by
  have := (inv_reachable h).cachedOk d hd
  unfold digestOf
  rw [← this]

/-- `upload_matches`: when an upload returns digest `d`, the bytes handed to the CAS for it
are exactly the current contents `b` of the file and `d` is their digest — for every
interleaving with writers, including the branch in which the wait for writers timed out
(`uwake t true`) and writers are still open. -/
theorem upload_matches {s s' : State} {t : Nat} {ok : Bool} {d : Digest} (h : Reachable s)
    (hs : step s (.putDone t ok) = some (s', .digest (some d))) :
    s'.cas = (d, s.bytes) :: s.cas ∧ d = digestOf d.1 s.bytes ∧ s'.bytes = s.bytes := by
  have inv := inv_reachable h
  unfold step at hs
  rw [if_neg (step_unfold inv.noPanic)] at hs
  simp only at hs
  split at hs
  · rename_i d' hpc
    have hdb := inv.pcs.putOk t d' hpc
    split at hs
    · split at hs
      · cases hs
      · simp only [Option.some.injEq, Prod.mk.injEq, Out.digest.injEq] at hs
        obtain ⟨hs1, hs2⟩ := hs
        subst hs2
        rw [← hs1, frozenClose_cas, frozenClose_bytes]
        refine ⟨?_, ?_, rfl⟩
        · show (d', s.bytes.take d'.2.length) :: s.cas = _
          rw [hdb]; simp
        · unfold digestOf; rw [← hdb]
    · cases hs
  · cases hs

/-- Everything the CAS ever received from this file is stored under its own digest. -/
theorem cas_consistent {s : State} (h : Reachable s) (e : Digest × Bytes) (he : e ∈ s.cas) :
    e.1 = digestOf e.1.1 e.2 := by
  have := (inv_reachable h).casOk e he
  unfold digestOf
  rw [← this]

/-- The digest reported by the output-service stat is the digest of the current contents. -/
theorem stat_matches {s s' : State} {t : Nat} {d : Digest} (h : Reachable s)
    (hs : step s (.statFinish t) = some (s', .digest (some d))) :
    d.2 = s.bytes ∧ s'.bytes = s.bytes := by
  have inv := inv_reachable h
  unfold step at hs
  rw [if_neg (step_unfold inv.noPanic)] at hs
  simp only at hs
  split at hs
  · rename_i fn hpc
    simp only [Option.some.injEq, Prod.mk.injEq] at hs
    obtain ⟨hs1, hs2⟩ := hs
    have hfr := digestStep_frame s fn
    refine ⟨?_, ?_⟩
    · split at hs2
      · rename_i d0 hd0
        simp only [Out.digest.injEq, Option.some.injEq] at hs2
        subst hs2
        exact (digestStep_valid inv fn d0 hd0).1
      · cases hs2
    · rw [← hs1, frozenClose_bytes]; exact hfr.2.1
  · cases hs

/-- Non-vacuity of `upload_matches` on the timeout branch: a writer is open, the delay
fires, the upload proceeds, the writer's next write parks, the upload returns the digest of
what it stored. -/
example :
    (run (init true true false 0 ⟨false, true⟩)
      [.mbegin 1 (.write 0 [1, 2, 3]), .ubegin 2 true (some 1) 0, .fire 1, .uwake 2 true, .udigest 2,
       .mbegin 3 (.write 0 [7, 7]), .putDone 2 true, .mwake 3, .persist]).2
      = [.wrote 3 .ok, .parked, .st .ok, .opened, .putting (0, [1, 2, 3]), .parked,
         .digest (some (0, [1, 2, 3])), .wrote 2 .ok, .digest none] := by
  decide

/-- `writers_wait_bounded` (a): an upload or frozen open that starts while no writable
descriptor is open does not wait. -/
theorem writers_wait_bounded_start {s s' : State} {o : Out} {t : Nat} {u : Bool} {k : Option Nat} {fn : Nat}
    (hw : s.writers = 0) (hs : step s (.ubegin t u k fn) = some (s', o)) :
    o ≠ .parked ∧ ∀ u' k' fn' w, s'.pc t ≠ .upWait u' k' fn' w := by
  unfold step at hs
  split at hs
  · cases hs
  · simp only at hs
    split at hs
    · rw [if_neg (by omega)] at hs
      rw [← some_pair_eq hs, ← some_pair_eq2 hs]
      unfold openFrozenFor frozenPcFor
      split
      · refine ⟨by simp, fun _ _ _ _ => ?_⟩
        simp [State.setPc]
      · refine ⟨by simp, fun _ _ _ _ => ?_⟩
        cases u <;> simp [State.setPc]
    · cases hs

/-- `writers_wait_bounded` (b): a parked upload whose delay channel fired can take its
`uwake … true` step, and that step takes it out of the wait whatever the writers do; a
parked upload of a file without writable descriptors has been woken (no lost wake-up), can
take its `uwake … false` step, and that step takes it out of the wait. -/
theorem writers_wait_bounded_progress {s : State} (h : Reachable s) {t : Nat} {u : Bool} {k : Option Nat}
    {fn : Nat} {w : Bool} (hpc : s.pc t = .upWait u k fn w) :
    (∀ k', k = some k' → s.fired k' = true →
      ∃ s' o, step s (.uwake t true) = some (s', o) ∧ o ≠ .parked ∧
        ∀ u' k'' fn' w', s'.pc t ≠ .upWait u' k'' fn' w') ∧
    (s.writers = 0 →
      w = true ∧ ∃ s' o, step s (.uwake t false) = some (s', o) ∧ o ≠ .parked ∧
        ∀ u' k'' fn' w', s'.pc t ≠ .upWait u' k'' fn' w') := by
  have inv := inv_reachable h
  have leave : ∀ p : State × Out, p = openFrozenFor s t (frozenPcFor u fn) →
      p.2 ≠ .parked ∧ ∀ u' k'' fn' w', p.1.pc t ≠ .upWait u' k'' fn' w' := by
    intro p hp
    rw [hp]
    unfold openFrozenFor frozenPcFor
    split
    · refine ⟨by simp, fun _ _ _ _ => ?_⟩
      simp [State.setPc]
    · refine ⟨by simp, fun _ _ _ _ => ?_⟩
      cases u <;> simp [State.setPc]
  constructor
  · intro k' hk hf
    refine ⟨_, _, ?_, (leave _ rfl).1, (leave _ rfl).2⟩
    unfold step
    rw [if_neg (step_unfold inv.noPanic)]
    simp only [hpc, hk, hf, if_true]
  · intro hw
    have hwk : w = true := by
      cases w
      · have := inv.pcs.upWake t u k fn hpc; omega
      · rfl
    refine ⟨hwk, _, _, ?_, (leave _ rfl).1, (leave _ rfl).2⟩
    unfold step
    rw [if_neg (step_unfold inv.noPanic)]
    subst hwk
    have : ¬ s.writers > 0 := by omega
    simp only [hpc, Bool.false_eq_true, if_false, if_true, this]

/-- `writers_wait_bounded` (c): it never proceeds otherwise — while writable descriptors
are open and its delay channel did not fire, the only steps a parked upload can take leave
it parked, without a frozen reader. -/
theorem writers_wait_bounded_waits {s s' : State} {o : Out} {t : Nat} {u : Bool} {k : Option Nat}
    {fn : Nat} {w v : Bool} (hpc : s.pc t = .upWait u k fn w) (hw : 0 < s.writers)
    (hk : ∀ k', k = some k' → s.fired k' = false) (hs : step s (.uwake t v) = some (s', o)) :
    s'.pc t = .upWait u k fn false ∧ o = .parked ∧ s'.frozen = s.frozen := by
  unfold step at hs
  split at hs
  · cases hs
  · simp only [hpc] at hs
    split at hs
    · cases k with
      | none => cases hs
      | some k' =>
        simp only [hk k' rfl, Bool.false_eq_true, if_false] at hs
        cases hs
    · repeat' split at hs
      all_goals first
        | (cases hs; exact ⟨by simp [State.setPc], rfl, rfl⟩)
        | (cases hs; done)
        | omega

example : ∃ s : State, Reachable s ∧ s.pc 2 = .upWait true (some 1) 0 false ∧ 0 < s.writers :=
  ⟨(init true true false 0 ⟨false, true⟩).setPc 2 (.upWait true (some 1) 0 false),
    Reachable.step (s := init true true false 0 ⟨false, true⟩) (.ubegin 2 true (some 1) 0) (Reachable.init _ _ _ _ _) rfl rfl,
    by simp [State.setPc], by decide⟩

/-- No lost wake-up for writers: a mutating call parked behind frozen readers has been
woken as soon as no frozen reader is left, and its `mwake` step then performs the change
(it does not park again). -/
theorem mutators_resume {s : State} (h : Reachable s) {t : Nat} {op : MutOp} {w : Bool}
    (hpc : s.pc t = .mutWait op w) (hf : s.frozen = 0) :
    w = true ∧ ∃ s' o, step s (.mwake t) = some (s', o) ∧ o ≠ .parked := by
  have inv := inv_reachable h
  have hwk : w = true := by
    cases w
    · have := inv.pcs.mutWake t op hpc; omega
    · rfl
  subst hwk
  refine ⟨rfl, (mutBody s t op).1, (mutBody s t op).2, ?_, ?_⟩
  · unfold step
    rw [if_neg (step_unfold inv.noPanic)]
    simp only [hpc]
  · unfold mutBody
    rw [if_neg (by omega)]
    simp only
    cases op <;> simp only [perform] <;> repeat' split
    all_goals simp [attrsOf]

end BbRe.Properties.C16
