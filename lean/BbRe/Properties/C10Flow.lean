import BbRe.Lemmas.ExecFlow
/-!
# C10, the executor's part: output files still opened for writing

Property C10: "… the ActionResult lists precisely the declared output paths that
exist afterwards … with the correct … content digest".  On a virtual build
directory an output file can still have a writing descriptor when the command
has exited; `UploadFile` waits for such descriptors, but not longer than
`maximumWritableFileUploadDelay`, counted from a context that
`localBuildExecutor.Execute` creates after the command has ended
(`Model/ExecFlow.lean`: `delayStart`, `uploadFiles`).  Shown here: for every
command, however long it runs, every file whose descriptor is closed within
that delay after the command's exit is uploaded completely.  Tied to the real
executor by `harness/cmd/localexec`.
-/
namespace BbRe.Properties.C10Flow
open BbRe.ExecFlow BbRe.Lemmas.ExecFlow

/-- The delay for writable files starts when the UPLOADING_OUTPUTS update is accepted,
never before the command has ended. -/
theorem upload_delay_starts_after_the_run (e : Env) :
    (execute e).delayStart = (execute e).acceptUploading ∧ (execute e).runEnd ≤ (execute e).delayStart := by
  dsimp only [execute]
  omega

/-- For all commands (all run lengths, stalls, timeouts) and all receivers of state
updates: if every lingering descriptor is closed less than the upload delay after the
command's exit, every file is uploaded with its complete contents. -/
theorem writers_closing_within_the_delay_are_waited_for (e : Env)
    (h : ∀ l ∈ e.lingers, l < e.uploadDelay) :
    (execute e).complete.length = e.lingers.length ∧ ∀ b ∈ (execute e).complete, b = true := by
  constructor
  · simp only [execute, uploadFiles_length, List.length_map]
  · simp only [execute]
    apply uploadFiles_all
    intro c hc
    obtain ⟨l, hl, rfl⟩ := List.mem_map.1 hc
    have := h l hl
    omega

/-- … and `Execute` returns only after all of them were closed, but never waits
longer than the delay after it began to upload. -/
theorem upload_waits_long_enough_and_not_longer (e : Env) :
    (execute e).finish ≤ (execute e).delayStart + e.uploadDelay ∧
    ((∀ l ∈ e.lingers, l < e.uploadDelay) → ∀ l ∈ e.lingers, (execute e).runEnd + l ≤ (execute e).finish) := by
  constructor
  · have := (uploadFiles_finish ((execute e).delayStart + e.uploadDelay) (e.lingers.map ((execute e).runEnd + ·))
      (execute e).delayStart).2
    simp only [execute] at this ⊢
    omega
  · intro h l hl
    simp only [execute]
    apply uploadFiles_finish_ge
    · intro c hc
      obtain ⟨l', hl', rfl⟩ := List.mem_map.1 hc
      have := h l' hl'
      omega
    · exact List.mem_map.2 ⟨l, hl, rfl⟩

/-- The demonstration of the seeded change "the delay context is created before the
command runs": delay 60 s, a command that runs 120 s, a descriptor closed 1 s after the
exit.  The file is complete and `Execute` returns at 121 s. -/
example :
    let t := execute { timeout := 3600, maxSusp := 0, uploadDelay := 60, consumer := 0, prep := 0,
                       script := [.run 120], lingers := [1] }
    t.complete = [true] ∧ t.finish = 121 ∧ t.delayStart = 120 := by decide

/-- A descriptor that stays open longer than the delay: the worker gives up at the deadline. -/
example :
    let t := execute { timeout := 3600, maxSusp := 0, uploadDelay := 60, consumer := 0, prep := 0,
                       script := [.run 120], lingers := [1, 90, 2] }
    t.complete = [true, false, true] ∧ t.finish = 180 := by decide

end BbRe.Properties.C10Flow
