import BbRe.Lemmas.ProtoStoreDrain
/-!
# C07 (c) — persistence of size-class statistics

Property theorems about `Model/ProtoStore.lean`, the segment-level transcription
of `pkg/blobstore/blob_access_mutable_proto_store.go`.  `run cfg ops` executes an
arbitrary list of segments (`getBegin`, `readDone`, `putDone` with outcome
ok / err / err-after-commit, `getEnd`, `release`) of any number of concurrent
`Get`s and `Release`s from the empty store; disabled segments are no-ops, so the
quantification over all `ops` is a quantification over all interleavings and all
fault positions.  Helper lemmas: `BbRe/Lemmas/ProtoStore*.lean`.
-/
namespace BbRe.Properties.C07Store
open BbRe.ProtoStore BbRe.Lemmas.ProtoStore

/-- Structural invariant, for EVERY configuration (also the two defective ones):
queue indices are consistent with queue positions, a queued handle is unused, the
use count of a handle is the number of client holds plus the number of in-flight
`Get`s that found it in the map, and the code never panics ("Handle has bad write
index", index out of range). -/
theorem store_inv (cfg : Config) (ops : List Op) :
    let s := run cfg ops
    (∀ i h, s.queue[i]? = some h ↔ s.idx h = some i) ∧
    (∀ h, s.idx h ≠ none → s.useCount h = 0) ∧
    (∀ h, s.useCount h = s.held h + refs s.gets h) ∧
    s.panicked = false := by
  have h := qinv_run cfg ops
  exact ⟨h.q1, h.q2, h.acct, h.nopanic⟩

/-- Life cycle of handles in the code as it is in the tree (`repoConfig`): every
handle in the map belongs to that digest and is in use, queued, or being written;
a queued handle is dirty, in the map and not being written; a handle being written
is dirty, in the map, and exactly the `Get` recorded in `wg` has the Put in flight;
a handle that is no longer in the map is dead (unused, not queued, not written), so
no second handle for its digest can coexist with a live one. -/
theorem store_inv_handles (ops : List Op) :
    let s := run repoConfig ops
    (∀ d h, s.map d = some h →
      s.hdigest h = d ∧ (0 < s.useCount h ∨ s.idx h ≠ none ∨ s.wg h ≠ none)) ∧
    (∀ h, s.idx h ≠ none →
      s.wg h = none ∧ s.written h ≠ s.current h ∧ s.map (s.hdigest h) = some h) ∧
    (∀ h g, s.wg h = some g →
      s.written h ≠ s.current h ∧ s.map (s.hdigest h) = some h ∧
      ∃ r w, lookupG s.gets g = some r ∧ w ∈ r.writes ∧ w.h = h) ∧
    (∀ g r w, lookupG s.gets g = some r → w ∈ r.writes → s.wg w.h = some g) ∧
    (∀ h, s.map (s.hdigest h) ≠ some h → s.useCount h = 0 ∧ s.idx h = none ∧ s.wg h = none) := by
  intro s
  have hg : GInv s := ginv_run ops
  refine ⟨?_, ?_, ?_, ?_, hg.g4⟩
  · intro d h hm
    have := hg.c d h hm
    refine ⟨this.1, ?_⟩
    rcases this.2 with h1 | h1
    · exact absurd h1 id
    · exact h1
  · intro h hi
    exact ⟨(hg.g1 h hi).1, (hg.g1 h hi).2, inMap_of_queued s _ hg h hi⟩
  · intro h g hw
    refine ⟨(hg.g2 h g hw).1, ?_, (hg.g2 h g hw).2⟩
    apply Classical.byContradiction
    intro hn
    have := (hg.g4 h hn).2.2
    rw [hw] at this; cases this
  · intro g r w hl hw
    exact (hg.g3 g r w hl hw).1

/-- **No lost update.**  Whenever the backing store does not hold the latest update
that was released dirty for digest `d`, the handle of `d` is still in the map, its
message IS that latest update (so every later `Get` of `d` returns it), and the
handle is in use, queued for writing, or has a write in flight (whose completion
re-evaluates it). -/
theorem no_lost_update (ops : List Op) (d : Nat) :
    let s := run repoConfig ops
    s.store d ≠ s.latest d →
    ∃ h, s.map d = some h ∧ s.msg h = s.latest d ∧
      (0 < s.useCount h ∨ s.idx h ≠ none ∨ s.wg h ≠ none) := by
  intro s hne
  have hg : GInv s := ginv_run ops
  cases hm : s.map d with
  | none => exact absurd (hg.d2 d hm) hne
  | some h =>
    refine ⟨h, rfl, ?_, ?_⟩
    · apply hg.d5 d h hm
      intro hcl
      exact hne (hg.d4 d h hm hcl)
    · have := (hg.c d h hm).2
      rcases this with h1 | h1
      · exact absurd h1 id
      · exact h1

/-- The backing store never runs ahead of what clients released, and it is up to
date for every digest without a handle and for every clean handle. -/
theorem store_up_to_date (ops : List Op) (d : Nat) :
    let s := run repoConfig ops
    s.store d ≤ s.latest d ∧
    (s.map d = none → s.store d = s.latest d) ∧
    (∀ h, s.map d = some h → s.written h = s.current h → s.store d = s.latest d) := by
  intro s
  have hg : GInv s := ginv_run ops
  exact ⟨hg.d1 d, hg.d2 d, hg.d4 d⟩

/-- **A later update is never overwritten by an earlier one**: along every history
the latest update id held by the backing store for a digest never decreases, whatever
the outcomes of the Puts are. -/
theorem store_monotone (ops : List Op) (op : Op) (d : Nat) :
    (run repoConfig ops).store d ≤ (run repoConfig (ops ++ [op])).store d := by
  have hg : GInv (run repoConfig ops) := ginv_run ops
  have : run repoConfig (ops ++ [op]) = step repoConfig (run repoConfig ops) op := by
    simp [run, List.foldl_append]
  rw [this]
  exact store_monotone_step _ op hg d

/-- **A later Get sees the newest message.**  `getBegin g d` records (ghost `need`)
the latest update released dirty for `d` when the backing store lacks it at that
moment.  For every in-flight `Get` with such a `need`, at every later point of every
history: the handle found at the start is still THE handle of the digest in the map,
it is the handle the `Get` will return (`getEndHandle`), and its message contains an
update at least as new as `need`.  So a `Get` never returns a message older than
what had been released before it started, unless the backing store already held
that update when the `Get` started (stale reads of an up-to-date store are the
read-modify-write race that the interface allows). -/
theorem get_sees_latest (ops : List Op) (g : Nat) (r : GetRec) :
    let s := run repoConfig ops
    lookupG s.gets g = some r → r.need ≠ 0 →
    ∃ h, r.existing = some h ∧ getEndHandle s r = h ∧ s.map r.digest = some h ∧ r.need ≤ s.msg h := by
  intro s hl hn
  have hq : QInv s := qinv_run repoConfig ops
  have hg : GInv s := ginv_run ops
  obtain ⟨h, he, hm⟩ := hg.n g r hl hn
  refine ⟨h, he, by simp [getEndHandle, he], ?_, hm⟩
  have hd := hg.e g r h hl he
  have hpos : 0 < s.useCount h := by
    have := refs_pos_of_lookup s.gets g r h hl he
    have := hq.acct h
    omega
  rw [← hd]
  exact inMap_of_useCount_pos s _ hg h hpos

/-- Non-vacuity of `get_sees_latest`: a `Get` of digest 0 that starts after update 1
was released and before it is written has `need = 1`. -/
example : ∃ r, lookupG (run repoConfig
      [.getBegin 0 0, .readDone 0 true, .getEnd 0, .release 0 true, .getBegin 1 0]).gets 1 = some r ∧
    r.need = 1 ∧ r.existing = some 0 := ⟨_, rfl, rfl, rfl⟩

/-- What `need` is: the record created by `getBegin g d` carries the digest, the
handle found in the map, and `need = latest d` iff the backing store does not hold
the latest update of `d` at that moment. -/
theorem get_begin_need (s : State) (g d : Nat) (hfree : lookupG s.gets g = none) :
    ∃ r, lookupG (getBegin s g d).gets g = some r ∧ r.digest = d ∧ r.existing = s.map d ∧
      r.need = (if s.store d = s.latest d then 0 else s.latest d) :=
  getBegin_record s g d hfree

/-! ### The two fixes are necessary -/

/-- History on which the versioning rule before commit 1d6ae12
(`currentVersion = writtenVersion + 1`) loses an update: a dirty `Release` while the
handle is being written. -/
def legacyWitness : List Op :=
  [.getBegin 0 0, .readDone 0 true, .getEnd 0, .release 0 true,  -- handle 0 (digest 0) queued with update 1
   .getBegin 1 1,                                                -- Get(d1) dequeues handle 0: Put in flight
   .getBegin 2 0, .getEnd 2, .release 0 true,                    -- update 2 released during the write
   .putDone 1 0 .ok]                                             -- the write of update 1 completes

/-- With the old rule the conclusion of `no_lost_update` fails on `legacyWitness`:
the backing store holds update 1, update 2 was released, and the handle is gone
from the map (the next `Get` reloads the stale message). -/
theorem no_lost_update_counterexample_legacy :
    let s := run { legacyVersioning := true } legacyWitness
    s.store 0 = 1 ∧ s.latest 0 = 2 ∧ s.map 0 = none := by decide

/-- The same history is harmless for the code in the tree. -/
example : let s := run repoConfig legacyWitness
    s.store 0 = 1 ∧ s.latest 0 = 2 ∧ s.map 0 = some 0 ∧ s.msg 0 = 2 ∧ s.idx 0 ≠ none := by decide

/-- History on which the code without the `writeInFlight` guard of commit 6072c9e
loses an update: a (clean) `Release` while the handle is being written re-queues it,
the completing write drops it from the map while it is queued, the orphan's next
write completion deletes a live second handle, and a third one is created. -/
def unguardedWitness : List Op :=
  [.getBegin 0 0, .readDone 0 true, .getEnd 0, .release 0 true,  -- handle 0 (digest 0) queued with update 1
   .getBegin 1 1,                                                -- dequeues handle 0: Put in flight
   .getBegin 2 0, .getEnd 2, .release 0 false,                   -- clean release: re-queued while being written
   .putDone 1 0 .ok, .readDone 1 true, .getEnd 1,                -- handle 0 leaves the map, still queued
   .getBegin 3 0,                                                -- dequeues the orphan: Put in flight, reads d0
   .getBegin 4 0, .readDone 4 true, .getEnd 4,                   -- handle 2 for d0, in use
   .putDone 3 0 .ok, .readDone 3 true, .getEnd 3,                -- deletes handle 2 from the map; handle 3 created
   .release 2 true]                                              -- update 2 released on handle 2

/-- Without the guard the conclusion of `no_lost_update` fails on `unguardedWitness`:
the store holds update 1, update 2 was released, and the handle in the map (handle 3)
does not contain it; the handle that does (handle 2) is queued but not in the map. -/
theorem no_lost_update_counterexample_unguarded :
    let s := run { writeGuard := false } unguardedWitness
    s.store 0 = 1 ∧ s.latest 0 = 2 ∧ s.map 0 = some 3 ∧ s.msg 3 = 1 ∧ s.idx 2 ≠ none := by decide

/-- The same history is harmless for the code in the tree. -/
example : let s := run repoConfig unguardedWitness
    s.store 0 = 1 ∧ s.latest 0 = 2 ∧ s.map 0 = some 2 ∧ s.msg 2 = 2 ∧ s.useCount 2 = 1 := by decide

/-! ### Eventually written -/

/-- **Draining writes the latest version of every digest.**  Take any reachable state
in which all clients have released their handles and no `Get` is in flight, and any
digest `e` without a handle.  Then `n` further whole `Get(e)`/`Release` pairs whose
backing calls succeed (`drain`; each dequeues up to three handles, as `Get` does),
with `3·n ≥` the length of the write queue, leave an empty write queue, an empty map,
and a backing store that holds, for EVERY digest, the last update that any client
released dirty. -/
theorem drain_writes_latest (ops : List Op) (e : Nat) (gs : List Nat) :
    let s := run repoConfig ops
    quiescent s → s.map e = none → s.queue.length ≤ 3 * gs.length →
    (∀ d, (drain repoConfig e s gs).store d = s.latest d) ∧
    (drain repoConfig e s gs).queue = [] ∧ (∀ d, (drain repoConfig e s gs).map d = none) := by
  intro s hqu hme hlen
  have := drain_all e gs s (qinv_run repoConfig ops) (ginv_run ops) hqu hme hlen
  exact ⟨this.2.2, this.1, this.2.1⟩

/-- Non-vacuity of `drain_writes_latest`: after the `legacyWitness` history (run on the
code in the tree) and the clean release of the handle `Get` 1 returned, the state is
quiescent with a non-empty queue, and one drain `Get` of digest 7 writes update 2. -/
example : let s := run repoConfig (legacyWitness ++ [.readDone 1 true, .getEnd 1, .release 1 false])
    s.gets = [] ∧ s.held 0 = 0 ∧ s.held 1 = 0 ∧ s.queue = [0] ∧ s.store 0 = 1 ∧ s.latest 0 = 2 ∧
    (drain repoConfig 7 s [50]).store 0 = 2 := by decide

/-- One step of draining makes progress whatever the queue length is: the state stays
quiescent, `e` still has no handle, no update is lost, and `min 3 (queue length)`
handles leave the queue. -/
theorem drain_progress (ops : List Op) (g e : Nat) :
    let s := run repoConfig ops
    quiescent s → s.map e = none →
    quiescent (fullGetRelease repoConfig s g e) ∧ (fullGetRelease repoConfig s g e).map e = none ∧
    (fullGetRelease repoConfig s g e).latest = s.latest ∧
    (fullGetRelease repoConfig s g e).queue.length = s.queue.length - min 3 s.queue.length := by
  intro s hqu hme
  have := drain_step s g e (qinv_run repoConfig ops) (ginv_run ops) hqu hme
  exact ⟨this.2.2.1, this.2.2.2.1, this.2.2.2.2.1, this.2.2.2.2.2⟩

/-- In a quiescent state every handle that is still in the map is queued for writing
(nothing is forgotten outside the queue). -/
theorem quiescent_all_queued (ops : List Op) (d h : Nat) :
    let s := run repoConfig ops
    quiescent s → s.map d = some h → s.idx h ≠ none := by
  intro s hqu hm
  exact quiescent_queued s (qinv_run repoConfig ops) (ginv_run ops) hqu d h hm

/-- **A failed Put re-queues.**  If the Put of an unused handle fails without storing
anything, the handle is appended to the write queue again and keeps its place in the
map and its message (a handle that is in use is re-queued by its last `Release`:
`store_inv_handles`). -/
theorem put_failure_requeues (ops : List Op) (g h : Nat) (r : GetRec) (w : Write) :
    let s := run repoConfig ops
    lookupG s.gets g = some r → findWrite r.writes h = some w → s.useCount h = 0 →
    (putDone repoConfig s g h .err).idx h = some s.queue.length ∧
    (putDone repoConfig s g h .err).queue = s.queue ++ [h] ∧
    (putDone repoConfig s g h .err).map = s.map ∧
    (putDone repoConfig s g h .err).msg = s.msg ∧
    (putDone repoConfig s g h .err).store = s.store := by
  intro s hl hf hu
  exact putDone_err_requeues s g h r w (ginv_run ops) hl hf hu

/-- Non-vacuity of `put_failure_requeues`. -/
example : let s := run repoConfig [.getBegin 0 0, .readDone 0 true, .getEnd 0, .release 0 true, .getBegin 1 1]
    (∃ r w, lookupG s.gets 1 = some r ∧ findWrite r.writes 0 = some w) ∧ s.useCount 0 = 0 ∧
    (putDone repoConfig s 1 0 .err).queue = [0] := by
  refine ⟨⟨_, _, rfl, rfl⟩, by decide, by decide⟩

end BbRe.Properties.C07Store
