import BbRe.Lemmas.SchedInvProps
/-!
# C03 — identical cacheable actions in flight run once (proof half)

Theorems about the in-flight deduplication map of `Model/Sched.lean` (`State.dedup`, the model
of `inFlightDeduplicationMap`), for every `Reachable` state.  The model transcribes the code
*after* the fix `8d3e7dd` ("only remove a task's own entry from the in-flight deduplication
map"): `complete` erases the entry only when it points to the completing task.  With the old
unconditional delete `dedup_map_exact` is false (a completing background-learning task evicts
the live foreground task with the same digest; see `notes/findings` and the `sched` harness).
-/
namespace BbRe.Properties.C03
open BbRe.Sched BbRe.Lemmas.SchedInv

/-! ### sample run used by the non-vacuity examples -/
def cfg0 : Cfg := ⟨60, 60, 60, 900, 10, 60, 2, 0⟩
def h0 : Hints := { assign := [], sel := 0, bg := none, retry := false }
def q0 : ScqId := ⟨1, 0⟩
def w0 : WId := ⟨1, 1⟩
/-- one cacheable task (digest 55) queued with one client stream -/
def s1 : State := run (State.init cfg0) [ .register 1 [] 7 [0] 0 0, .exec h0 0 100 55 55 false [] 7 [1] 0 ]
/-- a second client of another invocation has attached -/
def s2 : State := run s1 [ .exec h0 0 101 55 55 false [] 7 [2] 0 ]
theorem s1_reachable : Reachable s1 := reachable_run (Reachable.init cfg0) _
theorem s2_reachable : Reachable s2 := reachable_run s1_reachable _

/-- **`Inv.dedup`: the map is exact.**  `map[k] = tid` iff `tid` is an uncompleted, cacheable,
non-background task with deduplication key `k`. -/
theorem dedup_map_exact {s : State} (hr : Reachable s) (k tid : Nat) :
    alookup k s.dedup = some tid ↔
      ∃ t, s.task? tid = some t ∧ t.dkey = k ∧ t.response = none ∧ t.doNotCache = false ∧
        t.background = false := by
  have hI := inv_reachable hr
  constructor
  · exact hI.core.d1 k tid
  · rintro ⟨t, h1, h2, h3, h4, h5⟩
    rw [← h2]; exact hI.core.d2 tid t h1 h3 h4 h5

example : alookup 55 s1.dedup = some 1 := by decide

/-! #### why fix `8d3e7dd` matters

`legacyState`: D is executed and succeeds with a background-learning run (task 2, same key,
never entered in the map), then D is requested again (task 3, fresh, entered in the map).  Both
are uncompleted.  The code before the fix executed `delete(inFlightDeduplicationMap, digest)`
*unconditionally* when task 2 completes: -/
def legacyState : State := run (State.init cfg0)
  [ .register 1 [] 7 [0] 3 0,
    .exec h0 0 100 55 55 false [] 7 [1] 0,
    .sync { h0 with assign := [(q0, w0, 1)] } 0 q0 [] 7 w0 .idle false,
    .sync { h0 with bg := some 0, assign := [(q0, w0, 2)] } 5 q0 [] 7 w0 (.completed 55 ⟨cOK, 0, 9, .worker⟩) false,
    .exec h0 5 101 55 55 false [] 7 [2] 0 ]

/-- In the reachable state `legacyState` the background task 2 and the live cacheable foreground
task 3 share key 55 and the map points to 3 — and the legacy unconditional
`delete(map, key of task 2)` would leave the map without an entry for the live task 3, i.e.
the conclusion of `dedup_map_exact` fails for the pre-fix rule (a third `Execute` would then start
a second execution).  The fixed rule (`if map[key] == this task`) does not erase: the entry is 3 ≠ 2. -/
theorem dedup_map_exact_counterexample_legacy :
    Reachable legacyState ∧
    (legacyState.task? 2).map (fun t => (t.dkey, t.background, t.response.isSome)) = some (55, true, false) ∧
    (legacyState.task? 3).map (fun t => (t.dkey, t.background, t.doNotCache, t.response.isSome)) =
      some (55, false, false, false) ∧
    alookup 55 legacyState.dedup = some 3 ∧
    alookup 55 (aerase 55 legacyState.dedup) = none ∧
    (if alookup 55 legacyState.dedup = some 2 then aerase 55 legacyState.dedup else legacyState.dedup)
      = legacyState.dedup :=
  ⟨reachable_run (Reachable.init cfg0) _, by decide, by decide, by decide, by decide, by decide⟩

/-- at most one uncompleted cacheable foreground task per key -/
theorem dedup_unique {s : State} (hr : Reachable s) {k1 k2 : Nat} {t1 t2 : Task}
    (h1 : s.task? k1 = some t1) (h2 : s.task? k2 = some t2) (hk : t1.dkey = t2.dkey)
    (hl1 : t1.response = none) (hl2 : t2.response = none) (hc1 : t1.doNotCache = false)
    (hc2 : t2.doNotCache = false) (hb1 : t1.background = false) (hb2 : t2.background = false) : k1 = k2 := by
  have a := (dedup_map_exact hr t1.dkey k1).mpr ⟨t1, h1, rfl, hl1, hc1, hb1⟩
  have b := (dedup_map_exact hr t1.dkey k2).mpr ⟨t2, h2, hk.symm, hl2, hc2, hb2⟩
  rw [a] at b; exact Option.some.inj b

/-- **attach.**  An `Execute` whose key is in the map (after the cleanup `bq.enter` ran)
creates no task, and afterwards the client's stream is parked on an operation of the
existing task. -/
theorem attach {s s0 s' : State} (hr : Reachable s) {h : Hints} {now c digest dkey : Nat} {dnc : Bool}
    {comps : List Nat} {platform : Nat} {inv : List Nat} {prio : Int} {tid : Nat}
    (he : enter h s now = .ok s0) (hd : alookup dkey s0.dedup = some tid)
    (hs : step s (.exec h now c digest dkey dnc comps platform inv prio) = .ok s') :
    s'.nextTask = s0.nextTask ∧
      ∃ st t, st ∈ s'.streams ∧ st.client = c ∧ s'.task? tid = some t ∧ st.op ∈ t.ops := by
  have hI0 : Inv s0 := (wp_of_ok (enter_spec (inv_reachable hr)) he).1
  have hs' : execBody h s0 c digest dkey dnc comps platform inv prio = .ok s' := by
    have : step s (.exec h now c digest dkey dnc comps platform inv prio) =
        (enter h s now >>= fun s => execBody h s c digest dkey dnc comps platform inv prio) :=
      execArrive_eq h s now c digest dkey dnc comps platform inv prio
    rw [this, he] at hs; exact hs
  have hpost := wp_of_ok (execBody_hit hI0 hd) hs'
  exact hpost

/-- the second `Execute` of the sample attaches: still one task, two streams -/
example : s2.nextTask = s1.nextTask ∧ s2.streams.length = 2 ∧ (s2.task? 1).map (·.ops) = some [1, 2] := by
  decide

/-- the operation a stream is parked on belongs to the task (so all attached clients wait for
the same, single response field) -/
theorem stream_op_of_task {s : State} (hr : Reachable s) {st : Stream} (hst : st ∈ s.streams) :
    ∃ op t, s.op? st.op = some op ∧ s.task? op.task = some t ∧ st.op ∈ t.ops := by
  have hI := inv_reachable hr
  have h3 := hI.sinv.s3 st hst
  cases hop : alookup st.op s.ops with
  | none => rw [hop] at h3; cases h3
  | some op =>
    obtain ⟨t, h1, h2⟩ := hI.oinv.o1 _ op hop
    exact ⟨op, t, hop, h1, h2⟩

example : s2.streams.length = 2 := by decide

/-- **do_not_cache / background tasks are never in the map.** -/
theorem do_not_cache_never_in_map {s : State} (hr : Reachable s) {tid : Nat} {t : Task}
    (ht : s.task? tid = some t) (hd : t.doNotCache = true ∨ t.background = true) (k : Nat) :
    alookup k s.dedup ≠ some tid := by
  intro h
  obtain ⟨t', h1, _, _, h4, h5⟩ := (dedup_map_exact hr k tid).mp h
  rw [ht] at h1; cases h1
  rcases hd with hd | hd
  · rw [h4] at hd; cases hd
  · rw [h5] at hd; cases hd

example : (legacyState.task? 2).map (fun t => (t.background, t.doNotCache)) = some (true, true) ∧
    legacyState.dedup.all (fun p => p.2 != 2) = true := by decide

/-- background-learning tasks are uncacheable -/
theorem background_is_do_not_cache {s : State} (hr : Reachable s) {tid : Nat} {t : Task}
    (ht : s.task? tid = some t) (hb : t.background = true) : t.doNotCache = true :=
  (inv_reachable hr).core.bg tid t ht hb

/-- **do_not_cache requests are never merged** (the precise statement).  The code consults the
map *before* it looks at `do_not_cache`; merging is prevented because an uncacheable task is
never entered.  An `Execute` with `dnc = true` that misses the map creates a task with
`doNotCache = true` and leaves the map unchanged — so a second identical request misses again and
creates another task.  (An `Execute` that *hits* the map attaches regardless of its own flag;
the hit task is cacheable by `dedup_map_exact`.  `do_not_cache` is part of the Action message and
therefore a function of the digest, so in the implementation a hit with `dnc = true` cannot
happen; the harness generates the flag as a function of the key.) -/
theorem do_not_cache_never_merged {s s0 s' : State} (hr : Reachable s) {h : Hints}
    {now c digest dkey : Nat} {comps : List Nat} {platform : Nat} {inv : List Nat} {prio : Int} {pq : PQ}
    (he : enter h s now = .ok s0) (hd : alookup dkey s0.dedup = none)
    (hroute : route s0 comps platform = some pq)
    (hs : step s (.exec h now c digest dkey true comps platform inv prio) = .ok s') :
    s'.nextTask = s0.nextTask + 1 ∧ s'.dedup = s0.dedup ∧ alookup dkey s'.dedup = none ∧
      ∃ t, s'.task? s0.nextTask = some t ∧ t.dkey = dkey ∧ t.doNotCache = true := by
  have hI0 : Inv s0 := (wp_of_ok (enter_spec (inv_reachable hr)) he).1
  have hs' : execBody h s0 c digest dkey true comps platform inv prio = .ok s' := by
    have : step s (.exec h now c digest dkey true comps platform inv prio) =
        (enter h s now >>= fun s => execBody h s c digest dkey true comps platform inv prio) :=
      execArrive_eq h s now c digest dkey true comps platform inv prio
    rw [this, he] at hs; exact hs
  obtain ⟨a, b, t, c1, c2, c3, _⟩ := wp_of_ok (execBody_miss hI0 hd hroute) hs'
  simp only [if_true] at b
  exact ⟨a, b, by rw [b]; exact hd, t, c1, c2, c3⟩

/-- the hypotheses are satisfiable: in `s1` key 77 misses the map and a platform queue is found -/
example : (match enter h0 s1 0 with
    | .ok s0 => alookup 77 s0.dedup == none && (route s0 [] 7).isSome
    | .error _ => false) = true := by decide

/-- two `do_not_cache` requests for the same key yield two tasks -/
example : (run s1 [ .exec h0 0 102 77 77 true [] 7 [1] 0, .exec h0 0 103 77 77 true [] 7 [1] 0 ]).nextTask
    = s1.nextTask + 2 := by decide

/-- a cacheable request that misses the map creates a task and enters it -/
theorem miss_creates_and_enters {s s0 s' : State} (hr : Reachable s) {h : Hints}
    {now c digest dkey : Nat} {comps : List Nat} {platform : Nat} {inv : List Nat} {prio : Int} {pq : PQ}
    (he : enter h s now = .ok s0) (hd : alookup dkey s0.dedup = none)
    (hroute : route s0 comps platform = some pq)
    (hs : step s (.exec h now c digest dkey false comps platform inv prio) = .ok s') :
    s'.nextTask = s0.nextTask + 1 ∧ alookup dkey s'.dedup = some s0.nextTask := by
  have hI0 : Inv s0 := (wp_of_ok (enter_spec (inv_reachable hr)) he).1
  have hs' : execBody h s0 c digest dkey false comps platform inv prio = .ok s' := by
    have : step s (.exec h now c digest dkey false comps platform inv prio) =
        (enter h s now >>= fun s => execBody h s c digest dkey false comps platform inv prio) :=
      execArrive_eq h s now c digest dkey false comps platform inv prio
    rw [this, he] at hs; exact hs
  obtain ⟨a, b, _⟩ := wp_of_ok (execBody_miss hI0 hd hroute) hs'
  simp only [Bool.false_eq_true, if_false] at b
  exact ⟨a, by rw [b, alookup_aset, if_pos rfl]⟩

/-- **fresh after completion.**  A completed task is not in the map, so (by
`miss_creates_and_enters`) the next request for its key starts a fresh execution unless another
live task has taken the key meanwhile. -/
theorem fresh_after_completion {s : State} (hr : Reachable s) {tid : Nat} {t : Task}
    (ht : s.task? tid = some t) (hc : t.response ≠ none) (k : Nat) : alookup k s.dedup ≠ some tid := by
  intro h
  obtain ⟨t', h1, _, h3, _⟩ := (dedup_map_exact hr k tid).mp h
  rw [ht] at h1; cases h1
  exact hc h3

example : (legacyState.task? 1).map (·.response.isSome) = some true ∧ alookup 55 legacyState.dedup ≠ some 1 := by
  decide

/-- if no live cacheable foreground task has key `k`, the map has no entry for `k` -/
theorem no_live_task_no_entry {s : State} (hr : Reachable s) (k : Nat)
    (hn : ∀ tid t, s.task? tid = some t → t.dkey = k → t.response = none → t.doNotCache = false →
      t.background = true) : alookup k s.dedup = none := by
  cases h : alookup k s.dedup with
  | none => rfl
  | some tid =>
    obtain ⟨t, h1, h2, h3, h4, h5⟩ := (dedup_map_exact hr k tid).mp h
    have := hn tid t h1 h2 h3 h4
    rw [h5] at this; cases this

/-- **A leaving client is harmless (cancellation).**  A parked stream whose client cancels
(`streamLeave`, the body of `streamWake … reason = 2` after `bq.enter`) changes neither tasks,
workers, the map nor any other client's stream; it only decrements the waiter count of its
operation (and may arm the no-waiter cleanup). -/
theorem leaver_harmless_cancel {s s' : State} {c code : Nat} (hh : streamLeave s c code = .ok s') :
    s'.tasks = s.tasks ∧ s'.workers = s.workers ∧ s'.dedup = s.dedup ∧
      s'.streams = s.streams.filter (fun x => x.client ≠ c) := by
  obtain ⟨a, b, c', _, e, _⟩ := streamLeave_frame hh
  exact ⟨a, b, c', e⟩

/-- the same at the level of a segment, when the clock does not advance -/
theorem leaver_harmless_cancel_step {s s' : State} {h : Hints} {now c : Nat} (hn : now ≤ s.now)
    (hh : step s (.streamWake h now c 2) = .ok s') :
    s'.tasks = s.tasks ∧ s'.workers = s.workers ∧ s'.dedup = s.dedup ∧
      s'.streams = s.streams.filter (fun x => x.client ≠ c) := by
  have : step s (.streamWake h now c 2) = streamWake h s now c 2 := rfl
  rw [this] at hh
  unfold streamWake at hh
  rw [enter_noop hn] at hh
  simp only [ok_bind'] at hh
  split at hh
  · simp only [if_true] at hh
    exact leaver_harmless_cancel hh
  · cases hh

example : (match step s2 (.streamWake h0 0 101 2) with
    | .ok s' => s'.streams.length == 1 && (s'.task? 1).map (·.stage) == (s2.task? 1).map (·.stage)
    | .error _ => false) = true := by decide

/-- **A leaving client is harmless (abandoned operation).**  Removing an operation that is not
the last one of its task (`operation.remove` from the cleanup queue) only erases the operation and
drops its name from the task: stage, worker, retry count, response, learner and all other
operations of the task, every other task, the workers, the map and the streams are unchanged;
in particular the task is *not* completed. -/
theorem leaver_harmless_remove {s s' : State} (hr : Reachable s) {h : Hints} {o : Nat} {op : Op} {t : Task}
    (hop : s.op? o = some op) (ht : s.task? op.task = some t) (hlen : t.ops.length ≠ 1)
    (hh : removeOp h s o = .ok s') :
    s' = { s with ops := aerase o s.ops,
                  tasks := aset t.id { t with ops := t.ops.filter (· ≠ o) } s.tasks } := by
  have hI := inv_reachable hr
  obtain ⟨t', h1, h2⟩ := hI.oinv.o1 o op hop
  have : alookup op.task s.tasks = some t := ht
  rw [this] at h1; cases h1
  have hne : (t.ops.filter (· ≠ o)).isEmpty = false := by
    cases he : (t.ops.filter (· ≠ o)).isEmpty with
    | false => rfl
    | true => exact absurd (filter_ne_empty_length (hI.oinv.o3 _ t ht).1 h2 he) hlen
  exact removeOp_nonlast hop ht hlen hne hh

/-- removing operation 2 of the sample (task 1 has operations 1 and 2) leaves operation 1 and
does not complete the task -/
example : (match removeOp h0 s2 2 with
    | .ok s' => (s'.task? 1).map (fun t => (t.ops, t.response.isSome, t.stage)) ==
        (s2.task? 1).map (fun t => ([1], t.response.isSome, t.stage))
    | .error _ => false) = true := by decide

/-- the last operation, on the contrary, completes the task with CANCELED / `noWaiters`
(non-vacuity of the hypothesis `length ≠ 1` above: here it is `1`) -/
example : (s1.task? 1).map (·.ops.length) = some 1 ∧ (s2.task? 1).map (·.ops.length) = some 2 := by decide

end BbRe.Properties.C03
