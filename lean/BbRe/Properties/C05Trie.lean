import BbRe.Model.Trie
import BbRe.Spec.PrefixMap
import BbRe.Lemmas.TrieRouter
import BbRe.Lemmas.TriePatch
/-!
# C05 — routing data structure part

The scheduler part of C05 (`Properties/C05.lean`, model `Model/Sched.lean`) treats
`platformQueuesTrie.GetLongestPrefix` by its specification (`route`: among the registered
queues with equal platform whose prefix is a component-wise prefix of the request's instance
name, the one with the longest prefix).  This file ties that specification to the data
structure and key code the scheduler really uses, as transcribed in `Model/Trie.lean`:

* `platform.Trie` over bb-storage's `digest.InstanceNameTrie` (node structure, value indices,
  `Set`, `Remove` with its cut-point loop, `GetExact`, `ContainsExact`, `GetLongestPrefix`),
* `platform.NewKey` (sortedness check, canonical string),
* the `platformQueues` / `platformQueuesTrie` pair of `InMemoryBuildQueue`
  (`addPlatformQueue`, swap-with-last removal, the lookups of `Execute`, `Synchronize`,
  `RegisterPredeclaredPlatformQueue`, instance name suffix),
* `DemultiplexingActionRouter`.

The specification is the finite map of `Spec/PrefixMap.lean`.  Every theorem is quantified
over all operation sequences, keys, values and sizes.  Helper lemmas: `Lemmas/Trie*.lean`.
-/
namespace BbRe.Properties.C05Trie
open BbRe.Model.Trie BbRe.Spec.PrefixMap
open BbRe.Lemmas.TrieAssoc BbRe.Lemmas.TrieNode BbRe.Lemmas.TrieTop BbRe.Lemmas.TriePrefixMap
open BbRe.Lemmas.TrieLongest BbRe.Lemmas.TrieIndex BbRe.Lemmas.TrieKey BbRe.Lemmas.TrieRouter

/-! ## concrete objects for the non-vacuity examples -/

/-- platforms: none, `[os=linux]`, `[arch=x86, os=linux]` (interned strings). -/
def exP0 : Plat := []
def exP1 : Plat := [(9, 8)]
def exP2 : Plat := [(5, 11), (9, 8)]

/-- `""`, `a`, `a/b`, `a/b/c`, `ab` on one platform, `a/b` on another; then `a/b` is removed
from the first (an interior node) and `a/b/c` too (a leaf chain that is cut off below `a`). -/
def exOps : List Op :=
  [.set ⟨[], exP1⟩ 0, .set ⟨[1], exP1⟩ 1, .set ⟨[1, 2], exP1⟩ 2, .set ⟨[1, 2, 3], exP1⟩ 3,
   .set ⟨[4], exP1⟩ 4, .set ⟨[1, 2], exP2⟩ 5, .remove ⟨[1, 2], exP1⟩, .remove ⟨[1, 2, 3], exP1⟩]

def exTrie : Trie := (Trie.run Trie.empty exOps).getD Trie.empty

/-! ## `trie_refines_map` -/

/-- **The trie is the finite map.**  After any sequence of `Set`/`Remove` calls that did not
panic, the trie is well-formed and every lookup answers as the finite map
`(platform, component list) ↦ value` built by the same calls: `GetExact` returns the bound
value or −1, `ContainsExact` says whether the key is bound, `GetLongestPrefix` returns what the
specification `longestPrefix` returns. -/
theorem trie_refines_map (ops : List Op) (t : Trie) (h : Trie.run Trie.empty ops = some t) :
    WF t ∧
    (∀ k, t.getExact k = toInt (get (run [] ops) k)) ∧
    (∀ k, t.containsExact k = (get (run [] ops) k).isSome) ∧
    (∀ k, t.getLongestPrefix k = toInt (longestPrefix (run [] ops) k)) := by
  have hr := refines_run refines_empty ops h
  refine ⟨hr.1, ?_, ?_, ?_⟩
  · intro k; rw [getExact_eq hr.1, hr.2]
  · intro k
    have := containsExact_iff hr.1 k
    rw [hr.2, toInt_nonneg_iff] at this
    cases hc : t.containsExact k <;> cases hg : (get (run [] ops) k).isSome <;> simp_all
  · intro k; exact refines_longest hr k

example : (Trie.run Trie.empty exOps).isSome = true := by decide
example : exTrie.getLongestPrefix ⟨[1, 2, 3, 6], exP1⟩ = 1 ∧ exTrie.getExact ⟨[1, 2], exP1⟩ = -1 ∧
    exTrie.getLongestPrefix ⟨[1, 2, 3, 6], exP2⟩ = 5 ∧ exTrie.getLongestPrefix ⟨[4, 3], exP1⟩ = 4 ∧
    exTrie.getLongestPrefix ⟨[7], exP1⟩ = 0 ∧ exTrie.getLongestPrefix ⟨[7], exP2⟩ = -1 := by decide

/-- **What the specification's `longestPrefix` is.**  It returns `v` iff `v` is bound to a
component-wise prefix `q` of the instance name under the same platform and no longer prefix is
bound; it returns nothing iff no prefix is bound. -/
theorem longestPrefix_spec (m : PrefixMap) (k : Key) :
    (∀ v, longestPrefix m k = some v ↔
      ∃ q, q <+: k.inst ∧ get m ⟨q, k.plat⟩ = some v ∧
        ∀ q', q' <+: k.inst → q.length < q'.length → get m ⟨q', k.plat⟩ = none) ∧
    (longestPrefix m k = none ↔ ∀ q, q <+: k.inst → get m ⟨q, k.plat⟩ = none) := by
  constructor
  · intro v
    have := longestPrefixFrom_some_iff m k.plat [] k.inst v
    simpa [longestPrefix] using this
  · have := longestPrefixFrom_none_iff m k.plat [] k.inst
    simpa [longestPrefix] using this

/-- **`GetLongestPrefix` = longest registered component-wise prefix with the same platform.**
The two theorems above combined, stated directly on the implementation's return value:
−1 iff no prefix of the instance name is registered for the platform, and otherwise the value of
the longest registered one. -/
theorem trie_longest_prefix (ops : List Op) (t : Trie) (h : Trie.run Trie.empty ops = some t) (k : Key) :
    (t.getLongestPrefix k = -1 ↔ ∀ q, q <+: k.inst → get (run [] ops) ⟨q, k.plat⟩ = none) ∧
    (∀ v : Nat, t.getLongestPrefix k = (v : Int) ↔
      ∃ q, q <+: k.inst ∧ get (run [] ops) ⟨q, k.plat⟩ = some v ∧
        ∀ q', q' <+: k.inst → q.length < q'.length → get (run [] ops) ⟨q', k.plat⟩ = none) := by
  obtain ⟨_, _, _, hl⟩ := trie_refines_map ops t h
  obtain ⟨hs, hn⟩ := longestPrefix_spec (run [] ops) k
  constructor
  · rw [hl, toInt_eq_neg_one_iff]; exact hn
  · intro v
    rw [hl, ← hs v]
    constructor
    · intro e; exact toInt_inj (b := some v) e
    · intro e; rw [e]; rfl

/-- histories in which `Remove` is only called for registered keys (what the scheduler does,
see `swap_with_last_consistent`). -/
def Legal (m : PrefixMap) : List Op → Prop
  | [] => True
  | .set k v :: ops => Legal (set m k v) ops
  | .remove k :: ops => (get m k).isSome ∧ Legal (erase m k) ops

/-- Such histories never panic, so `trie_refines_map` applies to all of them. -/
theorem legal_runs (ops : List Op) (t : Trie) (m : PrefixMap) (hr : Refines t m) (hl : Legal m ops) :
    ∃ t', Trie.run t ops = some t' := by
  induction ops generalizing t m with
  | nil => exact ⟨t, rfl⟩
  | cons op ops ih =>
    cases op with
    | set k v =>
      rw [run_cons]
      exact ih _ _ (refines_step hr (.set k v) rfl) hl
    | remove k =>
      obtain ⟨hp, hl'⟩ := hl
      have hv : 0 ≤ tval t k := by rw [hr.2, toInt_nonneg_iff]; exact hp
      obtain ⟨t1, ht1⟩ := remove_present k hv
      rw [run_cons]
      show ∃ t', (match Trie.applyOp t (.remove k) with | none => none | some t' => Trie.run t' ops) = some t'
      have : Trie.applyOp t (.remove k) = some t1 := ht1
      rw [this]
      exact ih _ _ (refines_step hr (.remove k) this) hl'

example : Legal [] exOps := by
  simp only [exOps, Legal]; decide

/-! ## `remove_prunes` -/

/-- **`Remove`.**  In every state reached by a Set/Remove history:
(1) removing a registered key succeeds, unbinds exactly that key (all three lookups of every
    other key are unchanged because the result again refines the map with the key erased);
(2) removing a key that is not registered either dereferences a nil node (the platform is
    unknown, or the path leaves the trie) — `none`, a Go panic — or changes no binding;
(3) the trie is pruned: no per-platform trie in the map is empty, and below the root every
    node without children carries a value, so no value-less branch — let alone a stale value —
    remains reachable. -/
theorem remove_prunes (ops : List Op) (t : Trie) (h : Trie.run Trie.empty ops = some t) (k : Key) :
    ((get (run [] ops) k).isSome →
      ∃ t', t.remove k = some t' ∧ Refines t' (erase (run [] ops) k) ∧ t'.getExact k = -1 ∧
        t'.containsExact k = false) ∧
    (get (run [] ops) k = none →
      (t.remove k = none ↔
        (aget k.plat t.platforms = none ∨
          ∃ pt, aget k.plat t.platforms = some pt ∧ at? pt k.inst = none)) ∧
      ∀ t', t.remove k = some t' → Refines t' (run [] ops)) ∧
    (∀ p pt, aget p t.platforms = some pt →
      ¬ (pt.value < 0 ∧ pt.kids = []) ∧
      ∀ path m, path ≠ [] → at? pt path = some m → m.kids = [] → 0 ≤ m.value) := by
  have hr := refines_run refines_empty ops h
  refine ⟨?_, ?_, ?_⟩
  · intro hp
    have hv : 0 ≤ tval t k := by rw [hr.2, toInt_nonneg_iff]; exact hp
    obtain ⟨t', ht'⟩ := remove_present k hv
    have hr' : Refines t' (erase (run [] ops) k) := refines_step hr (.remove k) ht'
    refine ⟨t', ht', hr', ?_, ?_⟩
    · rw [getExact_eq hr'.1, hr'.2, get_erase]; simp [toInt]
    · have := containsExact_iff hr'.1 k
      rw [hr'.2, get_erase] at this
      cases hc : t'.containsExact k
      · rfl
      · have := this.1 hc; simp [toInt] at this
  · intro hnone
    refine ⟨remove_none_iff t k, ?_⟩
    intro t' ht'
    have hr' : Refines t' (erase (run [] ops) k) := refines_step hr (.remove k) ht'
    refine ⟨hr'.1, ?_⟩
    intro k'
    rw [hr'.2, get_erase]
    by_cases e : k' = k
    · subst e; simp [hnone]
    · simp [e]
  · intro p pt hp
    obtain ⟨hroot, hne⟩ := hr.1.roots p pt hp
    refine ⟨hne, ?_⟩
    intro path m hpath hm hk
    cases path with
    | nil => exact absurd rfl hpath
    | cons c cs =>
      rw [at?_cons] at hm
      cases hc : pt.child? c with
      | none => rw [hc] at hm; cases hm
      | some ch => rw [hc] at hm; exact ((hroot.2 c ch hc) cs m hm).2 hk

example : (exTrie.remove ⟨[1], exP1⟩).isSome = true ∧ (exTrie.remove ⟨[1, 2], exP1⟩).isNone = true ∧
    (exTrie.remove ⟨[1], exP2⟩).isSome = true ∧ (exTrie.remove ⟨[7], exP0⟩).isNone = true := by decide

/-! ## `swap_with_last_consistent` -/

/-- **The scheduler's re-indexing discipline.**  In every state of the
`platformQueues`/`platformQueuesTrie` pair reached by `RegisterPredeclaredPlatformQueue`,
`Synchronize` (queue creation through `addPlatformQueue`) and queue removal (swap-with-last,
`Set(lastPQ.platformKey, index)` then `Remove(pq.platformKey)`) in any order:
`platformQueues[i]` is registered in the trie under index `i`, the keys are pairwise distinct,
the trie knows no key that is not in the list, and removing any queue of the list does not
panic and yields the list with the last element moved into the hole. -/
theorem swap_with_last_consistent (ops : List QOp) (s : PQIndex) (h : qrun PQIndex.empty ops = some s) :
    (∀ i (hi : i < s.queues.length), s.trie.getExact s.queues[i] = (i : Int)) ∧
    s.queues.Nodup ∧
    (∀ k, s.trie.containsExact k = true → k ∈ s.queues) ∧
    (∀ i (hi : i < s.queues.length), ∃ s', s.removeQueue i = some s' ∧
      s'.queues = (s.queues.set i s.queues[s.queues.length - 1]).take (s.queues.length - 1) ∧
      (∀ j (hj : j < s'.queues.length), s'.trie.getExact s'.queues[j] = (j : Int)) ∧
      s'.trie.getExact s.queues[i] = -1) := by
  have hinv := inv_qrun inv_empty ops h
  refine ⟨?_, hinv.nodup, ?_, ?_⟩
  · intro i hi
    rw [hinv.getExact]; exact hinv.idx i _ (List.getElem?_eq_getElem hi)
  · intro k hk
    exact hinv.dom k ((containsExact_iff hinv.wf k).1 hk)
  · intro i hi
    obtain ⟨t2, ht2, hrq⟩ := removeQueue_spec hinv hi
    have hinv' := inv_removeQueue hinv hi hrq
    refine ⟨_, hrq, rfl, ?_, ?_⟩
    · intro j hj
      rw [hinv'.getExact]; exact hinv'.idx j _ (List.getElem?_eq_getElem hj)
    · have hw1 : WF (s.trie.set s.queues[s.queues.length - 1] (i : Int)) := wf_set hinv.wf _ (by omega)
      obtain ⟨hw2, hv2⟩ := remove_spec hw1 _ ht2
      show t2.getExact s.queues[i] = -1
      rw [getExact_eq hw2, hv2]; simp

/-- three worker-created queues `a`, `a/b`, `""`; the first one is removed. -/
def exQOps : List QOp :=
  [.synchronize ⟨[1], exP1⟩, .register [1, 2] exP1, .synchronize ⟨[], exP1⟩, .synchronize ⟨[1], exP1⟩,
   .removeQueue 0]

example : ((qrun PQIndex.empty exQOps).map (fun s => s.queues)) =
    some [⟨[], exP1⟩, ⟨[1, 2], exP1⟩] := by decide

/-- **`Execute` and `Synchronize` on the pair.**  `Execute` finds no queue iff no queue of the
list has the request's platform and a prefix of its instance name; otherwise it uses the queue
with the longest such prefix, and the `InstanceNameSuffix` it hands to the worker satisfies
`prefix ++ suffix = instance name`.  `Synchronize` puts the worker in the queue whose key is
exactly the worker's. -/
theorem execute_routes_longest_prefix (ops : List QOp) (s : PQIndex) (h : qrun PQIndex.empty ops = some s)
    (key : Key) :
    (s.execute key = none ↔ ∀ q, q ∈ s.queues → ¬ (q.plat = key.plat ∧ q.inst <+: key.inst)) ∧
    (∀ i o, s.execute key = some (i, o) →
      ∃ (j : Nat) (q : Key), i = (j : Int) ∧ s.queues[j]? = some q ∧ q.plat = key.plat ∧
        q.inst <+: key.inst ∧
        (∀ q', q' ∈ s.queues → q'.plat = key.plat → q'.inst <+: key.inst → q'.inst.length ≤ q.inst.length) ∧
        o = some (patchSuffix q.inst key.inst) ∧ q.inst ++ patchSuffix q.inst key.inst = key.inst) ∧
    (∃ i : Nat, (s.synchronize key).2 = (i : Int) ∧ (s.synchronize key).1.queues[i]? = some key) := by
  have hinv := inv_qrun inv_empty ops h
  exact ⟨(execute_spec hinv key).1, (execute_spec hinv key).2, synchronize_index hinv key⟩

example : ((qrun PQIndex.empty exQOps).bind (fun s => s.execute ⟨[1, 2, 3], exP1⟩)) =
    some (1, some [3]) := by decide
example : ((qrun PQIndex.empty exQOps).bind (fun s => s.execute ⟨[1, 7], exP1⟩)) =
    some (0, some [1, 7]) := by decide
example : ((qrun PQIndex.empty exQOps).bind (fun s => s.execute ⟨[1, 7], exP2⟩)) = none := by decide

/-- **The scheduler model's `route` is what the trie computes.**  `Model/Sched.lean` replaces
`platformQueuesTrie.GetLongestPrefix` by a function `route` over its list of platform queues, of
which `C05.routing` / `C05.routing_none` prove exactly the two hypotheses `hnone`, `hsome` below
(nothing iff no queue has the platform and a prefix of the instance name; otherwise a matching
queue of maximal prefix length).  For every reachable state of the real list/trie pair holding
the same keys (`keyOf` = instance-name prefix and platform of a queue), any such `route` agrees
with `Execute`'s lookup in the trie: both find nothing, or `route`'s queue is the one stored at
the index the trie returns, and the suffix is the instance name minus that queue's prefix. -/
theorem sched_route_refined {α : Type} (pqs : List α) (keyOf : α → Key) (ops : List QOp) (s : PQIndex)
    (h : qrun PQIndex.empty ops = some s) (hq : s.queues = pqs.map keyOf) (key : Key) (r : Option α)
    (hnone : r = none ↔ ∀ p, p ∈ pqs → ¬ ((keyOf p).plat = key.plat ∧ (keyOf p).inst <+: key.inst))
    (hsome : ∀ pq, r = some pq → pq ∈ pqs ∧ (keyOf pq).plat = key.plat ∧ (keyOf pq).inst <+: key.inst ∧
      ∀ p, p ∈ pqs → (keyOf p).plat = key.plat → (keyOf p).inst <+: key.inst →
        (keyOf p).inst.length ≤ (keyOf pq).inst.length) :
    (r = none ↔ s.execute key = none) ∧
    (∀ pq, r = some pq → ∃ j : Nat,
      s.execute key = some ((j : Int), some (patchSuffix (keyOf pq).inst key.inst)) ∧
      s.queues[j]? = some (keyOf pq)) := by
  obtain ⟨hen, hes, _⟩ := execute_routes_longest_prefix ops s h key
  constructor
  · rw [hnone, hen, hq]
    simp only [List.mem_map, forall_exists_index, and_imp, forall_apply_eq_imp_iff₂]
  · intro pq hr
    obtain ⟨hmem, hp, hpre, hmax⟩ := hsome pq hr
    have hkmem : keyOf pq ∈ s.queues := by rw [hq]; exact List.mem_map_of_mem hmem
    cases he : s.execute key with
    | none => exact absurd ⟨hp, hpre⟩ (hen.1 he _ hkmem)
    | some x =>
      obtain ⟨i, o⟩ := x
      obtain ⟨j, q, hi, hj, hqp, hqpre, hqmax, ho, _⟩ := hes i o he
      have hqmem : q ∈ s.queues := List.mem_iff_getElem?.2 ⟨j, hj⟩
      have hl1 := hqmax _ hkmem hp hpre
      have hl2 : q.inst.length ≤ (keyOf pq).inst.length := by
        rw [hq, List.mem_map] at hqmem
        obtain ⟨p, hpm, hpk⟩ := hqmem
        have := hmax p hpm (by rw [hpk]; exact hqp) (by rw [hpk]; exact hqpre)
        rw [hpk] at this; exact this
      have hinst : q.inst = (keyOf pq).inst :=
        (List.prefix_of_prefix_length_le hqpre hpre hl2).eq_of_length (by omega)
      have hqk : q = keyOf pq := by
        cases q; cases hk : keyOf pq
        simp only [hk] at hinst hp
        simp only at hqp
        simp [hinst, hqp, hp]
      subst hi
      refine ⟨j, ?_, by rw [hj, hqk]⟩
      rw [ho, hqk]

/-- **The suffix on strings.**  `Execute` computes the suffix with bb-storage's
`InstanceNamePatcher` on the instance name *string* (`patchString`: skip `len(prefix + "/")` bytes,
or return `""` when nothing is left).  Under any naming of components by non-empty strings this is
the component-wise `patchSuffix` used in `execute_routes_longest_prefix`, whenever the queue's
prefix is a component-wise prefix of the instance name (which that theorem guarantees). -/
theorem suffix_string_level (name : Comp → Str) (hname : ∀ c, name c ≠ []) (pfx inst : List Comp)
    (h : pfx <+: inst) :
    patchString (joinName (pfx.map name)) (joinName (inst.map name)) =
      joinName ((patchSuffix pfx inst).map name) :=
  BbRe.Lemmas.TriePatch.patchSuffix_string_level name hname pfx inst h

/-- `a/b` stripped from `a/b/cd` is `cd`; stripped from `a/b` it is the empty name. -/
example : patchString (joinName [[97], [98]]) (joinName [[97], [98], [99, 100]]) = [99, 100] ∧
    patchString (joinName [[97], [98]]) (joinName [[97], [98]]) = [] ∧
    patchString [] (joinName [[97], [98]]) = [97, 47, 98] := by decide

/-! ## `key_canonical` -/

/-- **`NewKey`.**  It accepts exactly the property lists that are strictly sorted by
(name, value) — duplicates are rejected —; two keys are equal iff instance name and property
list are equal; the platform string is injective on property lists; and a strictly sorted list
is determined by its set of properties, so equal keys ⇔ equal instance name and equal property
*sets*. -/
theorem key_canonical :
    (∀ inst ps, (newKey inst ps).isSome ↔ StrictSorted ps) ∧
    (∀ i1 p1 i2 p2 k1 k2, newKey i1 p1 = some k1 → newKey i2 p2 = some k2 →
      (k1 = k2 ↔ i1 = i2 ∧ p1 = p2)) ∧
    (∀ a b : Plat, platformString a = platformString b → a = b) ∧
    (∀ i1 p1 i2 p2 k1 k2, newKey i1 p1 = some k1 → newKey i2 p2 = some k2 →
      (k1 = k2 ↔ i1 = i2 ∧ ∀ x, x ∈ p1 ↔ x ∈ p2)) := by
  refine ⟨?_, ?_, platformString_injective, ?_⟩
  · intro inst ps
    cases hk : newKey inst ps with
    | none => simpa using (newKey_eq_none_iff inst ps).1 hk
    | some k => simpa using ((newKey_eq_some_iff inst ps k).1 hk).1
  · intro i1 p1 i2 p2 k1 k2 h1 h2
    obtain ⟨_, e1⟩ := (newKey_eq_some_iff i1 p1 k1).1 h1
    obtain ⟨_, e2⟩ := (newKey_eq_some_iff i2 p2 k2).1 h2
    subst e1 e2
    simp
  · intro i1 p1 i2 p2 k1 k2 h1 h2
    obtain ⟨s1, e1⟩ := (newKey_eq_some_iff i1 p1 k1).1 h1
    obtain ⟨s2, e2⟩ := (newKey_eq_some_iff i2 p2 k2).1 h2
    subst e1 e2
    simp only [Key.mk.injEq]
    constructor
    · rintro ⟨rfl, rfl⟩; exact ⟨rfl, fun _ => Iff.rfl⟩
    · rintro ⟨rfl, hm⟩; exact ⟨rfl, strictSorted_ext p1 p2 s1 s2 hm⟩

example : (newKey [1] exP2).isSome = true ∧ (newKey [1] [(9, 8), (5, 11)]).isSome = false ∧
    (newKey [1] [(9, 8), (9, 8)]).isSome = false ∧ (newKey [1] [(9, 8), (9, 11)]).isSome = true := by decide

/-! ## `router_longest_prefix` -/

/-- **`DemultiplexingActionRouter`.**  After any sequence of `RegisterActionRouter` calls
(`regsOf` = those that succeeded: valid key, not registered before), `RouteAction` with a key
extractor that builds the key from the request's instance name and platform
 * passes the extractor's error on when the key is invalid,
 * forwards to the default router when no registered prefix matches (same platform,
   component-wise prefix),
 * otherwise forwards to the router registered under the longest matching prefix,
and every registration returns the status the history calls for.  The router forwards the
digest function (hence the instance name) unchanged: this implementation does **not** strip the
prefix; the instance name suffix is computed by `Execute` (`execute_routes_longest_prefix`). -/
theorem router_longest_prefix (dflt : Nat) (calls : List (List Comp × List (Nat × Nat) × Nat))
    (inst : List Comp) (props : List (Nat × Nat)) :
    let r := runRegs (Router.new dflt) calls
    let regs := regsOf [] calls
    (newKey inst props = none → r.route inst props = .extractFailed) ∧
    (∀ key, newKey inst props = some key →
      ((∀ e, e ∈ regs → ¬ (e.1.plat = key.plat ∧ e.1.inst <+: key.inst)) →
        r.route inst props = .to dflt inst) ∧
      (∀ e, e ∈ regs → e.1.plat = key.plat → e.1.inst <+: key.inst →
        (∀ e', e' ∈ regs → e'.1.plat = key.plat → e'.1.inst <+: key.inst →
          e'.1.inst.length ≤ e.1.inst.length) →
        r.route inst props = .to e.2 inst)) ∧
    (∀ c, (r.register c.1 c.2.1 c.2.2).2 = regStatus regs c ∧
      RInv (r.register c.1 c.2.1 c.2.2).1 dflt (regStep regs c)) := by
  intro r regs
  have hinv : RInv r dflt regs := rinv_run (rinv_new dflt) calls
  refine ⟨fun hk => route_extract_failed r hk, ?_, ?_⟩
  · intro key hk
    exact ⟨fun hn => route_default hinv hk hn, fun e he hp hpre hmax => route_longest hinv hk he hp hpre hmax⟩
  · intro c
    exact ⟨(rinv_register hinv c).2, (rinv_register hinv c).1⟩

/-- routers 1 (`a`), 2 (`a/b`), 3 (`""` on another platform); the duplicate and the unsorted
registration are refused. -/
def exCalls : List (List Comp × List (Nat × Nat) × Nat) :=
  [([1], exP1, 1), ([1, 2], exP1, 2), ([], exP2, 3), ([1], exP1, 4), ([7], [(9, 8), (5, 11)], 5)]

example : (runRegs (Router.new 100) exCalls).route [1, 2, 3] exP1 = .to 2 [1, 2, 3] ∧
    (runRegs (Router.new 100) exCalls).route [1, 7] exP1 = .to 1 [1, 7] ∧
    (runRegs (Router.new 100) exCalls).route [4] exP1 = .to 100 [4] ∧
    (runRegs (Router.new 100) exCalls).route [4] exP2 = .to 3 [4] ∧
    (runRegs (Router.new 100) exCalls).route [4] [(9, 8), (5, 11)] = .extractFailed := by decide

end BbRe.Properties.C05Trie
