import BbRe.Model.Replay41
import BbRe.Lemmas.Replay41
/-!
# C19 — NFSv4: retransmitted requests execute once and get the same reply

Theorems about `Model/Replay41.lean` (transcription of `opSequence`,
`opCreateSession` … of `nfs41_program.go`) and `Model/Replay40.lean`
(`startTransaction` / `transactionShouldComplete` / response caching of
`nfs40_program.go`).  The operations of a compound are abstract: their outcome
is an arbitrary input `x` of the `finish` step, so every statement holds for
every executor, every number of sessions / slots / owners and every
interleaving of arrivals and completions (`Reachable` quantifies over all op
lists: duplication, reordering and loss of requests are just different lists;
loss of a reply is not a server event at all).

Sequence ids are `uint32`; "at most once" is therefore stated for windows of
fewer than `M = 2^32` executions on one slot.
-/
namespace BbRe.Properties.C19
open BbRe.Replay41 BbRe.Lemmas.Replay41

/-! ## NFSv4.1 -/

/-- `arrive` starts an execution only on an idle slot of a live session and only
for the successor of the slot's last sequence id. -/
theorem arrive_started_41 (s : State) (c : Nat) (r : Req) (h : (arrive s c r).2 = .started) :
    ∃ se, s.sess r.sess = some se ∧ se.alive = true ∧ r.slot < se.nslots ∧
      (se.slot r.slot).busy = none ∧ r.seq = ((se.slot r.slot).lastSeq + 1) % M ∧
      (arrive s c r).1.execs = s.execs ++ [(c, r)] := by
  rcases arrive_cases s c r with ⟨rep, h1, _⟩ | ⟨se, h1, h2, h3, h4, h5, h6⟩ | ⟨h1, _⟩
  · rw [h1] at h; cases h
  · rcases h6 with ⟨h6, _⟩ | ⟨_, h7⟩
    · rw [h6] at h; cases h
    · exact ⟨se, h1, h2, h3, h4, h5, h7⟩
  · rw [h1] at h; cases h

/-- A request that is not started leaves the execution log untouched. -/
theorem arrive_not_started_41 (s : State) (c : Nat) (r : Req) (h : (arrive s c r).2 ≠ .started) :
    (arrive s c r).1.execs = s.execs := by
  rcases arrive_cases s c r with ⟨rep, h1, _⟩ | ⟨se, _, _, _, _, _, h6⟩ | ⟨_, h2⟩
  · rw [h1]
  · rcases h6 with ⟨_, h7⟩ | ⟨h6, _⟩
    · exact h7
    · exact absurd h6 h
  · exact h2

/-- **exec_seqs**: on every slot the sequence ids of the executions that were
started are exactly `1, 2, …, n` (mod 2^32), in this order — whatever was sent,
duplicated, reordered or lost. -/
theorem exec_seqs_41 {a b : Nat} {l lj : Bool} {s : State} (h : Reachable (init a b l lj) s) (sid slot : Nat) :
    (execsOn s.execs sid slot).map (·.seq) = seqsTo (execsOn s.execs sid slot).length := by
  have hinv := inv_reachable (inv_init a b l lj) h
  cases hse : s.sess sid with
  | none => rw [hinv.noexec sid slot hse]; rfl
  | some se =>
    have hs := (hinv.slots sid se slot hse).seqs
    have hl : (execsOn s.execs sid slot).length = (se.slot slot).nExec := by
      have := congrArg List.length hs
      simpa [seqsTo_length] using this
    rw [hl]; exact hs

/-- **at_most_once** (4.1): a request carrying the (session, slot, sequence id)
of an execution that was already started on that slot — fewer than 2^32
executions ago — is never executed: the step does not start an execution and
the execution log is unchanged.  A retransmission is the special case `r = r'`. -/
theorem at_most_once_41 {a b : Nat} {l lj : Bool} {s : State} (h : Reachable (init a b l lj) s)
    (c : Nat) (r : Req) (i : Nat) (hi : i < (execsOn s.execs r.sess r.slot).length)
    (hseq : ((execsOn s.execs r.sess r.slot)[i]).seq = r.seq)
    (hwin : (execsOn s.execs r.sess r.slot).length - i < M) :
    (arrive s c r).2 ≠ .started ∧ (arrive s c r).1.execs = s.execs := by
  have hne : (arrive s c r).2 ≠ .started := by
    intro hst
    obtain ⟨se, hse, _, _, hb, hnext, _⟩ := arrive_started_41 s c r hst
    have hinv := inv_reachable (inv_init a b l lj) h
    have hs := hinv.slots r.sess se r.slot hse
    have hidle := hs.idle hb
    have hlen : (execsOn s.execs r.sess r.slot).length = (se.slot r.slot).nExec := by
      have := congrArg List.length hs.seqs
      simpa [seqsTo_length] using this
    have hget : ((execsOn s.execs r.sess r.slot)[i]).seq = (i + 1) % M := by
      have h1 : ((execsOn s.execs r.sess r.slot).map (·.seq))[i]'(by simpa using hi) = (i + 1) % M := by
        have := seqsTo_get (se.slot r.slot).nExec i (by rw [seqsTo_length]; omega)
        simp only [hs.seqs]; exact this
      simpa using h1
    rw [hseq, hnext, hidle, mod_succ_eq] at hget
    rw [hlen] at hwin hi
    simp only [M] at hget hwin
    omega
  exact ⟨hne, arrive_not_started_41 s c r hne⟩

/-- Well-formedness of an executor result w.r.t. the request it executed: the
loop of `opSequence` appends one result per operation (same op number, or
`OP_ILLEGAL`), stops at the first failure. -/
def WF (r : Req) (x : XRes) : Prop :=
  x.resops.length ≤ r.ops.length ∧ (x.status = 0 → x.resops.length = r.ops.length) ∧
    matchOps x.resops r.ops = true

theorem matchOps_take (rs os : List Nat) (n : Nat) (h : matchOps rs os = true) : matchOps (rs.take n) os = true := by
  induction rs generalizing os n with
  | nil => simp [matchOps]
  | cons a rs ih =>
    cases n with
    | zero => simp [matchOps]
    | succ n =>
      cases os with
      | nil => simp [matchOps] at h
      | cons o os =>
        simp only [List.take_succ_cons, matchOps, Bool.and_eq_true] at h ⊢
        exact ⟨h.1, ih os n h.2⟩

/-- The cached form of a well-formed result passes the shape check of a request
with the same operations. -/
theorem shapeOK_cachedRes (r : Req) (x : XRes) (hwf : WF r x) : shapeOK (cachedRes r.cache x) r.ops = true := by
  obtain ⟨h1, h2, h3⟩ := hwf
  unfold cachedRes
  split
  · unfold shapeOK fullRes
    simp only [h3, Bool.and_true, Bool.not_eq_true', Bool.or_eq_false_iff, decide_eq_false_iff_not,
      Bool.and_eq_false_iff]
    refine ⟨by omega, ?_⟩
    by_cases hs : x.status = 0
    · right; simp [h2 hs]
    · left; exact hs
  · unfold shapeOK
    simp only [matchOps_take _ _ _ h3, Bool.and_true, Bool.not_eq_true', Bool.or_eq_false_iff,
      decide_eq_false_iff_not, Bool.and_eq_false_iff, List.length_take]
    refine ⟨?_, Or.inl (by simp [errRetryUncachedRep])⟩
    rename_i hc
    simp only [Bool.or_eq_true, decide_eq_true_eq, Bool.and_eq_true, not_or, not_and] at hc
    omega

/-- **same_reply** (4.1, cached arm): while request `r0` is the last one that
finished on its slot (ghost `lastDone`; it is set by `finish` and cleared only
when the slot accepts the successor sequence id, see `lastDone_set_41` /
`lastDone_stable_41`), every request with its session, slot, sequence id and
operations is answered, without any state change, with the cached form of the
original's result: the original's reply itself, or — exactly when the original
did not ask for caching and produced more than `len(resArray) < 2 ∨ (= 2 ∧
failed)` allows — `[SEQUENCE, first op with NFS4ERR_RETRY_UNCACHED_REP]`
(`uncached_rule_41`). -/
theorem same_reply_41 {a b : Nat} {l lj : Bool} {s : State} (h : Reachable (init a b l lj) s)
    (c : Nat) (r r0 : Req) (x0 : XRes) (se : Session)
    (hse : s.sess r.sess = some se) (halive : se.alive = true) (hslot : r.slot < se.nslots)
    (hdone : (se.slot r.slot).lastDone = some (r0, x0))
    (hseq : r.seq = r0.seq) (hops : r.ops = r0.ops) (hwf : WF r0 x0) :
    arrive s c r = (s, .reply (cachedRes r0.cache x0)) := by
  have hinv := inv_reachable (inv_init a b l lj) h
  obtain ⟨h1, h2, _⟩ := (hinv.slots r.sess se r.slot hse).done r0 x0 hdone
  rw [arrive_eq_replay s c r se hse halive hslot (by rw [h2, hseq]), h1, hops, shapeOK_cachedRes r0 x0 hwf]
  simp

/-- The caching rule of `opSequence`: the full result is kept iff the client
asked for it or the result has at most one operation result after SEQUENCE
(one only if it failed); otherwise the retry gets RETRY_UNCACHED_REP. -/
theorem uncached_rule_41 (cache : Bool) (x : XRes) :
    (cachedRes cache x = fullRes x ↔
      (cache = true ∨ x.resops.length = 0 ∨ (x.resops.length = 1 ∧ x.status ≠ 0))) ∧
    (cachedRes cache x ≠ fullRes x →
      (cachedRes cache x).status = errRetryUncachedRep ∧ (cachedRes cache x).resops = x.resops.take 1 ∧
        (cachedRes cache x).body = .uncached x.b) := by
  unfold cachedRes
  split
  · rename_i hc
    simp only [Bool.or_eq_true, decide_eq_true_eq, Bool.and_eq_true] at hc
    refine ⟨⟨fun _ => ?_, fun _ => rfl⟩, fun h => absurd rfl h⟩
    rcases hc with (hc | hc) | hc
    · exact Or.inl hc
    · exact Or.inr (Or.inl (by omega))
    · exact Or.inr (Or.inr hc)
  · rename_i hc
    simp only [Bool.or_eq_true, decide_eq_true_eq, Bool.and_eq_true, not_or, not_and] at hc
    refine ⟨⟨fun h => ?_, fun h => ?_⟩, fun _ => ⟨rfl, rfl, rfl⟩⟩
    · simp [fullRes] at h
    · rcases h with h | h | h
      · exact absurd h hc.1.1
      · omega
      · exact absurd h.2 (hc.2 h.1)

/-- `finish` records the finished execution as the slot's `lastDone`. -/
theorem lastDone_set_41 (s : State) (sid slot : Nat) (x : XRes) (se : Session) (b : Busy)
    (hse : s.sess sid = some se) (hb : (se.slot slot).busy = some b) :
    ∃ se', (finish s sid slot x).1.sess sid = some se' ∧ (se'.slot slot).lastDone = some (b.req, x) ∧
      (se'.slot slot).busy = none ∧ se'.alive = se.alive ∧ se'.nslots = se.nslots := by
  unfold finish getSlot
  simp only [hse, Option.map_some, hb]
  refine ⟨_, setSlot_sess_same s sid slot _ se hse, ?_, ?_, rfl, rfl⟩ <;> simp

/-- A retransmission sent right after the original finished (no other event in
between) gets the cached form of the original's result. -/
theorem same_reply_immediate_41 {a b : Nat} {l lj : Bool} {s : State} (h : Reachable (init a b l lj) s)
    (sid slot : Nat) (x : XRes) (se : Session) (bz : Busy) (c : Nat)
    (hse : s.sess sid = some se) (hb : (se.slot slot).busy = some bz) (halive : se.alive = true)
    (hslot : slot < se.nslots) (hsid : bz.req.sess = sid) (hsl : bz.req.slot = slot) (hwf : WF bz.req x) :
    (arrive (finish s sid slot x).1 c bz.req).2 = .reply (cachedRes bz.req.cache x) := by
  obtain ⟨se', h1, h2, _, h4, h5⟩ := lastDone_set_41 s sid slot x se bz hse hb
  have hr : Reachable (init a b l lj) (finish s sid slot x).1 := Reachable.step (.finish sid slot x) h
  have := same_reply_41 hr c bz.req bz.req x se' (by rw [hsid]; exact h1) (by rw [h4]; exact halive)
    (by rw [h5, hsl]; exact hslot) (by rw [hsl]; exact h2) rfl rfl hwf
  rw [this]

/-- **inflight_duplicate_completes** (4.1, no lost wake-up): in every reachable
state of the current code, every call parked behind an executing original is
registered in the slot's waiter list, hence as soon as the original finishes
(with whatever result `x`) the completion step hands it a reply, and the call
is no longer parked.  The reply is the original's full result whenever the
call's operations have the shape of that result, `SEQ_FALSE_RETRY` otherwise
(`waiter_reply_41`). -/
theorem inflight_duplicate_completes_41 {a b : Nat} {lj : Bool} {s : State}
    (h : Reachable (init a b false lj) s) (c sid slot : Nat) (hp : (c, sid, slot) ∈ s.parked) :
    ∃ se bz, s.sess sid = some se ∧ (se.slot slot).busy = some bz ∧
      ∀ x, (∃ rep, (c, rep) ∈ (finish s sid slot x).2) ∧ (c, sid, slot) ∉ (finish s sid slot x).1.parked := by
  have hinv := inv_reachable (inv_init a b false lj) h
  have hleg : s.legacy = false := reachable_legacy h
  obtain ⟨se, bz, hse, hb, hc⟩ := hinv.parked hleg c sid slot hp
  refine ⟨se, bz, hse, hb, fun x => ?_⟩
  unfold finish getSlot
  simp only [hse, Option.map_some, hb]
  constructor
  · simp only [List.mem_map] at hc
    obtain ⟨w, hw, hw1⟩ := hc
    refine ⟨waiterReply s.legacyJoin x w.2, ?_⟩
    simp only [List.mem_cons, List.mem_map, Prod.mk.injEq]
    right
    exact ⟨w, hw, hw1, rfl⟩
  · intro hmem
    simp only [List.mem_filter, Bool.not_eq_true', List.contains_eq_mem, decide_eq_false_iff_not] at hmem
    exact hmem.2 hc

/-- What `finish` hands out: the original gets its result, every registered
waiter gets the same full result if its own operations have that shape and
`SEQ_FALSE_RETRY` otherwise (commit 5fcf292). -/
theorem waiter_reply_41 (s : State) (sid slot : Nat) (x : XRes) (c : Nat) (rep : CRes)
    (hl : s.legacyJoin = false) (h : (c, rep) ∈ (finish s sid slot x).2) :
    rep = fullRes x ∨ rep = seqErr errSeqFalseRetry := by
  unfold finish at h
  split at h
  · simp at h
  · split at h
    · simp at h
    · simp only [List.mem_cons, Prod.mk.injEq, List.mem_map] at h
      rcases h with ⟨_, h⟩ | ⟨w, _, _, h⟩
      · exact Or.inl h
      · rw [← h, hl]; unfold waiterReply; split
        · exact Or.inl rfl
        · exact Or.inr rfl

/-- Before commit 90324f7 (`legacy = true`) the wake-up was lost: the duplicate
of a request that is executing is parked, the original finishes, and the
duplicate is neither answered nor unparked. -/
theorem legacy_drop_waiter_counterexample :
    let r : Req := ⟨0, 0, 1, [22, 38], true, 7⟩
    let s := (run (init 12 3 true) [.exchangeId 0 1 99, .createSession 0 100, .arrive 0 r, .arrive 1 r]).1
    (1, 0, 0) ∈ s.parked ∧
    (finish s 0 0 ⟨0, [22, 38], 0⟩).2 = [(0, fullRes ⟨0, [22, 38], 0⟩)] ∧
    (1, 0, 0) ∈ (finish s 0 0 ⟨0, [22, 38], 0⟩).1.parked := by
  decide

/-- The same run on the current code: the duplicate is answered with the
original's result. -/
theorem inflight_duplicate_example :
    let r : Req := ⟨0, 0, 1, [22, 38], true, 7⟩
    let s := (run (init 12 3 false) [.exchangeId 0 1 99, .createSession 0 100, .arrive 0 r, .arrive 1 r]).1
    (finish s 0 0 ⟨0, [22, 38], 0⟩).2 = [(0, fullRes ⟨0, [22, 38], 0⟩), (1, fullRes ⟨0, [22, 38], 0⟩)] ∧
    (finish s 0 0 ⟨0, [22, 38], 0⟩).1.parked = [] := by
  decide

/-- **misordered_no_effect** (4.1): on a live session and valid slot, a sequence
id that is neither the slot's last one nor its successor is answered with
`NFS4ERR_SEQ_MISORDERED` and the state (ghost fields included) is unchanged. -/
theorem misordered_no_effect_41 (s : State) (c : Nat) (r : Req) (se : Session)
    (hse : s.sess r.sess = some se) (halive : se.alive = true) (hslot : r.slot < se.nslots)
    (h1 : r.seq ≠ (se.slot r.slot).lastSeq) (h2 : r.seq ≠ ((se.slot r.slot).lastSeq + 1) % M) :
    arrive s c r = (s, .reply (seqErr errSeqMisordered)) :=
  arrive_eq_misordered s c r se hse halive hslot h1 h2

/-- Unknown or destroyed sessions and invalid slots: error, no effect. -/
theorem bad_session_no_effect_41 (s : State) (c : Nat) (r : Req)
    (h : s.sess r.sess = none ∨ ∃ se, s.sess r.sess = some se ∧ se.alive = false) :
    arrive s c r = (s, .reply (seqErr errBadSession)) := by
  rcases h with h | ⟨se, h, h'⟩
  · exact arrive_eq_nosession s c r h
  · exact arrive_eq_dead s c r se h h'

/-- Meaning of the shape check. -/
theorem shapeOK_sound (cr : CRes) (ops : List Nat) (h : shapeOK cr ops = true) :
    cr.resops.length ≤ ops.length ∧ (cr.status = 0 → cr.resops.length = ops.length) ∧
    ∀ i (h1 : i < cr.resops.length) (h2 : i < ops.length), cr.resops[i] = ops[i] ∨ cr.resops[i] = opIllegal := by
  simp only [shapeOK, Bool.and_eq_true, Bool.not_eq_true', Bool.or_eq_false_iff, decide_eq_false_iff_not,
    Bool.and_eq_false_iff] at h
  obtain ⟨⟨h1, h2⟩, h3⟩ := h
  refine ⟨by omega, fun hs => ?_, ?_⟩
  · rcases h2 with h2 | h2
    · exact absurd hs h2
    · simpa using h2
  · have : ∀ (rs os : List Nat), matchOps rs os = true →
        ∀ i (h1 : i < rs.length) (h2 : i < os.length), rs[i] = os[i] ∨ rs[i] = opIllegal := by
      intro rs
      induction rs with
      | nil => intro os _ i h1; simp at h1
      | cons a rs ih =>
        intro os hm i h1 h2
        cases os with
        | nil => simp at h2
        | cons o os =>
          simp only [matchOps, Bool.and_eq_true, Bool.or_eq_true, beq_iff_eq] at hm
          cases i with
          | zero => simpa using hm.1
          | succ i => simpa using ih os hm.2 i (by simpa using h1) (by simpa using h2)
    exact this _ _ h3

/-- **false_retry** (4.1, cached arm): whenever `arrive` answers at once with
anything but a bare SEQUENCE error, the reply has the shape of the request: it
answers the request's operations one by one (same op number or `OP_ILLEGAL`),
completely if its status is OK.  A request whose op-number sequence differs
from the cached reply's in an executed position or, for a successful reply, in
length, is therefore answered with an error, never with the cached reply. -/
theorem false_retry_41 (s : State) (c : Nat) (r : Req) (rep : CRes)
    (h : (arrive s c r).2 = .reply rep) (hbody : ∀ code, rep.body ≠ .seqErr code) :
    shapeOK rep r.ops = true := by
  rcases arrive_cases s c r with ⟨rep', h1, h2⟩ | ⟨se, _, _, _, _, _, h6⟩ | ⟨h1, _⟩
  · rw [h1] at h
    simp only [ArriveOut.reply.injEq] at h
    subst h
    rcases h2 with ⟨code, h2⟩ | ⟨se, _, _, _, _, hok, h2⟩
    · subst h2; exact absurd rfl (hbody code)
    · subst h2; exact hok
  · rcases h6 with ⟨h6, _⟩ | ⟨h6, _⟩
    · rw [h6] at h
      simp only [ArriveOut.reply.injEq] at h
      subst h; exact absurd rfl (hbody _)
    · rw [h6] at h; cases h
  · rw [h1] at h; cases h

/-- **false_retry** (4.1, in-flight arm, commit 5fcf292): a request that joined
an executing original and is handed anything but `SEQ_FALSE_RETRY` has the
shape of the result it is handed. -/
theorem false_retry_inflight_41 (s : State) (sid slot : Nat) (x : XRes) (se : Session) (bz : Busy)
    (hl : s.legacyJoin = false) (hse : s.sess sid = some se) (hb : (se.slot slot).busy = some bz)
    (w : Nat × List Nat) (hw : w ∈ bz.waiters) :
    (w.1, waiterReply false x w.2) ∈ (finish s sid slot x).2 ∧
    (waiterReply false x w.2 = fullRes x → shapeOK (fullRes x) w.2 = true) ∧
    (shapeOK (fullRes x) w.2 = false → waiterReply false x w.2 = seqErr errSeqFalseRetry) := by
  refine ⟨?_, ?_, ?_⟩
  · unfold finish getSlot
    simp only [hse, Option.map_some, hb, hl, List.mem_cons, List.mem_map]
    right; exact ⟨w, hw, rfl⟩
  · unfold waiterReply
    cases hs : shapeOK (fullRes x) w.2
    · simp [fullRes, seqErr]
    · simp
  · intro hs; simp [waiterReply, hs]

/-- A different op-number sequence is never answered with a successful cached
reply: if the original succeeded without `OP_ILLEGAL` results and was cached
in full, any request with the same ids whose operations differ gets
`NFS4ERR_SEQ_FALSE_RETRY`. -/
theorem false_retry_full_41 (cr : CRes) (ops0 ops : List Nat)
    (hst : cr.status = 0) (hlen : cr.resops.length = ops0.length)
    (hm : cr.resops = ops0) (hne : ops ≠ ops0) (hnill : ∀ o ∈ ops0, o ≠ opIllegal) :
    shapeOK cr ops = false := by
  cases hs : shapeOK cr ops with
  | false => rfl
  | true =>
    obtain ⟨h1, h2, h3⟩ := shapeOK_sound cr ops hs
    have hl := h2 hst
    exfalso; apply hne
    apply List.ext_getElem
    · rw [← hl, hlen]
    · intro i hi1 hi2
      have := h3 i (by rw [hlen]; exact hi2) hi1
      subst hm
      rcases this with h | h
      · exact h.symm
      · exact absurd h (hnill _ (List.getElem_mem _))

/-- Before commit 5fcf292 (`legacyJoin = true`): a request with other operations
(PUTFH, WRITE, GETFH) that arrives while (PUTFH, WRITE) with the same ids is
executing is handed that request's reply. -/
theorem finding_inflight_join_ignores_content :
    let r : Req := ⟨0, 0, 1, [22, 38], true, 7⟩
    let r' : Req := ⟨0, 0, 1, [22, 38, 10], true, 8⟩
    let s := (run (init 12 3 false true) [.exchangeId 0 1 99, .createSession 0 100, .arrive 0 r, .arrive 1 r']).1
    (finish s 0 0 ⟨0, [22, 38], 0⟩).2 = [(0, fullRes ⟨0, [22, 38], 0⟩), (1, fullRes ⟨0, [22, 38], 0⟩)] ∧
    shapeOK (fullRes ⟨0, [22, 38], 0⟩) r'.ops = false := by
  decide

/-- The same run on the current code: the false retry gets SEQ_FALSE_RETRY. -/
theorem inflight_false_retry_example :
    let r : Req := ⟨0, 0, 1, [22, 38], true, 7⟩
    let r' : Req := ⟨0, 0, 1, [22, 38, 10], true, 8⟩
    let s := (run (init 12 3 false false) [.exchangeId 0 1 99, .createSession 0 100, .arrive 0 r, .arrive 1 r']).1
    (finish s 0 0 ⟨0, [22, 38], 0⟩).2 = [(0, fullRes ⟨0, [22, 38], 0⟩), (1, seqErr errSeqFalseRetry)] := by
  decide

/-! ### CREATE_SESSION -/

/-- **create_session_replay**: CREATE_SESSION with the incarnation's last
sequence id returns the cached response and changes nothing; a sequence id
that is neither the last nor its successor is refused without effect. -/
theorem create_session_replay (s : State) (k q : Nat) (hk : k < s.ninc) (halive : (s.inc k).alive = true) :
    (q = (s.inc k).csLast → createSession s k q = (s, .cached (s.inc k).csResp)) ∧
    (q ≠ (s.inc k).csLast → q ≠ ((s.inc k).csLast + 1) % M → createSession s k q = (s, .misordered)) := by
  constructor
  · intro h; unfold createSession; simp [Nat.not_le.2 hk, halive, h]
  · intro h1 h2; unfold createSession; simp [Nat.not_le.2 hk, halive, h1, h2]

/-- After a CREATE_SESSION that created session `sid`, its retransmission gets
the cached response naming `sid` and creates nothing. -/
theorem create_session_same_reply (s : State) (k q sid : Nat) (s' : State)
    (h : createSession s k q = (s', .created sid)) :
    createSession s' k q = (s', .cached (some sid)) := by
  have key : ∀ (s0 : State) (cl : Nat), k < s0.ninc → (s0.inc k).alive = true →
      newSession s0 k cl q = (s', .created sid) → createSession s' k q = (s', .cached (some sid)) := by
    intro s0 cl hk hal hn
    unfold newSession at hn
    simp only [Prod.mk.injEq, CsOut.created.injEq] at hn
    obtain ⟨hs, hsid⟩ := hn
    subst hs; subst hsid
    unfold createSession
    simp [Nat.not_le.2 hk, hal]
  unfold createSession at h
  split at h
  · simp at h
  · rename_i hv
    simp only [Bool.or_eq_true, decide_eq_true_eq, Bool.not_eq_true', not_or, Nat.not_le, Bool.not_eq_false] at hv
    split at h
    · simp at h
    · split at h
      · split at h
        · split at h
          · exact key s _ hv.1 hv.2 h
          · split at h
            · simp at h
            · rename_i old _ hne _
              refine key (removeInc s old) _ hv.1 ?_ h
              simp [removeInc, Ne.symm hne, hv.2]
        · exact key s _ hv.1 hv.2 h
      · simp at h

/-! ### non-vacuity -/

/-- A reachable state in which slot 0 of session 0 has finished request
`⟨0,0,1,[22,38]⟩`: the hypotheses of `same_reply_41` and `at_most_once_41` hold. -/
example :
    let r : Req := ⟨0, 0, 1, [22, 38], false, 7⟩
    let s := (run (init 12 3 false) [.exchangeId 0 1 99, .createSession 0 100, .arrive 0 r,
      .finish 0 0 ⟨0, [22, 38], 0⟩]).1
    (execsOn s.execs 0 0).length = 1 ∧ ((execsOn s.execs 0 0)[0]!).seq = r.seq ∧
    (arrive s 5 r).2 = .reply ⟨errRetryUncachedRep, [22], .uncached 0⟩ ∧
    (arrive s 5 { r with cache := true }).2 = .reply ⟨errRetryUncachedRep, [22], .uncached 0⟩ ∧
    (arrive s 6 { r with seq := 3 }).2 = .reply (seqErr errSeqMisordered) ∧
    (arrive s 7 { r with ops := [22, 9] }).2 = .reply ⟨errRetryUncachedRep, [22], .uncached 0⟩ ∧
    (arrive s 8 { r with ops := [24, 38] }).2 = .reply (seqErr errSeqFalseRetry) := by
  decide

example : WF ⟨0, 0, 1, [22, 38], false, 7⟩ ⟨0, [22, 38], 0⟩ := by unfold WF; decide
example : WF ⟨0, 0, 1, [22, 15, 38], false, 7⟩ ⟨20, [22, 15], 0⟩ := by unfold WF; decide

end BbRe.Properties.C19
